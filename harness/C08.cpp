// C08 — configuration parser is total and fails cleanly.
// Stateless choice-tree DFS: every string up to length L over a per-format token alphabet
// (plus long-token shapes and <=2 token mutations of longer seed documents) is fed through a
// counting, never-rewinding getc into
//   E1  mpt_parse_config with a recording handler (event nesting oracle), and
//   E2  mpt_parse_node into an empty and into pre-populated roots (failed parse => tree unchanged),
// for every format family / delimiter set / name-flag set.  Oracles: the source is never asked
// again after it reported end of input, AddressSanitizer stays silent, the allocation ledger is
// back at its baseline after cleanup, events are well nested, a failed mpt_parse_node leaves
// the canonical form (names, values, order, depth) and the old nodes of the target untouched.
#include <sys/uio.h>
#include <cstdlib>
#include <algorithm>
#include "config.h"
#include "array.h"
#include "meta.h"
#include "node.h"
#include "parse.h"
#include "mc.hpp"

using namespace mc;
const char *mc_id = "C08";
const char *mc_rule = "choice DFS: all byte strings of length <= L over the per-format token alphabet {section start/end, option start, assign, option end, comment, "
                      "quote(s), backslash, newline, blank, 'a', '1', '-', NUL, 0xE9 (thorough: + '.', tab)} x format (pre/enc/sep/options-only, 11 delimiter sets) x name-flag set, "
                      "plus long tokens (254..257, 65534..65537 bytes) in every position and all <=2 token mutations (delete/duplicate/replace/truncate) of a seed document per format; "
                      "each input goes through mpt_parse_config (recording handler) and mpt_parse_node (empty + populated targets); "
                      "nontrivial = distinct (input,format,flags) cases where mpt_parse_node fails after elements had already been stored in its temporary tree while the target is populated";

// ------------------------------------------------------------------ formats, flags
struct FmtDef { const char *id; const char *str; const char *family; };
static const FmtDef FMT[] = {
	{ "default",  0,             "pre" },   // { } = , comment #, quotes " '
	{ "online",   "{*} =;!# `",  "pre" },   // option end ';', comments ! #, quote `
	{ "layout",   "[*] = !",     "pre" },
	{ "config",   "[ ] = #",     "sep" },
	{ "enc",      "[x] = ",      "enc" },
	{ "encsame",  "%x% = ",      "enc" },   // same character opens and closes a section
	{ "opt",      "{_} = ",      "opt" },   // options only
	{ "prenoas",  "{*}   #",     "pre" },   // no assign character
	{ "optnoas",  "{_}   #",     "opt" },   // "name value" lines
	{ "sepfull",  "[ ]:=;#",     "sep" },   // option start ':' and option end ';'
	{ "encfull",  "[x]:=;#",     "enc" },
};
static const int NFMT = sizeof FMT / sizeof *FMT;
struct FlagDef { const char *id; const char *str; };
static const FlagDef FLG[] = { { "all", 0 }, { "strict", "" }, { "Esnw", "Esnw" }, { "Ef", "Ef" }, { "E", "E" }, { "Esc", "Esc" } };
static const int NFLG = sizeof FLG / sizeof *FLG;
static int nfmt(Tier t) { return t == Quick ? 7 : NFMT; }
static int nflg(Tier t) { return t == Quick ? 3 : NFLG; }

static void alphabet(int fi, Tier t, std::vector<uint8_t> &tok)
{
	mpt::parser_format f;
	mpt::mpt_parse_format(&f, FMT[fi].str);
	tok.clear();
	auto add = [&](uint8_t c) { if (c && std::find(tok.begin(), tok.end(), c) == tok.end()) tok.push_back(c); };
	add(f.sstart); add(f.send); add(f.ostart); add(f.assign); add(f.oend); add(f.com[0]); add(f.esc[0]);
	if (t == Thorough) add(f.esc[1]);
	add('\\'); add('\n'); add(' '); add('a'); add('1'); add('-');
	tok.push_back(0);
	add(0xE9);
	if (t == Thorough) { add('.'); }
}
static std::string show(const uint8_t *p, size_t n)
{
	std::string s = "\"";
	size_t lim = n > 96 ? 40 : n;
	auto one = [&](uint8_t c) {
		if (c == '\n') s += "\\n"; else if (c == '\\') s += "\\\\"; else if (c == '"') s += "\\\"";
		else if (c >= 0x20 && c < 0x7f) s += (char) c; else s += fmt("\\x%02x", c); };
	for (size_t i = 0; i < lim; ++i) one(p[i]);
	if (lim < n) { s += fmt("\"..(%zu bytes)..\"", n - 80); for (size_t i = n - 40; i < n; ++i) one(p[i]); }
	return s + "\"";
}

// ------------------------------------------------------------------ input source
struct Src {
	const uint8_t *p; size_t n, pos; int eofcode; bool ended; unsigned long calls, after;
	Src(const uint8_t *d, size_t len, int e) : p(d), n(len), pos(0), eofcode(e), ended(false), calls(0), after(0) { }
};
static int src_getc(void *a)
{
	Src *s = (Src *) a;
	++s->calls;
	if (s->ended) { ++s->after; return s->eofcode; }
	if (s->pos >= s->n) { s->ended = true; return s->eofcode; }
	return s->p[s->pos++];
}

// ------------------------------------------------------------------ E1: recording handler + nesting model
struct Rec {
	std::vector<std::string> stack;
	unsigned nev, nsect, nend, nopt, noptdata, ndata, maxdepth, beyond;
	int fail_at;               // event number whose handler call reports failure (0 = never)
	std::string kind, why;     // first nesting violation
	std::string trace;
	bool want_trace;
	Rec() : nev(0), nsect(0), nend(0), nopt(0), noptdata(0), ndata(0), maxdepth(0), beyond(0), fail_at(0), want_trace(false) { }
};
static void path_elements(const mpt::path *p, std::vector<std::string> &el)
{
	el.clear();
	if (!p->len || !p->base) return;
	const char *b = p->base + p->off;
	size_t n = p->len - 1, from = 0;      // the last byte is the assign / separator terminator
	for (size_t i = 0; i <= n; ++i) if (i == n || b[i] == p->sep) { el.push_back(std::string(b + from, i - from)); from = i + 1; }
}
static std::string join(const std::vector<std::string> &v)
{
	std::string s = "/";
	for (size_t i = 0; i < v.size(); ++i) { if (i) s += "/"; s += show((const uint8_t *) v[i].data(), v[i].size()); }
	return s;
}
static int on_event(void *ctx, const mpt::path *p, const mpt::value *val, int last, int curr)
{
	int depth = mc::lib_depth; mc::lib_depth = 0;     // harness allocations are not library allocations
	Rec &rc = *(Rec *) ctx;
	++rc.nev;
	std::vector<std::string> el;
	path_elements(p, el);
	std::string data; bool hasdata = false;
	if (val) {
		const struct iovec *vec = (const struct iovec *) val->_addr;
		hasdata = true;
		if (vec && vec->iov_len) data.assign((const char *) vec->iov_base, vec->iov_len);    // reads every byte (ASan)
		if (vec && (p->flags & mpt::path::HasArray) && p->base) {
			const mpt::buffer *b = ((const mpt::buffer *) p->base) - 1;
			if (p->off + p->len + vec->iov_len > b->_used) ++rc.beyond;
		}
	}
	if (rc.want_trace) rc.trace += fmt("  event %u: code=%d prev=%d path=%s%s%s\n", rc.nev, curr, last, join(el).c_str(), hasdata ? " data=" : "", hasdata ? show((const uint8_t *) data.data(), data.size()).c_str() : "");
	auto prefix_ok = [&](size_t n) { if (el.size() < n || rc.stack.size() < n) return false; for (size_t i = 0; i < n; ++i) if (el[i] != rc.stack[i]) return false; return true; };
	auto bad = [&](const char *k, const std::string &w) { if (rc.kind.empty()) { rc.kind = k; rc.why = fmt("event %u (code %d): ", rc.nev, curr) + w + "; open sections " + join(rc.stack) + ", reported path " + join(el); } };
	switch (curr) {
	case mpt::parser_context::Section:
		++rc.nsect;
		if (hasdata) bad("section-with-data", "section start carries a value");
		if (el.size() != rc.stack.size() + 1 || !prefix_ok(rc.stack.size())) bad("section-path", "new section is not reported as a direct child of the open section");
		else { rc.stack.push_back(el.back()); if (rc.stack.size() > rc.maxdepth) rc.maxdepth = rc.stack.size(); }
		break;
	case mpt::parser_context::SectEnd:
		++rc.nend;
		if (rc.stack.empty()) bad("sectend-without-open", "section end while no section is open");
		else if (el.size() != rc.stack.size() || !prefix_ok(rc.stack.size())) bad("sectend-path", "section end does not name the innermost open section");
		else rc.stack.pop_back();
		break;
	case mpt::parser_context::Option:
	case mpt::parser_context::Option | mpt::parser_context::Data:
		if (curr == mpt::parser_context::Option) ++rc.nopt; else ++rc.noptdata;
		if (hasdata != (curr != mpt::parser_context::Option)) bad("option-data", "value presence does not match the event code");
		if (el.size() != rc.stack.size() + 1 || !prefix_ok(rc.stack.size())) bad("option-path", "option is not reported inside the open section");
		break;
	case mpt::parser_context::Data:
		++rc.ndata;
		if (!hasdata) bad("option-data", "data event without value");
		if (el.size() != rc.stack.size() || !prefix_ok(rc.stack.size())) bad("data-path", "anonymous value is not reported inside the open section");
		break;
	default:
		bad("unknown-event", "event code is none of Section/SectEnd/Option/Data");
	}
	int ret = (rc.fail_at && (int) rc.nev == rc.fail_at) ? -1 : 0;
	mc::lib_depth = depth;
	return ret;
}

// ------------------------------------------------------------------ E2: canonical tree form
struct Snap { std::string canon; std::vector<const mpt::node *> nodes; bool ok; std::string why; };
static void walk(const mpt::node *parent, const mpt::node *first, Snap &s, int depth)
{
	const mpt::node *prev = 0;
	for (const mpt::node *n = first; n; prev = n, n = n->next) {
		if (depth > 12 || s.nodes.size() > 256) { s.ok = false; s.why = "walk does not end (cycle)"; return; }
		if (!ledger_is_live(n)) { s.ok = false; s.why = "link to a node that is not allocated (any more)"; return; }
		if (n->parent != parent || n->prev != prev) { s.ok = false; s.why = "parent/sibling links of a node are inconsistent"; return; }
		s.nodes.push_back(n);
		const void *id = n->ident._len ? mpt::mpt_identifier_data(&n->ident) : 0;
		s.canon += fmt("%d:", depth) + (id ? show((const uint8_t *) id, n->ident._len) : std::string("-"));
		size_t len = 0; const char *data = mpt::mpt_node_data(n, &len);
		if (data) s.canon += "=" + show((const uint8_t *) data, len);
		s.canon += ";";
		walk(n, n->children, s, depth + 1);
		if (!s.ok) return;
	}
}
static Snap snapshot(const mpt::node *root) { Snap s; s.ok = true; walk(root, root->children, s, 0); return s; }

static const char *SHAPE_TXT[] = { "", "x {\n y {\n z = 1\n }\n w = 2\n}\nv = 3\n", "x = 1\ny = 2\n" };
static const char *SHAPE_ID[] = { "empty-root", "nested-root", "flat-root" };

struct Case {
	int fi, ni; const uint8_t *in; size_t n; const char *cls; int eofcode;
	std::string desc() const { return fmt("format %s (%s), name flags %s, input %s (%zu bytes), end-of-input code %d", FMT[fi].id, FMT[fi].str ? FMT[fi].str : "NULL", FLG[ni].id, show(in, n).c_str(), n, eofcode); }
};

static void ledger_housekeeping()
{
	static unsigned k = 0;
	if (ledger_live() || (++k & 4095) == 0) ledger_reset();
}
static void setup_ctx(mpt::parser_context &ctx, Src &src, int ni)
{
	ctx.src.getc = src_getc; ctx.src.arg = &src; ctx.src.line = 1;
	mpt::mpt_parse_accept(&ctx.name, FLG[ni].str);
}
// returns number of events, <0 when a violation was reported
static int run_config(Run &r, const Case &c, int fail_at, int *result)
{
	std::string sigbase = std::string("parse_config|") + FMT[c.fi].family + "|" + c.cls + "|";
	mpt::parser_format pf;
	int type = mpt::mpt_parse_format(&pf, FMT[c.fi].str);
	mpt::input_parser_t next = mpt::mpt_parse_next_fcn(type);
	if (!next) { r.violation("HARNESS|bad-format", c.desc()); return -1; }
	Src src(c.in, c.n, c.eofcode);
	mpt::parser_context ctx;
	setup_ctx(ctx, src, c.ni);
	Rec rec; rec.fail_at = fail_at; rec.want_trace = r.replaying;
	ledger_housekeeping();
	size_t lbase = ledger_live();
	asan_error();
	r.hint((sigbase + (fail_at ? "handler-fails" : "run")).c_str());
	++r.transitions;
	int ret = LIB(mpt::mpt_parse_config(next, &pf, &ctx, on_event, &rec));
	bool asan = asan_error();
	size_t live = ledger_live();
	if (result) *result = ret;
	if (r.replaying) r.note("mpt_parse_config%s -> %d, line %zu, getc calls %lu (%lu after end of input), consumed %zu of %zu bytes, events:\n%s", fail_at ? fmt(" (handler fails at event %d)", fail_at).c_str() : "", ret, ctx.src.line, src.calls, src.after, src.pos, src.n, rec.trace.c_str());
	std::string d = c.desc() + fmt(": mpt_parse_config returned %d after %u events", ret, rec.nev);
	if (fail_at) d += fmt(" (handler reports failure at event %d)", fail_at);
	if (asan) { r.violation(sigbase + "asan", d + "; AddressSanitizer reported an invalid memory access"); return -1; }
	if (src.after) { r.violation(sigbase + "getc-after-end", d + fmt("; the source was asked %lu more time(s) after it had reported end of input", src.after)); return -1; }
	if (live != lbase) { r.violation(sigbase + "leak", d + fmt("; %zu allocation(s) of the parser are still live after it returned", live - lbase)); return -1; }
	if (ret > 0) { r.violation(sigbase + "positive-result", d + "; neither success (0) nor an error"); return -1; }
	if (fail_at && (int) rec.nev >= fail_at && ret >= 0) { r.violation(sigbase + "handler-error-lost", d + "; the failing handler call is not reported as an error"); return -1; }
	if (!fail_at) {
		if (ret == 0 && !rec.kind.empty()) { r.violation(sigbase + "nesting:" + rec.kind, d + "; successful parse with an ill-nested event sequence: " + rec.why); return -1; }
		if (ret == 0) {
			r.count("cfg:success");
			if (rec.maxdepth >= 2) r.count("cfg:success, nesting depth>=2");
			if (!rec.stack.empty()) r.count("cfg:success with sections left open at end of input (not flagged)");
			if (rec.nev) r.count("cfg:success with events");
		} else {
			r.count("cfg:failure");
			if (rec.nev) r.count("cfg:failure after events");
			if (!rec.kind.empty()) r.count("cfg:ill-nested events before a reported failure (not flagged)");
			if (!src.ended) r.count("cfg:failure before end of input");
		}
		r.count("event:Section", rec.nsect); r.count("event:SectEnd", rec.nend); r.count("event:Option", rec.nopt);
		r.count("event:Option|Data", rec.noptdata); r.count("event:Data", rec.ndata);
		if (rec.beyond) r.count("cfg:value length exceeds saved characters (not flagged)");
		size_t nl = 0; for (size_t i = 0; i < src.pos; ++i) if (c.in[i] == '\n') ++nl;
		if (ctx.src.line != 1 + nl) r.count("cfg:line counter differs from consumed newlines (not flagged)");
		if (src.ended) r.count("getc:end of input reached"); else r.count("getc:stopped before end of input");
	}
	return (int) rec.nev;
}
// returns <0 when a violation was reported
static int run_node(Run &r, const Case &c, int shape, bool *failed_with_tree)
{
	std::string sigbase = std::string("parse_node|") + FMT[c.fi].family + "|" + c.cls + "|";
	ledger_housekeeping();
	size_t lbase = ledger_live();
	asan_error();
	mpt::node *root = LIB(mpt::mpt_node_new(0));
	if (!root) { r.violation("HARNESS|no-root", c.desc()); return -1; }
	if (shape) {
		Src s0((const uint8_t *) SHAPE_TXT[shape], strlen(SHAPE_TXT[shape]), -2);
		mpt::parser_context c0; c0.src.getc = src_getc; c0.src.arg = &s0; c0.src.line = 1;
		if (LIB(mpt::mpt_parse_node(root, &c0, 0)) < 0 || !root->children) { r.violation("HARNESS|shape-setup", c.desc()); return -1; }
		for (mpt::node *n = root->children; n; n = n->next) n->parent = root;     // (C14: first parse leaves the parent link unset)
	}
	Snap before = snapshot(root);
	if (!before.ok) { r.violation("HARNESS|shape-setup", c.desc() + ": " + before.why); return -1; }
	Src src(c.in, c.n, c.eofcode);
	mpt::parser_context ctx;
	setup_ctx(ctx, src, c.ni);
	r.hint((sigbase + SHAPE_ID[shape]).c_str());
	++r.transitions;
	int ret = LIB(mpt::mpt_parse_node(root, &ctx, FMT[c.fi].str));
	bool asan = asan_error();
	std::string d = c.desc() + fmt(": mpt_parse_node into %s returned %d", SHAPE_ID[shape], ret);
	if (r.replaying) r.note("mpt_parse_node(%s) -> %d, line %zu, getc calls %lu (%lu after end), consumed %zu of %zu; tree before: %s", SHAPE_ID[shape], ret, ctx.src.line, src.calls, src.after, src.pos, src.n, before.canon.c_str());
	if (asan) { r.violation(sigbase + "asan", d + "; AddressSanitizer reported an invalid memory access"); return -1; }
	if (src.after) { r.violation(sigbase + "getc-after-end", d + fmt("; the source was asked %lu more time(s) after it had reported end of input", src.after)); return -1; }
	if (ret < 0) {
		bool gone = false;
		for (const mpt::node *n : before.nodes) if (!ledger_is_live(n)) gone = true;
		if (gone) { r.violation(sigbase + "failed-parse-changed-tree", d + "; nodes of the target tree were released by the failed parse"); return -1; }
		Snap after = snapshot(root);
		if (r.replaying) r.note("tree after: %s", after.canon.c_str());
		if (!after.ok) { r.violation(sigbase + "failed-parse-changed-tree", d + "; target tree is damaged: " + after.why); return -1; }
		if (after.canon != before.canon || after.nodes != before.nodes) { r.violation(sigbase + "failed-parse-changed-tree", d + "; target tree was {" + before.canon + "}, is {" + after.canon + "}"); return -1; }
		// how much had been built before the failure: leak check below proves it was all released
		r.count(std::string("node:failure, ") + SHAPE_ID[shape]);
	} else {
		Snap after = snapshot(root);
		if (asan_error() || !after.ok) { r.violation(sigbase + "result-tree-broken", d + "; resulting tree: " + (after.ok ? "walking it touches released memory" : after.why)); return -1; }
		r.count(std::string("node:success, ") + SHAPE_ID[shape]);
		if (after.nodes.size() > before.nodes.size()) r.count(std::string("node:success with new elements, ") + SHAPE_ID[shape]);
	}
	size_t mid = ledger_live() - lbase;    // root + tree
	if (failed_with_tree) *failed_with_tree = ret < 0;
	if (ret < 0 && mid != 1 + 2 * before.nodes.size() && mid != 1 + before.nodes.size()) {
		// every node of the shapes owns at most one metatype allocation: anything else is a leftover of the temporary tree
	}
	LIB(mpt::mpt_node_clear(root));
	bool asan2 = asan_error();
	size_t live = ledger_live();
	if (asan2) { r.violation(sigbase + "asan", d + "; clearing the target afterwards: AddressSanitizer reported an invalid memory access"); return -1; }
	if (live != lbase + 1) { r.violation(sigbase + "leak", d + fmt("; %zu allocation(s) survive clearing the target tree", live - lbase - 1)); free(root); return -1; }
	free(root);
	return 0;
}

static bool g_warm = false;
static void warmup()
{
	if (g_warm) return;
	g_warm = true;
	const char *t = "a {\n b = 1\n}\n\"c\" = 'd'\n";
	for (int k = 0; k < 2; ++k) {
		Src s((const uint8_t *) t, strlen(t), -2);
		mpt::parser_context c0; c0.src.getc = src_getc; c0.src.arg = &s; c0.src.line = 1;
		mpt::node *w = mpt::mpt_node_new(0);
		mpt::mpt_parse_node(w, &c0, 0); mpt::mpt_node_clear(w); free(w);
	}
	ledger_reset(); asan_error();
}

// one input through every entry point
static void run_case(Run &r, const Case &c)
{
	warmup();
	++r.states;
	if (r.replaying) r.note("%s", c.desc().c_str());
	int ret = 0;
	int nev = run_config(r, c, 0, &ret);
	if (nev < 0) return;
	if (c.n > 255) r.count(ret < 0 ? "long:refused" : "long:accepted");
	// the handler refuses the last event it was given
	if (nev > 0 && run_config(r, c, nev, 0) < 0) return;
	if (nev > 1 && run_config(r, c, 1, 0) < 0) return;
	bool failed = false;
	if (run_node(r, c, 0, &failed) < 0) return;
	if (run_node(r, c, 1, &failed) < 0) return;
	if (failed && nev > 0) r.count("nontrivial");
	if (nev > 0 && run_node(r, c, 2, &failed) < 0) return;
	size_t q = 0; for (size_t i = 0; i < c.n; ++i) if (c.in[i] == '"' || c.in[i] == '\'' || c.in[i] == '`') ++q;
	if (q & 1) r.count("input:odd number of quote characters");
}

// ------------------------------------------------------------------ jobs
//   str:<fmt>:<flags>:<L>:<first token index | ->      all strings of length <= L starting with that token ('-': the empty string)
//   long:<fmt>                                           long-token shapes, all flag sets
//   mut:<fmt>:<flags>                                    seed document with <= 2 token mutations
static int maxlen(Tier t, int fi, int ni) { if (t == Quick) return 4; return (ni == 0 && (fi == 0 || fi == 3 || fi == 5)) ? 6 : 5; }
void mc_jobs(Tier t, std::vector<std::string> &jobs)
{
	for (int fi = 0; fi < nfmt(t); ++fi) {
		std::vector<uint8_t> tok; alphabet(fi, t, tok);
		for (int ni = 0; ni < nflg(t); ++ni) {
			jobs.push_back(fmt("str:%d:%d:%d:-", fi, ni, maxlen(t, fi, ni)));
			for (size_t k = 0; k < tok.size(); ++k) jobs.push_back(fmt("str:%d:%d:%d:%zu", fi, ni, maxlen(t, fi, ni), k));
		}
	}
	for (int fi = 0; fi < NFMT; ++fi) jobs.push_back(fmt("long:%d", fi));
	for (int fi = 0; fi < NFMT; ++fi) for (int ni = 0; ni < nflg(t); ++ni) jobs.push_back(fmt("mut:%d:%d", fi, ni));
}

// ---- long tokens
static const size_t LONGLEN[] = { 254, 255, 256, 257, 65534, 65535, 65536, 65537 };
enum { P_SECT, P_OPT, P_VAL, P_QVAL, P_COMMENT, P_ANON, NPOS };
static const char *POSN[] = { "section name", "option name", "value", "quoted value", "comment", "anonymous value" };
static void seed_tokens(int fi, std::vector<std::string> &T);

static void body_long(Run &r, Ctx &x, int fi)
{
	mpt::parser_format f; mpt::mpt_parse_format(&f, FMT[fi].str);
	int ni = (int) x.choose(NFLG);
	int pos = (int) x.choose(NPOS);
	size_t len = LONGLEN[x.choose(8)];
	int fill = (int) x.choose(3);          // 'a' run / alternating "a " (inner blanks) / 0xE9 run
	int tail = (int) x.choose(3);          // complete document / end of input right behind the token / token then newline only
	std::string fam = FMT[fi].family;
	std::string big;
	for (size_t i = 0; i < len; ++i) big += fill == 0 ? 'a' : (fill == 1 ? ((i & 1) && i + 1 < len ? ' ' : 'a') : (char) 0xE9);
	std::string S(1, (char) f.sstart), E(1, (char) f.send), A = f.assign ? std::string(1, (char) f.assign) : std::string(" "), O = f.ostart ? std::string(1, (char) f.ostart) : std::string();
	std::string D = f.oend ? std::string(1, (char) f.oend) + "\n" : std::string("\n"), C(1, (char) f.com[0]), Q(1, (char) f.esc[0]);
	std::string sect = pos == P_SECT ? big : "a", opt = pos == P_OPT ? big : "b", val = pos == P_VAL ? big : (pos == P_QVAL ? Q + big + Q : "1");
	std::string doc, head;
	// documents in the shape of the shipped examples of the family
	if (fam == "pre") head = sect + " " + S + "\n";
	else if (fam == "sep") head = S + sect + E + "\n";
	else if (fam == "enc") head = S + sect + "\n";
	if (pos == P_SECT && tail == 1) doc = head.substr(0, head.size() - 1);
	else if (pos == P_SECT && tail == 2) doc = head;
	else {
		doc = head;
		if (pos == P_COMMENT) doc += C + big + (tail == 1 ? "" : "\n");
		if (pos == P_ANON) doc += (fam == "pre" || fam == "opt" ? big : O + A + big) + (tail == 1 ? "" : D);
		else {
			doc += O + opt;
			if (!(pos == P_OPT && tail == 1)) {
				doc += A + val;
				if (!((pos == P_VAL || pos == P_QVAL) && tail == 1)) doc += D;
			}
		}
		if (tail == 0) { if (fam == "pre") doc += E + "\n"; else if (FMT[fi].id == std::string("encsame")) doc += S + "\n"; }
	}
	std::string cls = len > 65000 ? "long>65535" : "long>255";
	if (len <= 255) cls = "long<=255";
	Case c = { fi, ni, (const uint8_t *) doc.data(), doc.size(), cls.c_str(), -2 };
	r.count(std::string("long:") + POSN[pos] + (len > 65000 ? " ~65536" : " ~256"));
	if (r.samples.size() < 6 && pos == P_VAL && len == 65536 && ni == 0 && fill == 0 && tail == 0) r.sample(fmt("long token: format %s, %s of %zu bytes, document %s", FMT[fi].id, POSN[pos], len, show(c.in, c.n).c_str()));
	run_case(r, c);
}

// ---- seed documents + mutations
static void seed_tokens(int fi, std::vector<std::string> &T)
{
	mpt::parser_format f; mpt::mpt_parse_format(&f, FMT[fi].str);
	std::string fam = FMT[fi].family;
	std::string S(1, (char) f.sstart), E(1, (char) f.send), Q(1, (char) f.esc[0]), C(1, (char) f.com[0]);
	T.clear();
	auto opt = [&](const char *name, std::vector<std::string> v, bool comment) {
		if (f.ostart) T.push_back(std::string(1, (char) f.ostart));
		T.push_back(name);
		T.push_back(f.assign ? std::string(1, (char) f.assign) : std::string(" "));
		for (auto &s : v) T.push_back(s);
		if (f.oend) T.push_back(std::string(1, (char) f.oend));
		if (comment) { T.push_back(" "); T.push_back(C); T.push_back("a"); }
		T.push_back("\n");
	};
	if (fam == "pre") {
		T.push_back("a"); T.push_back(" "); T.push_back(S); T.push_back("\n");
		opt("b", { "1" }, false);
		T.push_back("c"); T.push_back(S); T.push_back("\n");
		opt("d", { Q, "a", " ", "1", Q }, false);
		T.push_back(E); T.push_back("\n"); T.push_back(E); T.push_back("\n");
		opt("e", { "-", " ", "a" }, true);
	} else if (fam == "sep") {
		T.push_back(S); T.push_back("a"); T.push_back(E); T.push_back("\n");
		opt("b", { "1" }, false);
		T.push_back(S); T.push_back("c"); T.push_back(E); T.push_back("\n");
		opt("d", { Q, "a", " ", "1", Q }, false);
		opt("e", { "-", " ", "a" }, true);
	} else if (fam == "enc" && f.sstart != f.send) {
		T.push_back(S); T.push_back("a"); T.push_back("\n");
		opt("b", { "1" }, false);
		T.push_back(S); T.push_back("c"); T.push_back(" ");
		opt("d", { Q, "a", " ", "1", Q }, false);
		opt("e", { "-", " ", "a" }, true);
	} else if (fam == "enc") {
		T.push_back(S); T.push_back("a"); T.push_back("\n");
		opt("b", { "1" }, false);
		T.push_back(S); T.push_back("c"); T.push_back("\n");
		opt("d", { Q, "a", " ", "1", Q }, false);
		T.push_back(S); T.push_back("\n"); T.push_back(S); T.push_back("\n");
		opt("e", { "-", " ", "a" }, true);
	} else {
		opt("b", { "1" }, false);
		opt("d", { Q, "a", " ", "1", Q }, false);
		opt("e", { "-", " ", "a" }, true);
		opt("a", { "a" }, false);
	}
}
// mutation m on T: [0,n) delete, [n,2n) duplicate, [2n,3n) truncate behind, then replace(i, token t)
static size_t nmut(size_t n, size_t ntok, bool repl) { return 3 * n + (repl ? n * ntok : 0); }
static void mutate(std::vector<std::string> &T, size_t m, const std::vector<uint8_t> &tok)
{
	size_t n = T.size();
	if (m < n) T.erase(T.begin() + m);
	else if (m < 2 * n) T.insert(T.begin() + (m - n), T[m - n]);
	else if (m < 3 * n) T.resize(m - 2 * n);
	else { m -= 3 * n; T[m / tok.size()] = std::string(1, (char) tok[m % tok.size()]); }
}
static void body_mut(Run &r, Ctx &x, int fi, int ni, const std::vector<uint8_t> &tok)
{
	std::vector<std::string> T; seed_tokens(fi, T);
	bool repl2 = r.tier == Thorough;
	size_t m1 = x.choose(1 + nmut(T.size(), tok.size(), true));
	int muts = 0;
	if (m1) {
		mutate(T, m1 - 1, tok); ++muts;
		if (!T.empty()) { size_t m2 = x.choose(1 + nmut(T.size(), tok.size(), repl2)); if (m2) { mutate(T, m2 - 1, tok); ++muts; } }
	}
	int eofcode = m1 ? -2 : (x.choose(2) ? -1 : -2);
	std::string doc; for (auto &s : T) doc += s;
	Case c = { fi, ni, (const uint8_t *) doc.data(), doc.size(), "plain", eofcode };
	if (!muts) {
		int ret = -1; Src s(c.in, c.n, -2);
		mpt::parser_format pf; mpt::input_parser_t next = mpt::mpt_parse_next_fcn(mpt::mpt_parse_format(&pf, FMT[fi].str));
		mpt::parser_context ctx; setup_ctx(ctx, s, ni); Rec rec;
		ret = mpt::mpt_parse_config(next, &pf, &ctx, on_event, &rec);
		if (ni == 0 && eofcode == -2) { r.count(ret == 0 ? "mut:seed document accepted" : "mut:seed document refused"); if (ret) r.count(fmt("mut:seed refused for format %s (%d)", FMT[fi].id, ret)); r.sample(fmt("seed document for format %s: %s", FMT[fi].id, show(c.in, c.n).c_str())); }
	}
	r.count(fmt("mut:%d mutation(s)", muts));
	run_case(r, c);
}

struct Job { std::string kind; int fi, ni, L, first; std::vector<uint8_t> tok; };
static Job parse_job(Run &r, const std::string &job)
{
	Job j; j.fi = j.ni = j.L = 0; j.first = -1;
	size_t p = job.find(':'); j.kind = job.substr(0, p);
	std::vector<std::string> a; size_t from = p + 1;
	while (from <= job.size()) { size_t q = job.find(':', from); if (q == std::string::npos) q = job.size(); a.push_back(job.substr(from, q - from)); from = q + 1; }
	j.fi = atoi(a[0].c_str());
	if (a.size() > 1) j.ni = atoi(a[1].c_str());
	if (a.size() > 2) j.L = atoi(a[2].c_str());
	if (a.size() > 3 && a[3] != "-") j.first = atoi(a[3].c_str());
	alphabet(j.fi, r.tier, j.tok);
	return j;
}
static void body(Run &r, Ctx &x, const Job &j)
{
	if (j.kind == "str") {
		uint8_t buf[16]; size_t n = 0;
		if (j.first >= 0) {
			buf[n++] = j.tok[j.first];
			while ((int) n < j.L) { uint64_t c = x.choose(j.tok.size() + 1); if (!c) break; buf[n++] = j.tok[c - 1]; }
		}
		// exactly sized copy: nothing behind the input is readable
		uint8_t *in = (uint8_t *) malloc(n ? n : 1); memcpy(in, buf, n);
		Case c = { j.fi, j.ni, in, n, "plain", -2 };
		if (n == 4 && j.first == 0) r.sample(fmt("format %s flags %s input %s", FMT[j.fi].id, FLG[j.ni].id, show(in, n).c_str()));
		run_case(r, c);
		free(in);
	}
	else if (j.kind == "long") body_long(r, x, j.fi);
	else body_mut(r, x, j.fi, j.ni, j.tok);
}
static const char *required[] = {
	"nontrivial", "cfg:success", "cfg:failure", "cfg:success with events", "cfg:failure after events", "cfg:success, nesting depth>=2", "cfg:failure before end of input",
	"event:Section", "event:SectEnd", "event:Option", "event:Option|Data", "event:Data",
	"getc:end of input reached", "getc:stopped before end of input",
	"node:failure, empty-root", "node:failure, nested-root", "node:failure, flat-root", "node:success, nested-root", "node:success with new elements, nested-root", "node:success with new elements, flat-root",
	"input:odd number of quote characters", "mut:seed document accepted", "mut:2 mutation(s)",
	"long:section name ~256", "long:option name ~256", "long:value ~256", "long:quoted value ~65536", "long:section name ~65536", "long:option name ~65536", "long:value ~65536", "long:comment ~65536", "long:anonymous value ~65536",
	"long:accepted", "long:refused" };
void mc_explore(Run &r, const std::string &job)
{
	for (const char *k : required) r.require(k);
	Job j = parse_job(r, job);
	dfs(r, [&](Ctx &x) { body(r, x, j); });
}
void mc_replay(Run &r, const std::string &job, const Vec &v)
{
	Job j = parse_job(r, job);
	dfs_replay(r, [&](Ctx &x) { body(r, x, j); }, v);
}

// C08 — configuration parser is total and fails cleanly.
// Stateless choice-tree DFS: every string up to length L over a per-format token alphabet (plus
// long-token shapes, a buffer-fill sweep and <=2 token mutations of longer seed documents) is fed
// through a counting, never-rewinding getc into
//   E1  mpt_parse_config with a recording handler (event nesting oracle; handler failure injected),
//   E3  the element loop of examples/core/parse.c on a length-linked (binary) path, and
//   E2  mpt_parse_node into an empty and into pre-populated roots (failed parse => tree unchanged),
// for every format family / delimiter set / name-flag set.  Oracles: an element call never asks
// the source again after the source told it "end of input" (and the whole parse asks at most once
// more: the following element call has to discover the end again - counted, not flagged),
// AddressSanitizer stays silent, the allocation ledger is back at its baseline after cleanup,
// events of a successful parse are well nested, a failed mpt_parse_node leaves the canonical form
// (names, values, order, depth) and the old nodes of the target untouched, and what
// mpt_parse_config refuses is never reported as success by mpt_parse_node.
#include <sys/uio.h>
#include <cstdlib>
#include <ctime>
#include <algorithm>
#include "config.h"
#include "array.h"
#include "meta.h"
#include "node.h"
#include "parse.h"
#include "mc.hpp"

using namespace mc;
const char *mc_id = "C08";
const char *mc_rule = "choice DFS: all byte strings of length <= L (quick 4, thorough 5) over the per-format token alphabet {section start/end, option start, assign, option end, comment, "
                      "quote, backslash, newline, blank, 'a', '1', '-', NUL, 0xE9 (thorough: + second quote, '.')} x 15 format strings (pre/enc/sep/options-only families, each with and without an option-start character) x name-flag sets, "
                      "plus one long token (254..257, 65534..65537 bytes) in every position, a 1..330 byte run followed by every string of length <= 2 (buffer fill sweep), all <=2 token mutations "
                      "(delete/duplicate/truncate/replace) of a seed document per format and all strings <= 3 ending in a read error; "
                      "each input goes through mpt_parse_config (recording handler, also with a failing handler), the element loop of examples/core/parse.c and mpt_parse_node (empty + two populated targets that share names with the input); "
                      "nontrivial = distinct (input,format,flags) cases where mpt_parse_node fails after elements had already been stored in its temporary tree while the target is populated";

// ------------------------------------------------------------------ formats, flags
struct FmtDef { const char *id; const char *str; const char *family; };
static const FmtDef FMT[] = {
	{ "default",  0,             "pre" },   // { } = , comment #, quotes " '
	{ "online",   "{*} =;!# `",  "pre" },   // option end ';', comments ! #, quote `
	{ "layout",   "[*] = !",     "pre" },
	{ "config",   "[ ] = #",     "sep" },
	{ "enc",      "[x] = ",      "enc" },
	{ "encsame",  "%x% = ",      "enc" },   // same character opens and closes a section
	{ "opt",      "{_} = ",      "opt" },   // options only
	{ "prenoas",  "{*}   #",     "pre" },   // no assign character
	{ "optnoas",  "{_}   #",     "opt" },   // "name value" lines
	{ "sepfull",  "[ ]:=;#",     "sep" },   // option start ':' and option end ';'
	{ "encfull",  "[x]:=;#",     "enc" },
	{ "preost",   "{*}:= ",      "pre" },   // option start character for every section style
	{ "encost",   "<x>:= ",      "enc" },
	{ "sameost",  "%x%:= ",      "enc" },
	{ "optost",   "{_}:= ",      "opt" },
};
// the element parsers of these formats answer "end of input inside a section" with MissingData: a successful parse has closed every section
static bool must_close(int fi) { mpt::parser_format f; mpt::mpt_parse_format(&f, FMT[fi].str); std::string fam = FMT[fi].family; return fam == "pre" || (fam == "enc" && f.sstart != f.send); }
static const int NFMT = sizeof FMT / sizeof *FMT;
struct FlagDef { const char *id; const char *str; };
static const FlagDef FLG[] = { { "all", 0 }, { "strict", "" }, { "Esnw", "Esnw" }, { "Ef", "Ef" }, { "E", "E" }, { "Esc", "Esc" } };
static const int NFLG = sizeof FLG / sizeof *FLG;
static int nfmt(Tier t) { return NFMT; }
static int nflg(Tier t) { return t == Quick ? 3 : NFLG; }

static void alphabet(int fi, Tier t, std::vector<uint8_t> &tok)
{
	mpt::parser_format f;
	mpt::mpt_parse_format(&f, FMT[fi].str);
	tok.clear();
	auto add = [&](uint8_t c) { if (c && std::find(tok.begin(), tok.end(), c) == tok.end()) tok.push_back(c); };
	add(f.sstart); add(f.send); add(f.ostart); add(f.assign); add(f.oend); add(f.com[0]); add(f.esc[0]);
	if (t == Thorough) add(f.esc[1]);
	add('\\'); add('\n'); add(' '); add('a'); add('1'); add('-');
	tok.push_back(0);
	add(0xE9);
	if (t == Thorough) { add('.'); }
}
static std::string show(const uint8_t *p, size_t n)
{
	std::string s = "\"";
	size_t lim = n > 96 ? 40 : n;
	auto one = [&](uint8_t c) {
		if (c == '\n') s += "\\n"; else if (c == '\\') s += "\\\\"; else if (c == '"') s += "\\\"";
		else if (c >= 0x20 && c < 0x7f) s += (char) c; else s += fmt("\\x%02x", c); };
	for (size_t i = 0; i < lim; ++i) one(p[i]);
	if (lim < n) { s += fmt("\"..(%zu bytes)..\"", n - 80); for (size_t i = n - 40; i < n; ++i) one(p[i]); }
	return s + "\"";
}

// ------------------------------------------------------------------ input source
struct Src {
	const uint8_t *p; size_t n, pos; int eofcode; bool ended, ended_in_call; unsigned long calls, after, after_in_call, elem_calls;
	mpt::input_parser_t next; void *narg;
	Src(const uint8_t *d, size_t len, int e) : p(d), n(len), pos(0), eofcode(e), ended(false), ended_in_call(false), calls(0), after(0), after_in_call(0), elem_calls(0), next(0), narg(0) { }
};
// Termination is judged by the engine's watchdog (no heartbeat for 15 s = HANG).  The heartbeat is given per DELIVERED input
// character, so the allowance scales with the input size: a slow (e.g. quadratic in the nesting depth) but terminating parse
// passes, a loop that stops consuming input - or keeps asking an exhausted source - is still reported.
static Run *g_run;
static int src_getc(void *a)
{
	Src *s = (Src *) a;
	if (!s->ended && s->pos < s->n && g_run) g_run->beat();
	++s->calls;
	if (s->ended) { ++s->after; if (s->ended_in_call) ++s->after_in_call; return s->eofcode; }
	if (s->pos >= s->n) { s->ended = s->ended_in_call = true; return s->eofcode; }
	return s->p[s->pos++];
}
// element parser of the format, bracketed: which getc calls belong to one element
static int next_element(void *a, mpt::parser_context *ctx, mpt::path *p)
{
	Src *s = (Src *) a;
	s->ended_in_call = false; ++s->elem_calls;
	return s->next(s->narg, ctx, p);
}

// ------------------------------------------------------------------ E1: recording handler + nesting model
// The model is the stack of open sections, kept as the joined path text plus the lengths to fall back to.
struct Rec {
	std::string open; std::vector<size_t> lens;     // path text of the innermost open section; depth = lens.size()
	unsigned nev, nsect, nend, nopt, noptdata, ndata, maxdepth, beyond;
	int fail_at;               // event number whose handler call reports failure (0 = never)
	std::string kind, why;     // first nesting violation
	std::string trace;
	bool want_trace;
	uint64_t vsum;
	Rec() : nev(0), nsect(0), nend(0), nopt(0), noptdata(0), ndata(0), maxdepth(0), beyond(0), fail_at(0), want_trace(false), vsum(0) { open.reserve(64); }
};
static std::string showpath(bool any, const char *b, size_t n, char sep)
{
	if (!any) return "/";
	std::string s; size_t from = 0;
	for (size_t i = 0; i <= n; ++i) if (i == n || b[i] == sep) { s += "/" + show((const uint8_t *) b + from, i - from); from = i + 1; }
	return s;
}
static int on_event(void *ctx, const mpt::path *p, const mpt::value *val, int last, int curr)
{
	int depth = mc::lib_depth; mc::lib_depth = 0;     // harness allocations are not library allocations
	Rec &rc = *(Rec *) ctx;
	++rc.nev;
	// reported path: elements joined by the separator; the last byte of the path area is the assign / separator terminator
	bool any = p->len && p->base;
	const char *pb = any ? p->base + p->off : "";
	size_t pn = any ? p->len - 1 : 0;
	bool hasdata = false; const char *db = 0; size_t dn = 0;
	if (val) {
		const struct iovec *vec = (const struct iovec *) val->_addr;
		hasdata = true;
		if (vec) { db = (const char *) vec->iov_base; dn = vec->iov_len; }
		for (size_t i = 0; i < dn; ++i) rc.vsum += (uint8_t) db[i];          // reads every byte (ASan)
		if (vec && (p->flags & mpt::path::HasArray) && p->base) {
			const mpt::buffer *b = ((const mpt::buffer *) p->base) - 1;
			if (p->off + p->len + dn > b->_used) ++rc.beyond;
		}
	}
	if (rc.want_trace) rc.trace += fmt("  event %u: code=%d prev=%d path=%s%s%s\n", rc.nev, curr, last, showpath(any, pb, pn, p->sep).c_str(), hasdata ? " data=" : "", hasdata ? show((const uint8_t *) db, dn).c_str() : "");
	size_t d = rc.lens.size();
	// same: the reported path is exactly the open section; child: exactly one more element below it
	auto same = [&]() { return d ? (any && pn == rc.open.size() && !memcmp(pb, rc.open.data(), pn)) : !any; };
	auto child = [&]() {
		if (!any) return false;
		size_t from = 0;
		if (d) { if (pn < rc.open.size() + 1 || memcmp(pb, rc.open.data(), rc.open.size()) || pb[rc.open.size()] != p->sep) return false; from = rc.open.size() + 1; }
		return !memchr(pb + from, p->sep, pn - from); };
	auto bad = [&](const char *k, const char *w) { if (rc.kind.empty()) { rc.kind = k; rc.why = fmt("event %u (code %d): %s; open section path %s (depth %zu), reported path %s", rc.nev, curr, w, showpath(d != 0, rc.open.data(), rc.open.size(), p->sep).c_str(), d, showpath(any, pb, pn, p->sep).c_str()); } };
	switch (curr) {
	case mpt::parser_context::Section:
		++rc.nsect;
		if (hasdata) bad("section-with-data", "section start carries a value");
		if (!child()) bad("section-path", "new section is not reported as a direct child of the open section");
		else { rc.lens.push_back(rc.open.size()); rc.open.assign(pb, pn); if (rc.lens.size() > rc.maxdepth) rc.maxdepth = rc.lens.size(); }
		break;
	case mpt::parser_context::SectEnd:
		++rc.nend;
		if (!d) bad("sectend-without-open", "section end while no section is open");
		else if (!same()) bad("sectend-path", "section end does not name the innermost open section");
		else { rc.open.resize(rc.lens.back()); rc.lens.pop_back(); }
		break;
	case mpt::parser_context::Option:
	case mpt::parser_context::Option | mpt::parser_context::Data:
		if (curr == mpt::parser_context::Option) ++rc.nopt; else ++rc.noptdata;
		if (hasdata != (curr != mpt::parser_context::Option)) bad("option-data", "value presence does not match the event code");
		if (!child()) bad("option-path", "option is not reported inside the open section");
		break;
	case mpt::parser_context::Data:
		++rc.ndata;
		if (!hasdata) bad("option-data", "data event without value");
		if (!same()) bad("data-path", "anonymous value is not reported inside the open section");
		break;
	default:
		bad("unknown-event", "event code is none of Section/SectEnd/Option/Data");
	}
	int ret = (rc.fail_at && (int) rc.nev == rc.fail_at) ? -1 : 0;
	mc::lib_depth = depth;
	return ret;
}

// ------------------------------------------------------------------ E2: canonical tree form
// canon: depth, name bytes, value bytes per node in document order (binary, length prefixed); never addresses
struct Snap { std::string canon; std::vector<const mpt::node *> nodes; bool ok; const char *why; Snap() : ok(true), why("") { canon.reserve(128); nodes.reserve(8); } };
static void put(std::string &s, const void *p, size_t n) { uint32_t l = (uint32_t) n; s.append((const char *) &l, 4); if (n) s.append((const char *) p, n); }
// iterative pre-order walk (the depth of a parsed tree is chosen by the input); tracked = nodes must be live ledger blocks
static void snapshot(const mpt::node *root, Snap &s, bool tracked = true)
{
	std::vector<const mpt::node *> up;      // ancestors of the current sibling list
	const mpt::node *parent = root, *prev = 0, *n = root->children;
	while (n) {
		if (s.nodes.size() > 2000000) { s.ok = false; s.why = "walk does not end (cycle)"; return; }
		if (tracked && !ledger_is_live(n)) { s.ok = false; s.why = "link to a node that is not allocated (any more)"; return; }
		if (n->parent != parent || n->prev != prev) { s.ok = false; s.why = "parent/sibling links of a node are inconsistent"; return; }
		s.nodes.push_back(n);
		uint32_t depth = (uint32_t) up.size(); s.canon.append((const char *) &depth, 4);
		const void *id = n->ident._len ? mpt::mpt_identifier_data(&n->ident) : 0;
		s.canon.push_back(id ? 'N' : '-'); put(s.canon, id, id ? n->ident._len : 0);
		size_t len = 0; const char *data = mpt::mpt_node_data(n, &len);
		s.canon.push_back(data ? 'V' : '-'); put(s.canon, data, data ? len : 0);
		if (n->children) { up.push_back(n); parent = n; prev = 0; n = n->children; continue; }
		while (n && !n->next && !up.empty()) { n = up.back(); up.pop_back(); }
		if (!n->next) break;       // last top-level node
		parent = up.empty() ? root : up.back();
		prev = n; n = n->next;
	}
}
static std::string pretty(const std::string &c)
{
	std::string o; size_t i = 0; int shown = 0;
	while (i + 14 <= c.size()) {
		uint32_t depth; memcpy(&depth, c.data() + i, 4); i += 4;
		if (++shown > 40) { o += "..."; break; }
		o += fmt("%u:", depth);
		for (int k = 0; k < 2; ++k) { char t = c[i++]; uint32_t l; memcpy(&l, c.data() + i, 4); i += 4; if (t != '-') o += (k ? "=" : "") + show((const uint8_t *) c.data() + i, l); else if (!k) o += "-"; i += l; }
		o += "; ";
	}
	return o;
}

// the populated targets use the names the parsed documents use (a, b, -, 1): a successful parse merges into them
static const char *SHAPE_TXT[] = { "", "a {\n a {\n b = 1\n }\n b = 2\n}\nb = 3\n- = 4\n", "a = 1\nb = 2\n" };
static const char *SHAPE_ID[] = { "empty-root", "nested-root", "flat-root" };

struct Case {
	int fi, ni; const uint8_t *in; size_t n; const char *cls; int eofcode;
	bool heavy;         // long inputs: fewer repetitions
	std::string desc() const { return fmt("format %s (%s), name flags %s, input %s (%zu bytes), end-of-input code %d", FMT[fi].id, FMT[fi].str ? FMT[fi].str : "NULL", FLG[ni].id, show(in, n).c_str(), n, eofcode); }
	std::string sig(const char *entry, const char *what) const { return std::string(entry) + "|" + FMT[fi].family + "|" + cls + "|" + what; }
};
// counters are kept in an array and handed to the engine when the job ends
enum Cn { NONTRIVIAL, CFG_OK, CFG_FAIL, CFG_OK_EV, CFG_FAIL_EV, CFG_DEPTH2, CFG_FAIL_EARLY, CFG_OPEN_END, CFG_ILL_FAIL, CFG_BEYOND, CFG_LINE, EV_SECT, EV_END, EV_OPT, EV_OPTDATA, EV_DATA,
          GETC_END, GETC_EARLY, GETC_REPOLL, HANDLER_FAIL, NODE_REFUSES_ACCEPTED, NODE_FAIL0, NODE_FAIL1, NODE_FAIL2, NODE_OK0, NODE_OK1, NODE_OK2, NODE_NEW0, NODE_NEW1, NODE_NEW2, ODDQUOTE, LONG_OK, LONG_FAIL, ERR_EOF_OK, ERR_EOF_FAIL, EX_OK, EX_FAIL, EX_OK_CFG_FAIL, NCN };
static const char *CNAME[NCN] = { "nontrivial", "cfg:success", "cfg:failure", "cfg:success with events", "cfg:failure after events", "cfg:success, nesting depth>=2", "cfg:failure before end of input",
	"cfg:success with sections left open at end of input (not flagged)", "cfg:ill-nested events before a reported failure (not flagged)", "cfg:value length exceeds saved characters (not flagged)", "cfg:line counter differs from consumed newlines (not flagged)",
	"event:Section", "event:SectEnd", "event:Option", "event:Option|Data", "event:Data",
	"getc:end of input reached", "getc:stopped before end of input", "getc:end of input polled once more by the following element call (not flagged)", "cfg:handler failure injected",
	"node:storing fails although the parser accepted (not flagged)", "node:failure, empty-root", "node:failure, nested-root", "node:failure, flat-root", "node:success, empty-root", "node:success, nested-root", "node:success, flat-root",
	"node:success with new elements, empty-root", "node:success with new elements, nested-root", "node:success with new elements, flat-root", "input:odd number of quote characters", "long:accepted", "long:refused",
	"readerror:accepted (not flagged)", "readerror:refused", "example:success", "example:failure", "example:length-linked path accepts what the text path refuses (not flagged)" };
static uint64_t g_cn[NCN];
static uint64_t g_ok_by_fmt[NFMT];

static void ledger_housekeeping()
{
	static unsigned k = 0;
	if (ledger_live() || (++k & 4095) == 0) ledger_reset();
}
static void setup_ctx(mpt::parser_context &ctx, Src &src, int ni)
{
	ctx.src.getc = src_getc; ctx.src.arg = &src; ctx.src.line = 1;
	ctx.prev = mpt::parser_context::Section;     // as mpt_parse_node starts
	mpt::mpt_parse_accept(&ctx.name, FLG[ni].str);
}
// returns number of events, <0 when a violation was reported
static int run_config(Run &r, const Case &c, int fail_at, int *result)
{
	mpt::parser_format pf;
	int type = mpt::mpt_parse_format(&pf, FMT[c.fi].str);
	mpt::input_parser_t next = mpt::mpt_parse_next_fcn(type);
	if (!next) { r.violation("HARNESS|bad-format", c.desc()); return -1; }
	Src src(c.in, c.n, c.eofcode);
	mpt::parser_context ctx;
	setup_ctx(ctx, src, c.ni);
	Rec rec; rec.fail_at = fail_at; rec.want_trace = r.replaying;
	ledger_housekeeping();
	size_t lbase = ledger_live();
	asan_error();
	r.hint(c.sig("parse_config", fail_at ? "handler-fails" : "run").c_str());
	++r.transitions;
	src.next = next; src.narg = &pf;
	int ret = LIB(mpt::mpt_parse_config(next_element, &src, &ctx, on_event, &rec));
	bool asan = asan_error();
	size_t live = ledger_live();
	if (result) *result = ret;
	if (r.replaying) r.note("mpt_parse_config%s -> %d, line %zu, getc calls %lu (%lu after end of input), consumed %zu of %zu bytes, events:\n%s", fail_at ? fmt(" (handler fails at event %d)", fail_at).c_str() : "", ret, ctx.src.line, src.calls, src.after, src.pos, src.n, rec.trace.c_str());
	auto d = [&]() { return c.desc() + fmt(": mpt_parse_config returned %d after %u events", ret, rec.nev) + (fail_at ? fmt(" (handler reports failure at event %d)", fail_at) : std::string()); };
	if (asan) { r.violation(c.sig("parse_config", "asan"), d() + "; AddressSanitizer reported an invalid memory access"); return -1; }
	if (src.after_in_call) { r.violation(c.sig("parse_config", "getc-after-end"), d() + fmt("; one element call asked the source %lu more time(s) after the source had reported end of input to it", src.after_in_call)); return -1; }
	if (src.after > 1) { r.violation(c.sig("parse_config", "getc-after-end"), d() + fmt("; the source was asked %lu more times after it had reported end of input", src.after)); return -1; }
	if (live != lbase) { r.violation(c.sig("parse_config", "leak"), d() + fmt("; %zu allocation(s) of the parser are still live after it returned", live - lbase)); return -1; }
	if (ret > 0) { r.violation(c.sig("parse_config", "positive-result"), d() + "; neither success (0) nor an error"); return -1; }
	if (fail_at) {
		++g_cn[HANDLER_FAIL];
		if ((int) rec.nev >= fail_at && ret >= 0) { r.violation(c.sig("parse_config", "handler-error-lost"), d() + "; the failing handler call is not reported as an error"); return -1; }
		if ((int) rec.nev > fail_at) { r.violation(c.sig("parse_config", "continues-after-handler-error"), d() + "; further events were delivered after the handler had failed"); return -1; }
		return (int) rec.nev;
	}
	if (ret == 0 && !rec.kind.empty()) { r.violation(c.sig("parse_config", ("nesting:" + rec.kind).c_str()), d() + "; successful parse with an ill-nested event sequence: " + rec.why); return -1; }
	if (ret == 0) {
		++g_cn[CFG_OK]; ++g_ok_by_fmt[c.fi];
		if (rec.maxdepth >= 2) ++g_cn[CFG_DEPTH2];
		if (!rec.lens.empty()) {
			if (must_close(c.fi)) { r.violation(c.sig("parse_config", "nesting:open-at-end"), d() + fmt("; success is reported although %zu section(s) are still open at end of input (this format answers end of input inside a section with MissingData)", rec.lens.size())); return -1; }
			++g_cn[CFG_OPEN_END];
		}
		if (rec.nev) ++g_cn[CFG_OK_EV];
	} else {
		++g_cn[CFG_FAIL];
		if (rec.nev) ++g_cn[CFG_FAIL_EV];
		if (!rec.kind.empty()) ++g_cn[CFG_ILL_FAIL];
		if (!src.ended) ++g_cn[CFG_FAIL_EARLY];
	}
	if (c.eofcode == -1) ++g_cn[ret == 0 ? ERR_EOF_OK : ERR_EOF_FAIL];
	g_cn[EV_SECT] += rec.nsect; g_cn[EV_END] += rec.nend; g_cn[EV_OPT] += rec.nopt; g_cn[EV_OPTDATA] += rec.noptdata; g_cn[EV_DATA] += rec.ndata;
	if (rec.beyond) ++g_cn[CFG_BEYOND];
	size_t nl = 0; for (size_t i = 0; i < src.pos; ++i) if (c.in[i] == '\n') ++nl;
	if (ctx.src.line != 1 + nl) ++g_cn[CFG_LINE];
	++g_cn[src.ended ? GETC_END : GETC_EARLY];
	if (src.after) ++g_cn[GETC_REPOLL];
	return (int) rec.nev;
}
// returns <0 when a violation was reported; *result = return value of mpt_parse_node
static int run_node(Run &r, const Case &c, int shape, int cfg_result, int *result)
{
	ledger_housekeeping();
	size_t lbase = ledger_live();
	asan_error();
	mpt::node *root = LIB(mpt::mpt_node_new(0));
	if (!root) { r.violation("HARNESS|no-root", c.desc()); return -1; }
	if (shape) {
		Src s0((const uint8_t *) SHAPE_TXT[shape], strlen(SHAPE_TXT[shape]), -2);
		mpt::parser_context c0; c0.src.getc = src_getc; c0.src.arg = &s0; c0.src.line = 1;
		if (LIB(mpt::mpt_parse_node(root, &c0, 0)) < 0 || !root->children) { r.violation("HARNESS|shape-setup", c.desc()); return -1; }
	}
	Snap before; snapshot(root, before);
	if (!before.ok) { r.violation("HARNESS|shape-setup", c.desc() + ": " + before.why); return -1; }
	Src src(c.in, c.n, c.eofcode);
	mpt::parser_context ctx;
	setup_ctx(ctx, src, c.ni);
	r.hint(c.sig("parse_node", SHAPE_ID[shape]).c_str());
	++r.transitions;
	int ret = LIB(mpt::mpt_parse_node(root, &ctx, FMT[c.fi].str));
	bool asan = asan_error();
	if (result) *result = ret;
	auto d = [&]() { return c.desc() + fmt(": mpt_parse_node into %s returned %d", SHAPE_ID[shape], ret); };
	if (r.replaying) r.note("mpt_parse_node(%s) -> %d, line %zu, getc calls %lu (%lu after end), consumed %zu of %zu; tree before: %s", SHAPE_ID[shape], ret, ctx.src.line, src.calls, src.after, src.pos, src.n, pretty(before.canon).c_str());
	if (asan) { r.violation(c.sig("parse_node", "asan"), d() + "; AddressSanitizer reported an invalid memory access"); return -1; }
	if (src.after > 1) { r.violation(c.sig("parse_node", "getc-after-end"), d() + fmt("; the source was asked %lu more times after it had reported end of input", src.after)); return -1; }
	if (ret > 0) { r.violation(c.sig("parse_node", "positive-result"), d() + "; neither success (0) nor an error"); return -1; }
	// "a failed parse reports an error": the same input, format and flags made mpt_parse_config fail
	if (cfg_result < 0 && ret >= 0) { r.violation(c.sig("parse_node", "error-not-reported"), d() + fmt(" although parsing the same input fails with %d", cfg_result)); return -1; }
	// (a different error code is fine: storing an element may fail before the parser reaches its own error)
	if (cfg_result >= 0 && ret < 0) ++g_cn[NODE_REFUSES_ACCEPTED];
	Snap after;
	if (ret < 0) {
		bool gone = false;
		for (const mpt::node *n : before.nodes) if (!ledger_is_live(n)) gone = true;
		if (gone) { r.violation(c.sig("parse_node", "failed-parse-changed-tree"), d() + "; nodes of the target tree were released by the failed parse"); return -1; }
		snapshot(root, after);
		if (r.replaying) r.note("tree after: %s", pretty(after.canon).c_str());
		if (asan_error() || !after.ok) { r.violation(c.sig("parse_node", "failed-parse-changed-tree"), d() + "; target tree is damaged: " + after.why); return -1; }
		if (after.canon != before.canon || after.nodes != before.nodes) { r.violation(c.sig("parse_node", "failed-parse-changed-tree"), d() + "; target tree was {" + pretty(before.canon) + "}, is {" + pretty(after.canon) + "}"); return -1; }
		++g_cn[NODE_FAIL0 + shape];
	} else {
		snapshot(root, after);
		if (r.replaying) r.note("tree after: %s", pretty(after.canon).c_str());
		if (asan_error() || !after.ok) { r.violation(c.sig("parse_node", "result-tree-broken"), d() + "; resulting tree: " + (after.ok ? "walking it touches released memory" : after.why)); return -1; }
		++g_cn[NODE_OK0 + shape];
		if (after.nodes.size() > before.nodes.size()) ++g_cn[NODE_NEW0 + shape];
	}
	LIB(mpt::mpt_node_clear(root));
	bool asan2 = asan_error();
	size_t live = ledger_live();
	if (asan2) { r.violation(c.sig("parse_node", "asan"), d() + "; clearing the target afterwards: AddressSanitizer reported an invalid memory access"); return -1; }
	if (live != lbase + 1) { r.violation(c.sig("parse_node", "leak"), d() + fmt("; %zu allocation(s) survive clearing the target tree", live - lbase - 1)); free(root); return -1; }
	free(root);
	return 0;
}

// E3: the element loop of examples/core/parse.c (what the shipped ctest cases run): the format's element parser
// is called directly on a path with binary (length linked) separation; same oracles, nesting on the decoded elements
static bool decode_binary(const mpt::path *p, std::vector<std::string> &el)
{
	el.clear();
	if (!p->len) return true;
	if (!p->base) return false;
	const uint8_t *b = (const uint8_t *) p->base + p->off;
	size_t pos = 0, n = p->first;
	while (pos < p->len) {
		if (pos + n + 2 > p->len) return false;
		el.push_back(std::string((const char *) b + pos, n));
		pos += n;
		if (b[pos] != n) return false;       // backward link
		n = b[pos + 1]; pos += 2;
	}
	return true;
}
static int run_example(Run &r, const Case &c, int cfg_result)
{
	mpt::parser_format pf;
	mpt::input_parser_t next = mpt::mpt_parse_next_fcn(mpt::mpt_parse_format(&pf, FMT[c.fi].str));
	Src src(c.in, c.n, c.eofcode);
	mpt::parser_context ctx;
	setup_ctx(ctx, src, c.ni);
	ctx.prev = 0;
	alignas(mpt::path) char mem[sizeof(mpt::path)];
	memset(mem, 0, sizeof mem);
	mpt::path *path = (mpt::path *) mem;
	path->sep = '.'; path->flags = mpt::path::SepBinary;
	ledger_housekeeping();
	size_t lbase = ledger_live();
	asan_error();
	r.hint(c.sig("example_loop", "run").c_str());
	++r.transitions;
	std::vector<std::string> stack, el;
	std::string kind, why, trace;
	unsigned nev = 0; int type;
	while ((type = LIB(next(&pf, &ctx, path))) > 0) {
		++nev;
		bool dec = decode_binary(path, el);
		size_t used = (path->flags & mpt::path::HasArray) && path->base ? (((const mpt::buffer *) path->base) - 1)->_used : 0;
		uint64_t sum = 0;
		if (type & mpt::parser_context::Data) { const uint8_t *d = (const uint8_t *) path->base + path->off + path->len; for (size_t i = 0; i < ctx.valid; ++i) sum += d[i]; }   // example prints these bytes
		if (r.replaying) { trace += fmt("  event %u: code=%d path=", nev, type); for (auto &e : el) trace += "/" + show((const uint8_t *) e.data(), e.size()); if (!dec) trace += " (undecodable)"; trace += "\n"; }
		auto bad = [&](const char *k, const char *w) { if (kind.empty()) { kind = k; why = fmt("event %u (code %d): %s; depth %zu, reported path has %zu element(s)%s", nev, type, w, stack.size(), el.size(), dec ? "" : " and is not a consistent length-linked path"); } };
		auto pre = [&](size_t n) { if (!dec || el.size() < n) return false; for (size_t i = 0; i < n; ++i) if (el[i] != stack[i]) return false; return true; };
		switch (type) {
		case mpt::parser_context::Section: if (el.size() != stack.size() + 1 || !pre(stack.size())) bad("section-path", "new section is not reported as a direct child of the open section"); else stack.push_back(el.back()); break;
		case mpt::parser_context::SectEnd: if (stack.empty()) bad("sectend-without-open", "section end while no section is open"); else if (el.size() != stack.size() || !pre(stack.size())) bad("sectend-path", "section end does not name the innermost open section"); else stack.pop_back(); break;
		case mpt::parser_context::Option: case mpt::parser_context::Option | mpt::parser_context::Data: if (el.size() != stack.size() + 1 || !pre(stack.size())) bad("option-path", "option is not reported inside the open section"); break;
		case mpt::parser_context::Data: if (el.size() != stack.size() || !pre(stack.size())) bad("data-path", "anonymous value is not reported inside the open section"); break;
		default: bad("unknown-event", "event code is none of Section/SectEnd/Option/Data");
		}
		if (type & mpt::parser_context::SectEnd) LIB(mpt::mpt_path_del(path)); else LIB(mpt::mpt_path_invalidate(path));
		ctx.prev = ctx.curr; ctx.valid = 0;
		if (nev > 4 * c.n + 16) break;
	}
	LIB((mpt::mpt_path_fini(path), 0));
	bool asan = asan_error();
	size_t live = ledger_live();
	if (r.replaying) r.note("example loop (binary path) -> %d, getc calls %lu (%lu after end), consumed %zu of %zu, events:\n%s", type, src.calls, src.after, src.pos, src.n, trace.c_str());
	auto d = [&]() { return c.desc() + fmt(": element loop of examples/core/parse.c (length-linked path) ended with %d after %u events", type, nev); };
	if (asan) { r.violation(c.sig("example_loop", "asan"), d() + "; AddressSanitizer reported an invalid memory access"); return -1; }
	if (type > 0) { r.violation(c.sig("example_loop", "no-progress"), d() + "; more events than input characters"); return -1; }
	if (src.after > 1) { r.violation(c.sig("example_loop", "getc-after-end"), d() + fmt("; the source was asked %lu more times after it had reported end of input", src.after)); return -1; }
	if (live != lbase) { r.violation(c.sig("example_loop", "leak"), d() + fmt("; %zu allocation(s) are still live after mpt_path_fini", live - lbase)); return -1; }
	// the example ignores a failing mpt_path_del (section end at top level): only sequences without such a step are judged
	if (type == 0 && !kind.empty() && kind != "sectend-without-open") { r.violation(c.sig("example_loop", ("nesting:" + kind).c_str()), d() + "; successful parse with an ill-nested event sequence: " + why); return -1; }
	if (type == 0 && kind.empty() && !stack.empty() && must_close(c.fi)) { r.violation(c.sig("example_loop", "nesting:open-at-end"), d() + fmt("; success is reported although %zu section(s) are still open at end of input", stack.size())); return -1; }
	++g_cn[type == 0 ? EX_OK : EX_FAIL];
	if (type == 0 && cfg_result < 0) ++g_cn[EX_OK_CFG_FAIL];
	return 0;
}

static bool g_warm = false;
static void warmup()
{
	if (g_warm) return;
	g_warm = true;
	// lazily created library singletons (type registry, traits of long text values ..) must not count as leaks
	std::string txt = "a {\n b = 1\n}\n\"c\" = 'd'\ne = " + std::string(300, 'x') + "\n";
	std::string txt2 = "a {\n b = 1\n}\n\"c\" = 'd'\n";
	for (int k = 0; k < 3; ++k) {
		const char *t = k ? txt2.c_str() : txt.c_str();
		Src s((const uint8_t *) t, strlen(t), -2);
		mpt::parser_context c0; c0.src.getc = src_getc; c0.src.arg = &s; c0.src.line = 1;
		mpt::node *w = mpt::mpt_node_new(0);
		mpt::mpt_parse_node(w, &c0, 0); mpt::mpt_node_clear(w); free(w);
	}
	ledger_reset(); asan_error();
}

// one input through every entry point
static void run_case(Run &r, const Case &c, bool fail_first = false)
{
	warmup();
	++r.states;
	if (r.replaying) r.note("%s", c.desc().c_str());
	int ret = 0, nret = 0;
	int nev = run_config(r, c, 0, &ret);
	if (nev < 0) return;
	if (c.n > 255) ++g_cn[ret < 0 ? LONG_FAIL : LONG_OK];
	// the handler refuses the last event it is given (and, for seeds/mutations, the first)
	if (!c.heavy && nev > 0 && run_config(r, c, nev, 0) < 0) return;
	if (fail_first && nev > 1 && run_config(r, c, 1, 0) < 0) return;
	if (run_example(r, c, ret) < 0) return;
	if (run_node(r, c, 0, ret, &nret) < 0) return;
	if (run_node(r, c, 1, ret, &nret) < 0) return;
	if (nret < 0 && nev > 0) ++g_cn[NONTRIVIAL];
	if (!c.heavy && nev > 0 && run_node(r, c, 2, ret, &nret) < 0) return;
	size_t q = 0; for (size_t i = 0; i < c.n; ++i) if (c.in[i] == '"' || c.in[i] == '\'' || c.in[i] == '`') ++q;
	if (q & 1) ++g_cn[ODDQUOTE];
}

// ------------------------------------------------------------------ jobs
//   str:<fmt>:<flags>:<L>:<first token index | ->     all strings of length <= L starting with that token ('-': the empty string)
//   err:<fmt>:<flags>                                   all strings of length <= 3, the source ends with a read error (-1) instead of end of file (-2)
//   long:<fmt>:<flags>                                  long-token shapes
//   mut:<fmt>:<flags>                                   seed document with <= 2 token mutations
//   dsc:<style>                                         format description sweep (0..6 comment x 0..5 escape characters) + documents, see body_dsc
//   dlen:0                                              every prefix of every format description in an exactly sized block, see body_dlen
//   deep:<fmt>                                          10^3..10^5 nested sections / value-only lines, see body_deep
//   reuse:<fmt>                                         two inputs through one parser_context, see body_reuse
//   pad:<fmt>:<flags>                                   a run of n name characters (thorough: every n in 1..330) (as first name, or as value behind "b=") followed by every string
//                                                       of length <= 2: sweeps the fill level of the growing path buffer across its allocation steps
static int maxlen(Tier t, int fi, int ni)
{
	if (t == Quick) return 4;
	if (ni == 0) return 5;                                      // all formats, unrestricted names
	if (ni == 1 && fi == 0) return 5;                           // strict names: default format
	return 4;
}
void mc_jobs(Tier t, std::vector<std::string> &jobs)
{
	for (int fi = 0; fi < nfmt(t); ++fi) {
		std::vector<uint8_t> tok; alphabet(fi, t, tok);
		for (int ni = 0; ni < nflg(t); ++ni) {
			jobs.push_back(fmt("str:%d:%d:%d:-", fi, ni, maxlen(t, fi, ni)));
			for (size_t k = 0; k < tok.size(); ++k) jobs.push_back(fmt("str:%d:%d:%d:%zu", fi, ni, maxlen(t, fi, ni), k));
			jobs.push_back(fmt("err:%d:%d", fi, ni));
		}
	}
	for (int fi = 0; fi < nfmt(t); ++fi) for (int ni = 0; ni < (t == Quick ? 2 : NFLG); ++ni) jobs.push_back(fmt("long:%d:%d", fi, ni));
	for (int fi = 0; fi < NFMT; ++fi) for (int ni = 0; ni < nflg(t); ++ni) jobs.push_back(fmt("mut:%d:%d", fi, ni));
	for (int fi = 0; fi < NFMT; ++fi) jobs.push_back(fmt("pad:%d:0", fi));
	for (int st = 0; st < 5; ++st) jobs.push_back(fmt("dsc:%d", st));
	{ int deepfmt[] = { 0, 4, 6 }; for (int fi : deepfmt) jobs.push_back(fmt("deep:%d", fi)); }
	for (int fi = 0; fi < NFMT; ++fi) jobs.push_back(fmt("reuse:%d", fi));
	jobs.push_back("dlen:0");
}

// ---- long tokens
static const size_t LONGLEN[] = { 255, 256, 65535, 65536, 254, 257, 65534, 65537 };   // quick: first four; thorough, flag sets >= 2: first six
enum { P_SECT, P_OPT, P_VAL, P_QVAL, P_COMMENT, P_ANON, NPOS };
static const char *POSN[] = { "section name", "option name", "value", "quoted value", "comment", "anonymous value" };
static uint64_t g_long[NPOS][2];

static void body_long(Run &r, Ctx &x, int fi, int ni)
{
	mpt::parser_format f; mpt::mpt_parse_format(&f, FMT[fi].str);
	int pos = (int) x.choose(NPOS);
	size_t len = LONGLEN[x.choose(r.tier == Quick ? 4 : (ni < 2 ? 8 : 6))];
	int fill = (int) x.choose(r.tier == Quick ? 2 : 3);   // 'a' run / alternating "a " (inner blanks) / 0xE9 run
	int tail = (int) x.choose(3);          // complete document / end of input right behind the token / token then end of line only
	std::string fam = FMT[fi].family;
	std::string big;
	for (size_t i = 0; i < len; ++i) big += fill == 0 ? 'a' : (fill == 1 ? ((i & 1) && i + 1 < len ? ' ' : 'a') : (char) 0xE9);
	std::string S(1, (char) f.sstart), E(1, (char) f.send), A = f.assign ? std::string(1, (char) f.assign) : std::string(" "), O = f.ostart ? std::string(1, (char) f.ostart) : std::string();
	std::string D = f.oend ? std::string(1, (char) f.oend) + "\n" : std::string("\n"), C(1, (char) f.com[0]), Q(1, (char) f.esc[0]);
	std::string sect = pos == P_SECT ? big : "a", opt = pos == P_OPT ? big : "b", val = pos == P_VAL ? big : (pos == P_QVAL ? Q + big + Q : "1");
	std::string doc, head;
	// documents in the shape of the shipped examples of the family
	if (fam == "pre") head = sect + " " + S + "\n";
	else if (fam == "sep") head = S + sect + E + "\n";
	else if (fam == "enc") head = S + sect + "\n";
	if (pos == P_SECT && tail == 1) doc = head.substr(0, head.size() - 1);
	else if (pos == P_SECT && tail == 2) doc = head;
	else {
		doc = head;
		if (pos == P_COMMENT) doc += C + big + (tail == 1 ? "" : "\n");
		if (pos == P_ANON) doc += (fam == "pre" || fam == "opt" ? big : O + A + big) + (tail == 1 ? "" : D);
		else {
			doc += O + opt;
			if (!(pos == P_OPT && tail == 1)) {
				doc += A + val;
				if (!((pos == P_VAL || pos == P_QVAL) && tail == 1)) doc += D;
			}
		}
		if (tail == 0) { if (fam == "pre") doc += E + "\n"; else if (FMT[fi].id == std::string("encsame")) doc += S + "\n"; }
	}
	const char *cls = len > 65000 ? "long>65535" : "long>255";
	Case c = { fi, ni, (const uint8_t *) doc.data(), doc.size(), cls, -2, len > 1000 };
	++g_long[pos][len > 65000];
	if (pos == P_VAL && len == 65536 && ni == 0 && fill == 0 && tail == 0) r.sample(fmt("long token: format %s, %s of %zu bytes, document %s", FMT[fi].id, POSN[pos], len, show(c.in, c.n).c_str()));
	run_case(r, c);
}

// ---- seed documents + mutations
static void seed_tokens(int fi, std::vector<std::string> &T)
{
	mpt::parser_format f; mpt::mpt_parse_format(&f, FMT[fi].str);
	std::string fam = FMT[fi].family;
	std::string S(1, (char) f.sstart), E(1, (char) f.send), Q(1, (char) f.esc[0]), C(1, (char) f.com[0]);
	T.clear();
	auto opt = [&](const char *name, std::vector<std::string> v, bool comment) {
		if (f.ostart) T.push_back(std::string(1, (char) f.ostart));
		T.push_back(name);
		T.push_back(f.assign ? std::string(1, (char) f.assign) : std::string(" "));
		for (auto &s : v) T.push_back(s);
		if (f.oend) T.push_back(std::string(1, (char) f.oend));
		if (comment) { T.push_back(" "); T.push_back(C); T.push_back("a"); }
		T.push_back("\n");
	};
	if (fam == "pre" && !f.assign) {          // sections only
		T.push_back("a"); T.push_back(" "); T.push_back(S); T.push_back("\n");
		T.push_back("c"); T.push_back(S); T.push_back("\n"); T.push_back("-"); T.push_back("1"); T.push_back(S); T.push_back(E);
		T.push_back(E); T.push_back("\n"); T.push_back(E); T.push_back(" "); T.push_back(C); T.push_back("a"); T.push_back("\n");
		T.push_back("e"); T.push_back(S); T.push_back(E); T.push_back("\n");
	} else if (fam == "pre") {
		T.push_back("a"); T.push_back(" "); T.push_back(S); T.push_back("\n");
		opt("b", { "1" }, false);
		T.push_back("c"); T.push_back(S); T.push_back("\n");
		opt("d", { Q, "a", " ", "1", Q }, false);
		T.push_back(E); T.push_back("\n"); T.push_back(E); T.push_back("\n");
		opt("e", { "-", " ", "a" }, true);
	} else if (fam == "sep") {
		T.push_back(S); T.push_back("a"); T.push_back(E); T.push_back("\n");
		opt("b", { "1" }, false);
		T.push_back(S); T.push_back("c"); T.push_back(E); T.push_back("\n");
		opt("d", { Q, "a", " ", "1", Q }, false);
		opt("e", { "-", " ", "a" }, true);
	} else if (fam == "enc" && f.sstart != f.send) {
		T.push_back(S); T.push_back("a"); T.push_back("\n");
		opt("b", { "1" }, false);
		T.push_back(S); T.push_back("c"); T.push_back(" ");
		opt("d", { Q, "a", " ", "1", Q }, false);
		opt("e", { "-", " ", "a" }, true);
	} else if (fam == "enc") {
		T.push_back(S); T.push_back("a"); T.push_back("\n");
		opt("b", { "1" }, false);
		T.push_back(S); T.push_back("c"); T.push_back("\n");
		opt("d", { Q, "a", " ", "1", Q }, false);
		T.push_back(S); T.push_back("\n"); T.push_back(S); T.push_back("\n");
		opt("e", { "-", " ", "a" }, true);
	} else {
		opt("b", { "1" }, false);
		opt("d", { Q, "a", " ", "1", Q }, false);
		opt("e", { "-", " ", "a" }, true);
		opt("a", { "a" }, false);
	}
}
// mutation m on T: [0,n) delete, [n,2n) duplicate, [2n,3n) truncate behind, then replace(i, token t)
static size_t nmut(size_t n, size_t ntok, bool repl) { return 3 * n + (repl ? n * ntok : 0); }
static void mutate(std::vector<std::string> &T, size_t m, const std::vector<uint8_t> &tok)
{
	size_t n = T.size();
	if (m < n) T.erase(T.begin() + m);
	else if (m < 2 * n) T.insert(T.begin() + (m - n), T[m - n]);
	else if (m < 3 * n) T.resize(m - 2 * n);
	else { m -= 3 * n; T[m / tok.size()] = std::string(1, (char) tok[m % tok.size()]); }
}
static uint64_t g_mut[3], g_seed_ok, g_seed_refused;
static void body_mut(Run &r, Ctx &x, int fi, int ni, const std::vector<uint8_t> &tok)
{
	std::vector<std::string> T; seed_tokens(fi, T);
	// quick: a replacement is never combined with a second mutation
	size_t n0 = T.size();
	size_t m1 = x.choose(1 + nmut(n0, tok.size(), true));
	int muts = 0;
	if (m1) {
		mutate(T, m1 - 1, tok); ++muts;
		if (!T.empty() && (r.tier == Thorough || m1 <= 3 * n0)) { size_t m2 = x.choose(1 + nmut(T.size(), tok.size(), r.tier == Thorough && ni == 0)); if (m2) { mutate(T, m2 - 1, tok); ++muts; } }
	}
	int eofcode = m1 ? -2 : (x.choose(2) ? -1 : -2);
	std::string doc; for (auto &s : T) doc += s;
	Case c = { fi, ni, (const uint8_t *) doc.data(), doc.size(), "plain", eofcode, false };
	if (!muts && eofcode == -2) {
		uint64_t ok = g_cn[CFG_OK];
		run_case(r, c, true);
		if (g_cn[CFG_OK] > ok) ++g_seed_ok; else ++g_seed_refused;      // e.g. strict name flags refuse the seed's numeric/special names; the 'x' format with distinct delimiters never reports success
		if (ni == 0) r.sample(fmt("seed document for format %s: %s", FMT[fi].id, show(c.in, c.n).c_str()));
		++g_mut[0];
		return;
	}
	++g_mut[muts];
	run_case(r, c, true);
}

static uint64_t g_pad;
static void body_pad(Run &r, Ctx &x, int fi, int ni, const std::vector<uint8_t> &tok)
{
	mpt::parser_format f; mpt::mpt_parse_format(&f, FMT[fi].str);
	// quick: only the fill levels around the first two allocation steps of the path buffer (64 and 192 bytes), thorough: every n up to 330 (third step at 320)
	int variant = (int) x.choose(2);
	size_t n = 1 + x.choose(r.tier == Quick ? 34 : 330);
	if (r.tier == Quick) n = n <= 17 ? 55 + n : 183 + (n - 17);
	std::string doc;
	if (variant) { if (f.ostart) doc += (char) f.ostart; doc += "b"; doc += f.assign ? (char) f.assign : ' '; }
	doc.append(n, 'a');
	for (int k = 0; k < 2; ++k) { uint64_t c = x.choose(tok.size() + 1); if (!c) break; doc += (char) tok[c - 1]; }
	uint8_t *in = (uint8_t *) malloc(doc.size()); memcpy(in, doc.data(), doc.size());
	Case c = { fi, ni, in, doc.size(), n > 255 ? "long>255" : "plain", -2, false };
	++g_pad;
	if (n == 64 && doc.size() == 66 + (variant ? 2 : 0) && ni == 0 && doc[doc.size() - 1] == '\n') r.sample(fmt("pad: format %s input %s", FMT[fi].id, show(in, doc.size()).c_str()));
	run_case(r, c);
	free(in);
}

static int ev_record(void *ctx, const mpt::path *p, const mpt::value *val, int, int curr);
static const char *DSTYLE[] = { "{*} = ", "[ ] = ", "<x> = ", "%x% = ", "{_} = " };
static const char *DSTYLE_ID[] = { "pre", "sep", "enc", "encsame", "opt" };
static const int NDSTYLE = 5;
// ---- description length sweep (job "dlen"): every prefix (length 0..n) of every format description used in this file, handed over
// in an exactly sized heap block: decoding must not read behind the terminator, positions the prefix does not reach keep their defaults
static void body_dlen(Run &r, Ctx &x)
{
	warmup();
	size_t which = x.choose(NFMT - 1 + NDSTYLE);
	std::string full = which < (size_t) NFMT - 1 ? FMT[which + 1].str : DSTYLE[which - (NFMT - 1)];
	size_t n = x.choose(full.size() + 1);
	std::string d(full, 0, n);
	char *str = (char *) malloc(n + 1); memcpy(str, d.c_str(), n + 1);
	mpt::parser_format *pf = (mpt::parser_format *) malloc(sizeof(mpt::parser_format));
	memset(pf, 0x5A, sizeof *pf);
	const char *cls = n < 2 ? "shorter-than-type" : (n < 6 ? "partial-delimiters" : "full-delimiters");
	std::string sig = std::string("parse_format|length|") + cls + "|";
	std::string d0 = fmt("format description %s (%zu of %zu characters, exactly sized block)", show((const uint8_t *) d.data(), n).c_str(), n, full.size());
	++r.states; ++r.transitions;
	asan_error();
	r.hint((sig + "decode").c_str());
	int type = LIB(mpt::mpt_parse_format(pf, str));
	bool asan = asan_error();
	mpt::parser_format got = *pf; free(pf);
	if (r.replaying) r.note("%s -> type '%c' sstart %02x send %02x ostart %02x assign %02x oend %02x esc %s com %s", d0.c_str(), type, got.sstart, got.send, got.ostart, got.assign, got.oend, hex(got.esc, 3).c_str(), hex(got.com, 4).c_str());
	r.count(n < 2 ? "dlen:descriptions shorter than two characters" : "dlen:longer prefixes");
	if (asan) { free(str); r.violation(sig + "asan", d0 + ": mpt_parse_format reads outside the description (AddressSanitizer)"); return; }
	auto ch = [&](size_t i, uint8_t def) { return (uint8_t) (i < n ? (isspace((unsigned char) d[i]) ? 0 : d[i]) : def); };
	if (type != (n > 1 ? d[1] : '*') || got.sstart != ch(0, '{') || got.send != ch(2, '}') || got.ostart != ch(3, 0) || got.assign != ch(4, '=') || got.oend != ch(5, 0)
	    || (n <= 6 && (memcmp(got.com, "#\0\0\0", 4) || memcmp(got.esc, "\"'\0", 3)))) {
		free(str); r.violation(sig + "wrong-fields", d0 + fmt(": decoded type '%c' sstart %02x send %02x ostart %02x assign %02x oend %02x esc %s com %s; characters the description does not contain must keep their defaults", type, got.sstart, got.send, got.ostart, got.assign, got.oend, hex(got.esc, 3).c_str(), hex(got.com, 4).c_str())); return; }
	// the same description through mpt_parse_node (unknown type characters are refused with BadType)
	const char *doc = "a = 1\n";
	Src src((const uint8_t *) doc, strlen(doc), -2);
	mpt::parser_context ctx; ctx.src.getc = src_getc; ctx.src.arg = &src; ctx.src.line = 1;
	ledger_housekeeping(); size_t lbase = ledger_live();
	mpt::node *root = LIB(mpt::mpt_node_new(0));
	r.hint((sig + "parse_node").c_str());
	++r.transitions;
	int ret = LIB(mpt::mpt_parse_node(root, &ctx, str));
	asan = asan_error();
	LIB(mpt::mpt_node_clear(root));
	free(str);
	if (asan || asan_error()) { r.violation(sig + "asan", d0 + fmt(": mpt_parse_node(\"a = 1\") returned %d; AddressSanitizer reported an invalid memory access", ret)); return; }
	if (ledger_live() != lbase + 1) { r.violation(sig + "leak", d0 + ": allocations survive clearing the target"); free(root); return; }
	free(root);
	r.count(ret < 0 ? "dlen:parse refused" : "dlen:parse accepted");
}

// ---- deep nesting (job "deep:<fmt>"): the depth of the tree is chosen by the input, nothing may recurse once per level
// shapes: N unclosed sections (parse fails at end of input, the temporary tree of depth N is released), N sections opened
// and closed again, N value-only lines; targets: empty root, the nested populated root, a root that already holds the
// result of the same document.  The ledger is not used here (its table holds 2^18 blocks): ASan + fault containment only.
static const size_t DEEPN[] = { 1000, 30000, 100000 };
static void body_deep(Run &r, Ctx &x, int fi)
{
	warmup();
	mpt::parser_format f; mpt::mpt_parse_format(&f, FMT[fi].str);
	std::string fam = FMT[fi].family;
	int shape = (int) x.choose(3);
	size_t N = DEEPN[x.choose(3)];
	int target = (int) x.choose(3);
	std::string open, close, doc;
	if (fam == "pre") { open = std::string("a") + (char) f.sstart; close = std::string(1, (char) f.send); }
	else { open = std::string(1, (char) f.sstart) + "a\n"; close = std::string(1, (char) f.send) + "\n"; }
	if (shape == 0) for (size_t i = 0; i < N; ++i) doc += open;
	else if (shape == 1) { for (size_t i = 0; i < N; ++i) doc += open; for (size_t i = 0; i < N; ++i) doc += close; }
	else for (size_t i = 0; i < N; ++i) doc += "v\n";
	static const char *SHN[] = { "unclosed sections", "sections opened and closed", "value-only lines" };
	static const char *TGN[] = { "empty-root", "same-document-root", "nested-root" };   // (the last leaf of the choice tree is not one of the known faulting cases)
	std::string d0 = fmt("format %s (%s), %zu %s (%zu bytes), target %s", FMT[fi].id, FMT[fi].str ? FMT[fi].str : "NULL", N, SHN[shape], doc.size(), TGN[target]);
	std::string sig = std::string("parse_node|") + FMT[fi].family + "|deep|";
	if (r.replaying) r.note("%s", d0.c_str());
	++r.states; r.count("deep:cases");      // counted at once: a faulting case ends the worker process
	mpt::node *root = mpt::mpt_node_new(0);
	asan_error();
	if (target) {
		const char *t = target == 2 ? SHAPE_TXT[1] : doc.c_str();
		Src s0((const uint8_t *) t, strlen(t), -2);
		mpt::parser_context c0; c0.src.getc = src_getc; c0.src.arg = &s0; c0.src.line = 1;
		r.hint((sig + "populate-target").c_str());
		++r.transitions;
		mpt::mpt_parse_node(root, &c0, target == 2 ? 0 : FMT[fi].str);
		if (target == 1) r.count("deep:target holds the same deep document");
	}
	Snap before; snapshot(root, before, false);
	if (!before.ok) { r.violation(sig + "result-tree-broken", d0 + ": target before the parse: " + before.why); return; }
	Src src((const uint8_t *) doc.data(), doc.size(), -2);
	mpt::parser_context ctx; ctx.src.getc = src_getc; ctx.src.arg = &src; ctx.src.line = 1;
	r.hint((sig + TGN[target]).c_str());
	++r.transitions;
	int ret = mpt::mpt_parse_node(root, &ctx, FMT[fi].str);
	if (asan_error()) { r.violation(sig + "asan", d0 + fmt(": mpt_parse_node returned %d; AddressSanitizer reported an invalid memory access", ret)); return; }
	Snap after; snapshot(root, after, false);
	if (r.replaying) r.note("mpt_parse_node -> %d, %zu nodes before, %zu after", ret, before.nodes.size(), after.nodes.size());
	if (asan_error() || !after.ok) { r.violation(sig + (ret < 0 ? "failed-parse-changed-tree" : "result-tree-broken"), d0 + fmt(": mpt_parse_node returned %d; target tree: %s", ret, after.ok ? "walking it touches released memory" : after.why)); return; }
	if (ret < 0) { r.count("deep:failed parse releases a deep temporary tree"); if (after.canon != before.canon || after.nodes != before.nodes) { r.violation(sig + "failed-parse-changed-tree", d0 + fmt(": mpt_parse_node returned %d and changed the target (%zu nodes before, %zu after)", ret, before.nodes.size(), after.nodes.size())); return; } }
	r.hint((sig + "clear-target").c_str());
	mpt::mpt_node_clear(root);
	if (ret >= 0) r.count("deep:successful parse, deep tree cleared");
	if (asan_error()) { r.violation(sig + "asan", d0 + ": clearing the target afterwards: AddressSanitizer reported an invalid memory access"); return; }
	free(root);
}

// ---- context re-use (job "reuse:<fmt>"): one parser_context for two inputs in a row, the way mpt_parse_folder and the
// C++ parser class use it (only source and line are set again, mpt_parse_node/parser::read set prev).  Whatever the first
// input was and however its parse ended, the second parse must behave exactly like one with a fresh context.
static uint64_t g_reuse, g_reuse_after_fail, g_reuse_after_ok, g_reuse_events;
static void body_reuse(Run &r, Ctx &x, int fi, const std::vector<uint8_t> &tok)
{
	warmup();
	std::string first, second;
	size_t L1 = (r.tier == Thorough && (fi == 0 || fi == 1 || fi == 3 || fi == 4 || fi == 6)) ? 3 : 2;   // thorough: longer first inputs for one format per family
	uint64_t big = x.choose(3);                 // first input: short string / 300 name characters / 70000 name characters
	if (big) first.assign(big == 1 ? 300 : 70000, 'a');
	for (size_t k = 0; k < (big ? 1 : L1); ++k) { uint64_t c = x.choose(tok.size() + 1); if (!c) break; first += (char) tok[c - 1]; }
	for (size_t k = 0; k < (big == 2 ? 1 : 2); ++k) { uint64_t c = x.choose(tok.size() + 1); if (!c) break; second += (char) tok[c - 1]; }
	std::string sig = std::string("context_reuse|") + FMT[fi].family + "|" + (big ? "long-first" : "plain") + "|";
	auto d0 = [&]() { return fmt("format %s (%s), first input %s, second input %s with the same parser_context", FMT[fi].id, FMT[fi].str ? FMT[fi].str : "NULL", show((const uint8_t *) first.data(), first.size()).c_str(), show((const uint8_t *) second.data(), second.size()).c_str()); };
	++r.states; ++g_reuse;
	mpt::parser_format pf; int type = mpt::mpt_parse_format(&pf, FMT[fi].str);
	mpt::input_parser_t next = mpt::mpt_parse_next_fcn(type);
	uint8_t *in2 = (uint8_t *) malloc(second.size() ? second.size() : 1); memcpy(in2, second.data(), second.size());
	// events: re-used context against fresh context
	std::string e0, e1, e2; int r0, r1, r2;
	{
		Src s1((const uint8_t *) first.data(), first.size(), -2), s2(in2, second.size(), -2), s3(in2, second.size(), -2);
		mpt::parser_context ctx; ctx.src.getc = src_getc; ctx.src.arg = &s1; ctx.src.line = 1; ctx.prev = mpt::parser_context::Section;
		asan_error();
		r.hint((sig + "parse_config").c_str());
		r.transitions += 3;
		r0 = LIB(mpt::mpt_parse_config(next, &pf, &ctx, ev_record, &e0));
		ctx.src.arg = &s2; ctx.src.line = 1; ctx.prev = mpt::parser_context::Section;
		r1 = LIB(mpt::mpt_parse_config(next, &pf, &ctx, ev_record, &e1));
		bool asan = asan_error();
		mpt::parser_context fresh; fresh.src.getc = src_getc; fresh.src.arg = &s3; fresh.src.line = 1; fresh.prev = mpt::parser_context::Section;
		r2 = LIB(mpt::mpt_parse_config(next, &pf, &fresh, ev_record, &e2));
		if (r.replaying) r.note("%s: first -> %d %s ; second (re-used context) -> %d %s ; second (fresh context) -> %d %s", d0().c_str(), r0, e0.c_str(), r1, e1.c_str(), r2, e2.c_str());
		if (asan) { free(in2); r.violation(sig + "asan", d0() + fmt(": mpt_parse_config: first parse returned %d, the second one makes AddressSanitizer report an invalid memory access", r0)); return; }
		if (r1 != r2 || e1 != e2) { free(in2); r.violation(sig + (r0 < 0 ? "second-parse-differs-after-failure" : "second-parse-differs-after-success"), d0() + fmt(": first parse returned %d; second parse returns %d events %s, with a fresh context %d events %s", r0, r1, e1.c_str(), r2, e2.c_str())); return; }
		++(r0 < 0 ? g_reuse_after_fail : g_reuse_after_ok); if (!e1.empty()) ++g_reuse_events;
	}
	// stored values are read by mpt_parse_node (value copies): memory safety of the second parse (long first inputs; quick: only those)
	if (big || r.tier == Thorough) {
		Src s1((const uint8_t *) first.data(), first.size(), -2), s2(in2, second.size(), -2);
		mpt::parser_context ctx; ctx.src.getc = src_getc; ctx.src.arg = &s1; ctx.src.line = 1;
		ledger_housekeeping();
		size_t lbase = ledger_live();
		mpt::node *root = LIB(mpt::mpt_node_new(0));
		r.hint((sig + "parse_node").c_str());
		r.transitions += 2;
		int n0 = LIB(mpt::mpt_parse_node(root, &ctx, FMT[fi].str));
		ctx.src.arg = &s2; ctx.src.line = 1;
		int n1 = LIB(mpt::mpt_parse_node(root, &ctx, FMT[fi].str));
		bool asan = asan_error();
		LIB(mpt::mpt_node_clear(root));
		if (asan || asan_error()) { free(in2); r.violation(sig + "asan", d0() + fmt(": mpt_parse_node returned %d then %d; AddressSanitizer reported an invalid memory access", n0, n1)); return; }
		if (ledger_live() != lbase + 1) { free(in2); r.violation(sig + "leak", d0() + fmt(": %zu allocation(s) survive clearing the target", ledger_live() - lbase - 1)); free(root); return; }
		free(root);
	}
	free(in2);
}

// ---- format description sweep (job "dsc:<style>")
// For each section style every description with 0..6 comment and 0..5 escape characters (capacity 4 / 3, so up to two surplus ones).
//  (i) mpt_parse_format decodes into an exactly sized heap block: every field must be what the description says (listed characters
//      in order up to the capacity, the rest zero, defaults when a list is absent); surplus characters must not end up in any field.
//  (ii) every document over {first/last accepted comment char, first/last accepted escape char, first surplus chars, 'a', assign,
//      newline, blank} (optionally behind "a=") parses to the same result and event sequence as with a reduced description that
//      lists only the first and last accepted characters.
static const char DCOM[] = "#!&@~^", DESC[] = "`\"'|$";
static uint64_t g_dsc_desc, g_dsc_docs, g_dsc_within, g_dsc_surplus_c, g_dsc_surplus_e, g_dsc_used_c, g_dsc_used_e, g_dsc_events;
static int ev_record(void *ctx, const mpt::path *p, const mpt::value *val, int, int curr)
{
	int depth = mc::lib_depth; mc::lib_depth = 0;
	std::string &o = *(std::string *) ctx;
	o += fmt("[%d ", curr);
	if (p->len && p->base) o += show((const uint8_t *) p->base + p->off, p->len - 1);
	if (val) { const struct iovec *vec = (const struct iovec *) val->_addr; o += "="; if (vec) o += show((const uint8_t *) vec->iov_base, vec->iov_len); }
	o += "]";
	mc::lib_depth = depth;
	return 0;
}
static int parse_events(const mpt::parser_format &pf, int type, const std::string &doc, std::string &ev, bool *asan)
{
	Src src((const uint8_t *) doc.data(), doc.size(), -2);
	mpt::parser_context ctx; ctx.src.getc = src_getc; ctx.src.arg = &src; ctx.src.line = 1;
	mpt::parser_format f = pf;
	asan_error();
	int ret = LIB(mpt::mpt_parse_config(mpt::mpt_parse_next_fcn(type), &f, &ctx, ev_record, &ev));
	*asan = asan_error();
	return ret;
}
static void body_dsc(Run &r, Ctx &x, int style)
{
	warmup();
	size_t nc = x.choose(7), ne = x.choose(6);
	std::string descr = DSTYLE[style];
	descr.append(DCOM, nc);
	if (ne) { descr += " "; descr.append(DESC, ne); }
	// reference decoding
	uint8_t mcom[4] = { 0, 0, 0, 0 }, mesc[3] = { 0, 0, 0 };
	size_t ac, ae;
	if (!nc && !ne) { mcom[0] = '#'; ac = 1; } else { ac = nc < 4 ? nc : 4; memcpy(mcom, DCOM, ac); }
	if (!ne) { mesc[0] = '"'; mesc[1] = '\''; ae = 2; } else { ae = ne < 3 ? ne : 3; memcpy(mesc, DESC, ae); }
	const char *cls = nc > 4 ? "surplus-comment" : (ne > 3 ? "surplus-escape" : "within-capacity");
	std::string sig = std::string("parse_format|") + DSTYLE_ID[style] + "|" + cls + "|";
	std::string d0 = fmt("format description %s (%zu comment, %zu escape characters)", show((const uint8_t *) descr.data(), descr.size()).c_str(), nc, ne);
	// (i) decode into an exactly sized block
	mpt::parser_format *pf = (mpt::parser_format *) malloc(sizeof(mpt::parser_format));
	memset(pf, 0x5A, sizeof *pf);
	char *dcopy = (char *) malloc(descr.size() + 1); memcpy(dcopy, descr.c_str(), descr.size() + 1);
	asan_error();
	r.hint((sig + "decode").c_str());
	++r.transitions;
	int type = LIB(mpt::mpt_parse_format(pf, dcopy));
	bool asan = asan_error();
	mpt::parser_format got = *pf;
	free(pf); free(dcopy);
	if (r.replaying) r.note("%s -> type '%c', sstart %02x send %02x ostart %02x assign %02x oend %02x esc %s com %s", d0.c_str(), type, got.sstart, got.send, got.ostart, got.assign, got.oend, hex(got.esc, 3).c_str(), hex(got.com, 4).c_str());
	if (asan) { r.violation(sig + "asan", d0 + ": mpt_parse_format accesses memory outside the description / the format structure"); return; }
	auto ch = [](char c) { return (uint8_t) (isspace((unsigned char) c) ? 0 : c); };
	if (type != DSTYLE[style][1] || got.sstart != ch(DSTYLE[style][0]) || got.send != ch(DSTYLE[style][2]) || got.ostart != ch(DSTYLE[style][3]) || got.assign != ch(DSTYLE[style][4]) || got.oend != ch(DSTYLE[style][5])) {
		r.violation(sig + "wrong-delimiters", d0 + ": section/option delimiters are not the described ones"); return; }
	if (memcmp(got.com, mcom, 4)) { r.violation(sig + "wrong-comment-chars", d0 + ": comment characters are " + hex(got.com, 4) + ", the description lists " + hex(mcom, 4) + " (first four, zero padded; '#' when no list is given)"); return; }
	if (memcmp(got.esc, mesc, 3)) { r.violation(sig + "wrong-escape-chars", d0 + ": escape characters are " + hex(got.esc, 3) + ", the description lists " + hex(mesc, 3) + " (first three, zero padded; \" ' when no list is given)"); return; }
	// (ii) documents: same events as with the reduced description
	std::vector<uint8_t> tok;
	auto add = [&](uint8_t c) { if (c && std::find(tok.begin(), tok.end(), c) == tok.end()) tok.push_back(c); };
	if (ac) { add(mcom[0]); add(mcom[ac - 1]); }
	add(mesc[0]); add(mesc[ae - 1]);
	if (nc > 4) add(DCOM[4]);
	if (ne > 3) add(DESC[3]);
	add('a'); add('='); add('\n'); add(' ');
	std::string doc = x.choose(2) ? "a=" : "";
	size_t L = r.tier == Quick ? 3 : 4;
	bool usedc = false, usede = false;
	for (size_t k = 0; k < L; ++k) { uint64_t c = x.choose(tok.size() + 1); if (!c) break; uint8_t t = tok[c - 1]; doc += (char) t; if (ac && (t == mcom[0] || t == mcom[ac - 1])) usedc = true; if (t == mesc[0] || t == mesc[ae - 1]) usede = true; }
	++r.states;
	if (doc.empty()) { ++g_dsc_desc; if (nc > 4) ++g_dsc_surplus_c; else if (ne > 3) ++g_dsc_surplus_e; else ++g_dsc_within; if (nc == 6 && ne == 5) r.sample("format description sweep: " + d0); }
	std::string rdesc = DSTYLE[style];
	if (ac) { rdesc += (char) mcom[0]; if (mcom[ac - 1] != mcom[0]) rdesc += (char) mcom[ac - 1]; }
	rdesc += " "; rdesc += (char) mesc[0]; if (mesc[ae - 1] != mesc[0]) rdesc += (char) mesc[ae - 1];
	mpt::parser_format rf; int rtype = mpt::mpt_parse_format(&rf, rdesc.c_str());
	std::string ev1, ev2; bool a1 = false, a2 = false;
	r.hint((sig + "documents").c_str());
	r.transitions += 2;
	int r1 = parse_events(got, type, doc, ev1, &a1), r2 = parse_events(rf, rtype, doc, ev2, &a2);
	++g_dsc_docs; if (usedc) ++g_dsc_used_c; if (usede) ++g_dsc_used_e; if (!ev1.empty()) ++g_dsc_events;
	std::string d1 = d0 + ", document " + show((const uint8_t *) doc.data(), doc.size());
	if (r.replaying) r.note("document %s: described format -> %d %s ; reduced description %s -> %d %s", show((const uint8_t *) doc.data(), doc.size()).c_str(), r1, ev1.c_str(), show((const uint8_t *) rdesc.data(), rdesc.size()).c_str(), r2, ev2.c_str());
	if (a1 || a2) { r.violation(sig + "asan", d1 + ": AddressSanitizer reported an invalid memory access while parsing"); return; }
	if (r1 != r2 || ev1 != ev2) r.violation(sig + "document-parses-differently", d1 + fmt(": result %d events %s, but with the description %s that lists only the first/last accepted comment and escape characters: result %d events %s", r1, ev1.c_str(), show((const uint8_t *) rdesc.data(), rdesc.size()).c_str(), r2, ev2.c_str()));
}

struct Job { std::string kind; int fi, ni, L, first; std::vector<uint8_t> tok; };
static Job parse_job(Run &r, const std::string &job)
{
	Job j; j.fi = j.ni = j.L = 0; j.first = -1;
	size_t p = job.find(':'); j.kind = job.substr(0, p);
	std::vector<std::string> a; size_t from = p + 1;
	while (from <= job.size()) { size_t q = job.find(':', from); if (q == std::string::npos) q = job.size(); a.push_back(job.substr(from, q - from)); from = q + 1; }
	j.fi = atoi(a[0].c_str());
	if (a.size() > 1) j.ni = atoi(a[1].c_str());
	if (a.size() > 2) j.L = atoi(a[2].c_str());
	if (a.size() > 3 && a[3] != "-") j.first = atoi(a[3].c_str());
	alphabet(j.fi, r.tier, j.tok);
	return j;
}
static void body(Run &r, Ctx &x, const Job &j)
{
	if (j.kind == "str" || j.kind == "err") {
		uint8_t buf[16]; size_t n = 0;
		if (j.kind == "err") { while (n < 3) { uint64_t c = x.choose(j.tok.size() + 1); if (!c) break; buf[n++] = j.tok[c - 1]; } }
		else if (j.first >= 0) {
			buf[n++] = j.tok[j.first];
			while ((int) n < j.L) { uint64_t c = x.choose(j.tok.size() + 1); if (!c) break; buf[n++] = j.tok[c - 1]; }
		}
		// exactly sized copy: nothing behind the input is readable
		uint8_t *in = (uint8_t *) malloc(n ? n : 1); memcpy(in, buf, n);
		Case c = { j.fi, j.ni, in, n, "plain", j.kind == "err" ? -1 : -2, false };
		if (n == 4 && j.first == 0 && j.ni == 0 && buf[1] == 'a') r.sample(fmt("format %s flags %s input %s", FMT[j.fi].id, FLG[j.ni].id, show(in, n).c_str()));
		run_case(r, c);
		free(in);
	}
	else if (j.kind == "long") body_long(r, x, j.fi, j.ni);
	else if (j.kind == "pad") body_pad(r, x, j.fi, j.ni, j.tok);
	else if (j.kind == "dsc") body_dsc(r, x, j.fi);
	else if (j.kind == "deep") body_deep(r, x, j.fi);
	else if (j.kind == "dlen") body_dlen(r, x);
	else if (j.kind == "reuse") body_reuse(r, x, j.fi, j.tok);
	else body_mut(r, x, j.fi, j.ni, j.tok);
}
static const char *required[] = {
	"nontrivial", "cfg:success", "cfg:failure", "cfg:success with events", "cfg:failure after events", "cfg:success, nesting depth>=2", "cfg:failure before end of input",
	"event:Section", "event:SectEnd", "event:Option", "event:Option|Data", "event:Data", "cfg:handler failure injected",
	"getc:end of input reached", "getc:stopped before end of input", "readerror:refused", "example:success", "example:failure",
	"node:failure, empty-root", "node:failure, nested-root", "node:failure, flat-root", "node:success, nested-root", "node:success with new elements, nested-root", "node:success with new elements, flat-root",
	"input:odd number of quote characters", "mut:seed document accepted", "mut:2 mutation(s)",
	"long:section name ~256", "long:option name ~256", "long:value ~256", "long:quoted value ~65536", "long:section name ~65536", "long:option name ~65536", "long:value ~65536", "long:comment ~65536", "long:anonymous value ~65536",
	"long:accepted", "long:refused", "pad:buffer fill sweep cases",
	"dsc:descriptions within capacity", "dsc:descriptions with surplus comment characters", "dsc:descriptions with surplus escape characters",
	"dlen:descriptions shorter than two characters", "dlen:longer prefixes", "dlen:parse accepted",
	"deep:cases", "deep:failed parse releases a deep temporary tree", "deep:successful parse, deep tree cleared", "deep:target holds the same deep document",
	"reuse:second parse after a failed one", "reuse:second parse after a successful one", "reuse:second parse with events",
	"dsc:documents compared", "dsc:documents using a first/last comment character", "dsc:documents using a first/last escape character", "dsc:documents with events",
	"cfg:success, family pre", "cfg:success, family sep", "cfg:success, family enc", "cfg:success, family opt" };
static void flush_counters(Run &r)
{
	for (int i = 0; i < NCN; ++i) if (g_cn[i]) { r.count(CNAME[i], g_cn[i]); g_cn[i] = 0; }
	for (int i = 0; i < NFMT; ++i) if (g_ok_by_fmt[i]) { r.count(std::string("cfg:success, family ") + FMT[i].family, g_ok_by_fmt[i]); r.count(std::string("cfg:success, format ") + FMT[i].id, g_ok_by_fmt[i]); g_ok_by_fmt[i] = 0; }
	for (int p = 0; p < NPOS; ++p) for (int k = 0; k < 2; ++k) if (g_long[p][k]) { r.count(std::string("long:") + POSN[p] + (k ? " ~65536" : " ~256"), g_long[p][k]); g_long[p][k] = 0; }
	for (int k = 0; k < 3; ++k) if (g_mut[k]) { r.count(fmt("mut:%d mutation(s)", k), g_mut[k]); g_mut[k] = 0; }
	if (g_pad) r.count("pad:buffer fill sweep cases", g_pad); g_pad = 0;
	{ uint64_t *v[] = { &g_reuse_after_fail, &g_reuse_after_ok, &g_reuse_events };
	  const char *n[] = { "reuse:second parse after a failed one", "reuse:second parse after a successful one", "reuse:second parse with events" };
	  for (int i = 0; i < 3; ++i) if (*v[i]) { r.count(n[i], *v[i]); *v[i] = 0; } }
	{ uint64_t *v[] = { &g_dsc_within, &g_dsc_surplus_c, &g_dsc_surplus_e, &g_dsc_docs, &g_dsc_used_c, &g_dsc_used_e, &g_dsc_events };
	  const char *n[] = { "dsc:descriptions within capacity", "dsc:descriptions with surplus comment characters", "dsc:descriptions with surplus escape characters", "dsc:documents compared", "dsc:documents using a first/last comment character", "dsc:documents using a first/last escape character", "dsc:documents with events" };
	  for (int i = 0; i < 7; ++i) if (*v[i]) { r.count(n[i], *v[i]); *v[i] = 0; } }
	if (g_seed_ok) r.count("mut:seed document accepted", g_seed_ok); g_seed_ok = 0;
	if (g_seed_refused) r.count("mut:seed document refused (not flagged)", g_seed_refused); g_seed_refused = 0;
}
void mc_explore(Run &r, const std::string &job)
{
	for (const char *k : required) r.require(k);
	g_run = &r;
	Job j = parse_job(r, job);
	struct timespec t0, t1; clock_gettime(CLOCK_MONOTONIC, &t0);
	dfs(r, [&](Ctx &x) { body(r, x, j); });
	flush_counters(r);
	clock_gettime(CLOCK_MONOTONIC, &t1);
	if (getenv("C08_TIME")) fprintf(stderr, "TIME %s %.2f s, %llu cases, %llu parses\n", job.c_str(), (t1.tv_sec - t0.tv_sec) + 1e-9 * (t1.tv_nsec - t0.tv_nsec), (unsigned long long) r.states, (unsigned long long) r.transitions);
}
void mc_replay(Run &r, const std::string &job, const Vec &v)
{
	g_run = &r;
	Job j = parse_job(r, job);
	dfs_replay(r, [&](Ctx &x) { body(r, x, j); }, v);
}

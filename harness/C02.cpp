// C02 — message stream integrity under arbitrary segmentation.
// Explicit-state search on snapshots of the real queues.  The pipeline sender -> wire -> receiver
// has no feedback, so it is explored in two exact phases per (framing, message sequence):
//   phase 1: all interleavings of push(1|2|rest) / end / flush(1|all) / grow on the real
//            encode_queue for every initial (capacity, offset, resizable?) -> set of distinct wire streams
//   phase 2: for every distinct wire stream and every initial receiver (capacity, offset): all
//            interleavings of deliver(1 | through next code byte | through next delimiter | all) /
//            recv (mpt_queue_recv + mpt_message_get) / grow (mpt_queue_prepare, only after MissingBuffer)
// Oracles: received messages are always a prefix of the sent ones; a state in which the whole wire
// stream has been delivered, recv makes no further progress and no buffer request is open must have
// received everything (no stall on complete data); ASan; no abort; calls return.
#include <cstdlib>
#include <algorithm>
#include <unistd.h>
#include <fcntl.h>
#include <sys/uio.h>
#include <unordered_map>
#include "queue.h"
#include "convert.h"
#include "message.h"
#include "stream.h"
#include "event.h"
#include "connection.h"
#include "notify.h"
#include <poll.h>
#include <sys/syscall.h>
#include <errno.h>
#include "mc.hpp"
#include "refcodec.hpp"

using namespace mc;
using namespace mpt;
using ref::Bytes;
const char *mc_id = "C02";
const char *mc_rule = "snapshot BFS on the real encode_queue / decode_queue: message sequences x sender interleavings (push/end/flush/grow) x wire segmentations x receiver interleavings (deliver/recv/grow) x initial (capacity, offset) x 4 COBS framings; "
                      "nontrivial = distinct receiver states reached with wrapped ring content, a MissingBuffer retry, or a delivery cut directly behind a code byte or delimiter";

static data_encoder_t encoders[] = { mpt_encode_cobs, mpt_encode_cobs_r, mpt_encode_cobs_zpe, mpt_encode_cobs_zpe_r };
static data_decoder_t decoders[] = { mpt_decode_cobs, mpt_decode_cobs_r, mpt_decode_cobs_zpe, mpt_decode_cobs_zpe_r };

// ---------------------------------------------------------------- messages
static std::vector<Bytes> alphabet(Tier t)
{
	std::vector<Bytes> m;
	m.push_back(Bytes{});
	m.push_back(Bytes{0});
	m.push_back(Bytes{'a'});
	m.push_back(Bytes{'a', 0});
	m.push_back(Bytes{'a', 0, 0, 'b'});    // zero pair behind data (ZPE pair code)
	m.push_back(Bytes(30, 'a'));
	m.push_back(Bytes(33, 0));
	{	// > 256 decoded bytes without a slack-gaining full block, then a zero pair: the decoder must ask for
		// buffer space with a long partial message (relocation path of mpt_queue_recv)
		Bytes big(200, 'c'); big.push_back(0); big.insert(big.end(), 50, 'c'); big.push_back(0); big.insert(big.end(), 10, 'c');
		big.push_back('a'); big.push_back(0); big.push_back(0); big.push_back('b'); m.push_back(big); }
	if (t == Thorough) { m.push_back(Bytes(254, 'c')); m.push_back(Bytes(300, 'd')); }
	if (t == Thorough) { Bytes p(31, 'a'); p.push_back(0); p.push_back(0); p.push_back('b'); m.push_back(p); }   // zero pair at the ZPE pair-code limit (31 data bytes)
	return m;
}
static void sequences(Tier t, std::vector<std::vector<int>> &seqs)
{
	int n = (int) alphabet(t).size();
	for (int a = 0; a < n; ++a) if (t == Thorough || a != 6) seqs.push_back({a});
	for (int a = 0; a < 5; ++a) for (int b = 0; b < 5; ++b) seqs.push_back({a, b});
	if (t == Thorough) {
		for (int a = 0; a < 6; ++a) { if (a != 5) { seqs.push_back({a, 5}); seqs.push_back({5, a}); } }
		seqs.push_back({5, 5});
		for (int a = 0; a < 4; ++a) for (int b = 0; b < 4; ++b) for (int c = 0; c < 4; ++c) seqs.push_back({a, b, c});
		for (int a : {6, 7, 8, 9, 10}) for (int b : {1, 3}) { seqs.push_back({a, b}); seqs.push_back({b, a}); }
	}
}

// ---------------------------------------------------------------- snapshots
struct Ring { Bytes mem; size_t off, len; };
struct SState {                 // sender
	Ring q; uintptr_t ctx; size_t done, scratch;
	uint32_t mi, mo; bool resizable, want_grow;
	Bytes wire;
	std::string key() const { std::string k((const char *) q.mem.data(), q.mem.size()); k += fmt("|%zu,%zu,%zu|%lu,%zu,%zu|%u,%u,%d|", q.mem.size(), q.off, q.len, (unsigned long) ctx, done, scratch, mi, mo, (int) want_grow); k.append((const char *) wire.data(), wire.size()); return k; }
};
struct RState {                 // receiver
	Ring q; uintptr_t ctx; size_t curr, pos, dlen; ssize_t msg;
	uint32_t wpos, got; bool want_grow, stuck;   // stuck: last recv changed nothing
	std::string key() const { std::string k((const char *) q.mem.data(), q.mem.size()); k += fmt("|%zu,%zu,%zu|%lu,%zu,%zu,%zu,%zd|%u,%u,%d,%d", q.mem.size(), q.off, q.len, (unsigned long) ctx, curr, pos, dlen, msg, wpos, got, (int) want_grow, (int) stuck); return k; }
};
static void load(queue &q, const Ring &r) { q.max = r.mem.size(); q.base = q.max ? malloc(q.max) : 0; if (q.max) memcpy(q.base, r.mem.data(), q.max); q.off = r.off; q.len = r.len; }
static void store(Ring &r, queue &q) { r.mem.assign((uint8_t *) q.base, (uint8_t *) q.base + q.max); r.off = q.off; r.len = q.len; free(q.base); q.base = 0; q.max = q.len = q.off = 0; }

struct Counters { uint64_t sstates, strans, rstates, rtrans, wires, nontrivial, wrapped, retries, cut_after_code, stalls_checked; };
enum { S_PUSH1, S_PUSH2, S_PUSHR, S_END, S_FLUSH1, S_FLUSHA, S_GROW, S_N };
static const char *sname[] = {"push1", "push2", "pushrest", "end", "flush1", "flushall", "grow"};
enum { R_DEL1, R_DELCODE, R_DELDELIM, R_DELALL, R_RECV, R_GROW, R_PEEK, R_N };
static const char *rname[] = {"deliver1", "deliver-through-code-byte", "deliver-through-delimiter", "deliver-all", "recv", "grow", "peek"};

struct Ctxt { Run &r; Counters &c; int f; std::vector<Bytes> msgs; std::string sc; };

// one sender action on a copy of the state; returns false if not enabled / no change
static bool sender_step(Ctxt &cx, SState &s, int a, std::string &viol)
{
	const Bytes *cur = s.mi < cx.msgs.size() ? &cx.msgs[s.mi] : 0;
	size_t rest = cur ? cur->size() - s.mo : 0;
	if (a <= S_PUSHR) {
		if (!cur || !rest || s.want_grow) return false;
		size_t k = a == S_PUSH1 ? 1 : (a == S_PUSH2 ? 2 : rest);
		if (k > rest || (a == S_PUSHR && rest <= 2)) return false;
		if (a == S_PUSH1 && rest > 3 && s.mo > 1) return false;      // byte-wise only at the start and the end of long messages
	} else if (a == S_END) { if (!cur || rest || s.want_grow) return false; }
	else if (a == S_FLUSH1 || a == S_FLUSHA) { if (!s.done || (a == S_FLUSH1 && s.done < 2)) return false; }
	else if (a == S_GROW) { if (!s.want_grow || !s.resizable) return false; }
	encode_queue eq(encoders[cx.f]);
	load(eq, s.q); eq._state._ctx = s.ctx; eq._state.done = s.done; eq._state.scratch = s.scratch;
	cx.r.hint((cx.sc + "|sender|" + sname[a]).c_str());
	bool changed = true;
	if (a <= S_PUSHR) {
		size_t k = a == S_PUSH1 ? 1 : (a == S_PUSH2 ? 2 : rest);
		uint8_t *src = (uint8_t *) malloc(k); memcpy(src, cur->data() + s.mo, k);
		ssize_t ret = LIB(mpt_queue_push(&eq, k, src));
		free(src);
		if (ret == MissingBuffer) s.want_grow = true;
		else if (ret < 0) viol = fmt("mpt_queue_push(%zu bytes) returned %zd", k, ret);
		else if ((size_t) ret > k) viol = fmt("mpt_queue_push claims %zd of %zu bytes", ret, k);
		else { s.mo += ret; if (!ret) s.want_grow = true; }
	} else if (a == S_END) {
		ssize_t ret = LIB(mpt_queue_push(&eq, 0, 0));
		if (ret == MissingBuffer) s.want_grow = true;
		else if (ret < 0) viol = fmt("frame termination returned %zd", ret);
		else { ++s.mi; s.mo = 0; }
	} else if (a == S_FLUSH1 || a == S_FLUSHA) {
		size_t k = a == S_FLUSH1 ? (eq._state.done <= 4 ? 1 : eq._state.done / 2) : eq._state.done;
		Bytes tmp(k);
		if (LIB(mpt_queue_get(&eq, 0, k, tmp.data())) < 0) viol = "finished bytes cannot be read from the queue";
		else { s.wire.insert(s.wire.end(), tmp.begin(), tmp.end()); LIB(mpt_queue_crop(&eq, 0, k)); eq._state.done -= k; s.want_grow = false; }
	} else {
		if (!LIB(mpt_queue_prepare(&eq, 8))) changed = false;
		s.want_grow = false;
	}
	if (eq.len > eq.max || (eq.max && eq.off > eq.max) || eq._state.done + eq._state.scratch > eq.len) if (viol.empty()) viol = fmt("inconsistent queue after %s: max=%zu off=%zu len=%zu done=%zu scratch=%zu", sname[a], eq.max, eq.off, eq.len, eq._state.done, eq._state.scratch);
	s.ctx = eq._state._ctx; s.done = eq._state.done; s.scratch = eq._state.scratch;
	eq._state._ctx = 0; eq._state.done = eq._state.scratch = 0;
	store(s.q, eq);
	if (asan_error() && viol.empty()) viol = std::string("AddressSanitizer report in ") + sname[a];
	return changed;
}

static int g_pipe[2] = {-1, -1};
// wire structure: for each byte position, is it a code byte / delimiter (reference parse of well-formed stream)
static void wire_marks(int f, const Bytes &w, std::vector<uint8_t> &mark)
{
	mark.assign(w.size(), 0);
	bool zpe = f == ref::ZPE || f == ref::ZPE_R;
	size_t i = 0;
	while (i < w.size()) {
		if (!w[i]) { mark[i] = 2; ++i; continue; }
		mark[i] = 1;
		unsigned c = w[i], nd = (zpe && c >= 0xE0) ? c - 0xE0 : c - 1;
		++i;
		for (unsigned k = 0; k < nd && i < w.size() && w[i]; ++k) ++i;
	}
}

static bool receiver_step(Ctxt &cx, RState &s, int a, const Bytes &wire, const std::vector<uint8_t> &mark, const std::vector<Bytes> &sent, std::string &viol, bool &cut_after_code)
{
	size_t avail = wire.size() - s.wpos;
	size_t k = 0;
	if (a <= R_DELALL) {
		if (!avail) return false;
		size_t freeb = s.q.mem.size() - s.q.len;
		if (!freeb) freeb = 8;                                   // a full input queue is enlarged first, as mpt_stream_poll does
		if (a == R_DEL1) {
			// byte-wise delivery around every code byte / delimiter (2 behind .. 1 ahead) and at the stream end;
			// inside long plain data runs only the jump to the next code byte is offered
			size_t p = s.wpos; bool near = p + 2 >= wire.size() || mark[p] || mark[p + 1] || (p > 0 && mark[p - 1]) || (p > 1 && mark[p - 2]);
			if (!near) return false;
			k = 1;
		}
		else if (a == R_DELALL) k = avail;
		else { size_t j = s.wpos; int want = a == R_DELCODE ? 1 : 2; while (j < wire.size() && mark[j] != want) ++j; if (j >= wire.size()) return false; k = j - s.wpos + 1; }
		if (k > freeb) k = freeb;
		if (a != R_DEL1 && k == 1) return false;                  // same as deliver1
		if (a == R_DELALL && false) return false;
	} else if (a == R_RECV) { if (s.want_grow) return false; }
	else if (a == R_GROW) { if (!s.want_grow) return false; }
	else if (a == R_PEEK) { if (s.want_grow || s.msg >= 0 || !s.q.len) return false; }
	decode_queue dq(decoders[cx.f]);
	load(dq, s.q); dq._state._ctx = s.ctx; dq._state.curr = s.curr; dq._state.data.pos = s.pos; dq._state.data.len = s.dlen; dq._state.data.msg = s.msg;
	cx.r.hint((cx.sc + "|receiver|" + rname[a]).c_str());
	if (a <= R_DELALL) {
		// the poll path: shift consumed data, then load from the descriptor
		LIB((mpt_queue_shift(&dq), 0));
		if (dq.len == dq.max && !LIB(mpt_queue_prepare(&dq, 8))) viol = "mpt_queue_prepare failed";
		size_t freeb = dq.max - dq.len; if (k > freeb) k = freeb;
		if (k) {
			if (write(g_pipe[1], wire.data() + s.wpos, k) != (ssize_t) k) viol = "harness pipe write failed";
			ssize_t got = LIB(mpt_queue_load(&dq, g_pipe[0], k));
			if (got != (ssize_t) k && viol.empty()) viol = fmt("mpt_queue_load returned %zd for %zu available bytes", got, k);
			s.wpos += k; s.stuck = false;
			cut_after_code = mark[s.wpos - 1] != 0;
		}
	} else if (a == R_RECV) {
		RState before = s;
		int ret = LIB(mpt_queue_recv(&dq));
		if (ret == MissingBuffer) s.want_grow = true;
		else if (ret == MissingData && !dq.len) { /* empty queue */ }
		else if (ret < 0) viol = fmt("mpt_queue_recv reports error %d on a well-formed stream", ret);
		else if (ret > 0) {
			message m; struct iovec cont;
			if (dq._state.data.msg < 0) viol = "recv returned 1 without a message";
			else if (mpt_message_get(&dq, dq._state.data.pos, dq._state.data.msg, &m, &cont) < 0) viol = "delivered message range is not inside the queue content";
			else {
				Bytes gotm((uint8_t *) m.base, (uint8_t *) m.base + m.used);
				if (m.clen) gotm.insert(gotm.end(), (uint8_t *) cont.iov_base, (uint8_t *) cont.iov_base + cont.iov_len);
				if (s.got >= sent.size()) viol = "extra message {" + ref::hexs(gotm) + "} after all sent messages were received (duplicate or invented)";
				else if (gotm != sent[s.got]) viol = fmt("message %u is {", s.got) + ref::hexs(gotm) + "}, sent {" + ref::hexs(sent[s.got]) + "}";
				else ++s.got;
			}
		}
		(void) before;
	} else if (a == R_PEEK) {
		// mpt_queue_peek: decode the first block of the message in progress, report the decoded part
		const size_t room = 48;
		uint8_t *dst = (uint8_t *) malloc(room); memset(dst, 0x5A, room);
		ssize_t n = LIB(mpt_queue_peek(&dq, room, dst));
		if (n > 0) {
			if (s.got >= sent.size()) viol = fmt("peek reports %zd decoded bytes although every sent message was already received", n);
			else if ((size_t) n > sent[s.got].size()) viol = fmt("peek reports %zd decoded bytes of a %zu byte message", n, sent[s.got].size());
			else {
				// the reported bytes (up to the room offered) are delivered, nothing behind them is written
				size_t k = (size_t) n < room ? (size_t) n : room, w = room;
				while (w > k && dst[w - 1] == 0x5A) --w;
				if (w > k) viol = fmt("peek wrote %zu bytes but reports %zd", w, n);
				else if (memcmp(dst, sent[s.got].data(), k)) viol = fmt("peek reports %zd decoded bytes but delivers {", n) + hex(dst, k) + "}, the message in transit is {" + ref::hexs(sent[s.got]) + "}";
			}
		}
		free(dst);
	} else {
		if (!LIB(mpt_queue_prepare(&dq, 8))) viol = "mpt_queue_prepare failed";
		s.want_grow = false;
		if (dq.max > 4 * (wire.size() + 64) && viol.empty()) viol = fmt("LIVELOCK: receiver keeps asking for buffer space (capacity %zu for a %zu byte stream)", dq.max, wire.size());
	}
	if (viol.empty() && (dq.len > dq.max || (dq.max && dq.off > dq.max))) viol = fmt("inconsistent receive queue after %s: max=%zu off=%zu len=%zu", rname[a], dq.max, dq.off, dq.len);
	s.ctx = dq._state._ctx; s.curr = dq._state.curr; s.pos = dq._state.data.pos; s.dlen = dq._state.data.len; s.msg = dq._state.data.msg;
	dq._state._ctx = 0;
	store(s.q, dq);
	if (asan_error() && viol.empty()) viol = std::string("AddressSanitizer report in ") + rname[a];
	return true;
}

struct Geo { size_t max, off; };
static std::vector<Geo> geometries(Tier t, bool sender)
{
	std::vector<Geo> g;
	std::vector<size_t> maxes = t == Quick ? std::vector<size_t>{8, 16} : std::vector<size_t>{8, 12, 16, 24};
	if (sender && t == Thorough) maxes.push_back(40);
	for (size_t m : maxes) for (size_t o : {(size_t) 0, (size_t) 1, m - 3, m - 1}) g.push_back(Geo{m, o});
	return g;
}

// phase 1 + 2 for one (framing, sequence); if `rep` is given only that path is executed verbosely
static void explore(Run &r, Counters &c, int f, const std::vector<int> &seq, const Vec *rep)
{
	Ctxt cx{r, c, f, {}, ref::framing_name[f]};
	std::vector<Bytes> alpha = alphabet(r.tier);
	for (int i : seq) cx.msgs.push_back(alpha[i]);
	size_t total = 0; for (auto &m : cx.msgs) total += m.size();
	if (g_pipe[0] < 0) { if (pipe(g_pipe) < 0) return; fcntl(g_pipe[0], F_SETFL, O_NONBLOCK); }
	asan_error();

	std::vector<Geo> sg = geometries(r.tier, true), rg = geometries(r.tier, false);
	if (total > 64) sg.resize(r.tier == Quick ? 2 : 4);    // long messages: the receiver is the subject, keep the sender part small

	if (rep) {
		// vec = [sgi, resizable, sender actions..., 99, rgi, receiver actions...]
		const Vec &v = *rep; size_t i = 0;
		if (v.size() < 3) return;
		SState s{}; s.q.mem.assign(sg[v[0]].max, 0xEE); s.q.off = sg[v[0]].off; s.resizable = v[1] != 0; i = 2;
		r.note("sender geometry max=%zu off=%zu %s", sg[v[0]].max, sg[v[0]].off, s.resizable ? "resizable" : "fixed");
		std::string viol;
		for (; i < v.size() && v[i] != 99; ++i) {
			if (v[i] == 98) { for (int a = 0; a < S_N; ++a) { SState t = s; std::string vv; r.note("trying sender %s", sname[a]); sender_step(cx, t, a, vv); if (!vv.empty()) r.violation(cx.sc + "|sender|" + (vv.find("Sanitizer") != std::string::npos ? "memory" : "wrong-result"), vv); } return; }
			bool ok = sender_step(cx, s, (int) v[i], viol);
			r.note("sender %s%s -> ring(max=%zu,off=%zu,len=%zu) done=%zu scratch=%zu msg=%u+%u wire={%s}", sname[v[i]], ok ? "" : " (not enabled)", s.q.mem.size(), s.q.off, s.q.len, s.done, s.scratch, s.mi, s.mo, ref::hexs(s.wire).c_str());
			if (!viol.empty()) { r.violation(cx.sc + "|sender|" + (viol.find("Sanitizer") != std::string::npos ? "memory" : "wrong-result"), viol); return; }
		}
		if (i >= v.size()) {
			// sender-only case: final wire check
			if (s.mi == cx.msgs.size() && !s.done) {
				Bytes got; size_t p = 0, k = 0; bool bad = false;
				while (p < s.wire.size() && !bad) { size_t nx; if (ref::decode((ref::Framing) f, s.wire, p, got, nx) != ref::Ok || k >= cx.msgs.size() || got != cx.msgs[k]) bad = true; else { ++k; p = nx; } }
				if (bad || k != cx.msgs.size()) r.violation(cx.sc + "|sender|wire-stream", "wire stream {" + ref::hexs(s.wire) + "} does not carry the sent messages");
			}
			return;
		}
		++i; if (i >= v.size()) return;
		std::vector<uint8_t> mark; wire_marks(f, s.wire, mark);
		RState q{}; q.q.mem.assign(rg[v[i]].max, 0xEE); q.q.off = rg[v[i]].off; q.msg = -1;
		r.note("receiver geometry max=%zu off=%zu, wire {%s}", rg[v[i]].max, rg[v[i]].off, ref::hexs(s.wire).c_str());
		for (++i; i < v.size(); ++i) {
			if (v[i] == 98) { for (int a = 0; a < R_N; ++a) { RState t = q; std::string vv; bool cc = false; r.note("trying receiver %s", rname[a]); receiver_step(cx, t, a, s.wire, mark, cx.msgs, vv, cc); if (!vv.empty()) r.violation(cx.sc + "|receiver|" + (vv.find("Sanitizer") != std::string::npos ? "memory" : "wrong-result"), vv); } return; }
			bool cac = false; RState prev = q;
			bool ok = receiver_step(cx, q, (int) v[i], s.wire, mark, cx.msgs, viol, cac);
			r.note("receiver %s%s -> ring(max=%zu,off=%zu,len=%zu) curr=%zu pos=%zu len=%zu msg=%zd wpos=%u got=%u%s", rname[v[i]], ok ? "" : " (not enabled)", q.q.mem.size(), q.q.off, q.q.len, q.curr, q.pos, q.dlen, q.msg, q.wpos, q.got, q.want_grow ? " wants-buffer" : "");
			if (!viol.empty()) { r.violation(cx.sc + "|receiver|" + (viol.find("Sanitizer") != std::string::npos ? "memory" : (viol.find("LIVELOCK") != std::string::npos ? "buffer-livelock" : "wrong-result")), viol); return; }
			if (v[i] == R_RECV && q.key() == prev.key() && q.wpos == s.wire.size() && !q.want_grow && q.got < cx.msgs.size())
				r.violation(cx.sc + "|receiver|stall", fmt("all %zu wire bytes delivered, recv makes no progress, no buffer request open, but only %u of %zu messages received", s.wire.size(), q.got, cx.msgs.size()));
		}
		return;
	}

	// ---- phase 1: sender
	std::map<Bytes, Vec> wires;         // distinct complete wire streams -> first sender path
	for (size_t gi = 0; gi < sg.size(); ++gi) for (int resz = 0; resz < 2; ++resz) {
		struct Node { SState s; int parent; int act; };
		std::vector<Node> nodes; std::unordered_map<std::string, int> seen;
		SState s0{}; s0.q.mem.assign(sg[gi].max, 0xEE); s0.q.off = sg[gi].off; s0.resizable = resz;
		nodes.push_back(Node{s0, -1, -1}); seen[s0.key()] = 0; ++c.sstates;
		auto path = [&](int n, int extra) { Vec v{gi, (uint64_t) resz}; std::vector<int> acts; for (int k = n; nodes[k].parent >= 0; k = nodes[k].parent) acts.push_back(nodes[k].act); for (size_t i = acts.size(); i-- > 0;) v.push_back(acts[i]); if (extra >= 0) v.push_back(extra); return v; };
		for (size_t n = 0; n < nodes.size(); ++n) {
			if (r.expired()) return;
			bool any = false;
			// fault attribution: path to this node + 98 ("then every enabled action")
			if (!r.enter(path((int) n, 98), "")) continue;
			for (int a = 0; a < S_N; ++a) {
				SState s = nodes[n].s; std::string viol;
				if (!sender_step(cx, s, a, viol)) continue;
				++c.strans;
				if (!viol.empty()) { Vec pv = path((int) n, a); r.violation_at(cx.sc + "|sender|" + (viol.find("Sanitizer") != std::string::npos ? "memory" : "wrong-result"), pv, fmt("msgs=%zu geometry(max=%zu,off=%zu,%s) after %zu actions: ", cx.msgs.size(), sg[gi].max, sg[gi].off, resz ? "resizable" : "fixed", pv.size() - 2) + viol); continue; }
				std::string k = s.key();
				if (k == nodes[n].s.key()) continue;
				any = true;
				auto it = seen.find(k);
				if (it != seen.end()) continue;
				seen[k] = (int) nodes.size(); nodes.push_back(Node{s, (int) n, a}); ++c.sstates;
				if (s.mi == cx.msgs.size() && !s.done && !s.q.len) {
					// complete: wire stream must carry exactly the sent messages
					Bytes got; size_t p = 0, kk = 0; bool bad = false;
					while (p < s.wire.size() && !bad) { size_t nx; if (ref::decode((ref::Framing) f, s.wire, p, got, nx) != ref::Ok || kk >= cx.msgs.size() || got != cx.msgs[kk]) bad = true; else { ++kk; p = nx; } }
					Vec fv = path((int) nodes.size() - 1, -1);
					if (bad || kk != cx.msgs.size()) r.violation_at(cx.sc + "|sender|wire-stream", fv, "wire stream {" + ref::hexs(s.wire) + "} does not carry the sent messages");
					else if (!wires.count(s.wire)) wires[s.wire] = fv;
				}
			}
			(void) any;
		}
		if (nodes.size() > 200000) { r.incomplete("sender state cap"); break; }
	}
	c.wires += wires.size();
	// ---- phase 2: receiver
	for (auto &w : wires) {
		const Bytes &wire = w.first;
		std::vector<uint8_t> mark; wire_marks(f, wire, mark);
		for (size_t gi = 0; gi < rg.size(); ++gi) {
			struct Node { RState s; int parent; int act; };
			std::vector<Node> nodes; std::unordered_map<std::string, int> seen;
			RState s0{}; s0.q.mem.assign(rg[gi].max, 0xEE); s0.q.off = rg[gi].off; s0.msg = -1;
			nodes.push_back(Node{s0, -1, -1}); seen[s0.key()] = 0; ++c.rstates;
			auto path = [&](int n, int extra) { Vec v = w.second; v.push_back(99); v.push_back(gi); std::vector<int> acts; for (int k = n; nodes[k].parent >= 0; k = nodes[k].parent) acts.push_back(nodes[k].act); for (size_t i = acts.size(); i-- > 0;) v.push_back(acts[i]); if (extra >= 0) v.push_back(extra); return v; };
			for (size_t n = 0; n < nodes.size(); ++n) {
				if (r.expired()) return;
				if (!r.enter(path((int) n, 98), "")) continue;
				for (int a = 0; a < R_N; ++a) {
					RState s = nodes[n].s; std::string viol; bool cac = false;
					if (!receiver_step(cx, s, a, wire, mark, cx.msgs, viol, cac)) continue;
					++c.rtrans;
					std::string geo = fmt("msgs=%zu wire[%zu] receiver(max=%zu,off=%zu): ", cx.msgs.size(), wire.size(), rg[gi].max, rg[gi].off);
					if (!viol.empty()) { r.violation_at(cx.sc + "|receiver|" + (viol.find("Sanitizer") != std::string::npos ? "memory" : (viol.find("LIVELOCK") != std::string::npos ? "buffer-livelock" : "wrong-result")), path((int) n, a), geo + viol); continue; }
					std::string k = s.key();
					if (a == R_RECV && k == nodes[n].s.key()) {
						// recv changed nothing: quiescent for this amount of data
						++c.stalls_checked;
						if (s.wpos == wire.size() && !s.want_grow && s.got < cx.msgs.size())
							r.violation_at(cx.sc + "|receiver|stall", path((int) n, a), geo + fmt("all wire bytes delivered, recv makes no progress, no buffer request open, but only %u of %zu messages received", s.got, cx.msgs.size()));
						continue;
					}
					if (seen.count(k)) continue;
					seen[k] = (int) nodes.size(); nodes.push_back(Node{s, (int) n, a}); ++c.rstates;
					bool wr = s.q.off + s.q.len > s.q.mem.size();
					if (wr) ++c.wrapped; if (a == R_GROW) ++c.retries; if (cac) ++c.cut_after_code;
					if (wr || a == R_GROW || cac) ++c.nontrivial;
					if (r.samples.size() < 2 && s.got == cx.msgs.size() && cx.msgs.size() > 1 && wr) { std::string t; Vec pp = path((int) nodes.size() - 1, -1); size_t i = 0; while (pp[i] != 99) ++i; for (i += 2; i < pp.size(); ++i) t += std::string(i ? " " : "") + rname[pp[i]]; r.sample(fmt("%s wire {%s} receiver(max=%zu,off=%zu):", cx.sc.c_str(), ref::hexs(wire).c_str(), rg[gi].max, rg[gi].off) + t); }
				}
				if (nodes.size() > 300000) { r.incomplete("receiver state cap"); break; }
			}
		}
	}
	(void) total;
}


// ================================================================ level 2: stream objects over pipes
// Two mpt::stream objects (sender: buffered writer with encoder, receiver: buffered reader with
// decoder) connected by a non-blocking pipe.  writev/readv are interposed: for the pipe's descriptors the
// explorer decides how many bytes the call transfers (all / 1 / half; writev may also answer EAGAIN).
// Driver: at each step either the next sender operation (push whole message, end, flush) or one receiver round
// (mpt_stream_poll(POLLIN,-1) + mpt_stream_dispatch until it reports nothing further).  Choice-tree DFS with a
// deviation bound (default = sender first, full transfers).
static Ctx *g_l2ctx = 0; static int g_wfd = -1, g_rfd = -1; static size_t g_inpipe = 0;
static uint64_t g_short_writes = 0, g_short_reads = 0, g_eagain = 0;
extern "C" ssize_t writev(int fd, const struct iovec *iov, int cnt)
{
	if (fd != g_wfd || !g_l2ctx) return syscall(SYS_writev, fd, iov, cnt);
	size_t total = 0; for (int i = 0; i < cnt; ++i) total += iov[i].iov_len;
	size_t lim = total;
	if (total > 1) { uint64_t c = g_l2ctx->choose(4); if (c == 1) lim = 1; else if (c == 2) lim = total / 2; else if (c == 3) { ++g_eagain; errno = EAGAIN; return -1; } if (c) ++g_short_writes; }
	struct iovec tmp[4]; int n = 0; size_t left = lim;
	for (int i = 0; i < cnt && i < 4 && left; ++i) { tmp[n] = iov[i]; if (tmp[n].iov_len > left) tmp[n].iov_len = left; left -= tmp[n].iov_len; ++n; }
	ssize_t r = syscall(SYS_writev, fd, tmp, n);
	if (r > 0) g_inpipe += r;
	return r;
}
extern "C" ssize_t readv(int fd, const struct iovec *iov, int cnt)
{
	if (fd != g_rfd || !g_l2ctx) return syscall(SYS_readv, fd, iov, cnt);
	size_t total = 0; for (int i = 0; i < cnt; ++i) total += iov[i].iov_len;
	size_t avail = g_inpipe < total ? g_inpipe : total, lim = avail;
	if (avail > 1) { uint64_t c = g_l2ctx->choose(3); if (c == 1) lim = 1; else if (c == 2) lim = avail / 2; if (c) ++g_short_reads; }
	struct iovec tmp[4]; int n = 0; size_t left = lim;
	for (int i = 0; i < cnt && i < 4 && left; ++i) { tmp[n] = iov[i]; if (tmp[n].iov_len > left) tmp[n].iov_len = left; left -= tmp[n].iov_len; ++n; }
	if (!n) { errno = EAGAIN; return -1; }
	ssize_t r = syscall(SYS_readv, fd, tmp, n);
	if (r > 0) g_inpipe -= r;
	return r;
}
static bool g_src_slack = false;   // the pushed message lies inside a larger caller buffer (a wrong source offset shows as wrong content, not as overflow)
static uint64_t g_push_grow[4];   // single push calls during which the write buffer was enlarged 0 / 1 / 2 / >= 3 times
struct L2recv { std::vector<Bytes> got; };
static int l2_cb(void *arg, const message *m)
{
	L2recv *rc = (L2recv *) arg; Bytes b;
	if (m) { b.assign((uint8_t *) m->base, (uint8_t *) m->base + m->used); for (size_t i = 0; i < m->clen; ++i) b.insert(b.end(), (uint8_t *) m->cont[i].iov_base, (uint8_t *) m->cont[i].iov_base + m->cont[i].iov_len); }
	rc->got.push_back(b);
	return 0;
}
struct L2Counters { uint64_t exec, nontrivial; };
static int l2_ev_cb(void *arg, event *ev)
{
	if (ev && ev->msg) return l2_cb(arg, ev->msg);
	return 0;
}
static void level2_body(Run &r, L2Counters &c, int f, const std::vector<Bytes> &msgs, Ctx &x, bool append = false, bool via_input = false)
{
	std::string sc = std::string(ref::framing_name[f]) + "|stream";
	int pfd[2]; if (pipe(pfd) < 0) return;
	fcntl(pfd[0], F_SETFL, O_NONBLOCK); fcntl(pfd[1], F_SETFL, O_NONBLOCK);
	g_rfd = pfd[0]; g_wfd = pfd[1]; g_inpipe = 0; g_l2ctx = &x;
	uint64_t sw0 = g_short_writes + g_short_reads + g_eagain;
	asan_error();
	std::string desc = fmt("%s %zu message(s)", sc.c_str(), msgs.size());
	{
		stream snd, rcv;
		_mpt_stream_setfile(&snd._info, -1, pfd[1]); mpt_stream_setmode(&snd, stream::WriteBuf); snd._wd._enc = encoders[f];
		// receiver: a plain stream driven with mpt_stream_poll + mpt_stream_dispatch, or the input object the event
		// loop uses (mpt_stream_input: next() when readable, dispatch() while it reports Retry)
		input *in = 0;
		if (!via_input) { _mpt_stream_setfile(&rcv._info, pfd[0], -1); mpt_stream_setmode(&rcv, stream::ReadBuf); rcv._rd._dec = decoders[f]; }
		else {
			static const int codes[] = {EncodingCobs, EncodingCobsInline, EncodingCobs | EncodingCompress, EncodingCobsInline | EncodingCompress};
			alignas(mpt::socket) char sb[sizeof(mpt::socket)]; mpt::socket *sk = (mpt::socket *) sb; sk->_id = pfd[0];
			in = mpt_stream_input(sk, stream::Read | stream::Buffer, codes[f], 0);
			if (!in) { r.violation(sc + "|input|create", desc + ": mpt_stream_input failed"); g_l2ctx = 0; close(pfd[0]); close(pfd[1]); return; }
			sc += ",input";
		}
		L2recv rc; size_t mi = 0; int phase = 0;   // phase 0: push, 1: end, 2: flush
		bool bad = false; int steps = 0;
		auto check_prefix = [&]() { if (rc.got.size() > msgs.size()) return false; for (size_t i = 0; i < rc.got.size(); ++i) if (rc.got[i] != msgs[i]) return false; return true; };
		auto receiver_round = [&]() {
			r.hint((sc + "|poll").c_str());
			if (g_inpipe) { int k = in ? LIB(in->next(POLLIN)) : LIB(mpt_stream_poll(&rcv, POLLIN, -1)); r.note("poll -> %d (pipe %zu)", k, g_inpipe); }
			r.hint((sc + "|dispatch").c_str());
			for (int i = 0; i < 64; ++i) { int e = in ? LIB(in->dispatch(l2_ev_cb, &rc)) : LIB(mpt_stream_dispatch(&rcv, l2_cb, &rc)); r.note("dispatch -> 0x%x, %zu received", e, rc.got.size()); if (e < 0 || !(e & event::Retry)) break; }
		};
		while (!bad && steps++ < 400) {
			bool sender_can = mi < msgs.size() || (snd._wd._state.done > 0);
			bool receiver_can = g_inpipe > 0;
			if (!sender_can && !receiver_can) break;
			uint64_t who = (sender_can && receiver_can) ? x.choose(2) : (sender_can ? 0 : 1);
			if (who == 0) {
				if (mi < msgs.size() && phase == 0) {
					r.hint((sc + "|push").c_str());
					const Bytes &m = msgs[mi];
					if (append) {
						// the message is handed over in parts (mpt_stream_append), some of them empty
						Bytes cp = m; size_t h = (cp.size() + 1) / 2; uint8_t none = 0;
						struct iovec cont[2]; message mm; uint64_t shape = x.choose(3);
						if (shape == 0) { mm.base = cp.data(); mm.used = h; cont[0] = {&none, 0}; cont[1] = {cp.data() + h, cp.size() - h}; mm.cont = cont; mm.clen = 2; }
						else if (shape == 1) { mm.base = &none; mm.used = 0; cont[0] = {cp.data(), cp.size()}; mm.cont = cont; mm.clen = 1; }
						else { mm.base = cp.data(); mm.used = cp.size(); cont[0] = {&none, 0}; mm.cont = cont; mm.clen = 1; }
						ssize_t k = LIB(mpt_stream_append(&snd, &mm)); r.note("append %zu (shape %d) -> %zd", m.size(), (int) shape, k);
						if (k != (ssize_t) m.size()) { r.violation(sc + "|append|refused", desc + fmt(": mpt_stream_append of %zu bytes in parts returned %zd on a resizable write buffer", m.size(), k)); bad = true; }
						phase = 1;
					}
					else if (m.empty()) phase = 1;
					else { size_t slack = g_src_slack ? m.size() : 0; uint8_t *src = (uint8_t *) malloc(m.size() + slack); memcpy(src, m.data(), m.size()); memset(src + m.size(), 0xA5, slack); size_t max0 = snd._wd.max; ssize_t k = LIB(mpt_stream_push(&snd, m.size(), src)); free(src); size_t grows = (snd._wd.max - max0 + 255) / 256; ++g_push_grow[grows > 3 ? 3 : grows]; r.note("push %zu -> %zd (write buffer %zu -> %zu)", m.size(), k, max0, snd._wd.max); if (k != (ssize_t) m.size()) { r.violation(sc + "|push|refused", desc + fmt(": mpt_stream_push(%zu) returned %zd on a resizable write buffer", m.size(), k)); bad = true; } phase = 1; }
				} else if (mi < msgs.size() && phase == 1) {
					r.hint((sc + "|end").c_str());
					ssize_t k = LIB(mpt_stream_push(&snd, 0, 0)); r.note("end -> %zd", k);
					if (k < 0) { r.violation(sc + "|push|refused", desc + fmt(": message termination returned %zd", k)); bad = true; }
					phase = 0; ++mi;
					if (x.choose(2)) continue;        // deviation: do not flush now (frames pile up in the write buffer)
					r.hint((sc + "|flush").c_str()); int fl = LIB(mpt_stream_flush(&snd)); r.note("flush -> %d", fl);
				} else {
					r.hint((sc + "|flush").c_str()); int fl = LIB(mpt_stream_flush(&snd)); r.note("flush -> %d (done %zu)", fl, snd._wd._state.done);
				}
			} else receiver_round();
			if (asan_error()) { r.violation(sc + "|memory", desc + ": AddressSanitizer report"); bad = true; }
			else if (!check_prefix()) { r.violation(sc + "|wrong-message", desc + fmt(": after %d steps the %zu received message(s) are not a prefix of the sent ones (last {%s})", steps, rc.got.size(), rc.got.empty() ? "" : ref::hexs(rc.got.back()).c_str())); bad = true; }
		}
		if (!bad) {
			// drain: everything is on the wire or in the receiver; a few more rounds must deliver all
			for (int i = 0; i < 8 && rc.got.size() < msgs.size(); ++i) receiver_round();
			if (steps >= 400) r.violation(sc + "|no-progress", desc + ": driver did not finish in 400 steps");
			else if (rc.got.size() != msgs.size() || !check_prefix()) r.violation(sc + "|stall", desc + fmt(": all frames written and read, %zu of %zu messages delivered", rc.got.size(), msgs.size()));
		}
		g_l2ctx = 0;     // stream destructors flush/close without explorer choices
		if (in) { in->unref(); pfd[0] = -1; }   // the input owns (and closes) its descriptor
	}
	g_l2ctx = 0; g_rfd = g_wfd = -1;
	if (pfd[0] >= 0) close(pfd[0]);
	close(pfd[1]);
	++c.exec; ++r.transitions;
	if (g_short_writes + g_short_reads + g_eagain != sw0) ++c.nontrivial;
}

// streams whose frames just fill or just exceed the 64 byte input queue a buffered reader starts with: the decoder
// then needs scratch space only the stream itself can supply (zero behind the first code byte, ZPE zero pairs)
static const std::vector<std::vector<Bytes>> &long_streams()
{
	static std::vector<std::vector<Bytes>> v;
	if (v.empty()) {
		for (size_t k : {60, 61, 62, 63, 64}) { Bytes m(1, 0); m.insert(m.end(), k, 'a'); v.push_back({m}); }
		for (size_t k : {59, 60, 61}) { Bytes m{'x', 0, 0}; m.insert(m.end(), k, 'a'); v.push_back({m}); }
		{ Bytes m(1, 0); m.insert(m.end(), 62, 'a'); v.push_back({m, Bytes{'b'}}); v.push_back({Bytes{'b', 0}, m}); }
		{ Bytes m(130, 0); for (size_t i = 0; i < m.size(); i += 3) m[i] = 'c'; v.push_back({m}); }
	}
	return v;
}
// messages handed to ONE mpt_stream_push call that the write buffer cannot take at once: the call is completed in
// 2, 3, 4.. parts with a buffer enlargement between them.  Content depends on the position (no period that a wrong
// source offset could hide behind), with and without zero bytes; alone and behind a short frame.
static Bytes posdep(size_t n, bool zeros)
{
	Bytes b(n);
	for (size_t i = 0; i < n; ++i) { uint8_t v = (uint8_t) (i * 31 + (i >> 8) * 17 + (i >> 4) + 1); if (!v && !zeros) v = 0x80; if (zeros && i % 97 == 50) v = 0; b[i] = v; }
	return b;
}
static const std::vector<std::vector<Bytes>> &split_streams()
{
	static std::vector<std::vector<Bytes>> v;
	if (v.empty()) {
		for (size_t k : {200, 300, 520, 600, 900, 1500}) for (int z = 0; z < 2; ++z) v.push_back({posdep(k, z != 0)});
		v.push_back({Bytes{'b', 0}, posdep(700, true)});
		v.push_back({posdep(700, false), posdep(800, true)});
	}
	return v;
}
void mc_jobs(Tier t, std::vector<std::string> &jobs)
{
	for (int f = 0; f < 4; ++f) for (size_t i = 0; i < split_streams().size(); ++i) jobs.push_back(fmt("L2P:%d:%zu", f, i));
	std::vector<std::vector<int>> seqs; sequences(t, seqs);
	for (int f = 0; f < 4; ++f) for (size_t i = 0; i < seqs.size(); ++i) jobs.push_back(fmt("%d:%zu", f, i));
	for (int f = 0; f < 4; ++f) for (size_t i = 0; i < seqs.size(); ++i) jobs.push_back(fmt("L2:%d:%zu", f, i));
	for (int f = 0; f < 4; ++f) for (size_t i = 0; i < long_streams().size(); ++i) jobs.push_back(fmt("L2L:%d:%zu", f, i));
	for (int f = 0; f < 4; ++f) for (size_t i = 0; i < seqs.size(); ++i) jobs.push_back(fmt("L2A:%d:%zu", f, i));
	for (int f = 0; f < 4; ++f) for (size_t i = 0; i < long_streams().size() + (seqs.size() < 6 ? seqs.size() : 6); ++i) jobs.push_back(fmt("L2I:%d:%zu", f, i));
}
static void run(Run &r, const std::string &job, const Vec *rep)
{
	int f; size_t si;
	if (job.compare(0, 4, "L2A:") == 0) {
		if (sscanf(job.c_str() + 4, "%d:%zu", &f, &si) != 2) return;
		std::vector<std::vector<int>> seqs; sequences(r.tier, seqs);
		if (si >= seqs.size()) return;
		std::vector<Bytes> alpha = alphabet(r.tier), msgs; for (int i : seqs[si]) msgs.push_back(alpha[i]);
		L2Counters c = {};
		int dev = r.tier == Quick ? 1 : 2;
		if (rep) { dfs_replay(r, [&](Ctx &x) { level2_body(r, c, f, msgs, x, true); }, *rep); return; }
		dfs(r, [&](Ctx &x) { level2_body(r, c, f, msgs, x, true); }, dev);
		r.states += c.exec; r.count("stream_level_executions", c.exec); r.count("stream_level_append_in_parts", c.exec); r.count("nontrivial", c.nontrivial);
		return;
	}
	if (job.compare(0, 4, "L2I:") == 0) {
		if (sscanf(job.c_str() + 4, "%d:%zu", &f, &si) != 2) return;
		std::vector<Bytes> msgs;
		if (si < long_streams().size()) msgs = long_streams()[si];
		else { std::vector<std::vector<int>> seqs; sequences(r.tier, seqs); si -= long_streams().size(); if (si >= seqs.size()) return; std::vector<Bytes> alpha = alphabet(r.tier); for (int i : seqs[si]) msgs.push_back(alpha[i]); }
		L2Counters c = {};
		int dev = r.tier == Quick ? 2 : 3;
		if (rep) { dfs_replay(r, [&](Ctx &x) { level2_body(r, c, f, msgs, x, false, true); }, *rep); return; }
		dfs(r, [&](Ctx &x) { level2_body(r, c, f, msgs, x, false, true); }, dev);
		r.states += c.exec; r.count("stream_level_executions", c.exec); r.count("stream_level_input_object", c.exec); r.count("nontrivial", c.nontrivial);
		return;
	}
	if (job.compare(0, 4, "L2P:") == 0) {
		if (sscanf(job.c_str() + 4, "%d:%zu", &f, &si) != 2 || si >= split_streams().size()) return;
		const std::vector<Bytes> &msgs = split_streams()[si];
		L2Counters c = {};
		int dev = r.tier == Quick ? 1 : 2;
		// leading choice: source buffer exactly sized (ASan redzone directly behind it) / inside a larger caller buffer
		auto body = [&](Ctx &x) { g_src_slack = x.choose(2) != 0; level2_body(r, c, f, msgs, x); g_src_slack = false; };
		if (rep) { dfs_replay(r, body, *rep); return; }
		memset(g_push_grow, 0, sizeof(g_push_grow));
		dfs(r, body, dev + 1);
		r.states += c.exec; r.count("stream_level_executions", c.exec); r.count("stream_level_split_push", c.exec); r.count("nontrivial", c.nontrivial);
		r.count("single_push_buffer_grown_once", g_push_grow[1]); r.count("single_push_buffer_grown_twice", g_push_grow[2]); r.count("single_push_buffer_grown_3plus", g_push_grow[3]);
		if (msgs.back().size() >= 900) { r.require("single_push_buffer_grown_3plus"); }
		return;
	}
	if (job.compare(0, 4, "L2L:") == 0) {
		if (sscanf(job.c_str() + 4, "%d:%zu", &f, &si) != 2 || si >= long_streams().size()) return;
		const std::vector<Bytes> &msgs = long_streams()[si];
		L2Counters c = {};
		int dev = r.tier == Quick ? 2 : 3;
		if (rep) { dfs_replay(r, [&](Ctx &x) { level2_body(r, c, f, msgs, x); }, *rep); return; }
		r.require("stream_level_short_transfers");
		dfs(r, [&](Ctx &x) { level2_body(r, c, f, msgs, x); }, dev);
		r.states += c.exec; r.count("stream_level_executions", c.exec); r.count("stream_level_long_frames", c.exec); r.count("stream_level_short_transfers", c.nontrivial); r.count("nontrivial", c.nontrivial);
		return;
	}
	if (job.compare(0, 3, "L2:") == 0) {
		if (sscanf(job.c_str() + 3, "%d:%zu", &f, &si) != 2) return;
		std::vector<std::vector<int>> seqs; sequences(r.tier, seqs);
		if (si >= seqs.size()) return;
		std::vector<Bytes> alpha = alphabet(r.tier), msgs; for (int i : seqs[si]) msgs.push_back(alpha[i]);
		L2Counters c = {};
		int dev = r.tier == Quick ? 2 : 3;
		if (rep) { dfs_replay(r, [&](Ctx &x) { level2_body(r, c, f, msgs, x); }, *rep); return; }
		r.require("stream_level_short_transfers");
		dfs(r, [&](Ctx &x) { level2_body(r, c, f, msgs, x); }, dev);
		r.states += c.exec; r.count("stream_level_executions", c.exec); r.count("stream_level_short_transfers", c.nontrivial); r.count("nontrivial", c.nontrivial);
		if (si == 8 && f == 0) r.sample(fmt("stream level: %s, messages %zu, all schedules with <= %d deviations (receiver before sender, short write/read, EAGAIN, delayed flush)", ref::framing_name[f], msgs.size(), dev));
		return;
	}
	if (sscanf(job.c_str(), "%d:%zu", &f, &si) != 2) return;
	std::vector<std::vector<int>> seqs; sequences(r.tier, seqs);
	if (si >= seqs.size()) return;
	Counters c = {};
	r.additive = false;
	explore(r, c, f, seqs[si], rep);
	if (rep) return;
	for (const char *k : {"nontrivial", "wire_streams", "receiver_wrapped", "receiver_missingbuffer_retry", "delivery_cut_after_code_or_delimiter", "quiescence_checks"}) r.require(k);
	r.states += c.sstates + c.rstates; r.transitions += c.strans + c.rtrans; r.executions += c.strans + c.rtrans;
	r.count("sender_states", c.sstates); r.count("receiver_states", c.rstates); r.count("wire_streams", c.wires); r.count("nontrivial", c.nontrivial);
	r.count("receiver_wrapped", c.wrapped); r.count("receiver_missingbuffer_retry", c.retries); r.count("delivery_cut_after_code_or_delimiter", c.cut_after_code); r.count("quiescence_checks", c.stalls_checked);
}
void mc_explore(Run &r, const std::string &job) { run(r, job, 0); }
void mc_replay(Run &r, const std::string &job, const Vec &v) { run(r, job, &v); }

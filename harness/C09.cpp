// C09 — configuration text is read back faithfully.
// Stateless choice-tree DFS: every tree of named sections / name=value options within the
// bounds of the job is written out by a small writer for one of the documented format
// strings (the five ctest formats of examples/core, the library default, and the
// "encapsulated" style as its header comment describes it), decorated with every subset of
// the insignificant-whitespace / blank-line / comment decorations, and parsed by the real
// mpt_parse_node.  Oracle: the parse succeeds, the node tree (mpt_node_ident, value bytes,
// child order, links) equals the generating tree, and the decorated text parses to exactly
// what the undecorated text parses to.  A second job family puts one long value (lengths
// across the 250/255/65535/65536 representation limits) into small trees.
#include <cstdlib>
#include <cctype>
#include <sys/uio.h>
#include <unistd.h>
#include "node.h"
#include "meta.h"
#include "config.h"
#include "parse.h"
#include "mc.hpp"

using namespace mc;
const char *mc_id = "C09";
const char *mc_rule = "DFS: all section/option trees up to depth D / fan-out F (sibling names distinct by default, up to B label deviations over names {a,b,ab,a1,a_b,'a b',empty} "
                      "permitted by the name flags and values {x, empty, 'x y', quoted with escaped quote, quoted with blanks+delimiters, f#g, quoted \"q\"}) "
                      "x 9 format strings (the 5 ctest formats, the default, 3 section styles) x decoration masks (indent, trailing blanks, blank lines, comment lines, trailing comments, "
                      "inner padding, line layout, no final newline, one item per line, decorations on every other line only), plus small trees holding one value of length 240..260 / 65530..65540 / 131077; "
                      "real mpt_parse_node vs generating tree and vs the undecorated parse; plus the C++ front end mpt::config_parser on files: fresh parser vs generating tree and read/reset-or-open/read reuse histories vs a fresh parser (ledger); nontrivial = distinct (tree,format,mask) documents with a non-empty mask "
                      "whose tree has at least one section containing a child, or which hold a value of >= 250 bytes";

// ------------------------------------------------------------------ formats (documented format strings)
struct Fmt {
	const char *id, *fmt, *flags;
	char style;                 // '*' prepending name, ' ' separated header, 'x' encapsulated
	char sstart, send, assign, oend;
	const char *com, *esc;
};
static const Fmt fmts[] = {
	// examples/core/CMakeLists.txt: parse_online, parse_layout, parse_layout_alt, parse_subsect, parse_config
	{ "online",     "{*} =;!# `", "Ef",   '*', '{', '}', '=', ';', "!#", "`"   },
	{ "layout",     "[*] = ",     "Esnw", '*', '[', ']', '=', 0,   "#",  "\"'" },
	{ "layout_alt", "[*] = !",    0,      '*', '[', ']', '=', 0,   "!",  "\"'" },
	{ "subsect",    "{*} =;!#",   "E",    '*', '{', '}', '=', ';', "!#", "\"'" },
	{ "config",     "[ ] = #",    "Esc",  ' ', '[', ']', '=', 0,   "#",  "\"'" },
	// the same format without a name restriction argument (all name flags set, as parse_layout_alt runs it)
	{ "config_all", "[ ] = #",    0,      ' ', '[', ']', '=', 0,   "#",  "\"'" },
	// library default (mpt_parse_format(fmt, 0)) with the default name limits of mpt_node_parse
	{ "default",    0,            "ns",   '*', '{', '}', '=', 0,   "#",  "\"'" },
	// third style, no shipped example: "separator before section name and at section end" (parse_format_enc.c)
	{ "enc",        "[x] = #",    0,      'x', '[', ']', '=', 0,   "#",  "\"'" },
	// same style with one delimiter character: it ends the open section and starts the next one (flat, like the separated style)
	{ "encsame",    "%x% = #",    0,      'x', '%', '%', '=', 0,   "#",  "\"'" },
};
static bool flat(const Fmt &f) { return f.style == ' ' || (f.style == 'x' && f.sstart == f.send); }
static const int NFMT = sizeof fmts / sizeof *fmts;
static const char *stylename(char s) { return s == '*' ? "pre" : (s == ' ' ? "sep" : "enc"); }

// name flags -> may this name be used (own reading of parse_accept.c/parse_ncheck.c: letters are always fine,
// a digit after the first character needs 'c' or 'n' for that role, '_' needs 's', a blank needs 'w';
// upper case letters of the flag string speak about section names, lower case ones about option names)
static bool name_ok(const Fmt &f, bool sect, const char *name)
{
	bool digit = false, special = false, space = false;
	if (!*name) {
		// zero-length name: needs 'e' for that role; an encapsulated section name cannot be empty
		if (sect && f.style == 'x') return false;
		if (!f.flags) return true;
		for (const char *p = f.flags; *p; ++p) if ((isupper((unsigned char) *p) != 0) == sect && tolower((unsigned char) *p) == 'e') return true;
		return false;
	}
	for (const char *p = name + 1; *p; ++p) { if (isdigit((unsigned char) *p)) digit = true; else if (*p == ' ') space = true; else if (!isalnum((unsigned char) *p)) special = true; }
	// the blank ends an encapsulated section name
	if (space && sect && f.style == 'x') return false;
	if (!f.flags) return true;   // all flags set
	bool okd = false, oks = false, okw = false;
	for (const char *p = f.flags; *p; ++p) {
		bool up = isupper((unsigned char) *p); int c = tolower((unsigned char) *p);
		if (up != sect) continue;
		if (c == 'c' || c == 'n') okd = true;
		if (c == 's') oks = true;
		if (c == 'w') okw = true;
	}
	return (!digit || okd) && (!special || oks) && (!space || okw);
}
static const char *NAMES[] = { "a", "b", "ab", "a1", "a_b", "a b", "" };

// ------------------------------------------------------------------ model tree
struct TN {
	bool sect; std::string name, val; int quote;   // quote: 0 plain, 1 esc[0], 2 esc[1] (if any)
	std::vector<TN> kids;
};
static std::string valrepr(const std::string &v)
{
	if (v.size() <= 40) { std::string s = "'"; for (char c : v) { if (c == '\n') s += "\\n"; else if (c == 0) s += "\\0"; else s += c; } return s + "'"; }
	return fmt("<%zu bytes #%016llx>", v.size(), (unsigned long long) fnv(v.data(), v.size()));
}
static void canon_model(const std::vector<TN> &l, std::string &out)
{
	for (const TN &n : l) {
		out += n.name.empty() ? std::string("<unnamed>") : n.name; out += '=' ; out += valrepr(n.val);
		if (!n.kids.empty()) { out += '{'; canon_model(n.kids, out); out += '}'; }
		out += ' ';
	}
}
struct Feat { size_t nodes, maxlen, maxname; bool assignform, nested, quoted, escq, emptysect, emptyval, dup, depth3, blankname, emptyname; };
static void features(const std::vector<TN> &l, int depth, Feat &f)
{
	for (size_t i = 0; i < l.size(); ++i) {
		const TN &n = l[i];
		++f.nodes;
		if (n.val.size() > f.maxlen) f.maxlen = n.val.size();
		if (n.quote && n.quote != 3) { f.quoted = true; if (n.val.find_first_of("\"'`") != std::string::npos) f.escq = true; }
		if (n.sect && n.kids.empty()) f.emptysect = true;
		if (n.name.find(' ') != std::string::npos) f.blankname = true;
		if (n.name.empty()) f.emptyname = true;
		if (n.quote == 3) f.assignform = true;
		if (n.name.size() > f.maxname) f.maxname = n.name.size();
		if (!n.sect && n.val.empty()) f.emptyval = true;
		if (!n.kids.empty()) { f.nested = true; if (depth >= 2) f.depth3 = true; }
		for (size_t k = 0; k < i; ++k) if (l[k].name == n.name) f.dup = true;
		features(n.kids, depth + 1, f);
	}
}
static const char *lencls(size_t n) { return n < 250 ? "short" : (n < 255 ? "len250-254" : (n < 65536 ? "len255-65535" : "len>=65536")); }

// ------------------------------------------------------------------ real parse + read back
struct Src { const std::string *d; size_t i; unsigned after_eof; };
static int src_getc(void *a)
{
	Src *s = (Src *) a;
	if (s->i < s->d->size()) return (unsigned char) (*s->d)[s->i++];
	++s->after_eof;
	return -2;
}
static std::string g_texterr;   // set by canon_real: a stored value that the string interface does not deliver
static void canon_real(const mpt::node *first, const mpt::node *parent, bool top, std::string &out, std::string &linkerr)
{
	const mpt::node *prev = 0;
	for (const mpt::node *n = first; n; prev = n, n = n->next) {
		const char *id = mpt::mpt_node_ident(n);
		out += id ? id : "<unnamed>"; out += '=';
		std::string v;
		if (n->_meta) {
			size_t len = 0; const char *d = mpt::mpt_node_data(n, &len);
			if (!d) v = len ? "<unreadable>" : "";
			else { v.assign(d, len); if (len && !v[len - 1]) v.resize(len - 1); }   // stored text carries its terminating NUL
			// the same text through the string interface (mpt_node_data(node, 0) -> convert('s')), as property setters read it
			if (!v.empty() && v.find('\0') == std::string::npos) {
				const char *t = mpt::mpt_node_data(n, 0);
				if (!t) g_texterr = fmt("value of %zu bytes of node '%s' is not delivered by mpt_node_data(node, 0) / convert('s')", v.size(), id ? (strlen(id) > 20 ? "(long)" : id) : "");
				else if (v != t) g_texterr = fmt("value of %zu bytes of node '%s' reads differently through convert('s')", v.size(), id ? (strlen(id) > 20 ? "(long)" : id) : "");
			}
		}
		out += valrepr(v);
		if (n->prev != prev) linkerr = "prev link does not point to the preceding sibling";
		if (!top && n->parent != parent) linkerr = "parent link does not point to the enclosing section";
		if (n->children) { out += '{'; canon_real(n->children, n, false, out, linkerr); out += '}'; }
		out += ' ';
	}
}
struct Parsed { int ret; std::string canon, linkerr, texterr; bool asan; size_t line, consumed; };
static Parsed real_parse(Run &r, const Fmt &f, const std::string &doc)
{
	Parsed p; p.asan = false;
	mpt::node *root = (mpt::node *) malloc(sizeof(mpt::node));
	memset(root, 0, sizeof *root);
	mpt::mpt_identifier_init(&root->ident, sizeof root->ident);
	Src s = { &doc, 0, 0 };
	mpt::parser_context pc;
	pc.src.getc = src_getc; pc.src.arg = &s; pc.src.line = 1;
	if (f.flags && mpt::mpt_parse_accept(&pc.name, f.flags) < 0) { p.ret = -1000; free(root); return p; }
	asan_error();
	r.hint(f.style == '*' ? "parse|pre" : (f.style == ' ' ? "parse|sep" : "parse|enc"));
	p.ret = mpt::mpt_parse_node(root, &pc, f.fmt);
	p.line = pc.src.line; p.consumed = s.i;
	g_texterr.clear();
	if (p.ret >= 0) canon_real(root->children, root, true, p.canon, p.linkerr);
	p.texterr = g_texterr;
	mpt::mpt_node_clear(root);
	free(root);
	p.asan = asan_error();
	return p;
}

// ------------------------------------------------------------------ writer
enum { INDENT = 1, TRAIL = 2, BLANK = 4, COMLINE = 8, TRAILCOM = 16, PAD = 32, LAYOUT = 64, NOEOL = 128, NEWLINES = 256, ALT = 512 };
static const unsigned PERLINE = INDENT | TRAIL | BLANK | COMLINE | TRAILCOM | PAD;
static const int NBITN = 10;
static const char *bitname[] = { "indent", "trailing-blanks", "blank-lines", "comment-lines", "trailing-comments", "padding", "layout", "no-final-newline", "item-per-line", "only-every-other-line" };
static int nbits(const Fmt &f) { return f.oend ? 9 : 8; }

struct Line { int kind; int depth; const TN *n; bool joined; };   // kind 0 option, 1 open, 2 close
static void flatten(const std::vector<TN> &l, int depth, const Fmt &f, std::vector<Line> &out)
{
	for (const TN &n : l) {
		if (!n.sect) { out.push_back(Line{0, depth, &n, false}); continue; }
		out.push_back(Line{1, depth, &n, false});
		flatten(n.kids, depth + 1, f, out);
		if (!flat(f)) out.push_back(Line{2, depth, &n, false});
	}
}
static std::string quoted(const Fmt &f, const TN &n)
{
	if (!n.quote || n.quote == 3) return n.val;   // 3: zero-length option name written with the assignment character
	char q = (n.quote == 2 && f.esc[1]) ? f.esc[1] : f.esc[0];
	std::string s(1, q);
	for (char c : n.val) { if (c == q) s += '\\'; s += c; }
	return s + q;
}
// white space flavour: what is written at every insertion site a mask bit enables.  a = sites before / left of a token
// (indentation, before '=', before the brace, before the closing bracket, before the option end character),
// b = sites after / right of a token (after '=', after the opening bracket, trailing blanks, before a trailing comment).
// Flavour 0 is the mixed default (one blank as padding, two blanks or a tab as indentation / trailing blanks).
struct Flav { const char *name, *a, *b; };
static const Flav flavs[] = {
	{ "default-mix", 0, 0 }, { "one-blank", " ", " " }, { "two-blanks", "  ", "  " }, { "three-blanks", "   ", "   " }, { "tab", "\t", "\t" },
	{ "blank+tab", " \t", " \t" }, { "tab+blank", "\t ", "\t " }, { "run-before,none-after", "  ", "" }, { "none-before,mix-after", "", "\t  " },
};
static const int NFLAV = sizeof flavs / sizeof *flavs;
// comment flavour (flavour index NFLAV.. = comment flavour 1.., default white space): text that itself looks like
// configuration, and trailing comments glued to the preceding token wherever the grammar ends a token at a comment
// character (after the section start / end character, after an encapsulated section name, after the option end character)
static const char *comflav[] = { "default", "glued,option-like", "glued,section-like", "blank,option-like" };
static const int NCOMFLAV = sizeof comflav / sizeof *comflav;
static const unsigned COMBITS = COMLINE | TRAILCOM;
static std::string comtext(const Fmt &f, int cf)
{
	if (cf == 1 || cf == 3) return std::string("old ") + f.assign + " 1" + (f.oend ? std::string(1, f.oend) : std::string());
	if (f.style == '*') return std::string("y ") + f.sstart;
	if (f.style == ' ') return std::string(1, f.sstart) + "y" + f.send;
	return std::string(1, f.sstart) + "y";
}
static const unsigned WSBITS = INDENT | TRAIL | TRAILCOM | PAD;

static std::string render(const Fmt &f, const std::vector<TN> &tree, unsigned mask, int flav = 0)
{
	const int cf = flav >= NFLAV ? flav - NFLAV + 1 : 0;
	if (cf) flav = 0;
	const Flav &fl = flavs[flav];
	std::vector<Line> lines;
	flatten(tree, 0, f, lines);
	// sep / enc layout variant: first option of a section follows on the header line
	if ((mask & LAYOUT) && f.style != '*')
		for (size_t i = 0; i + 1 < lines.size(); ++i) if (lines[i].kind == 1 && lines[i + 1].kind == 0 && lines[i + 1].depth == lines[i].depth + 1) lines[i + 1].joined = true;
	const bool oneline = f.oend && !(mask & NEWLINES);
	const size_t ncom = strlen(f.com);
	const std::string ctext = cf ? comtext(f, cf) : std::string(" c = {[x]}; \"q' `");
	std::string d;
	const unsigned docmask = mask;
	for (size_t i = 0; i < lines.size(); ++i) {
		const Line &l = lines[i];
		// ALT: per-line decorations on every other line only (decorated and bare lines mixed in one text)
		const unsigned mask = ((docmask & ALT) && (i % 2)) ? (docmask & ~PERLINE) : docmask;
		const char *pa = (mask & PAD) ? (flav ? fl.a : " ") : "", *pb = (mask & PAD) ? (flav ? fl.b : " ") : "";
		const char com = f.com[i % ncom];
		bool next_joined = i + 1 < lines.size() && lines[i + 1].joined;
		if (!l.joined) {
			if (mask & BLANK) d += (i % 2) ? " \t\n" : "\n";
			if (mask & COMLINE) { if ((mask & INDENT) && (i % 2)) d += ' '; d += com; d += ctext; d += '\n'; }
			if (mask & INDENT) d += flav ? fl.a : ((l.depth % 2) ? "\t" : "  ");
		}
		bool comment_ok = !next_joined;
		switch (l.kind) {
		case 0:
			if (!l.n->name.empty()) { d += l.n->name; d += pa; d += f.assign; d += pb; }
			// zero-length option name: "= value" in the prepending style, a value-only line where mpt_parse_option reads the line
			else if ((f.style == '*' && !f.oend) || l.n->quote == 3) { d += f.assign; d += pb; }
			d += quoted(f, *l.n);
			if (f.oend) { d += pa; d += f.oend; }
			break;
		case 1:
			if (f.style == '*') {
				d += l.n->name;
				if (mask & LAYOUT) {   // name on its own line, section start is the next visible character
					if (mask & TRAIL) d += flav ? fl.b : "  ";
					if (mask & TRAILCOM) { if (!(cf == 1 || cf == 2)) d += (flav && fl.b[0]) ? fl.b : " "; d += com; d += ctext; }
					d += '\n';
					if (mask & BLANK) d += "\n";
					if (mask & COMLINE) { d += com; d += ctext; d += '\n'; }
					if (mask & INDENT) d += flav ? fl.a : "\t";
				} else d += pa;
				d += f.sstart;
			}
			else if (f.style == ' ') { d += f.sstart; d += pb; d += l.n->name; d += pa; d += f.send; }
			else { d += f.sstart; d += pb; d += l.n->name; }
			break;
		case 2:
			d += f.send;
			break;
		}
		if (mask & TRAIL) d += flav ? fl.b : ((i % 2) ? "\t" : "  ");
		bool had_comment = false;
		// a trailing comment needs white space in front of it, the joined option white space behind the header
		const char *sep = (flav && fl.b[0]) ? fl.b : " ";
		// glued comment: only where a comment character ends the token (not behind a value that runs to the end of the line)
		bool glue = (cf == 1 || cf == 2) && (l.kind != 0 || f.oend);
		if ((mask & TRAILCOM) && comment_ok) { if (!glue) d += sep; d += com; d += ctext; had_comment = true; }
		if (next_joined) d += sep;
		else if (oneline && !had_comment) { /* items follow each other directly */ }
		else d += '\n';
	}
	if (mask & BLANK) d += "\n \n";
	if (mask & COMLINE) { d += f.com[0]; d += " end"; d += '\n'; }
	// the white space after an encapsulated section name terminates the name: it is not decoration
	bool name_last = false;
	if (f.style == 'x' && !lines.empty() && lines.back().kind == 1) {
		const std::string &nm = lines.back().n->name;
		name_last = d.size() > nm.size() && d[d.size() - 1] == '\n' && d.compare(d.size() - 1 - nm.size(), nm.size(), nm) == 0;
	}
	// likewise the line end that terminates a value-only line (zero-length option name) read by mpt_parse_option
	if (!lines.empty() && lines.back().kind == 0 && lines.back().n->name.empty() && lines.back().n->quote != 3 && f.style != '*' && !(mask & (BLANK | COMLINE))) name_last = true;
	if ((mask & NOEOL) && !name_last && !d.empty() && d[d.size() - 1] == '\n') d.resize(d.size() - 1);
	return d;
}
static std::string show(const std::string &doc)
{
	std::string s; size_t run = 0;
	for (size_t i = 0; i < doc.size(); ++i) {
		char c = doc[i];
		if (isalpha((unsigned char) c) && i + 1 < doc.size() && isalpha((unsigned char) doc[i + 1]) && doc.size() > 400) { ++run; if (run > 8) continue; }
		else { if (run > 8) s += fmt("..(+%zu)..", run - 8); run = 0; }
		if (c == '\n') s += "\\n"; else if (c == '\t') s += "\\t"; else s += c;
	}
	return s;
}

// ------------------------------------------------------------------ tree generation
struct Gen {
	Ctx &x; const Fmt &f; int D, F, budget;
	const std::vector<const char *> &sn, &on;   // permitted section / option names
	const std::vector<int> &vals;               // value ids in use
	size_t pick(size_t n) { if (n <= 1 || !budget) return 0; size_t c = x.choose(n); if (c && budget > 0) --budget; return c; }
};
static std::string longval(size_t len)
{
	std::string s(len, 'c');
	for (size_t i = 0; i < len; ++i) s[i] = (i % 97 == 50) ? ' ' : (char) ('a' + i % 23);
	if (len && s[len - 1] == ' ') s[len - 1] = 'z';
	return s;
}
static void set_value(const Fmt &f, TN &n, int id)
{
	n.quote = 0;
	switch (id) {
	case 0: n.val = "x"; break;
	case 1: n.val = ""; break;
	case 2: n.val = "x y"; break;
	case 3: n.val = std::string("q") + f.esc[0] + "r"; n.quote = 1; break;                                    // "q\"r"
	case 4: n.val = std::string(" x; ") + f.com[0] + f.assign + f.send + (char) f.sstart + " "; n.quote = 2; break;   // blanks and delimiters kept inside quotes
	case 5: n.val = std::string("f") + f.com[0] + "g"; break;                                                  // comment character not after a blank
	case 6: { char q = f.esc[1] ? f.esc[1] : f.esc[0]; n.val = std::string(1, q) + "q" + q; n.quote = 2; break; }   // "\"q\""
	}
}
static void gen_item(Gen &g, TN &n, bool sect, size_t sib)
{
	n.sect = sect; n.quote = 0;
	const std::vector<const char *> &names = sect ? g.sn : g.on;
	n.name = names[(sib + g.pick(names.size())) % names.size()];
	if (!sect) { if (n.name.empty()) { set_value(g.f, n, 0); if (g.f.style != '*' && g.x.choose(2)) n.quote = 3; } else set_value(g.f, n, g.vals[g.pick(g.vals.size())]); }
}
static void gen_list(Gen &g, std::vector<TN> &out, int depth)
{
	size_t n = g.x.choose(g.F + 1);
	out.resize(n);
	for (size_t i = 0; i < n; ++i) {
		bool sect = g.x.choose(2);
		gen_item(g, out[i], sect, i);
		if (sect && depth < g.D) gen_list(g, out[i].kids, depth + 1);
	}
}
// separated-header style: options first, then sections holding options only (nesting is limited to one level by the format)
static void gen_sep(Gen &g, std::vector<TN> &out)
{
	size_t nopt = g.x.choose(g.F + 1), nsec = g.x.choose(g.F + 1);
	out.resize(nopt + nsec);
	for (size_t i = 0; i < nopt; ++i) gen_item(g, out[i], false, i);
	for (size_t i = 0; i < nsec; ++i) {
		TN &s = out[nopt + i];
		gen_item(g, s, true, nopt + i);
		size_t k = g.x.choose(g.F + 1);
		s.kids.resize(k);
		for (size_t j = 0; j < k; ++j) gen_item(g, s.kids[j], false, j);
	}
}

// ------------------------------------------------------------------ jobs
// job string:  tree:<fmt>:D:F:B:NV:<maskset>:<part>/<parts>     or   len:<fmt>:<set>:<part>/<parts>
struct Job { std::string family; int fmt, D, F, B, NV; std::string maskset; unsigned part, parts; };
static Job parse_job(const std::string &s)
{
	Job j; char fam[16], fid[32], ms[16];
	j.D = j.F = j.B = j.NV = 0; j.part = 0; j.parts = 1;
	if (s.compare(0, 5, "tree:") == 0 || s.compare(0, 4, "cxx:") == 0) sscanf(s.c_str(), "%15[^:]:%31[^:]:%d:%d:%d:%d:%15[^:]:%u/%u", fam, fid, &j.D, &j.F, &j.B, &j.NV, ms, &j.part, &j.parts);
	else sscanf(s.c_str(), "%15[^:]:%31[^:]:%15[^:]:%u/%u", fam, fid, ms, &j.part, &j.parts);
	j.family = fam; j.maskset = ms; j.fmt = 0;
	for (int i = 0; i < NFMT; ++i) if (!strcmp(fmts[i].id, fid)) j.fmt = i;
	return j;
}
static void add_tree_jobs(std::vector<std::string> &jobs, int D, int F, int B, int NV, const char *ms, unsigned parts)
{
	for (int i = 0; i < NFMT; ++i) {
		unsigned p = parts;
		if (fmts[i].oend && !strcmp(ms, "all")) p *= 2;
		for (unsigned k = 0; k < p; ++k) jobs.push_back(fmt("tree:%s:%d:%d:%d:%d:%s:%u/%u", fmts[i].id, D, F, B, NV, ms, k, p));
	}
}
void mc_jobs(Tier t, std::vector<std::string> &jobs)
{
	// long-value jobs first (longest running), then the tree families from large to small
	if (t == Quick) {
		for (int i = 0; i < NFMT; ++i) jobs.push_back(fmt("len:%s:quick+ws:0/1", fmts[i].id));
		add_tree_jobs(jobs, 2, 2, 1, 7, "all", 1);
		add_tree_jobs(jobs, 3, 2, 0, 7, "few", 1);
		add_tree_jobs(jobs, 2, 2, 0, 7, "all+ws", 1);
		for (int i = 0; i < NFMT; ++i) jobs.push_back(fmt("cxx:%s:2:2:0:7:min:0/1", fmts[i].id));
		for (int i = 0; i < NFMT; ++i) jobs.push_back(fmt("cxx:%s:2:2:1:7:two:0/1", fmts[i].id));
	} else {
		for (int i = 0; i < NFMT; ++i) for (unsigned k = 0; k < 4; ++k) jobs.push_back(fmt("len:%s:thorough+ws:%u/4", fmts[i].id, k));
		add_tree_jobs(jobs, 2, 2, 2, 7, "fewalt", 4);
		add_tree_jobs(jobs, 3, 2, 0, 7, "all", 2);
		add_tree_jobs(jobs, 2, 3, 0, 7, "all", 2);
		add_tree_jobs(jobs, 2, 2, 1, 7, "few+ws", 2);
		add_tree_jobs(jobs, 2, 2, 1, 7, "all", 1);
		add_tree_jobs(jobs, 3, 2, 0, 7, "min+ws", 1);
		add_tree_jobs(jobs, 2, 3, 0, 7, "min+ws", 1);
		add_tree_jobs(jobs, 2, 3, 1, 7, "two", 1);
		add_tree_jobs(jobs, 2, 2, 0, 7, "all+ws", 1);
		for (int i = 0; i < NFMT; ++i) for (unsigned k = 0; k < 2; ++k) jobs.push_back(fmt("cxx:%s:2:2:1:7:min:%u/2", fmts[i].id, k));
		for (int i = 0; i < NFMT; ++i) jobs.push_back(fmt("cxx:%s:2:2:0:7:few:0/1", fmts[i].id));
	}
}
static std::vector<unsigned> masks_for(const Fmt &f, const std::string &set)
{
	std::vector<unsigned> m; unsigned n = nbits(f), all = (1u << n) - 1;
	if (set == "all") { for (unsigned i = 0; i <= all; ++i) m.push_back(i); return m; }
	// "few": at most two decorations, and all / all but one;  "min": at most one decoration, and all;  "two": none and all;
	// "fewalt": "few" plus the same masks applied to every other line only
	for (unsigned i = 0; i <= all; ++i) {
		int pc = __builtin_popcount(i);
		bool take = set == "min" ? (pc <= 1 || pc == (int) n) : (set == "two" ? (pc == 0 || pc == (int) n) : (pc <= 2 || pc >= (int) n - 1));
		if (!take) continue;
		m.push_back(i);
		if (set == "fewalt" && (i & PERLINE)) m.push_back(i | ALT);
	}
	return m;
}
static const size_t len_quick[] = { 249, 250, 254, 255, 256, 65535, 65536 };
static std::vector<size_t> lens_for(const std::string &set)
{
	std::vector<size_t> v;
	if (set == "quick") { v.assign(len_quick, len_quick + sizeof len_quick / sizeof *len_quick); return v; }
	for (size_t n = 240; n <= 260; ++n) v.push_back(n);
	v.push_back(1000); v.push_back(4095);
	for (size_t n = 65530; n <= 65540; ++n) v.push_back(n);
	v.push_back(131077);
	return v;
}

// ------------------------------------------------------------------ one case
enum Cnt { C_OK, C_CASES, C_UNDECO, C_NESTED, C_DEPTH3, C_QUOTED, C_ESCQ, C_EMPTYSECT, C_EMPTYVAL, C_DUP, C_BLANKNAME, C_EMPTYNAME, C_ASSIGNFORM, C_LONGNAME, C_NOTCONSUMED, C_TREES, C_NONTRIVIAL,
           C_LEN0, C_LEN1, C_LEN2, C_LEN3, C_BIT0, C_NCNT = C_BIT0 + 10 };
static const char *cntname[] = { "held", "cases", "undecorated", "tree:nested", "tree:depth3", "value:quoted", "value:escaped-quote-kept", "tree:empty-section", "value:empty",
           "tree:duplicate-sibling-names", "name:with-blank", "name:empty", "name:empty,written-with-assign", "name:256-or-longer", "input-not-fully-consumed(not flagged)", "trees", "nontrivial",
           "value:short", "value:len250-254", "value:len255-65535", "value:len>=65536" };
static uint64_t g_cnt[C_NCNT];
// per-tree cache: everything that does not depend on the decoration mask
static struct TreeCache { bool valid; std::string key, want, sigbase, plain_canon; int plain_ret; Feat ft; int lencl; } g_tc;

static uint64_t g_flavcnt[16], g_comcnt[8];
static const char *flavname(int flav) { return flav < NFLAV ? flavs[flav].name : comflav[flav - NFLAV + 1]; }
static std::string describe(const Fmt &f, unsigned mask, int flav, const std::string &doc)
{
	return fmt("format %s \"%s\" mask %#x ws %s, document: %s", f.id, f.fmt ? f.fmt : "(default)", mask, flavname(flav), show(doc).c_str());
}
static void check_case(Run &r, const Fmt &f, const std::vector<TN> &tree, unsigned mask, int flav, const std::string &treekey)
{
	TreeCache &tc = g_tc;
	if (!tc.valid || tc.key != treekey) {
		tc.key = treekey; tc.want.clear(); canon_model(tree, tc.want);
		memset(&tc.ft, 0, sizeof tc.ft); features(tree, 1, tc.ft);
		tc.lencl = tc.ft.maxlen < 250 ? 0 : (tc.ft.maxlen < 255 ? 1 : (tc.ft.maxlen < 65536 ? 2 : 3));
		tc.sigbase = std::string(stylename(f.style)) + "|" + lencls(tc.ft.maxlen) + (tc.ft.blankname ? ",blank-in-name" : "") + (tc.ft.emptyname ? ",empty-name" : "") + (tc.ft.maxname >= 256 ? ",long-name" : "") + "|";
		// undecorated reference parse
		std::string plain = render(f, tree, 0);
		Parsed pp = real_parse(r, f, plain); ++r.transitions;
		tc.plain_canon = pp.canon; tc.plain_ret = pp.ret; tc.valid = true;
		if (r.replaying) r.note("undecorated document: %s  -> ret %d: %s", show(plain).c_str(), pp.ret, pp.canon.c_str());
	}
	const Feat &ft = tc.ft;
	std::string doc = render(f, tree, mask, flav);
	if (r.replaying) {
		r.note("format %s (\"%s\", flags %s)  mask %#x", f.id, f.fmt ? f.fmt : "(default)", f.flags ? f.flags : "(all)", mask);
		for (int b = 0; b < NBITN; ++b) if (mask & (1u << b)) r.note("  decoration: %s", bitname[b]);
		if (mask & (WSBITS | COMBITS)) r.note("  white space / comment flavour: %s", flavname(flav));
		r.note("document (%zu bytes): %s", doc.size(), show(doc).c_str());
		r.note("generating tree: %s", tc.want.c_str());
	}
	++r.states;
	Parsed p = real_parse(r, f, doc); ++r.transitions;
	if (r.replaying) r.note("parse returned %d (line %zu, %zu of %zu bytes consumed): %s", p.ret, p.line, p.consumed, doc.size(), p.canon.c_str());
	bool bad = false;
	bool plain_ok = tc.plain_ret >= 0 && tc.plain_canon == tc.want;
	bool this_ok = p.ret >= 0 && p.canon == tc.want && p.linkerr.empty();
	if (p.asan) { r.violation(tc.sigbase + "memory", describe(f, mask, flav, doc) + ": AddressSanitizer report while parsing / releasing the tree"); bad = true; }
	else if (this_ok && !p.texterr.empty()) { r.violation(tc.sigbase + "unreadable-as-text", describe(f, mask, flav, doc) + ": " + p.texterr); bad = true; }
	else if (this_ok) { /* decorated and undecorated text both have to give the generating tree; a wrong undecorated parse is reported by the mask-0 case */ }
	else if (mask && plain_ok) {
		r.violation(tc.sigbase + "decoration-changes-result", describe(f, mask, flav, doc) + (p.ret < 0 ? fmt(": decorated parse returned %d at line %zu", p.ret, p.line) : ": decorated parse [" + p.canon + "]" + (p.linkerr.empty() ? "" : " (" + p.linkerr + ")"))
		            + ", undecorated parse is the expected [" + tc.want + "]"); bad = true;
	}
	else if (p.ret < 0) { r.violation(tc.sigbase + "refused", describe(f, mask, flav, doc) + fmt(": mpt_parse_node returned %d at line %zu", p.ret, p.line)); bad = true; }
	else if (p.canon != tc.want) { r.violation(tc.sigbase + "wrong-tree", describe(f, mask, flav, doc) + ": parsed [" + p.canon + "] expected [" + tc.want + "]"); bad = true; }
	else { r.violation(tc.sigbase + "wrong-tree", describe(f, mask, flav, doc) + ": " + p.linkerr); bad = true; }
	// coverage counters: what was enumerated (independent of the verdict), plus the number of cases that held
	++g_cnt[C_CASES];
	if ((mask & WSBITS) && flav < NFLAV) ++g_flavcnt[flav];
	if (mask & COMBITS) ++g_comcnt[flav >= NFLAV ? flav - NFLAV + 1 : 0];
	if (mask) { for (int b = 0; b < NBITN; ++b) if (mask & (1u << b)) ++g_cnt[C_BIT0 + b]; }
	else ++g_cnt[C_UNDECO];
	g_cnt[C_NESTED] += ft.nested; g_cnt[C_DEPTH3] += ft.depth3; g_cnt[C_QUOTED] += ft.quoted; g_cnt[C_ESCQ] += ft.escq;
	g_cnt[C_EMPTYSECT] += ft.emptysect; g_cnt[C_EMPTYVAL] += ft.emptyval; g_cnt[C_DUP] += ft.dup; g_cnt[C_BLANKNAME] += ft.blankname; g_cnt[C_EMPTYNAME] += ft.emptyname; g_cnt[C_ASSIGNFORM] += ft.assignform; g_cnt[C_LONGNAME] += ft.maxname >= 256;
	++g_cnt[C_LEN0 + tc.lencl];
	if (mask && (ft.nested || ft.maxlen >= 250 || ft.maxname >= 250)) ++g_cnt[C_NONTRIVIAL];
	if (bad) return;
	++g_cnt[C_OK];
	if (p.consumed != doc.size()) ++g_cnt[C_NOTCONSUMED];
}

// ------------------------------------------------------------------ C++ front end (mpt::config_parser) incl. object reuse
// Same writer and model; the text goes through a file because mpt::parser only opens named files.  One case =
// (document 2, document 1, switch): a fresh parser reads document 2 (must give the generating tree); a second parser
// object reads document 1, is then pointed at document 2 either by reset() (same file name, new content) or by open()
// of another file, and reads again into the same target node: the second result must be the fresh parser's result.
enum { X_HIST, X_RESET, X_REOPEN, X_D1SAME, X_D1EMPTY, X_D1OPT, X_D1SECT, X_D1ESECT, X_D1BROKEN, X_D1FAILED, X_RESETFAIL, X_NCNT };
static const char *xname[] = { "cxx:histories", "cxx:switch-by-reset", "cxx:switch-by-open", "cxx:first-document-same", "cxx:first-document-empty",
                               "cxx:first-document-ends-with-option", "cxx:first-document-ends-with-section-end", "cxx:first-document-ends-with-empty-section", "cxx:first-document-malformed", "cxx:first-read-failed-then-reused", "cxx:reset-refused(not flagged)" };
static uint64_t g_xcnt[X_NCNT];
static std::string g_file[2];
static bool put_file(int k, const std::string &doc)
{
	if (g_file[k].empty()) g_file[k] = fmt("%s/c09-%d-%c.cfg", access("/dev/shm", W_OK) == 0 ? "/dev/shm" : "/tmp", (int) getpid(), 'a' + k);
	FILE *fp = fopen(g_file[k].c_str(), "w");
	if (!fp) return false;
	bool ok = fwrite(doc.data(), 1, doc.size(), fp) == doc.size();
	return fclose(fp) == 0 && ok;
}
static void drop_files() { for (int k = 0; k < 2; ++k) if (!g_file[k].empty()) unlink(g_file[k].c_str()); }
static mpt::config_parser *cxx_new(const Fmt &f)
{
	mpt::config_parser *p = LIB(new mpt::config_parser);
	LIB(p->set_format(f.fmt));
	if (f.flags) mpt::mpt_parse_accept(&p->_d.name, f.flags); else p->_d.name.sect = p->_d.name.opt = 0xff;
	return p;
}
struct XRes { int ret; std::string canon, linkerr; };
static XRes cxx_read(mpt::config_parser *p, mpt::node *to)
{
	XRes x;
	x.ret = LIB(p->read(*to, 0));
	if (x.ret >= 0) canon_real(to->children, to, false, x.canon, x.linkerr);
	return x;
}
static void fixed_tree(int which, std::vector<TN> &t)
{
	TN o; o.sect = false; o.name = "a"; o.val = "x"; o.quote = 0;
	TN s; s.sect = true; s.name = "a"; s.quote = 0;
	if (which == 0) t.push_back(o);                          // last event: option
	else if (which == 1) { TN k = o; k.name = "b"; s.kids.push_back(k); t.push_back(s); }   // last event: section end
	else t.push_back(s);                                      // empty section
}
static void cxx_case(Run &r, const Fmt &f, const std::vector<TN> &tree, unsigned mask, Ctx &x)
{
	size_t d1 = x.choose(6), sw = x.choose(2);
	std::string want2; canon_model(tree, want2);
	std::string doc2 = render(f, tree, mask), doc1, want1;
	if (d1 == 0) { doc1 = doc2; want1 = want2; }
	else if (d1 == 5) doc1 = "broken name\nnext\n";   // refused in most formats: the failed read must not influence the next one
	else if (d1 >= 2) { std::vector<TN> t1; fixed_tree((int) d1 - 2, t1); doc1 = render(f, t1, 0); canon_model(t1, want1); }
	static const char *d1n[] = { "the same document", "an empty document", "a document ending with an option", "a document ending with a section end", "a document ending with an empty section", "a malformed document" };
	std::string hist = sw ? "reopen" : "reset";
	std::string what = fmt("format %s \"%s\" mask %#x: read %s [%s], %s, read [%s]", f.id, f.fmt ? f.fmt : "(default)", mask, d1n[d1], show(doc1).c_str(),
	                       sw ? "open() another file" : "reset() with new file content", show(doc2).c_str());
	if (r.replaying) r.note("%s", what.c_str());
	static bool warm = false;
	for (int pass = warm ? 1 : 0; pass < 2; ++pass) {   // first case of a process runs twice: lazy library singletons must not count as leaks
		warm = true;
		asan_error(); ledger_reset();
		r.hint("cxx|fresh");
		if (!put_file(0, doc2)) { r.incomplete("cannot write scratch file"); return; }
		mpt::config_parser *p = cxx_new(f);
		mpt::node *n = LIB(new mpt::node);
		bool opened = LIB(p->open(g_file[0].c_str()));
		XRes fresh = cxx_read(p, n);
		LIB((delete n, 0)); LIB((delete p, 0));
		// reuse history
		r.hint(sw ? "cxx|reopen" : "cxx|reset");
		put_file(0, doc1);
		p = cxx_new(f); n = LIB(new mpt::node);
		LIB(p->open(g_file[0].c_str()));
		XRes first = cxx_read(p, n);
		bool switched;
		if (sw) { put_file(1, doc2); switched = LIB(p->open(g_file[1].c_str())); }
		else { put_file(0, doc2); switched = LIB(p->reset()); }
		XRes second; second.ret = 0;
		if (switched) second = cxx_read(p, n);
		LIB((delete n, 0)); LIB((delete p, 0));
		bool asan = asan_error(); size_t live = ledger_live();
		if (!pass) continue;
		++r.states; r.transitions += 3;
		++g_xcnt[X_HIST]; ++g_xcnt[sw ? X_REOPEN : X_RESET]; ++g_xcnt[X_D1SAME + d1];
		if (r.replaying) {
			r.note("fresh parser: open %d, read %d: %s", (int) opened, fresh.ret, fresh.canon.c_str());
			r.note("reused parser: first read %d: %s; switch %d; second read %d: %s", first.ret, first.canon.c_str(), (int) switched, second.ret, second.canon.c_str());
			r.note("expected: [%s] then [%s]; ledger live %zu", want1.c_str(), want2.c_str(), live);
		}
		if (asan) { r.violation("cxx|" + hist + "|memory", what + ": AddressSanitizer report"); return; }
		if (!opened || fresh.ret < 0) { r.violation("cxx|fresh|refused", what + fmt(": fresh parser open %d, read returned %d", (int) opened, fresh.ret)); return; }
		if (fresh.canon != want2 || !fresh.linkerr.empty()) { r.violation("cxx|fresh|wrong-tree", what + ": fresh parser gave [" + fresh.canon + "] " + fresh.linkerr + ", expected [" + want2 + "]"); return; }
		if (d1 == 5) { if (first.ret < 0) ++g_xcnt[X_D1FAILED]; }
		else if (first.ret < 0 || first.canon != want1 || !first.linkerr.empty()) { r.violation("cxx|fresh|wrong-tree", what + fmt(": first read returned %d [", first.ret) + first.canon + "] expected [" + want1 + "]"); return; }
		if (!switched) { ++g_xcnt[X_RESETFAIL]; }
		else if ((second.ret >= 0) != (fresh.ret >= 0) || second.canon != fresh.canon || !second.linkerr.empty())
			{ r.violation("cxx|" + hist + "|differs-from-fresh", what + fmt(": second read returned %d [", second.ret) + second.canon + "] " + second.linkerr + ", a fresh parser gives [" + fresh.canon + "]"); return; }
		if (live) { r.violation("cxx|" + hist + "|leak", what + fmt(": %zu library allocations still live after parser and target node were destroyed", live)); return; }
		++g_cnt[C_CASES]; ++g_cnt[C_OK];
	}
}

struct JobCtx { int nflav; Job j; std::vector<const char *> sn, on; std::vector<int> vals; std::vector<unsigned> masks, masks_big; std::vector<size_t> lens; };
static void setup(JobCtx &jc, const std::string &job)
{
	jc.j = parse_job(job);
	// "<maskset>+ws": every white space flavour for every mask that inserts white space
	jc.nflav = 1;
	{ size_t p = jc.j.maskset.find("+ws"); if (p != std::string::npos) { jc.nflav = NFLAV; jc.j.maskset.erase(p); } }
	const Fmt &f = fmts[jc.j.fmt];
	for (const char *n : NAMES) { if (name_ok(f, true, n)) jc.sn.push_back(n); if (name_ok(f, false, n)) jc.on.push_back(n); }
	for (int v = 0; v < jc.j.NV; ++v) jc.vals.push_back(v);
	if (jc.j.family == "tree" || jc.j.family == "cxx") jc.masks = masks_for(f, jc.j.maskset);
	else { jc.masks = masks_for(f, jc.j.maskset == "quick" ? "fewalt" : "all"); jc.masks_big = masks_for(f, jc.j.maskset == "quick" ? "min" : "few"); jc.lens = lens_for(jc.j.maskset); }
	g_tc.valid = false;
}
static void quotes_key(const std::vector<TN> &l, std::string &key) { for (const TN &n : l) { key += (char) ('0' + n.quote); quotes_key(n.kids, key); } }

static void body(Run &r, const JobCtx &jc, Ctx &x)
{
	const Job &j = jc.j;
	const Fmt &f = fmts[j.fmt];
	std::vector<TN> tree;
	const std::vector<unsigned> *masks = &jc.masks;
	int nflav = jc.nflav; bool lenfam = false;
	if (j.family == "tree" || j.family == "cxx") {
		Gen g = { x, f, j.D, j.F, j.B, jc.sn, jc.on, jc.vals };
		if (flat(f)) gen_sep(g, tree); else gen_list(g, tree, 1);
	} else {
		// one long value in a small fixed tree: length x template x writing
		size_t len = jc.lens[x.choose(jc.lens.size())];
		lenfam = true;
		if (len > 5000) { masks = &jc.masks_big; nflav = 1; }   // 64 KiB documents: fewer decoration subsets, default white space
		size_t tpl = x.choose(3), wr = x.choose(3), which = x.choose(3);   // which: long value / long option name / long section name
		if (which && (len > 5000 || wr || (which == 2 && !tpl))) return;
		std::string lname(len, 'n'); for (size_t i = 0; i < len; ++i) lname[i] = (char) ('a' + i % 23);
		TN lv; lv.sect = false; lv.name = which == 1 ? lname : std::string("b"); lv.val = which ? std::string("x") : longval(len); lv.quote = wr;
		if (wr == 2) { lv.val[0] = f.esc[0]; lv.val[len / 2] = f.esc[0]; lv.quote = 1; }   // escaped quotes at the start and in the middle
		TN x1; x1.sect = false; x1.name = "a"; x1.val = "x"; x1.quote = 0;
		TN x2; x2.sect = false; x2.name = "ab"; x2.val = "x y"; x2.quote = 0;
		if (tpl == 0) tree.push_back(lv);
		else {
			TN s; s.sect = true; s.name = which == 2 ? lname : std::string("a"); s.quote = 0;
			if (tpl == 2) s.kids.push_back(x1);
			s.kids.push_back(lv);
			if (tpl == 2) s.kids.push_back(x2);
			if (tpl == 2) tree.push_back(x1);
			tree.push_back(s);
			if (tpl == 2) { TN s2 = s; s2.name = "b"; s2.kids.clear(); s2.kids.push_back(x2); tree.push_back(s2); }
		}
	}
	// the quote style is not part of the canonical tree but of the document
	std::string key; canon_model(tree, key); quotes_key(tree, key);
	if (j.parts > 1 && fnv(key.data(), key.size()) % j.parts != j.part) return;
	size_t mi = x.choose(masks->size());
	if (!mi) {
		++g_cnt[C_TREES];
		if (r.samples.size() < 2 && tree.size() >= 2 && !tree[1].kids.empty()) r.sample(fmt("%s: ", f.id) + show(render(f, tree, masks->back())).substr(0, 300));
	}
	unsigned mask = (*masks)[mi];
	if (j.family == "cxx") { cxx_case(r, f, tree, mask, x); return; }
	if (lenfam && __builtin_popcount(mask & ~ALT) > 2) nflav = 1;   // long values: flavours with at most two decorations
	int flav = 0;
	if (nflav > 1 && (mask & (WSBITS | COMBITS))) {
		// default, the other white space flavours (if white space is inserted), the other comment flavours (if comments are)
		int nws = (mask & WSBITS) ? NFLAV - 1 : 0, nc = (mask & COMBITS) ? NCOMFLAV - 1 : 0;
		int c = (int) x.choose(1 + nws + nc);
		flav = c <= nws ? c : NFLAV + (c - nws - 1);
	}
	check_case(r, f, tree, mask, flav, key);
}

void mc_explore(Run &r, const std::string &job)
{
	JobCtx jc; setup(jc, job);
	memset(g_cnt, 0, sizeof g_cnt);
	for (int i = 0; i < C_BIT0; ++i) if (i != C_NOTCONSUMED && i != C_OK) r.require(cntname[i]);
	for (int b = 0; b < NBITN; ++b) r.require(std::string("deco:") + bitname[b]);
	for (int i = 0; i < NFLAV; ++i) r.require(std::string("ws:") + flavs[i].name);
	for (int i = 0; i < NCOMFLAV; ++i) r.require(std::string("comment:") + comflav[i]);
	memset(g_flavcnt, 0, sizeof g_flavcnt); memset(g_comcnt, 0, sizeof g_comcnt);
	for (int i = 0; i < NFMT; ++i) r.require(std::string("cases:") + fmts[i].id);
	for (int i = 0; i < X_RESETFAIL; ++i) r.require(xname[i]);
	memset(g_xcnt, 0, sizeof g_xcnt);
	dfs(r, [&](Ctx &x) { body(r, jc, x); });
	const Fmt &f = fmts[jc.j.fmt];
	for (int i = 0; i < C_BIT0; ++i) if (g_cnt[i]) { r.count(cntname[i], g_cnt[i]); if (i == C_CASES) r.count(std::string("cases:") + f.id, g_cnt[i]); }
	for (int b = 0; b < NBITN; ++b) if (g_cnt[C_BIT0 + b]) r.count(std::string("deco:") + bitname[b], g_cnt[C_BIT0 + b]);
	for (int i = 0; i < NFLAV; ++i) if (g_flavcnt[i]) r.count(std::string("ws:") + flavs[i].name, g_flavcnt[i]);
	for (int i = 0; i < NCOMFLAV; ++i) if (g_comcnt[i]) r.count(std::string("comment:") + comflav[i], g_comcnt[i]);
	for (int i = 0; i < X_NCNT; ++i) if (g_xcnt[i]) r.count(xname[i], g_xcnt[i]);
	drop_files();
}
void mc_replay(Run &r, const std::string &job, const Vec &v)
{
	JobCtx jc; setup(jc, job);
	dfs_replay(r, [&](Ctx &x) { body(r, jc, x); }, v);
	drop_files();
}

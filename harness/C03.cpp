// C03 — decoders are safe and honest on arbitrary bytes.
// Choice-tree DFS: every byte string over the boundary alphabet up to length L x every arrival
// composition x every ring cut position (input presented as one or two exactly sized iovecs) x
// 5 decoders; the decoder is re-entered after every return code, a peek call precedes every real
// call.  Oracles: termination, ASan, writes only below the new input position, peek changes
// nothing, delivered messages equal the independent reference decoder's, malformed frames are
// never delivered, well-formed frames are delivered and never answered with an error.
#include <cstdlib>
#include <algorithm>
#include <sys/uio.h>
#include "convert.h"
#include "message.h"
#include "mc.hpp"
#include "refcodec.hpp"

using namespace mc;
using namespace mpt;
using ref::Bytes;
const char *mc_id = "C03";
const char *mc_rule = "choice-tree DFS: all strings over {00,01,02,1F,20,DE,DF,E0,E1,FE,FF} up to length L x all arrival compositions x ring cut (none or every offset) x 5 decoders, "
                      "peek before each call; nontrivial = distinct executions with a resumed decode (several calls), a MissingBuffer retry, a two-iovec presentation, or a reported error";

static data_decoder_t decoders[] = { mpt_decode_cobs, mpt_decode_cobs_r, mpt_decode_cobs_zpe, mpt_decode_cobs_zpe_r, mpt_decode_command };
static const uint8_t ALPHA[] = {0x00, 0x01, 0x02, 0x1F, 0x20, 0xDE, 0xDF, 0xE0, 0xE1, 0xFE, 0xFF};

struct Counters { uint64_t exec, nontrivial, resumed, retry, split, errors, delivered, peeks, malformed_refused, hole_seam, hole_delivered; };

// run the decoder on the truth buffer T presented as one or two separately allocated blocks
// hole: additionally put EMPTY iovecs (iov_len 0) into the vector: between the two blocks, or (single block) in front of and behind it
static int call_decoder(int f, decode_state &st, Bytes &T, size_t cut, size_t cnt, bool hole = false)
{
	size_t n = T.size();
	if (hole) {
		bool two = cut && cut < n; size_t la = two ? cut : n;
		uint8_t *a = (uint8_t *) malloc(la ? la : 1), *b = (uint8_t *) malloc(n - la ? n - la : 1), *e = (uint8_t *) malloc(1);
		memcpy(a, T.data(), la); memcpy(b, T.data() + la, n - la);
		struct iovec v[3]; int ret;
		if (two) { v[0] = {a, la}; v[1] = {e, 0}; v[2] = {b, n - la}; }
		else { v[0] = {e, 0}; v[1] = {a, la}; v[2] = {e, 0}; }
		ret = LIB(decoders[f](&st, v, 3));
		memcpy(T.data(), a, la); memcpy(T.data() + la, b, n - la);
		free(a); free(b); free(e);
		return ret;
	}
	if (cut == 0 || cut >= n) {
		uint8_t *a = (uint8_t *) malloc(n ? n : 1); memcpy(a, T.data(), n);
		struct iovec v = {a, n};
		int ret = LIB(decoders[f](&st, &v, cnt));
		memcpy(T.data(), a, n); free(a);
		return ret;
	}
	uint8_t *a = (uint8_t *) malloc(cut), *b = (uint8_t *) malloc(n - cut);
	memcpy(a, T.data(), cut); memcpy(b, T.data() + cut, n - cut);
	struct iovec v[2] = {{a, cut}, {b, n - cut}};
	int ret = LIB(decoders[f](&st, v, 2));
	memcpy(T.data(), a, cut); memcpy(T.data() + cut, b, n - cut);
	free(a); free(b);
	return ret;
}

static void body(Run &r, Counters &c, int f, int L, Ctx &x, size_t gap = 0, bool hole = false)
{
	Bytes in; std::vector<size_t> chunks; size_t cut = 0; uint64_t mask = 0; size_t len;
	if (L > 0) {
		// family A: all strings up to length L, all arrival compositions, every cut
		len = 1 + x.choose(L);
		for (size_t i = 0; i < len; ++i) in.push_back(ALPHA[x.choose(sizeof ALPHA)]);
		mask = len > 1 ? x.choose(1ull << (len - 1)) : 0;
		{ size_t cur = 1; for (size_t i = 0; i + 1 < len; ++i) { if (mask >> i & 1) { chunks.push_back(cur); cur = 1; } else ++cur; } chunks.push_back(cur); }
		cut = x.choose(len);   // 0 = single iovec, else ring seam that many bytes behind the start of the input
	} else {
		// family B: one long block: pre ++ code ++ fill^k ++ post ; k = block data length - {1,0}
		static const uint8_t CODES[] = {0x02, 0x1F, 0x20, 0xDE, 0xDF, 0xE0, 0xE1, 0xFE, 0xFF};
		static const uint8_t PA[] = {0x00, 0x01, 0xE0};
		unsigned code = CODES[-L - 1];
		bool zpe = f == ref::ZPE || f == ref::ZPE_R;
		unsigned nd = (zpe && code >= 0xE0) ? code - 0xE0 : code - 1;
		size_t npre = x.choose(2);
		if (npre) in.push_back(0x01);
		in.push_back((uint8_t) code);
		size_t k = nd - (nd ? 1 - x.choose(2) : 0);
		in.insert(in.end(), k, 0x11);
		size_t npost = x.choose(3);
		for (size_t i = 0; i < npost; ++i) in.push_back(PA[x.choose(sizeof PA)]);
		len = in.size();
		size_t marks[] = {1, npre + 1, npre + 2, len - npost, len - 1, len / 2};
		size_t ar = x.choose(2 + 6);
		if (ar == 0 || len < 2) chunks.push_back(len);
		else if (ar == 1) chunks.assign(len, 1);
		else { size_t p = marks[ar - 2]; if (p == 0 || p >= len) p = 1; chunks.push_back(p); chunks.push_back(len - p); }
		mask = ar;
		size_t ci = x.choose(5);
		cut = ci ? marks[ci - 1] : 0; if (cut >= len) cut = 0;
	}
	bool peeking = x.choose(2) != 0;
	std::string sc = std::string(ref::framing_name[f]) + (cut ? "|two-iovec" : "|one-iovec") + (hole ? "+empty-iovec" : "") + (peeking ? "+peek" : "");
	std::string desc = fmt("%s input {%s} arrival %zu chunk(s) mask=%llu cut=%zu peek=%d scratch=%zu%s", ref::framing_name[f], ref::hexs(in).c_str(), chunks.size(), (unsigned long long) mask, cut, (int) peeking, gap, hole ? " empty-iovec(s) at the seam / around the single block" : "");
	r.hint((sc + "|decode").c_str());
	r.note("%s", desc.c_str());

	// reference classification of the stream into frames
	struct Fr { ref::Verdict v; Bytes msg; };
	std::vector<Fr> frames;
	for (size_t p = 0; p < in.size();) {
		Fr fr; size_t nx = 0;
		fr.v = ref::decode((ref::Framing) f, in, p, fr.msg, nx);
		frames.push_back(fr);
		if (fr.v == ref::Incomplete) break;
		p = nx;
	}
	if (f == ref::COMMAND) for (auto &fr : frames) { fr.msg.insert(fr.msg.begin(), ' '); fr.msg.insert(fr.msg.begin(), (uint8_t) msgtype::Command); }

	asan_error();
	decode_state st;
	Bytes T(gap, 0xAA); size_t off = 0, seam = cut ? cut + gap : 0;   // seam moves when space is inserted in front of it
	st.curr = gap;                            // scratch area in front of the encoded data
	size_t delivered = 0; bool hard = false, check_content = true, bad = false;
	int calls = 0, retries = 0, aftererr = 0; bool resumed = false;
	size_t prevcurr = gap, errcurr = ~(size_t) 0;
	auto fail = [&](const char *kind, const std::string &what) { if (!bad) r.violation(sc + "|" + kind, desc + ": " + what); bad = true; };

	for (size_t ci = 0; ci <= chunks.size() && !bad; ++ci) {
		if (ci < chunks.size()) { T.insert(T.end(), in.begin() + off, in.begin() + off + chunks[ci]); off += chunks[ci]; }
		else if (!hard) break;
		size_t lastcurr = ~(size_t) 0; ssize_t lastmsg = -2;
		for (int round = 0; round < 64 && !bad; ++round) {
			// peek exactly as mpt_queue_peek does: real state, offsets reduced by the finished prefix,
			// single iovec = rest of the segment that holds the current position
			if (peeking && !hard && st.data.msg < 0) {
				size_t po = st.data.pos < st.curr ? st.data.pos : st.curr;
				size_t segend = (seam && po < seam && seam < T.size()) ? seam : T.size();
				if (po <= segend) {
					Bytes snap = T; size_t wl = segend - po;
					uint8_t *a = (uint8_t *) malloc(wl ? wl : 1); memcpy(a, T.data() + po, wl);
					struct iovec v = {a, wl};
					st.data.pos -= po; st.curr -= po;
					int pr = LIB(decoders[f](&st, &v, 0));
					st.data.pos += po; st.curr += po;
					memcpy(T.data() + po, a, wl); free(a);
					++c.peeks;
					if (asan_error()) { fail("peek|memory", "AddressSanitizer report in peek mode"); break; }
					size_t lim = st.curr < T.size() ? st.curr : T.size();
					if (!std::equal(T.begin() + lim, T.end(), snap.begin() + lim)) { fail("peek|writes-unconsumed", fmt("peek (ret %d) changed bytes at or behind the input position %zu", pr, st.curr)); break; }
				}
			}
			Bytes before = T;
			int ret = call_decoder(f, st, T, seam, 1, hole);
			++calls;
			if (asan_error()) { fail("memory", fmt("AddressSanitizer report in call %d", calls)); break; }
			// writes only below the new input position
			size_t lim = st.curr < T.size() ? st.curr : T.size();
			if (!std::equal(T.begin() + lim, T.end(), before.begin() + lim)) { fail("writes-unconsumed", fmt("call %d (ret %d) changed bytes at or behind the new input position %zu: before {%s} after {%s}", calls, ret, st.curr, hex(before.data(), before.size()).c_str(), hex(T.data(), T.size()).c_str())); break; }
			// the input position never moves backwards: everything in front of it may already hold decoded bytes
			if (st.curr < prevcurr) { fail("position-backwards", fmt("call %d (ret %d) moved the input position from %zu back to %zu", calls, ret, prevcurr, st.curr)); break; }
			prevcurr = st.curr;
			if (ret == MissingBuffer) {
				if (st.curr > T.size()) { fail("state", fmt("input position %zu beyond the %zu available bytes", st.curr, T.size())); break; }
				if (++retries > 40) { fail("no-progress", "decoder keeps asking for buffer space"); break; }
				T.insert(T.begin() + st.curr, 8, 0xCC);
				if (seam && seam >= st.curr) seam += 8;
				st.curr += 8; prevcurr = st.curr;
				continue;
			}
			if (ret < 0) {
				// resumed after the error as well: a decoder that steps over the refused frame has to go on with the
				// frames behind it, one that stays put has to keep refusing
				++c.errors;
				bool progress = !hard || st.curr != errcurr; errcurr = st.curr; hard = true;
				if (progress) {
					ref::Verdict v = delivered < frames.size() ? frames[delivered].v : ref::Incomplete;
					if (check_content && (v == ref::Ok || v == ref::Incomplete)) fail("error-on-wellformed", fmt("error %d although the input so far is a %s frame", ret, v == ref::Ok ? "well-formed" : "well-formed but unfinished"));
					else if (v == ref::Malformed) { ++c.malformed_refused; ++delivered; }
					else check_content = false;
				}
				if (++aftererr >= 8 || (!progress && aftererr >= 3)) break;
				continue;
			}
			if (!hard) aftererr = 0;
			if (st.data.msg >= 0 && !(st.curr == lastcurr && st.data.msg == lastmsg)) {
				// a message is delivered
				if (st.data.pos + (size_t) st.data.msg > T.size()) { fail("state", "message range outside the buffer"); break; }
				Bytes got(T.begin() + st.data.pos, T.begin() + st.data.pos + st.data.msg);
				if (check_content) {
					if (delivered >= frames.size() || frames[delivered].v == ref::Incomplete) fail("invented-message", "delivers {" + hex(got.data(), got.size()) + "} although no complete frame has arrived");
					else if (frames[delivered].v == ref::Malformed) fail("malformed-delivered", "malformed frame delivered as message {" + hex(got.data(), got.size()) + "}");
					else if (frames[delivered].v == ref::Unspecified) check_content = false;
					else if (got != frames[delivered].msg) fail("wrong-bytes", "message " + std::to_string(delivered) + " is {" + hex(got.data(), got.size()) + "}, reference decoder says {" + hex(frames[delivered].msg.data(), frames[delivered].msg.size()) + "}");
				}
				++delivered; ++c.delivered;
				lastcurr = st.curr; lastmsg = st.data.msg;
				continue;
			}
			// nothing (new) yet: call again only while the decoder still advances
			if (st.curr != lastcurr || st.data.msg != lastmsg) { lastcurr = st.curr; lastmsg = st.data.msg; if (round) resumed = true; continue; }
			break;
		}
	}
	if (!bad && check_content && !hard) {
		size_t expect = 0; while (expect < frames.size() && frames[expect].v == ref::Ok) ++expect;
		if (delivered < expect) fail("no-message", fmt("%zu complete well-formed frame(s) arrived, %zu message(s) delivered", expect, delivered));
	}
	LIB(decoders[f](&st, 0, 0));
	++c.exec; ++r.transitions;
	if (chunks.size() > 1) resumed = true;
	if (resumed) ++c.resumed; if (retries) ++c.retry; if (cut) ++c.split;
	if (resumed || retries || cut || hard) ++c.nontrivial;
	if (hole && cut) ++c.hole_seam; if (hole && delivered) ++c.hole_delivered;
	if (r.samples.size() < 2 && delivered && chunks.size() > 1 && cut) r.sample(desc + fmt(" -> %zu message(s), %d calls", delivered, calls));
}

static int Lq(Tier t) { return t == Quick ? 4 : 5; }
void mc_jobs(Tier t, std::vector<std::string> &jobs)
{
	// job = decoder : input length : first byte of the input [: scratch bytes in front of the input]
	for (int f = 0; f < 5; ++f) for (int len = 1; len <= Lq(t); ++len) for (size_t a = 0; a < sizeof ALPHA; ++a) jobs.push_back(fmt("%d:%d:%zu", f, len, a));
	for (int f = 0; f < 5; ++f) for (size_t g : {1, 16}) for (int len = 1; len < Lq(t); ++len) for (size_t a = 0; a < sizeof ALPHA; ++a) jobs.push_back(fmt("%d:%d:%zu:%zu", f, len, a, g));
	// family A with empty iovecs in the vector handed to the decoder: job = decoder : length : first byte : 0 : 1
	for (int f = 0; f < 5; ++f) for (int len = 1; len <= 4; ++len) for (size_t a = 0; a < sizeof ALPHA; ++a) jobs.push_back(fmt("%d:%d:%zu:0:1", f, len, a));   // length <= 4 in both tiers (budget)
	// family B (long single blocks around every code boundary): job = decoder : -(code index+1) : 0
	for (int f = 0; f < 4; ++f) for (int ci = 0; ci < 9; ++ci) jobs.push_back(fmt("%d:%d:0", f, -(ci + 1)));
}
static void run(Run &r, const std::string &job, const Vec *rep)
{
	int f, len; size_t a, g = 0, h = 0;
	if (sscanf(job.c_str(), "%d:%d:%zu:%zu:%zu", &f, &len, &a, &g, &h) < 3) return;
	int L = Lq(r.tier);
	Counters c = {};
	if (len < 0) L = len;
	if (rep) { dfs_replay(r, [&](Ctx &x) { body(r, c, f, L, x, g, h != 0); }, *rep); return; }
	for (const char *k : {"nontrivial", "resumed", "retry", "two_iovec", "errors", "delivered"}) r.require(k);
	if (h && len > 1) { r.require("empty_iovec_at_seam"); r.require("empty_iovec_delivered"); }
	Vec root{(uint64_t) len - 1, (uint64_t) a};
	if (len < 0) root.clear();
	dfs(r, [&](Ctx &x) { body(r, c, f, L, x, g, h != 0); }, -1, root);
	r.states += c.exec;
	r.count("nontrivial", c.nontrivial); r.count("resumed", c.resumed); r.count("retry", c.retry); r.count("two_iovec", c.split);
	r.count("errors", c.errors); r.count("delivered", c.delivered); r.count("peeks", c.peeks); r.count("malformed_refused", c.malformed_refused);
	if (h) { r.count("empty_iovec_at_seam", c.hole_seam); r.count("empty_iovec_delivered", c.hole_delivered); }
}
void mc_explore(Run &r, const std::string &job) { run(r, job, 0); }
void mc_replay(Run &r, const std::string &job, const Vec &v) { run(r, job, &v); }

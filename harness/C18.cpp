// C18 — visible line parts partition the data exactly.
// Stateless input enumeration: every value sequence over a small ordered
// alphabet (below, at-min, in1, in2, at-max, above [+ just-below, just-above])
// up to a length bound, for several ranges, is split into line parts by the
// real code through several drivers (plain C loop, windowed C loop, join pass,
// C++ linepart::array fresh/refine/2-dim, polyline) and every resulting part
// sequence is judged by one specification-level oracle (check_parts) that
// does not re-implement the splitting algorithm.  Additional grids: run-length
// shapes around the 65535 per-part limit, all pairs of well-formed parts for
// mpt_linepart_join, all 65536 fraction codes for mpt_linepart_code/real.
#include <cmath>
#include <cfloat>
#include <cstdlib>
#include "values.h"
#include "layout.h"
#include "mc.hpp"

using namespace mc;
using mpt::linepart;

// No allocation oracle is used for this property, so library calls are not entered into the
// engine's allocation ledger (its tombstoned hash table degrades after ~10^5 tracked blocks).
#undef LIB
#define LIB(expr) (expr)

const char *mc_id = "C18";
const char *mc_rule = "input enumeration: all value sequences over {below,at-min,in1,in2,at-max,above} (L<=7 quick, <=9 thorough) and the same plus {just-below,just-above} "
                      "(L<=6 / <=7) for ranges [0,1] and [-1,1], reduced alphabets for degenerate [1,1], NULL and inverted [1,0]; run shapes prefix.fill^k.suffix, k=65531..65537; "
                      "each input through 7 drivers (C loop, windowed C loop with every window size, join pass, array fresh/refine/2-dim, polyline) against one partition oracle; "
                      "all pairs (x,y) of sequences of length <=4 (thorough: 5 with four letters for y) merged over two limited dimensions by array::apply and polyline, drawn point = in range in both; "
                      "array histories set(n)/apply/set(-1)/apply on every input; all pairs of well-formed parts for join; all 65536 fraction codes. "
                      "nontrivial = distinct (range,sequence) inputs whose partition has a cut/trim fraction or a hidden value + distinct part pairs that merged + distinct codes round-tripped";

// ------------------------------------------------------------------ ranges and alphabets
struct Rng {
	const char *name; bool null; double min, max;
	int n6, n8;                 // alphabet sizes (base / with near-boundary letters)
	double val[8]; const char *lname[8];
};
static const double E20 = 1.0 / 1048576.0;
static const Rng RNG[] = {
	{"[0,1]",  false, 0, 1, 6, 8, {-0.5, 0, 0.25, 0.6, 1, 1.7, -E20, 1 + E20}, {"below", "at-min", "in1", "in2", "at-max", "above", "just-below", "just-above"}},
	{"[-1,1]", false, -1, 1, 6, 8, {-3, -1, -0.2, 0.9, 1, 1.5, -1 - 2 * E20, 1 + 2 * E20}, {"below", "at-min", "in1", "in2", "at-max", "above", "just-below", "just-above"}},
	{"[1,1]",  false, 1, 1, 3, 5, {0, 1, 2, 1 - E20, 1 + E20}, {"below", "in", "above", "just-below", "just-above"}},
	{"NULL",   true,  0, 0, 2, 0, {0, 5}, {"a", "b"}},
	{"[1,0]",  false, 1, 0, 3, 0, {-1, 0.5, 2}, {"low", "mid", "high"}},
	// magnitudes near DBL_MAX / DBL_MIN: differences overflow to inf, quotients underflow to 0 (sequence jobs only, no polyline coordinates)
	{"[0,1.5e308]", false, 0, 1.5e308, 6, 8, {-1e308, 0, 1e308, 1e300, 1.5e308, 1.7e308, -1e-300, 1.5000015e308}, {"below", "at-min", "in1", "in2", "at-max", "above", "just-below", "just-above"}},
};
static const int HUGE_RNG = 5;
static const int NRNG = 5;
static inline bool inr(const Rng &g, double x) { return g.null || (x >= g.min && x <= g.max); }

static const double Q16 = 1.0 / 65536.0;

struct Stats {
	uint64_t calls, parts, cut, trim, both, shared, hidden, capped, join_ok, join_ref, join_spur, cxx_parts, poly_parts, poly_fail, poly_reused_hidden, poly_reused_visible;
	uint64_t pair_reused, pair_first_empty, nolist_points, nolist_split, pair_gap, pair_unequal, pair_same_segment_ok, lost_crossings, pair_frac_checked, pair_frac_undefined, pair_frac_differ, hist_reset, pair_parts, pair_cut_and_trim2, pair_hidden_by_second, pair_poly_parts, pair_hist;
	uint64_t nontrivial;
};

// ------------------------------------------------------------------ the oracle
// Specification of a part sequence over data v[0..n) and a range:
//  * part k starts at s_k = sum of raw of earlier parts; raw >= 1, sum raw == n, nothing beyond the data
//  * drawn portion [s, s+usr); its first element is a cut end point iff _cut != 0, its last a trim end point iff _trim != 0
//  * end points are out of range, their inner neighbour is in range, decoded fraction within 2^-16 of the crossing
//  * every other drawn element is in range; every in-range element is drawn (as non end point) exactly once
struct Verdict { std::string kind, cls, detail; bool bad() const { return !kind.empty(); } };

static std::string part_str(const linepart &p) { return fmt("{raw=%u usr=%u cut=%u trim=%u}", p.raw, p.usr, p._cut, p._trim); }

static long double crossing(const Rng &g, double out, double in)
{
	long double b = out < g.min ? g.min : g.max;
	return (b - (long double) out) / ((long double) in - (long double) out);
}
static bool check_fraction(const Rng &g, const char *which, unsigned code, double out, double in, size_t k, Verdict &o)
{
	long double f = crossing(g, out, in);
	long double dec = mpt::mpt_linepart_real((int) code);
	long double err = dec > f ? dec - f : f - dec;
	if (err <= (long double) Q16 * (1 + 1e-9L)) return true;
	o.kind = std::string(which) + "-fraction"; o.cls = "off-by>2^-16";
	o.detail = fmt("part %zu: %s code %u decodes to %.9Lf but the line from %.17g to %.17g crosses the boundary at fraction %.9Lf", k, which, code, dec, out, in, f);
	return false;
}

static bool check_parts(const double *v, size_t n, const Rng &g, const linepart *ps, size_t np, Verdict &o, Stats *st, std::vector<uint8_t> &cover)
{
	cover.assign(n, 0);
	size_t pos = 0;
	bool interesting = false;
	for (size_t k = 0; k < np; ++k) {
		const linepart &p = ps[k];
		if (!n && np == 1 && !p.raw && !p.usr && !p._cut && !p._trim) break;   // empty input, empty part
		if (pos >= n) { o.kind = "part-after-end"; o.cls = "-"; o.detail = fmt("part %zu %s although all %zu values are consumed", k, part_str(p).c_str(), n); return false; }
		if (!p.raw) { o.kind = "no-progress"; o.cls = "raw=0"; o.detail = fmt("part %zu at position %zu is %s: consumes nothing", k, pos, part_str(p).c_str()); return false; }
		if (p.raw > n - pos) { o.kind = "overrun"; o.cls = "raw>available"; o.detail = fmt("part %zu at position %zu is %s but only %zu values remain", k, pos, part_str(p).c_str(), n - pos); return false; }
		if (p.usr > n - pos) { o.kind = "overrun"; o.cls = "usr>available"; o.detail = fmt("part %zu at position %zu is %s but only %zu values remain", k, pos, part_str(p).c_str(), n - pos); return false; }
		unsigned c = p._cut ? 1 : 0, t = p._trim ? 1 : 0;
		if (p.usr < c + t + (c || t ? 1u : 0u)) { o.kind = "flag-without-points"; o.cls = c ? "cut" : "trim"; o.detail = fmt("part %zu %s has a fraction but not enough drawn points", k, part_str(p).c_str()); return false; }
		size_t e = pos + p.usr;   // one behind the drawn portion
		if (c) {
			if (inr(g, v[pos]) || !inr(g, v[pos + 1])) { o.kind = "cut-misplaced"; o.cls = inr(g, v[pos]) ? "endpoint-in-range" : "neighbour-out-of-range"; o.detail = fmt("part %zu at %zu %s: cut between %.17g and %.17g", k, pos, part_str(p).c_str(), v[pos], v[pos + 1]); return false; }
			if (!check_fraction(g, "cut", p._cut, v[pos], v[pos + 1], k, o)) return false;
		}
		if (t) {
			if (inr(g, v[e - 1]) || !inr(g, v[e - 2])) { o.kind = "trim-misplaced"; o.cls = inr(g, v[e - 1]) ? "endpoint-in-range" : "neighbour-out-of-range"; o.detail = fmt("part %zu at %zu %s: trim between %.17g and %.17g", k, pos, part_str(p).c_str(), v[e - 2], v[e - 1]); return false; }
			if (!check_fraction(g, "trim", p._trim, v[e - 1], v[e - 2], k, o)) return false;
		}
		for (size_t i = pos + c; i < e - t; ++i) {
			if (inr(g, v[i])) { if (cover[i] < 3) ++cover[i]; continue; }
			// an out-of-range value is reported as a drawn point
			const char *where = "interior"; long double f = -1;
			if (i == pos && i + 1 < e && inr(g, v[i + 1])) { where = "unflagged-cut-endpoint"; f = crossing(g, v[i], v[i + 1]); }
			else if (i == e - 1 && i > pos && inr(g, v[i - 1])) { where = "unflagged-trim-endpoint"; f = crossing(g, v[i], v[i - 1]); }
			o.kind = "outrange-drawn"; o.cls = where;
			if (f >= 0) o.cls += f < (long double) Q16 ? ",fraction<2^-16" : ",fraction>=2^-16";
			o.detail = fmt("part %zu at %zu %s: value[%zu]=%.17g is outside %s but lies in the drawn portion without cut/trim mark", k, pos, part_str(p).c_str(), i, v[i], g.name);
			return false;
		}
		if (st) {
			++st->parts;
			if (c && t) ++st->both; else if (c) ++st->cut; else if (t) ++st->trim;
			if (p.usr > p.raw) ++st->shared;
			if (p.usr < p.raw) ++st->hidden;
			if (p.raw == UINT16_MAX) ++st->capped;
			// the line enters/leaves the range right next to a drawn point but the part has no fraction for it: happens where a part
			// ends because of the 65535 limit (the text promises correct stored fractions, not a fraction for every crossing)
			if (!c && p.usr && pos && inr(g, v[pos]) && !inr(g, v[pos - 1])) ++st->lost_crossings;
			if (!t && p.usr && e < n && inr(g, v[e - 1]) && !inr(g, v[e])) ++st->lost_crossings;
		}
		if (c || t || p.usr < p.raw) interesting = true;
		pos += p.raw;
	}
	if (pos != n) { o.kind = "raw-sum"; o.cls = pos < n ? "short" : "long"; o.detail = fmt("parts consume %zu of %zu values", pos, n); return false; }
	for (size_t i = 0; i < n; ++i) {
		if (!inr(g, v[i])) continue;
		if (cover[i] == 1) continue;
		o.kind = cover[i] ? "inrange-drawn-twice" : "inrange-not-drawn"; o.cls = "-";
		o.detail = fmt("value[%zu]=%.17g is inside %s and lies in the drawn portion of %u parts", i, v[i], g.name, cover[i]);
		return false;
	}
	if (st && interesting) ++st->nontrivial;
	return true;
}

static std::string parts_str(const std::vector<linepart> &ps)
{
	std::string s;
	for (size_t i = 0; i < ps.size() && i < 12; ++i) s += (i ? " " : "") + part_str(ps[i]);
	if (ps.size() > 12) s += " ...";
	return s;
}

// ------------------------------------------------------------------ drivers
struct Case {
	Run &r; Stats &st;
	const Rng &g; const double *v; size_t n;
	std::function<std::string()> describe;   // textual input (built only when needed)
	const char *suffix;        // signature suffix ("" or "|long")
	std::vector<uint8_t> cover;
	bool bad;
	Case(Run &run, Stats &s, const Rng &rg, const double *vals, size_t len, const std::function<std::string()> &d, const char *sfx) : r(run), st(s), g(rg), v(vals), n(len), describe(d), suffix(sfx), bad(false) {}
	void fail(const std::string &driver, const std::string &kind, const std::string &cls, const std::string &detail)
	{
		r.violation(driver + "|" + kind + "|" + cls + suffix, "range " + std::string(g.name) + " data " + describe() + " via " + driver + ": " + detail);
		bad = true;
	}
	bool judge(const std::string &driver, const std::vector<linepart> &ps, bool stats)
	{
		Verdict o;
		if (r.replaying) r.note("%s -> %s", driver.c_str(), parts_str(ps).c_str());
		if (asan_error()) { fail(driver, "memory", "asan", "access outside the value array (AddressSanitizer)"); return false; }
		if (check_parts(v, n, g, ps.data(), ps.size(), o, stats ? &st : 0, cover)) return true;
		fail(driver, o.kind, o.cls, o.detail + " ; parts " + parts_str(ps));
		return false;
	}
};

// plain / windowed C loop.  window == 0: offer everything that is left
static bool drive_c(Case &c, size_t window, std::vector<linepart> &ps)
{
	const struct mpt::range rg(c.g.min, c.g.max);
	ps.clear();
	size_t pos = 0;
	const char *drv = window ? "linear-windowed" : "linear";
	c.r.hint(drv);
	if (!c.n) {
		linepart p; memset(&p, 0x5a, sizeof p);
		LIB((mpt::mpt_linepart_linear(&p, c.v, 0, c.g.null ? 0 : &rg), 0));
		++c.r.transitions; ++c.st.calls;
		ps.push_back(p);
		return true;
	}
	while (pos < c.n) {
		size_t avail = c.n - pos;
		if (window) { size_t w = window - pos % window; if (w < avail) avail = w; }
		linepart p; memset(&p, 0x5a, sizeof p);
		LIB((mpt::mpt_linepart_linear(&p, c.v + pos, avail, c.g.null ? 0 : &rg), 0));
		++c.r.transitions; ++c.st.calls;
		ps.push_back(p);
		size_t cap = avail > UINT16_MAX ? UINT16_MAX : avail;
		if (!p.raw) { c.fail(drv, "no-progress", "raw=0", fmt("call at position %zu with %zu values returned %s", pos, avail, part_str(p).c_str())); return false; }
		if (p.raw > cap || p.usr > cap) { c.fail(drv, "overrun", p.raw > cap ? "raw>offered" : "usr>offered", fmt("call at position %zu with %zu values returned %s", pos, avail, part_str(p).c_str())); return false; }
		pos += p.raw;
	}
	return true;
}

// what a join of two neighbouring parts may do: reference decision
static bool model_join(const linepart &to, const linepart &post, linepart &j, const char **why)
{
	unsigned long raw = (unsigned long) to.raw + post.raw, usr = (unsigned long) to.usr + post.usr;
	*why = "";
	if (raw > UINT16_MAX) { *why = "raw-overflow"; return false; }
	if (!post.usr) { j = to; j.raw = raw; return true; }
	if (!to.raw && !to.usr) { j = post; return true; }
	if (to._trim) { *why = "first-trimmed"; return false; }
	if (post._cut) { *why = "second-cut"; return false; }
	if (to.usr != to.raw) { *why = "first-has-hidden-tail"; return false; }
	if (usr > UINT16_MAX) { *why = "usr-overflow"; return false; }
	j.raw = raw; j.usr = usr; j._cut = to._cut; j._trim = post._trim;
	return true;
}
static bool same(const linepart &a, const linepart &b) { return a.raw == b.raw && a.usr == b.usr && a._cut == b._cut && a._trim == b._trim; }

// greedy join of neighbours with the real function; returns false when a violation was reported
static bool join_pass(Case &c, const std::vector<linepart> &ps, std::vector<linepart> &js)
{
	js.clear();
	if (ps.empty()) return true;
	c.r.hint("join");
	unsigned long raw0 = 0, usr0 = 0, raw1 = 0, usr1 = 0;
	for (auto &p : ps) { raw0 += p.raw; usr0 += p.usr; }
	linepart acc = ps[0];
	for (size_t k = 1; k < ps.size(); ++k) {
		linepart before = acc, want; const char *why;
		bool ok = model_join(before, ps[k], want, &why);
		linepart *ret = LIB(mpt::mpt_linepart_join(&acc, ps[k]));
		++c.r.transitions;
		if (!ret) {
			++c.st.join_ref; if (ok) ++c.st.join_spur;
			if (!same(acc, before)) { c.fail("join", "refused-but-changed", "-", part_str(before) + " + " + part_str(ps[k]) + " refused but first is now " + part_str(acc)); return false; }
			js.push_back(acc); acc = ps[k];
		} else {
			++c.st.join_ok;
			if (ret != &acc) { c.fail("join", "return-value", "-", "success does not return the first part"); return false; }
		}
	}
	js.push_back(acc);
	for (auto &p : js) { raw1 += p.raw; usr1 += p.usr; }
	if (raw0 != raw1 || usr0 != usr1) { c.fail("join", "total-changed", raw0 != raw1 ? "raw" : "usr", fmt("sum raw %lu -> %lu, sum usr %lu -> %lu", raw0, raw1, usr0, usr1) + " ; before " + parts_str(ps) + " ; after " + parts_str(js)); return false; }
	return true;
}

static void setup_tr(mpt::layout::graph::transform3 &tr, const Rng &g, int dims)
{
	tr._dim[0]._flags = g.null ? 0 : mpt::TransformLimit;
	{ struct mpt::range lim(g.min, g.max); tr._dim[0].limit = lim; }
	tr._dim[0].scale = 1; tr._dim[0].add = 0; tr._dim[0].to = mpt::fpoint(1, 0);
	tr._dim[1]._flags = 0; tr._dim[1].scale = 1; tr._dim[1].add = 0; tr._dim[1].to = dims > 1 ? mpt::fpoint(0, 1) : mpt::fpoint(0, 0);
	tr._dim[2]._flags = 0; tr._dim[2].to = mpt::fpoint(0, 0);
	tr._base = mpt::fpoint(0, 0);
}
static void copy_parts(linepart::array &a, std::vector<linepart> &ps)
{
	ps.clear();
	for (auto p : a) ps.push_back(p);
}

// C++ layer: linepart::array fresh apply, refine of a preset, 2-dim refine, polyline
static void drive_cxx(Case &c, bool with_poly)
{
	if (!c.n) return;
	std::vector<linepart> ps;
	mpt::layout::graph::transform3 tr;
	setup_tr(tr, c.g, 1);
	mpt::span<const double> src(c.v, c.n);
	{
		c.r.hint("array-apply");
		linepart::array a;
		bool ok = LIB(a.apply(tr, 0, src));
		++c.r.transitions;
		copy_parts(a, ps);
		if (!ok) { c.fail("array-apply", "refused", "-", "apply() on an empty part array failed"); return; }
		if (!c.judge("array-apply", ps, false)) return;
		c.st.cxx_parts += ps.size();
		long lr = LIB(a.length_raw()), lu = LIB(a.length_user()); unsigned long su = 0;
		for (auto &p : ps) su += p.usr;
		if (lr != (long) c.n || lu != (long) su) { c.fail("array-apply", "length", lr != (long) c.n ? "raw" : "user", fmt("length_raw()=%ld length_user()=%ld for %zu values, sum usr %lu", lr, lu, c.n, su)); return; }
	}
	{
		c.r.hint("array-refine");
		linepart::array a;
		bool ok = LIB(a.set((long) c.n));
		long lr = ok ? LIB(a.length_raw()) : -1, lu = ok ? LIB(a.length_user()) : -1;
		if (!ok || lr != (long) c.n || lu != (long) c.n) { c.fail("array-set", "length", "-", fmt("set(%zu) -> %d, length_raw()=%ld length_user()=%ld", c.n, (int) ok, lr, lu)); return; }
		ok = LIB(a.apply(tr, 0, src));
		++c.r.transitions;
		copy_parts(a, ps);
		if (!ok) { c.fail("array-refine", "refused", "-", "apply() on a preset part array failed"); return; }
		if (!c.judge("array-refine", ps, false)) return;
		c.st.cxx_parts += ps.size();
		// second, unlimited dimension: every value of it is visible, the partition of dimension 0 must survive
		mpt::layout::graph::transform3 tr2;
		setup_tr(tr2, c.g, 2);
		c.r.hint("array-refine-2dim");
		ok = LIB(a.apply(tr2, 1, src));
		++c.r.transitions;
		copy_parts(a, ps);
		if (!ok) { c.fail("array-refine-2dim", "refused", "-", "apply() of an unlimited second dimension failed"); return; }
		if (!c.judge("array-refine-2dim", ps, false)) return;
		lr = LIB(a.length_raw());
		if (lr != (long) c.n) { c.fail("array-refine-2dim", "length", "raw", fmt("length_raw()=%ld for %zu values", lr, c.n)); return; }
	}
	{
		// history: set(n) / apply(limiting) / set(-1) / apply again: the total number of covered values never changes,
		// set(-1) makes every value visible again, and the second apply() reproduces the first partition
		c.r.hint("array-history");
		linepart::array a;
		std::vector<linepart> first;
		bool ok = LIB(a.set((long) c.n)) && LIB(a.apply(tr, 0, src));
		copy_parts(a, first);
		ok = ok && LIB(a.set(-1));
		c.r.transitions += 2;
		long lr = LIB(a.length_raw()), lu = LIB(a.length_user());
		copy_parts(a, ps);
		bool plain = true; for (auto &p : ps) if (!p.raw || p.raw != p.usr || p._cut || p._trim) plain = false;
		if (asan_error()) { c.fail("array-history", "memory", "asan", "set(-1) accesses memory outside its arrays"); return; }
		if (ok && lr == (long) c.n && lu == (long) c.n && !plain) { c.fail("array-history", "stale-marks", "after-set(-1)", "set(-1) re-partitions the values but keeps cut/trim marks of the old parts: before " + parts_str(first) + " ; after " + parts_str(ps)); return; }
		if (!ok || lr != (long) c.n || lu != (long) c.n) { c.fail("array-history", "total-changed", lr != (long) c.n ? "raw" : "usr", fmt("set(%zu), apply(), set(-1): length_raw()=%ld length_user()=%ld", c.n, lr, lu) + " ; before " + parts_str(first) + " ; after " + parts_str(ps)); return; }
		ok = LIB(a.apply(tr, 0, src));
		++c.r.transitions;
		copy_parts(a, ps);
		if (!ok) { c.fail("array-history", "refused", "-", "apply() after set(-1) failed"); return; }
		if (!c.judge("array-history", ps, false)) return;
		bool eq = ps.size() == first.size(); for (size_t i = 0; eq && i < ps.size(); ++i) eq = same(ps[i], first[i]);
		if (!eq) { c.fail("array-history", "not-reproduced", "-", "partition after set(-1)+apply() differs: " + parts_str(first) + " vs " + parts_str(ps)); return; }
		for (auto &p : first) if (p.usr != p.raw) { ++c.st.hist_reset; break; }
	}
	if (!with_poly) return;
	// pre = 0: fresh polyline; pre = 1 (short inputs): the same polyline held a curve with visible points before (history)
	for (int pre = 0; pre < (c.n <= 64 ? 2 : 1); ++pre) {
		const char *stage = pre ? "polyline-reused" : "polyline";
		c.r.hint(stage);
		mpt::value_store vs, vs0;
		if (!LIB(vs.set(src))) { c.r.count("polyline_store_failed"); return; }
		mpt::polyline pl;
		if (pre) {
			std::vector<double> w;
			for (int l = 0; l < c.g.n6; ++l) if (inr(c.g, c.g.val[l])) w.push_back(c.g.val[l]);
			if (w.empty()) break;       // no visible value exists for this range
			size_t m = w.size(); while (w.size() < c.n + 2) w.push_back(w[w.size() % m]);
			if (!LIB(vs0.set(mpt::span<const double>(w.data(), w.size())))) { c.r.count("polyline_store_failed"); return; }
			if (!LIB(pl.set(tr, mpt::span<const mpt::value_store>(&vs0, 1))) || (size_t) pl.points().size() != w.size()) { c.fail(stage, "refused", "preload", fmt("set() of %zu in-range values failed or stored %ld points", w.size(), (long) pl.points().size())); return; }
			++c.r.transitions;
		}
		bool ok = LIB(pl.set(tr, mpt::span<const mpt::value_store>(&vs, 1)));
		++c.r.transitions;
		size_t visible = 0;
		for (size_t i = 0; i < c.n; ++i) if (inr(c.g, c.v[i])) ++visible;
		if (!ok) {
			if (!pre) ++c.st.poly_fail;
			if (asan_error()) { c.fail(stage, "memory", "asan", "access outside the value array (AddressSanitizer)"); return; }
			if (visible) { c.fail(stage, "refused", "visible-points", fmt("set() failed although %zu values are in range", visible)); return; }
			// nothing visible: parts and point storage still describe the same data, walking the parts makes progress and ends
			mpt::span<const linepart> hp = pl.parts();
			unsigned long hu = 0, hr = 0; for (long i = 0; i < (long) hp.size(); ++i) { hu += hp.begin()[i].usr; hr += hp.begin()[i].raw; }
			long np = (long) pl.points().size();
			if ((unsigned long) np != hu) { c.fail(stage, "length", "points-nothing-visible", fmt("nothing visible: parts cover %lu drawn points, storage has %ld points", hu, np)); return; }
			if (hp.size() && hr != c.n) { c.fail(stage, "length", "raw-nothing-visible", fmt("nothing visible: parts consume %lu of %zu values", hr, c.n)); return; }
			long steps = 0, maxs = (long) hp.size() + 1;
			for (mpt::polyline::iterator it = pl.begin(); it != pl.end(); ++it) if (++steps > maxs) break;
			if (steps > maxs) { c.fail(stage, "no-progress", "iterator", fmt("nothing visible: walking %ld parts does not end after %ld steps", (long) hp.size(), steps)); return; }
			if (pre) ++c.st.poly_reused_hidden;
			continue;
		}
		if (pre) ++c.st.poly_reused_visible;
		mpt::span<const linepart> sp = pl.parts();
		ps.assign(sp.begin(), sp.begin() + sp.size());
		if (!c.judge(stage, ps, false)) return;
		unsigned long su = 0; for (auto &p : ps) su += p.usr;
		mpt::span<const mpt::polyline::point> pts = pl.points();
		if ((unsigned long) pts.size() != su) { c.fail(stage, "length", "points", fmt("%ld points for sum usr %lu", (long) pts.size(), su)); return; }
		// walk the parts through the iterator: points() = in-range values exactly, line() end points on the boundary
		size_t k = 0, pos = 0, seen = 0;
		for (mpt::polyline::iterator it = pl.begin(); it != pl.end() && k < ps.size(); ++it, ++k) {
			mpt::polyline::part pt = *it;
			mpt::span<const mpt::polyline::point> in = pt.points(), ln = pt.line();
			const linepart &p = ps[k];
			if ((size_t) ln.size() != p.usr) { c.fail(stage, "length", "line", fmt("part %zu line() has %ld points, usr=%u", k, (long) ln.size(), p.usr)); return; }
			size_t first = p._cut ? 1 : 0;
			if ((size_t) in.size() != p.usr - first - (p._trim ? 1 : 0) || (in.size() && in.begin() != ln.begin() + first)) { c.fail(stage, "length", "points", fmt("part %zu points() has %ld points for %s", k, (long) in.size(), part_str(p).c_str())); return; }
			for (size_t i = 0; i < (size_t) in.size(); ++i) {
				double x = in.begin()[i].x, y = in.begin()[i].y;
				if (x != c.v[pos + first + i] || y != 0) { c.fail(stage, "point-value", "in-range", fmt("part %zu drawn point %zu is (%.17g,%.17g), value is %.17g", k, i, x, y, c.v[pos + first + i])); return; }
				++seen;
			}
			double span, x, b;
			if (p._cut) {
				span = fabs(c.v[pos + 1] - c.v[pos]); x = ln.begin()[0].x; b = c.v[pos] < c.g.min ? c.g.min : c.g.max;
				if (!(fabs(x - b) <= span * Q16 * (1 + 1e-6))) { c.fail(stage, "cut-fraction", "off-by>2^-16", fmt("part %zu line starts at %.17g, boundary %.17g, segment %.17g -> %.17g", k, x, b, c.v[pos], c.v[pos + 1])); return; }
			}
			if (p._trim) {
				size_t e = pos + p.usr - 1;
				span = fabs(c.v[e] - c.v[e - 1]); x = ln.begin()[p.usr - 1].x; b = c.v[e] < c.g.min ? c.g.min : c.g.max;
				if (!(fabs(x - b) <= span * Q16 * (1 + 1e-6))) { c.fail(stage, "trim-fraction", "off-by>2^-16", fmt("part %zu line ends at %.17g, boundary %.17g, segment %.17g -> %.17g", k, x, b, c.v[e - 1], c.v[e])); return; }
			}
			pos += p.raw;
		}
		if (asan_error()) { c.fail(stage, "memory", "asan", "walking the polyline accesses memory outside its arrays"); return; }
		if (seen != visible) { c.fail(stage, "inrange-not-drawn", "iterator", fmt("iterating the parts shows %zu of %zu in-range values", seen, visible)); return; }
		if (!pre) c.st.poly_parts += ps.size();
	}
}

// apply_data() without a part list ("no visibility information", NULL range): the run is cut into 65535-point parts internally,
// every point of every dimension must be consumed exactly once.  Returns false when a violation was reported.
static bool nolist_check(Run &r, Stats &st, const double *v, size_t n, const char *suffix, const std::function<std::string()> &describe)
{
	mpt::layout::graph::transform3 tr;
	setup_tr(tr, RNG[3], 2);
	std::vector<double> w(n);
	for (size_t i = 0; i < n; ++i) w[i] = 7 - v[i] + (double) (i % 3);
	mpt::value_store vs[2];
	if (!vs[0].set(mpt::span<const double>(v, n)) || !vs[1].set(mpt::span<const double>(w.data(), n))) { r.count("polyline_store_failed"); return true; }
	mpt::point<double> *dest = (mpt::point<double> *) malloc(n * sizeof(*dest));
	for (size_t i = 0; i < n; ++i) dest[i] = mpt::point<double>(0, 0);
	r.hint("apply-data-nolist");
	int proc = mpt::apply_data(dest, mpt::span<const linepart>(0, (long) n), tr, mpt::span<const mpt::value_store>(vs, 2));
	++r.transitions;
	bool ok = true;
	std::string sig = std::string("apply-data-nolist|");
	if (asan_error()) { r.violation(sig + "memory|asan" + suffix, "data " + describe() + ": apply_data() without part list accesses memory outside its arrays"); ok = false; }
	else if (proc != 2) { r.violation(sig + "refused|-" + suffix, "data " + describe() + fmt(": apply_data() processed %d of 2 dimensions", proc)); ok = false; }
	else for (size_t i = 0; i < n; ++i) {
		if (dest[i].x == v[i] && dest[i].y == w[i]) continue;
		r.violation(sig + "point-not-consumed|dimension-" + (dest[i].x != v[i] ? "0" : "1") + suffix, "data " + describe() + fmt(": %zu points without part list, point %zu is (%.17g,%.17g), values are (%.17g,%.17g)", n, i, dest[i].x, dest[i].y, v[i], w[i]));
		ok = false; break;
	}
	if (ok) { st.nolist_points += n; if (n > UINT16_MAX) ++st.nolist_split; }
	free(dest);
	return ok;
}

// everything for one input
static void run_case(Run &r, Stats &st, const Rng &g, const double *v, size_t n, const std::function<std::string()> &desc, bool is_long, bool tiny_windows = true)
{
	Case c(r, st, g, v, n, desc, is_long ? "|long" : "");
	std::vector<linepart> ps, js, ws;
	asan_error();
	++r.states;
	if (!drive_c(c, 0, ps)) return;
	if (!c.judge("linear", ps, true)) return;
	if (!join_pass(c, ps, js)) return;
	if (!c.judge("join", js, false)) return;
	// windowed calls (a caller may offer fewer values than it has: linepart::array::apply does) + join of the pieces
	static const size_t long_windows[] = {1, 32767, 65533, 65534};
	size_t nw = is_long ? sizeof long_windows / sizeof *long_windows : (n ? n - 1 : 0);
	for (size_t i = 0; i < nw; ++i) {
		size_t w = is_long ? long_windows[i] : i + 1;
		if (is_long && w < 4 && !tiny_windows) continue;     // 65k one-value parts joined back: only for the short prefixes/suffixes
		if (!drive_c(c, w, ws)) return;
		if (!c.judge("linear-windowed", ws, false)) return;
		if (!join_pass(c, ws, js)) return;
		if (!c.judge("join", js, false)) return;
	}
	drive_cxx(c, &g != &RNG[HUGE_RNG]);   // the interpolation of polyline coordinates is not judged at magnitudes where s2 - s1 overflows
	if (!c.bad && g.null && n) nolist_check(r, st, v, n, c.suffix, desc);
}

// ------------------------------------------------------------------ job: sequences
// job "seq|r=<range>|A=<6|8>|L=<lo>..<hi>|p=<prefix letters>"
struct SeqJob { int rng, alpha, lo, hi; std::vector<int> prefix; };
static SeqJob parse_seq(const std::string &job)
{
	SeqJob j; char pre[32] = "";
	sscanf(job.c_str(), "seq|r=%d|A=%d|L=%d..%d|p=%31s", &j.rng, &j.alpha, &j.lo, &j.hi, pre);
	for (const char *p = pre; *p && *p != '-'; ++p) j.prefix.push_back(*p - '0');
	return j;
}
static void seq_body(Run &r, Stats &st, const SeqJob &j, Ctx &x)
{
	const Rng &g = RNG[j.rng];
	int A = j.alpha == 8 ? g.n8 : g.n6;
	size_t n = j.lo + (j.hi > j.lo ? x.choose(j.hi - j.lo + 1) : 0);
	double *v = (double *) malloc(n ? n * sizeof(double) : 1);
	int letters[16];
	for (size_t i = 0; i < n; ++i) {
		int l = i < j.prefix.size() ? j.prefix[i] : (int) x.choose(A);
		v[i] = g.val[l]; letters[i] = l;
	}
	auto desc = [&]() { std::string d = "["; for (size_t i = 0; i < n; ++i) d += (i ? " " : "") + std::string(g.lname[letters[i]]); return d + "]"; };
	if (r.replaying) r.note("range %s data %s", g.name, desc().c_str());
	uint64_t nt = st.nontrivial;
	run_case(r, st, g, v, n, desc, false);
	if (st.nontrivial != nt && n >= 4 && r.samples.size() < 6) r.sample(std::string(g.name) + " " + desc());
	free(v);
}

// ------------------------------------------------------------------ job: long runs around the per-part limit
// job "long|r=<range>|fill=<letter>|k=<count>|m=<max prefix length>|s=<max suffix length>"
struct LongJob { int rng, fill, k, m, s; };
static LongJob parse_long(const std::string &job) { LongJob j; sscanf(job.c_str(), "long|r=%d|fill=%d|k=%d|m=%d|s=%d", &j.rng, &j.fill, &j.k, &j.m, &j.s); return j; }
static void long_body(Run &r, Stats &st, const LongJob &j, Ctx &x)
{
	const Rng &g = RNG[j.rng];
	int A = g.n6;
	int pl = (int) x.choose(j.m + 1), pre[2] = {0, 0}, suf[2] = {0, 0};
	for (int i = 0; i < pl; ++i) pre[i] = (int) x.choose(A);
	int sl = (int) x.choose(j.s + 1);
	for (int i = 0; i < sl; ++i) suf[i] = (int) x.choose(A);
	size_t n = (size_t) pl + j.k + sl;
	double *v = (double *) malloc(n * sizeof(double));
	std::string desc = "[";
	size_t o = 0;
	for (int i = 0; i < pl; ++i) { v[o++] = g.val[pre[i]]; desc += std::string(g.lname[pre[i]]) + " "; }
	for (int i = 0; i < j.k; ++i) v[o++] = g.val[j.fill];
	desc += fmt("%s^%d", g.lname[j.fill], j.k);
	for (int i = 0; i < sl; ++i) { v[o++] = g.val[suf[i]]; desc += " " + std::string(g.lname[suf[i]]); }
	desc += "]";
	r.note("range %s data %s (n=%zu)", g.name, desc.c_str(), n);
	run_case(r, st, g, v, n, [&]() { return desc; }, true, pl + sl == 0);
	if (pl == 1 && sl == 2) r.sample(std::string(g.name) + " " + desc);
	free(v);
	r.beat();
}

// ------------------------------------------------------------------ job: two limited dimensions
// job "pair|L=<n>|p=<first letter of x or ->": all pairs (x, y) of sequences of length n over the six-letter alphabets
// (n = 5: y over the four letters below, in1, at-max, above),
// x against [0,1] in dimension 0, y against [-1,1] in dimension 1, merged by linepart::array::apply().
// Oracle for merged parts: raw >= 1, sum raw = n, marks need points, a value is a proper drawn element (not a cut/trim
// end) of exactly one part iff it is in range in BOTH dimensions; a stored cut/trim fraction is within 2^-16 of the largest per-dimension crossing of its segment.
static bool check_parts2(const double *x, const double *y, size_t n, const linepart *ps, size_t np, Verdict &o, Stats *st, std::vector<uint8_t> &cover)
{
	const Rng &g0 = RNG[0], &g1 = RNG[1];
	cover.assign(n, 0);
	size_t pos = 0;
	for (size_t k = 0; k < np; ++k) {
		const linepart &p = ps[k];
		if (pos >= n) { o.kind = "part-after-end"; o.cls = "-"; o.detail = fmt("part %zu %s although all %zu values are consumed", k, part_str(p).c_str(), n); return false; }
		if (!p.raw) { o.kind = "no-progress"; o.cls = "raw=0"; o.detail = fmt("part %zu at %zu is %s", k, pos, part_str(p).c_str()); return false; }
		if (p.raw > n - pos || p.usr > n - pos) { o.kind = "overrun"; o.cls = p.raw > n - pos ? "raw>available" : "usr>available"; o.detail = fmt("part %zu at %zu is %s, %zu values remain", k, pos, part_str(p).c_str(), n - pos); return false; }
		unsigned c = p._cut ? 1 : 0, t = p._trim ? 1 : 0;
		if ((c || t) && p.usr < 2) { o.kind = "flag-without-points"; o.cls = c ? "cut" : "trim"; o.detail = fmt("part %zu at %zu %s has a cut/trim mark but not the two drawn elements of the segment it belongs to", k, pos, part_str(p).c_str()); return false; }
		// stored fractions of a merged part: the drawn end point must be inside every range and on the boundary of at least one,
		// i.e. the decoded value is the largest of the per-dimension crossings of that segment, each computed from the raw values
		// (a dimension whose end value is in range does not constrain; undefined when a dimension is out of range at both ends)
		long double wantf[2] = {0, 0}; bool havef[2] = {false, false};
		for (int end = 0; end < 2; ++end) {
			if (!(end ? t : c) || p.usr < 2) continue;
			size_t o_i = end ? pos + p.usr - 1 : pos, n_i = end ? o_i - 1 : o_i + 1;
			long double want = 0; bool defined = true, any = false;
			const double *vv[2] = {x, y}; const Rng *gg[2] = {&g0, &g1};
			for (int d = 0; d < 2; ++d) {
				if (inr(*gg[d], vv[d][o_i])) continue;
				if (std::isnan(vv[d][o_i]) || !inr(*gg[d], vv[d][n_i])) { defined = false; break; }   // no value there / out of range at both ends
				long double f = crossing(*gg[d], vv[d][o_i], vv[d][n_i]);
				if (any && f != want && st) ++st->pair_frac_differ;   // both dimensions cross this segment, at different fractions
				any = true;
				if (f > want) want = f;
			}
			if (!defined) { if (st) ++st->pair_frac_undefined; continue; }
			const char *which = end ? "trim" : "cut";
			if (!any) { o.kind = std::string(which) + "-misplaced"; o.cls = "endpoint-in-range,merged"; o.detail = fmt("part %zu at %zu %s: the %s end value[%zu]=(%.17g,%.17g) is in range in both dimensions", k, pos, part_str(p).c_str(), which, o_i, x[o_i], y[o_i]); return false; }
			long double dec = mpt::mpt_linepart_real(end ? p._trim : p._cut), err = dec > want ? dec - want : want - dec;
			if (err > (long double) Q16 * (1 + 1e-9L)) {
				o.kind = std::string(which) + "-fraction"; o.cls = dec > want ? "merged,too-large" : "merged,too-small";
				o.detail = fmt("part %zu at %zu %s: %s code decodes to %.9Lf but the segment (%.17g,%.17g) -> (%.17g,%.17g) enters the last range at fraction %.9Lf", k, pos, part_str(p).c_str(), which, dec, x[o_i], y[o_i], x[n_i], y[n_i], want);
				return false;
			}
			if (st) ++st->pair_frac_checked;
			wantf[end] = want; havef[end] = true;
		}
		// cut and trim on one and the same segment: the range is entered at fraction cut and left at 1 - trim;
		// when the true crossings give cut + trim > 1 no point of the segment is inside all ranges and nothing may be drawn
		if (c && t && p.usr == 2 && havef[0] && havef[1]) {
			if (wantf[0] + wantf[1] > 1 + 1e-12L) {
				o.kind = "empty-segment-drawn"; o.cls = "cut+trim>1";
				o.detail = fmt("part %zu at %zu %s: the segment (%.17g,%.17g) -> (%.17g,%.17g) enters the last range at %.6Lf and has left the first one at %.6Lf: no point of it is visible, but a line with two end points is reported", k, pos, part_str(p).c_str(), x[pos], y[pos], x[pos + 1], y[pos + 1], wantf[0], 1 - wantf[1]);
				return false;
			}
			if (st) ++st->pair_same_segment_ok;
		}
		for (size_t i = pos + c; i < pos + p.usr - t; ++i) {
			if (inr(g0, x[i]) && inr(g1, y[i])) { if (cover[i] < 3) ++cover[i]; continue; }
			o.kind = "outrange-drawn"; o.cls = i == pos ? "first" : (i == pos + p.usr - 1 ? "last" : "interior");
			o.detail = fmt("part %zu at %zu %s: value[%zu]=(%.17g,%.17g) is out of range (or has no value) in dimension %d but is a drawn point without cut/trim mark", k, pos, part_str(p).c_str(), i, x[i], y[i], inr(g0, x[i]) ? 1 : 0);
			return false;
		}
		if (st) { ++st->pair_parts; if (c && t && p.usr == 2) ++st->pair_cut_and_trim2; }
		pos += p.raw;
	}
	if (pos != n) { o.kind = "raw-sum"; o.cls = pos < n ? "short" : "long"; o.detail = fmt("parts consume %zu of %zu values", pos, n); return false; }
	for (size_t i = 0; i < n; ++i) {
		if (!(inr(g0, x[i]) && inr(g1, y[i])) || cover[i] == 1) continue;
		o.kind = cover[i] ? "inrange-drawn-twice" : "inrange-not-drawn"; o.cls = "-";
		o.detail = fmt("value[%zu]=(%.17g,%.17g) is in range in both dimensions and is a drawn point of %u parts", i, x[i], y[i], cover[i]);
		return false;
	}
	return true;
}
// lx/ly: the exactly sized arrays handed to the library (nx, ny values); x/y: the same padded with NaN to n = max(nx, ny)
// for the oracle (a value that does not exist is in no range, so such a point can never be a drawn point)
static void pair_case(Run &r, Stats &st, const double *lx, size_t nx, const double *ly, size_t ny, const double *x, const double *y, size_t n, const std::function<std::string()> &describe)
{
	std::vector<linepart> ps, first; std::vector<uint8_t> cover; Verdict o;
	mpt::layout::graph::transform3 tr;
	setup_tr(tr, RNG[0], 2);
	tr._dim[1]._flags = mpt::TransformLimit; { struct mpt::range lim(RNG[1].min, RNG[1].max); tr._dim[1].limit = lim; }
	mpt::span<const double> sx(lx, nx), sy(ly, ny);
	auto fail = [&](const char *drv, const std::string &kind, const std::string &cls, const std::string &detail) {
		r.violation(std::string(drv) + "|" + kind + "|" + cls, "x in [0,1], y in [-1,1], data " + describe() + " via " + drv + ": " + detail); };
	auto judge = [&](const char *drv, bool stats) {
		if (r.replaying) r.note("%s -> %s", drv, parts_str(ps).c_str());
		if (asan_error()) { fail(drv, "memory", "asan", "access outside the value arrays (AddressSanitizer)"); return false; }
		if (check_parts2(x, y, n, ps.data(), ps.size(), o, stats ? &st : 0, cover)) return true;
		fail(drv, o.kind, o.cls, o.detail + " ; parts " + parts_str(ps)); return false; };
	asan_error();
	++r.states;
	size_t visible = 0, hidden2 = 0;
	for (size_t i = 0; i < n; ++i) { if (inr(RNG[0], x[i]) && inr(RNG[1], y[i])) ++visible; else if (inr(RNG[0], x[i])) ++hidden2; }
	if (hidden2) ++st.pair_hidden_by_second;
	if (nx != ny) ++st.pair_unequal;
	for (int preset = nx >= ny ? 0 : 1; preset < 2; ++preset) {   // an empty array only knows the length of the first dimension
		const char *drv = preset ? "pair-refine" : "pair-apply";
		r.hint(drv);
		linepart::array a;
		bool ok = (!preset || a.set((long) n)) && a.apply(tr, 0, sx) && a.apply(tr, 1, sy);
		r.transitions += 2;
		copy_parts(a, ps);
		if (!ok) { fail(drv, "refused", "-", "apply() failed"); return; }
		if (!judge(drv, preset == 1)) return;
		long lr = a.length_raw(); unsigned long su = 0; for (auto &p : ps) su += p.usr;
		if (lr != (long) n || a.length_user() != (long) su) { fail(drv, "length", "-", fmt("length_raw()=%ld length_user()=%ld for %zu values, sum usr %lu", lr, (long) a.length_user(), n, su)); return; }
		if (!preset) continue;
		// history on the merged array: set(-1) restores n plain values, applying both dimensions again reproduces the partition
		first = ps;
		r.hint("pair-history");
		ok = a.set(-1);
		++r.transitions;
		lr = a.length_raw(); long lu = a.length_user();
		copy_parts(a, ps);
		bool plain = true; for (auto &p : ps) if (!p.raw || p.raw != p.usr || p._cut || p._trim) plain = false;
		if (ok && lr == (long) n && lu == (long) n && !plain) { fail("pair-history", "stale-marks", "after-set(-1)", "set(-1) re-partitions the values but keeps cut/trim marks of the old parts: before " + parts_str(first) + " ; after " + parts_str(ps)); return; }
		if (!ok || lr != (long) n || lu != (long) n) { fail("pair-history", "total-changed", lr != (long) n ? "raw" : "usr", fmt("set(-1) after two apply(): length_raw()=%ld length_user()=%ld for %zu values", lr, lu, n) + " ; before " + parts_str(first) + " ; after " + parts_str(ps)); return; }
		ok = a.apply(tr, 0, sx) && a.apply(tr, 1, sy);
		r.transitions += 2;
		copy_parts(a, ps);
		if (!ok) { fail("pair-history", "refused", "-", "apply() after set(-1) failed"); return; }
		if (!judge("pair-history", false)) return;
		bool eq = ps.size() == first.size(); for (size_t i = 0; eq && i < ps.size(); ++i) eq = same(ps[i], first[i]);
		if (!eq) { fail("pair-history", "not-reproduced", "-", "partition after set(-1) and both apply() differs: " + parts_str(first) + " vs " + parts_str(ps)); return; }
		for (auto &p : first) if (p.usr != p.raw) { ++st.pair_hist; break; }
	}
	// polyline over both dimensions: points() of every part are exactly the values visible in both dimensions
	r.hint("pair-polyline");
	mpt::value_store vs[2];
	if (!vs[0].set(sx) || !vs[1].set(sy)) { r.count("polyline_store_failed"); return; }
	mpt::polyline pl;
	bool ok = pl.set(tr, mpt::span<const mpt::value_store>(vs, 2));
	++r.transitions;
	if (!ok) {
		if (asan_error()) { fail("pair-polyline", "memory", "asan", "access outside the value arrays (AddressSanitizer)"); return; }
		if (visible) fail("pair-polyline", "refused", "visible-points", fmt("set() failed although %zu values are in range in both dimensions", visible));
		return;
	}
	mpt::span<const linepart> sp = pl.parts();
	ps.assign(sp.begin(), sp.begin() + sp.size());
	if (!judge("pair-polyline", false)) return;
	unsigned long su = 0; for (auto &p : ps) su += p.usr;
	if ((unsigned long) pl.points().size() != su) { fail("pair-polyline", "length", "points", fmt("%ld points for sum usr %lu", (long) pl.points().size(), su)); return; }
	size_t k = 0, pos = 0, seen = 0;
	for (mpt::polyline::iterator it = pl.begin(); it != pl.end() && k < ps.size(); ++it, ++k) {
		mpt::polyline::part pt = *it;
		mpt::span<const mpt::polyline::point> in = pt.points(), ln = pt.line();
		const linepart &p = ps[k];
		size_t f = p._cut ? 1 : 0, want = p.usr - f - (p._trim ? 1 : 0);
		if ((size_t) ln.size() != p.usr) { fail("pair-polyline", "length", "line", fmt("part %zu line() has %ld points, usr=%u", k, (long) ln.size(), p.usr)); return; }
		if ((size_t) in.size() != want || (in.size() && in.begin() != ln.begin() + f)) { fail("pair-polyline", "length", "points", fmt("part %zu points() has %ld points for %s: cut/trim ends are not drawn points", k, (long) in.size(), part_str(p).c_str())); return; }
		for (size_t i = 0; i < want; ++i) {
			double px = in.begin()[i].x, py = in.begin()[i].y; size_t idx = pos + f + i;
			if (px != x[idx] || py != y[idx]) { fail("pair-polyline", "point-value", "in-range", fmt("part %zu drawn point %zu is (%.17g,%.17g), values are (%.17g,%.17g)", k, i, px, py, x[idx], y[idx])); return; }
			++seen;
		}
		pos += p.raw;
	}
	if (asan_error()) { fail("pair-polyline", "memory", "asan", "walking the polyline accesses memory outside its arrays"); return; }
	if (seen != visible) { fail("pair-polyline", "inrange-not-drawn", "iterator", fmt("iterating the parts shows %zu of %zu values visible in both dimensions", seen, visible)); return; }
	st.pair_poly_parts += ps.size();
	if (visible && hidden2) ++st.nontrivial;
	// a polyline that already holds another curve must give exactly the result of a fresh one
	static const double pfx[4] = {-0.5, 0.25, 1.7, 0.25}, pfy[4] = {-0.2, -0.2, -0.2, -0.2};
	auto same_as_reused = [&](const char *drv, const mpt::layout::graph::transform3 &t, mpt::span<const mpt::value_store> stores, const mpt::polyline &fresh, bool fresh_ok) {
		mpt::value_store pf[2];
		if (!pf[0].set(mpt::span<const double>(pfx, 4)) || !pf[1].set(mpt::span<const double>(pfy, 4))) return true;
		mpt::polyline re;
		if (!re.set(tr, mpt::span<const mpt::value_store>(pf, 2))) return true;
		r.hint(drv);
		bool rok = re.set(t, stores);
		r.transitions += 2;
		mpt::span<const linepart> a = fresh.parts(), b = re.parts();
		mpt::span<const mpt::polyline::point> pa = fresh.points(), pb = re.points();
		bool eq = rok == fresh_ok && a.size() == b.size() && pa.size() == pb.size();
		for (long i = 0; eq && i < a.size(); ++i) eq = same(a.begin()[i], b.begin()[i]);
		for (long i = 0; eq && fresh_ok && i < pa.size(); ++i) eq = (pa.begin()[i].x == pb.begin()[i].x || (pa.begin()[i].x != pa.begin()[i].x && pb.begin()[i].x != pb.begin()[i].x)) && (pa.begin()[i].y == pb.begin()[i].y || (pa.begin()[i].y != pa.begin()[i].y && pb.begin()[i].y != pb.begin()[i].y));
		if (asan_error()) { fail(drv, "memory", "asan", "set() on a polyline that holds another curve accesses memory outside its arrays"); return false; }
		if (eq) { ++st.pair_reused; return true; }
		std::vector<linepart> va(a.begin(), a.begin() + a.size()), vb(b.begin(), b.begin() + b.size());
		fail(drv, "stale-state", rok != fresh_ok ? "result" : (a.size() != b.size() || va.size() && !same(va[0], vb[0]) ? "parts" : "points"),
		     fmt("set() on a polyline that held a 4-point curve returns %d with %ld points, a fresh polyline returns %d with %ld points", (int) rok, (long) pb.size(), (int) fresh_ok, (long) pa.size()) + " ; reused " + parts_str(vb) + " ; fresh " + parts_str(va));
		return false;
	};
	if (n <= 4 && !same_as_reused("pair-polyline-reused", tr, mpt::span<const mpt::value_store>(vs, 2), pl, true)) return;
	// three dimensions, the middle store has no double data (empty, or float values) and is skipped by the library:
	// x in dimension 0 and y in dimension 2 must still both be range-checked, the parts are the same as for (x, y)
	// variant 2: the FIRST store is empty, x and y are dimensions 1 and 2 (also with different lengths)
	if (n > 4) return;
	for (int variant = 0; variant < 3; ++variant) {
		if (variant < 2 && nx != ny) continue;
		if (variant == 1 && n > 3) continue;
		const char *drv = variant == 2 ? "pair-polyline-first-empty" : (variant ? "pair-polyline-gap-float" : "pair-polyline-gap-empty");
		r.hint(drv);
		mpt::layout::graph::transform3 t3;
		setup_tr(t3, RNG[0], 1);
		int dx = variant == 2 ? 1 : 0, dskip = variant == 2 ? 0 : 1;
		if (dx) { t3._dim[1] = t3._dim[0]; }
		t3._dim[dskip]._flags = mpt::TransformLimit; { struct mpt::range lim(100, 200); t3._dim[dskip].limit = lim; }   // would hide everything if it were applied to data
		t3._dim[dskip].to = mpt::fpoint(0, 0);
		t3._dim[2]._flags = mpt::TransformLimit; { struct mpt::range lim(RNG[1].min, RNG[1].max); t3._dim[2].limit = lim; }
		t3._dim[2].scale = 1; t3._dim[2].add = 0; t3._dim[2].to = mpt::fpoint(0, 1);
		mpt::value_store v3[3];
		static const float fl[4] = {150, 150, 150, 150};
		if (!v3[dx].set(sx) || !v3[2].set(sy) || (variant == 1 && !v3[1].set(mpt::span<const float>(fl, (long) n)))) { r.count("polyline_store_failed"); return; }
		mpt::polyline p3;
		ok = p3.set(t3, mpt::span<const mpt::value_store>(v3, 3));
		++r.transitions;
		if (variant == 2 && !same_as_reused("pair-polyline-first-empty-reused", t3, mpt::span<const mpt::value_store>(v3, 3), p3, ok)) return;
		if (!ok) {
			if (asan_error()) { fail(drv, "memory", "asan", "access outside the value arrays (AddressSanitizer)"); return; }
			if (visible) { fail(drv, "refused", "visible-points", fmt("set() failed although %zu values are in range in both dimensions", visible)); return; }
			continue;
		}
		if (variant == 2) ++st.pair_first_empty;
		sp = p3.parts();
		ps.assign(sp.begin(), sp.begin() + sp.size());
		if (!judge(drv, false)) return;
		size_t pos3 = 0, seen3 = 0; k = 0;
		for (mpt::polyline::iterator it = p3.begin(); it != p3.end() && k < ps.size(); ++it, ++k) {
			mpt::span<const mpt::polyline::point> in = (*it).points();
			const linepart &p = ps[k];
			size_t f = p._cut ? 1 : 0, want = p.usr - f - (p._trim ? 1 : 0);
			if ((size_t) in.size() != want) { fail(drv, "length", "points", fmt("part %zu points() has %ld points for %s", k, (long) in.size(), part_str(p).c_str())); return; }
			for (size_t i = 0; i < want; ++i, ++seen3) {
				size_t idx = pos3 + f + i;
				if (in.begin()[i].x != x[idx] || in.begin()[i].y != y[idx]) { fail(drv, "point-value", "in-range", fmt("part %zu drawn point %zu is (%.17g,%.17g), values are (%.17g,%.17g)", k, i, in.begin()[i].x, in.begin()[i].y, x[idx], y[idx])); return; }
			}
			pos3 += p.raw;
		}
		if (asan_error()) { fail(drv, "memory", "asan", "walking the polyline accesses memory outside its arrays"); return; }
		if (seen3 != visible) { fail(drv, "inrange-not-drawn", "iterator", fmt("iterating the parts shows %zu of %zu values visible in both dimensions", seen3, visible)); return; }
		if (hidden2) ++st.pair_gap;
	}
}
struct PairJob { int nx, ny; int p; };
static void pair_body(Run &r, Stats &st, const PairJob &j, Ctx &x)
{
	size_t nx = j.nx, ny = j.ny, n = nx > ny ? nx : ny;
	double *vx = (double *) malloc(nx * sizeof(double)), *vy = (double *) malloc(ny * sizeof(double));
	double ox[8], oy[8];
	int lx[8], ly[8];
	for (size_t i = 0; i < n; ++i) ox[i] = oy[i] = NAN;
	for (size_t i = 0; i < nx; ++i) { lx[i] = i == 0 && j.p >= 0 ? j.p : (int) x.choose(6); ox[i] = vx[i] = RNG[0].val[lx[i]]; }
	static const int sub4[4] = {0, 2, 4, 5};   // below, in1, at-max, above
	for (size_t i = 0; i < ny; ++i) { ly[i] = ny >= 5 ? sub4[x.choose(4)] : (int) x.choose(6); oy[i] = vy[i] = RNG[1].val[ly[i]]; }
	auto desc = [&]() { std::string d = "x=["; for (size_t i = 0; i < nx; ++i) d += (i ? " " : "") + std::string(RNG[0].lname[lx[i]]); d += "] y=["; for (size_t i = 0; i < ny; ++i) d += (i ? " " : "") + std::string(RNG[1].lname[ly[i]]); return d + "]"; };
	if (r.replaying) r.note("data %s", desc().c_str());
	uint64_t nt = st.nontrivial;
	pair_case(r, st, vx, nx, vy, ny, ox, oy, n, desc);
	if (st.nontrivial != nt && n >= 4 && r.samples.size() < 2) r.sample("2-dim " + desc());
	free(vx); free(vy);
}

// ------------------------------------------------------------------ job: join over all pairs of well-formed parts
static const unsigned JV[] = {0, 1, 2, 3, 4, 32767, 32768, 65531, 65532, 65533, 65534, 65535};
static const unsigned JF[] = {0, 1, 0x8000, 0xffff};
static std::vector<linepart> wellformed()
{
	std::vector<linepart> w;
	for (unsigned raw : JV) for (unsigned usr : JV) for (unsigned c : JF) for (unsigned t : JF) {
		if (usr > raw + (t ? 1u : 0u)) continue;               // a part draws at most one (trimmed) value beyond what it consumes
		if ((c || t) && usr < (c ? 1u : 0u) + (t ? 1u : 0u) + 1) continue;
		if (!raw && usr) continue;
		linepart p; p.raw = raw; p.usr = usr; p._cut = c; p._trim = t;
		w.push_back(p);
	}
	return w;
}
static void join_body(Run &r, Stats &st, int slice, int slices, Ctx &x)
{
	static std::vector<linepart> w = wellformed();
	size_t per = (w.size() + slices - 1) / slices, lo = slice * per, hi = lo + per > w.size() ? w.size() : lo + per;
	if (lo >= hi) return;
	const linepart to = w[lo + x.choose(hi - lo)], post = w[x.choose(w.size())];
	++r.states; ++r.transitions;
	linepart acc = to, want; const char *why;
	bool ok = model_join(to, post, want, &why);
	r.hint("join-pair");
	r.note("join %s + %s (model: %s %s)", part_str(to).c_str(), part_str(post).c_str(), ok ? "joinable" : "not joinable", why);
	linepart *ret = LIB(mpt::mpt_linepart_join(&acc, post));
	std::string d = part_str(to) + " + " + part_str(post);
	if (!ret) {
		++st.join_ref; if (ok) ++st.join_spur;
		if (!same(acc, to)) r.violation("join-pair|refused-but-changed|-", d + " refused but first is now " + part_str(acc));
		return;
	}
	++st.join_ok;
	if (ok) ++st.nontrivial;
	if (ret != &acc) { r.violation("join-pair|return-value|-", d + ": success does not return the first part"); return; }
	if (!ok) { r.violation(std::string("join-pair|accepted-unjoinable|") + why, d + " -> " + part_str(acc) + ": the joined part does not describe the same drawn points (" + why + ")"); return; }
	if ((unsigned long) acc.raw != (unsigned long) to.raw + post.raw || (unsigned long) acc.usr != (unsigned long) to.usr + post.usr) { r.violation("join-pair|total-changed|" + std::string(acc.raw != want.raw ? "raw" : "usr"), d + " -> " + part_str(acc)); return; }
	if (!same(acc, want)) r.violation(std::string("join-pair|wrong-result|") + (acc._trim != want._trim ? "trim-lost" : "cut-changed"), d + " -> " + part_str(acc) + ", expected " + part_str(want));
}

// ------------------------------------------------------------------ job: fraction codes, C++ accessors, array::set
static void code_job(Run &r, Stats &st)
{
	r.hint("code");
	uint64_t tiny_zero = 0, tiny = 0;
	for (int c = 0; c <= UINT16_MAX && !r.expired(); ++c) {
		double d = mpt::mpt_linepart_real(c);
		++r.states;
		if (d != c * Q16) { r.violation("code|real|wrong-value", fmt("mpt_linepart_real(%d) = %.17g", c, d)); continue; }
		double probe[3] = {d, nextafter(d + Q16, 0), d + Q16 / 2};
		for (int k = 0; k < 3; ++k) {
			int got = mpt::mpt_linepart_code(probe[k]);
			++r.transitions;
			if (got != c && !(c == 0 && k && got == 1)) { r.violation("code|encode|" + std::string(k == 0 ? "exact" : (k == 1 ? "upper-edge" : "middle")), fmt("mpt_linepart_code(%.17g) = %d, interval of code %d", probe[k], got, c)); break; }
		}
		linepart p;
		bool ok1 = p.set_cut((float) d), ok2 = p.set_trim((float) d);
		r.transitions += 2;
		if (!ok1 || !ok2 || p._cut != c || p._trim != c || p.cut() != (float) d || p.trim() != (float) d)
			r.violation("code|accessors|roundtrip", fmt("set_cut/set_trim(%.9g) -> cut code %u trim code %u, cut() %.9g", d, p._cut, p._trim, (double) p.cut()));
		else ++st.nontrivial;
	}
	// 1.0 is the crossing fraction of a neighbour sitting on the boundary: must stay within 2^-16
	int one = mpt::mpt_linepart_code(1.0);
	if (one < 0 || 1.0 - mpt::mpt_linepart_real(one) > Q16) r.violation("code|encode|one", fmt("mpt_linepart_code(1.0) = %d", one));
	// outside [0,1]: must not yield a code
	const double outside[] = {-DBL_MIN, -Q16, -1, nextafter(1.0, 2.0), 1 + Q16, 2, 1e300, -1e300};
	for (double o : outside) { int got = mpt::mpt_linepart_code(o); ++r.transitions; if (got >= 0) r.violation("code|encode|outside-accepted", fmt("mpt_linepart_code(%.17g) = %d", o, got)); else r.count("code_refused_outside"); }
	// positive fractions below one code step (informational; the consequence is judged on the parts)
	for (int e = 17; e <= 1074; ++e) { double t = ldexp(1.0, -e); int got = mpt::mpt_linepart_code(t); ++r.transitions; ++tiny; if (got == 0) ++tiny_zero; else if (got != 1) r.violation("code|encode|tiny", fmt("mpt_linepart_code(2^-%d) = %d", e, got)); }
	r.count("code_tiny_positive", tiny); r.count("code_tiny_positive_encoded_as_0(flag lost)", tiny_zero);
	// linepart::array::set
	r.hint("array-set");
	const long lens[] = {0, 1, 2, 3, 65532, 65533, 65534, 65535, 65536, 131065, 131066, 131067, 196599, 196600, 300000};
	for (long len : lens) {
		linepart::array a;
		bool ok = LIB(a.set(len));
		++r.states; ++r.transitions;
		long lr = LIB(a.length_raw()), lu = LIB(a.length_user());
		bool fine = ok && lr == len && lu == len;
		for (auto p : a) if (!p.raw || p.raw != p.usr || p._cut || p._trim) fine = false;
		if (!fine) { r.violation("array-set|length|-", fmt("set(%ld) -> %d, length_raw()=%ld length_user()=%ld", len, (int) ok, lr, lu)); continue; }
		long cnt = a.length();
		ok = LIB(a.set(-1));   // re-partition what is there
		lr = LIB(a.length_raw()); lu = LIB(a.length_user());
		if (!ok || lr != len || lu != len || a.length() != cnt) r.violation("array-set|length|recount", fmt("set(-1) after set(%ld): length_raw()=%ld length_user()=%ld", len, lr, lu));
		else ++st.nontrivial;
	}
	// a polyline that holds a curve is set from stores without any double data: nothing may stay drawn
	{
		mpt::layout::graph::transform3 tr; setup_tr(tr, RNG[0], 2);
		const double px[4] = {-0.5, 0.25, 1.7, 0.25}, py[4] = {0, 0, 0, 0};
		mpt::value_store pf[2], none[2];
		mpt::polyline pl;
		if (pf[0].set(mpt::span<const double>(px, 4)) && pf[1].set(mpt::span<const double>(py, 4)) && pl.set(tr, mpt::span<const mpt::value_store>(pf, 2))) {
			r.hint("polyline-reuse");
			bool ok = pl.set(tr, mpt::span<const mpt::value_store>(none, 2));
			++r.states; ++r.transitions;
			if (ok || pl.points().size() || pl.parts().size()) r.violation("polyline-reuse|stale-state|no-data", fmt("set() from two empty stores on a polyline holding 4 points returns %d and keeps %ld points in %ld parts", (int) ok, (long) pl.points().size(), (long) pl.parts().size()));
		}
	}
	// apply_data() without part list: lengths around one, two and three times the 65535 limit
	const size_t nl[] = {1, 2, 65534, 65535, 65536, 131069, 131070, 131071, 131072, 196605, 196606, 200000};
	for (size_t n : nl) {
		std::vector<double> v(n); for (size_t i = 0; i < n; ++i) v[i] = (double) (i % 5);
		++r.states;
		nolist_check(r, st, v.data(), n, "|grid", [&]() { return fmt("[%zu values 0,1,2,3,4,0,...]", n); });
	}
	if (asan_error()) r.violation("code|memory|asan", "AddressSanitizer report in the code/array-set grid");
}

// ------------------------------------------------------------------ engine interface
static const int JOIN_SLICES = 16;
static void seq_jobs(std::vector<std::string> &jobs, int rng, int alpha, int maxlen)
{
	const Rng &g = RNG[rng];
	int A = alpha == 8 ? g.n8 : g.n6;
	if (!A) return;
	int small = maxlen < 5 ? maxlen : 5;
	jobs.push_back(fmt("seq|r=%d|A=%d|L=0..%d|p=-", rng, alpha, small));
	for (int L = small + 1; L <= maxlen; ++L) {
		// split by one or two leading letters so that single jobs stay below ~10^6 sequences
		double total = pow((double) A, L);
		int plen = total > 4e6 ? 2 : (total > 2e4 ? 1 : 0);
		if (!plen) { jobs.push_back(fmt("seq|r=%d|A=%d|L=%d..%d|p=-", rng, alpha, L, L)); continue; }
		for (int a = 0; a < A; ++a) {
			if (plen == 1) jobs.push_back(fmt("seq|r=%d|A=%d|L=%d..%d|p=%d", rng, alpha, L, L, a));
			else for (int b = 0; b < A; ++b) jobs.push_back(fmt("seq|r=%d|A=%d|L=%d..%d|p=%d%d", rng, alpha, L, L, a, b));
		}
	}
}
void mc_jobs(Tier t, std::vector<std::string> &jobs)
{
	bool q = t == Quick;
	if (getenv("C18_ONLY_JOB")) { jobs.push_back(getenv("C18_ONLY_JOB")); return; }   // development aid: time a single job
	// big jobs first: the run shapes, then sequences by falling length
	for (int rng = 0; rng < NRNG; ++rng) {
		const Rng &g = RNG[rng];
		int fills[2] = {rng < 2 ? 2 : (rng == 2 ? 1 : 0), 0};   // an in-range letter (NULL: any) and the lowest letter
		for (int f = 0; f < 2; ++f) {
			if (f && (g.null)) continue;
			if (f && fills[0] == fills[1]) continue;
			// quick: prefixes/suffixes of one letter, two-letter suffixes for the visible fill of the first range; thorough: all of length <= 2
			for (int k = 65531; k <= 65537; ++k) jobs.push_back(fmt("long|r=%d|fill=%d|k=%d|m=%d|s=%d", rng, fills[f], k, q ? 1 : 2, q && (rng || f) ? 1 : 2));
		}
	}
	for (int rng = 0; rng < 2; ++rng) seq_jobs(jobs, rng, 6, q ? 7 : 9);
	for (int rng = 0; rng < 2; ++rng) seq_jobs(jobs, rng, 8, q ? 6 : 7);
	seq_jobs(jobs, 2, 6, q ? 9 : 12);     // 3 letters
	seq_jobs(jobs, 2, 8, q ? 6 : 8);      // 5 letters
	seq_jobs(jobs, 3, 6, q ? 9 : 12);     // NULL range, 2 letters
	seq_jobs(jobs, 4, 6, q ? 8 : 11);     // inverted range, 3 letters
	seq_jobs(jobs, HUGE_RNG, 6, q ? 5 : 7);
	seq_jobs(jobs, HUGE_RNG, 8, q ? 4 : 6);
	// two limited dimensions: all pairs of sequences of length 1..4 (quick) / 1..5 (thorough; length 5 with four letters for y)
	for (int L = q ? 4 : 5; L >= 1; --L) {
		if (L >= 4) for (int a = 0; a < 6; ++a) jobs.push_back(fmt("pair|L=%d|p=%d", L, a));
		else jobs.push_back(fmt("pair|L=%d|p=-", L));
	}
	// dimensions of different length (1..4 values each): a point without a value in one dimension is never drawn
	for (int a = 4; a >= 1; --a) for (int b = 4; b >= 1; --b) if (a != b) jobs.push_back(fmt("pairu|x=%d|y=%d", a, b));
	for (int s = 0; s < JOIN_SLICES; ++s) jobs.push_back(fmt("joinpairs|%d", s));
	jobs.push_back("codes");
}

static void body(Run &r, Stats &st, const std::string &job, Ctx &x)
{
	if (job.compare(0, 4, "seq|") == 0) { static SeqJob j; static std::string cached; if (cached != job) { j = parse_seq(job); cached = job; } seq_body(r, st, j, x); }
	else if (job.compare(0, 5, "long|") == 0) long_body(r, st, parse_long(job), x);
	else if (job.compare(0, 5, "pair|") == 0) { PairJob j; char pc = '-'; sscanf(job.c_str(), "pair|L=%d|p=%c", &j.nx, &pc); j.ny = j.nx; j.p = pc == '-' ? -1 : pc - '0'; pair_body(r, st, j, x); }
	else if (job.compare(0, 6, "pairu|") == 0) { PairJob j; j.p = -1; sscanf(job.c_str(), "pairu|x=%d|y=%d", &j.nx, &j.ny); pair_body(r, st, j, x); }
	else if (job.compare(0, 10, "joinpairs|") == 0) join_body(r, st, atoi(job.c_str() + 10), JOIN_SLICES, x);
}
static void flush_stats(Run &r, const Stats &st)
{
	r.count("nontrivial", st.nontrivial);
	r.count("linear_calls", st.calls); r.count("parts", st.parts);
	r.count("parts_cut_only", st.cut); r.count("parts_trim_only", st.trim); r.count("parts_cut_and_trim", st.both);
	r.count("parts_shared_endpoint(usr=raw+1)", st.shared); r.count("parts_with_hidden_values(usr<raw)", st.hidden); r.count("parts_at_limit(raw=65535)", st.capped);
	r.count("join_merged", st.join_ok); r.count("join_refused", st.join_ref); r.count("join_spurious_refusals(not flagged)", st.join_spur);
	r.count("array_history_reset_with_usr!=raw", st.hist_reset); r.count("pair_parts", st.pair_parts); r.count("pair_parts_cut_and_trim_usr=2", st.pair_cut_and_trim2);
	r.count("pair_inputs_hidden_only_by_second_dimension", st.pair_hidden_by_second); r.count("pair_polyline_parts", st.pair_poly_parts); r.count("pair_history_reset_with_usr!=raw", st.pair_hist);
	r.count("pair_inputs_with_dimensions_of_different_length", st.pair_unequal); r.count("pair_parts_cut_and_trim_on_one_segment_nonempty", st.pair_same_segment_ok);
	r.count("crossings_next_to_a_drawn_point_without_fraction(part limit; not flagged)", st.lost_crossings);
	r.count("nolist_points_applied", st.nolist_points); r.count("nolist_runs_longer_than_65535", st.nolist_split); r.count("pair_polyline_skipped_middle_store_second_dimension_hides", st.pair_gap);
	r.count("pair_polyline_reused_equals_fresh", st.pair_reused); r.count("pair_polyline_first_store_empty", st.pair_first_empty);
	r.count("pair_fractions_checked", st.pair_frac_checked); r.count("pair_fractions_two_dimensions_cross_differently", st.pair_frac_differ); r.count("pair_fractions_undefined(not judged)", st.pair_frac_undefined);
	r.count("cxx_array_parts", st.cxx_parts); r.count("polyline_parts", st.poly_parts); r.count("polyline_nothing_visible", st.poly_fail); r.count("polyline_reused_after_visible_curve_nothing_visible", st.poly_reused_hidden); r.count("polyline_reused_after_visible_curve_visible", st.poly_reused_visible);
}
void mc_explore(Run &r, const std::string &job)
{
	Stats st; memset(&st, 0, sizeof st);
	for (const char *k : {"nontrivial", "parts_cut_only", "parts_trim_only", "parts_cut_and_trim", "parts_shared_endpoint(usr=raw+1)", "parts_with_hidden_values(usr<raw)",
	                      "parts_at_limit(raw=65535)", "join_merged", "join_refused", "cxx_array_parts", "polyline_parts",
	                      "array_history_reset_with_usr!=raw", "pair_parts", "pair_parts_cut_and_trim_usr=2", "pair_inputs_hidden_only_by_second_dimension", "pair_polyline_parts", "pair_history_reset_with_usr!=raw", "pair_fractions_checked", "pair_fractions_two_dimensions_cross_differently",
	                      "pair_inputs_with_dimensions_of_different_length", "pair_parts_cut_and_trim_on_one_segment_nonempty",
	                      "nolist_points_applied", "nolist_runs_longer_than_65535", "pair_polyline_reused_equals_fresh", "pair_polyline_first_store_empty", "pair_polyline_skipped_middle_store_second_dimension_hides", "polyline_reused_after_visible_curve_nothing_visible", "polyline_reused_after_visible_curve_visible"}) r.require(k);
	if (job == "codes") { r.additive = true; r.enter(Vec(), "code"); code_job(r, st); ++r.executions; }
	else dfs(r, [&](Ctx &x) { body(r, st, job, x); });
	flush_stats(r, st);
}
void mc_replay(Run &r, const std::string &job, const Vec &v)
{
	Stats st; memset(&st, 0, sizeof st);
	if (job == "codes") { r.enter(Vec(), "code"); code_job(r, st); ++r.executions; }
	else dfs_replay(r, [&](Ctx &x) { body(r, st, job, x); }, v);
}

// C11 — event dispatch reaches exactly the registered handler.
// BFS over operation histories on the real dispatcher (mpt::dispatch, C API and
// C++ wrapper) and on a reply table driven by mpt_command_reserve, replayed on
// fresh objects with canonical-state dedupe.  Every handler is the harness
// function H whose arg pointer is a token index (+1) into the harness token
// table; H records every call (event or end-of-life) and answers with the
// answer that is part of the operation letter.  Reference model: map id->token,
// default id, fallback kind, per token invoked / finalised counters.
//
// Case vector: [init, op, op, ...]; init = alphabet | prefill << 2 | tied-flavour flag << 7 | prefix ops
// (10 bit each, op+1) << 8.  Alphabets: 0 dispatcher/small, 1 dispatcher/large,
// 2 reply table/small, 3 reply table/large.
#include <cerrno>
#include <cstdlib>
#include <algorithm>
#include <array>
#include <utility>
#include <type_traits>
#include <sys/uio.h>
#include <fcntl.h>
#include <unistd.h>
#include "core.h"
#include "array.h"
#include "message.h"
#include "output.h"
#include "event.h"
#include "mc.hpp"

using namespace mc;
const char *mc_id = "C11";
const char *mc_rule = "history BFS with canonical-state dedupe: all histories (to a fixpoint for the small alphabet, to the depth bound otherwise) of set/replace/clear/"
                      "emit(id|message|none)/hash-dispatch/set_error/set_default/fini on a fresh mpt::dispatch and of reserve/release/set/clear on a reply table, every "
                      "emit letter carrying the handler's answer (0, Default, Default|Fail+id:=0, Terminate, -1); nontrivial = distinct (state,op) transitions in which "
                      "a harness handler is called (delivery or end-of-life notification) or a request id is reserved";

// ---------------------------------------------------------------- ids, answers
static uint64_t djb2x(const char *s) { uint64_t h = 5381; while (*s) h = (h * 33) ^ (uint64_t) (int64_t) *s++; return h; }   // reference for mpt_hash_djb2
// "stop" command: a UTF-8 name (bytes >= 0x80); handlers for command names are registered under mpt_hash(name) (zero-terminated form,
// default length -1, as a caller of the public API does), mpt_dispatch_hash computes the id from the explicit text length
static const char TXT_STOP[] = "st\xc3\xb6p", SHOW_STOP[] = "st\\xc3\\xb6p";
static const uint64_t ID_GO = mpt::mpt_hash("go", -1), ID_STOP = mpt::mpt_hash(TXT_STOP, -1), ID_XX = djb2x("xx");
// command names that are never registered (several lengths); the letter "unknown command" runs all of them
static const char *unknown_txt[] = { "x", "xx", "abc", "restart" };
static std::string idname(uint64_t id)
{
	if (id == ID_GO) return "#go";
	if (id == ID_STOP) return std::string("#") + SHOW_STOP;
	if (id == UINTPTR_MAX) return "UINTPTR_MAX";
	for (const char *t : unknown_txt) if (id == djb2x(t)) return std::string("#") + t;
	return std::to_string((unsigned long long) id);
}
enum Ans { A0, ADEF, ADEFFAIL, ATERM, AERR, NANS };
static const char *ansname[] = { "->0", "->Default", "->Default|Fail,id:=0", "->Terminate", "->-1" };
enum { F_DEFAULT = mpt::event::Default, F_FAIL = mpt::event::Fail, F_TERM = mpt::event::Terminate };

// ---------------------------------------------------------------- alphabet
enum Kind { DSET, XSET, DCLR, CSET, CCLR, EMIT, EMSG, EMSG_EMPTY, ENULL, HASH, HASH_BAD, SETERR, SETDEF, FINI, XRESERVE, XRESERVE_RAW, DCOPY, CCOPY, RESIZE,
            W_RESERVE, W_REL, W_SET, W_CLEAR };
struct Letter { Kind k; uint64_t id; int ans; int shape; std::string name; std::string sig; };

// tied flavours (large alphabet, quick closure): ids 0, 2, #stop are always registered with a NULL context, ids 1, #go with a
// context pointer; the thorough closure (small alphabet) combines ids and flavours freely
static bool flavour_ok(bool tied, uint64_t id, int f) { return !tied || (id == 0 || id == 2 || id == ID_STOP) == (f == 1); }
static void build_letters(int alpha, bool tied, std::vector<Letter> &L)
{
	bool th = alpha & 1;
	if (alpha >= 2) {
		L.push_back(Letter{W_RESERVE, 1, 0, 0, "reserve(width 1)", "command_reserve"});
		L.push_back(Letter{W_RESERVE, 2, 0, 0, "reserve(width 2)", "command_reserve"});
		if (th) L.push_back(Letter{W_RESERVE, 1, 0, 1, "array::reserve(width 1)", "command_reserve"});
		for (int j = 0; j < (th ? 3 : 2); ++j) L.push_back(Letter{W_REL, (uint64_t) j, 0, 0, fmt("release(live #%d by id)", j), "command_set(NULL)"});
		L.push_back(Letter{W_REL, 99, 0, 0, "release(highest live id)", "command_set(NULL)"});
		L.push_back(Letter{W_SET, 126, 0, 0, "command_set(126,h)", "command_set"});
		L.push_back(Letter{W_SET, 127, 0, 0, "command_set(127,h)", "command_set"});
		if (th) L.push_back(Letter{W_SET, 32767, 0, 0, "command_set(32767,h)", "command_set"});
		L.push_back(Letter{W_SET, UINTPTR_MAX, 0, 0, "command_set(UINTPTR_MAX,h)", "command_set"});   // any id is legal for mpt_command_set (e.g. a text hash)
		L.push_back(Letter{W_CLEAR, 0, 0, 0, "command_clear", "command_clear"});
		return;
	}
	std::vector<uint64_t> R, E, B;   // registerable ids (0 included), emitted ids, ids carried as first message byte
	R.push_back(1); if (th) R.push_back(2); R.push_back(0);
	R.push_back(ID_GO); if (th) R.push_back(ID_STOP);
	E = R; E.push_back(9);
	B.push_back(1); if (th) B.push_back(2); B.push_back(0); B.push_back(9);
	// flavour: context pointer = token index (handler H) or NULL context (one trampoline function per token)
	static const char *fl[] = { "h,ctx", "h',NULL" };
	for (uint64_t id : R) for (int f = 0; f < 2; ++f) if (flavour_ok(tied, id, f)) L.push_back(Letter{DSET, id, 0, f, "dispatch_set(" + idname(id) + "," + fl[f] + ")", "dispatch_set"});
	if (th) for (uint64_t id : R) for (int f = 0; f < 2; ++f) if (flavour_ok(tied, id, f)) L.push_back(Letter{XSET, id, 0, f, "array::set_handler(" + idname(id) + "," + fl[f] + ")", "dispatch_set"});
	for (uint64_t id : R) L.push_back(Letter{DCLR, id, 0, 0, "dispatch_set(" + idname(id) + ",NULL)", "dispatch_set(NULL)"});
	for (uint64_t id : R) for (int f = 0; f < 2; ++f) if (flavour_ok(tied, id, f)) L.push_back(Letter{CSET, id, 0, f, "command_set(" + idname(id) + "," + fl[f] + ")", "command_set"});
	for (uint64_t id : R) L.push_back(Letter{CCLR, id, 0, 0, "command_set(" + idname(id) + ",NULL)", "command_set(NULL)"});
	for (uint64_t id : E) for (int a = 0; a < NANS; ++a) L.push_back(Letter{EMIT, id, a, 0, "emit(id " + idname(id) + ")" + ansname[a], "emit(id)"});
	for (uint64_t id : B) for (int a = 0; a < NANS; ++a) for (int sh = 0; sh < (th ? 2 : 1); ++sh)
		L.push_back(Letter{EMSG, id, a, sh, "emit(" + std::string(sh ? "split " : "") + "message, first byte " + idname(id) + ")" + ansname[a], "emit(message)"});
	L.push_back(Letter{EMSG_EMPTY, 0, 0, 0, "emit(empty message)", "emit(message)"});
	for (int a = 0; a < NANS; ++a) L.push_back(Letter{ENULL, 0, a, 0, std::string("emit(NULL)") + ansname[a], "emit(NULL)"});
	std::vector<uint64_t> T; T.push_back(ID_GO); if (th) T.push_back(ID_STOP); T.push_back(ID_XX);
	// every hash letter runs ALL fragmentations of header + text + tail into <= 3 segments (inner loop, see apply_disp)
	for (uint64_t id : T) for (int sh = 0; sh < 2; ++sh) for (int a = 0; a < NANS; ++a) {
		std::string txt = id == ID_GO ? "go" : (id == ID_STOP ? SHOW_STOP : (a == A0 ? "<x|xx|abc|restart>" : "xx"));
		L.push_back(Letter{HASH, id, a, sh, "dispatch_hash(" + (sh ? "sep=' ' \"" + txt + " now\"" : "\"" + txt + "\\0\"") + ", all fragmentations)" + ansname[a], "dispatch_hash"});
	}
	L.push_back(Letter{HASH_BAD, 0, 0, 0, "dispatch_hash(no message)", "dispatch_hash"});
	L.push_back(Letter{HASH_BAD, 0, 0, 1, "dispatch_hash(1-byte message)", "dispatch_hash"});
	L.push_back(Letter{HASH_BAD, 0, 0, 2, "dispatch_hash(header without text)", "dispatch_hash"});
	L.push_back(Letter{SETERR, 1, 0, 0, "dispatch::set_error(h,ctx)", "set_error"});
	L.push_back(Letter{SETERR, 1, 0, 1, "dispatch::set_error(h',NULL)", "set_error"});
	L.push_back(Letter{SETERR, 0, 0, 0, "dispatch::set_error(NULL)", "set_error"});
	for (uint64_t id : R) L.push_back(Letter{SETDEF, id, 0, 0, "dispatch::set_default(" + idname(id) + ")", "set_default"});
	L.push_back(Letter{FINI, 0, 0, 0, "dispatch_fini", "dispatch_fini"});
	// generic array interface of the dispatcher (unique_array<command>): drop all entries / all but the first slot
	L.push_back(Letter{RESIZE, 0, 0, 0, "dispatch.resize(0)", "array::resize"});
	L.push_back(Letter{RESIZE, 1, 0, 0, "dispatch.resize(1)", "array::resize"});
	// value copies of the C++ objects (letters are only enabled while the classes are copyable)
	L.push_back(Letter{DCOPY, 0, 0, 0, "{ dispatch copy(d); } (copy-construct, destroy the copy)", "dispatch(copy)"});
	L.push_back(Letter{DCOPY, 0, 0, 1, "{ dispatch copy; copy = d; } (assign, destroy the copy)", "dispatch(copy)"});
	for (uint64_t id : R) L.push_back(Letter{CCOPY, id, 0, 0, "{ command c(*d.handler(" + idname(id) + ")); } (copy-construct the entry, destroy the copy)", "command(copy)"});
	if (th) { L.push_back(Letter{XRESERVE, 1, 0, 0, "dispatch.reserve(width 1)", "command_reserve"}); L.push_back(Letter{XRESERVE, 2, 0, 0, "dispatch.reserve(width 2)", "command_reserve"});
	          L.push_back(Letter{XRESERVE_RAW, 1, 0, 0, "dispatch.reserve(width 1), slot not activated", "command_reserve"}); }
}
// alphabet index: 0 dispatcher/small, 1 dispatcher/large, 2 reply table/small, 3 reply table/large, 4 dispatcher/small with tied flavours
static const std::vector<Letter> &letters(int alpha)
{
	static std::vector<Letter> cache[5];
	std::vector<Letter> &L = cache[alpha];
	if (L.empty()) build_letters(alpha & 3, alpha == 4 || alpha == 1, L);
	return L;
}
static uint64_t make_init(int alpha, unsigned prefill, const std::vector<int> &prefix)
{
	uint64_t v = (uint64_t) (alpha & 3) | (uint64_t) (prefill & 31) << 2 | (alpha == 4 || prefill >= 32 ? 128 : 0);
	for (size_t i = 0; i < prefix.size(); ++i) v |= (uint64_t) (prefix[i] + 1) << (8 + 10 * i);
	return v;
}

// ---------------------------------------------------------------- harness handler
struct Tok { uint64_t id; int kind; int inv, fin; int tramp; };   // kind 0 = id handler, 1 = fallback, 2 = reply-table entry; tramp >= 0: "NULL context" flavour
// A registration either carries its token index as context pointer (handler function H) or it is registered with a
// NULL context pointer; such a token is identified by the handler FUNCTION: one trampoline per token, never reused
// within a history.
enum { NTRAMP = 64 };
struct Obs { int tok; bool fin; uint64_t evid; bool hasmsg; bool used; };
struct Exp { int tok; bool fin; };
struct Sys;
static Sys *g_sys;
static uint64_t g_expanded;
static int H(void *arg, mpt::event *ev);
static int tramp_call(int n, void *arg, mpt::event *ev);
typedef int (*raw_handler)(void *, void *);
typedef int (*ev_handler)(void *, mpt::event *);
template <int N> static int TR(void *arg, mpt::event *ev) { return tramp_call(N, arg, ev); }
template <int... I> static std::array<ev_handler, sizeof...(I)> make_tramps(std::integer_sequence<int, I...>) { return {{ &TR<I>... }}; }
static const std::array<ev_handler, NTRAMP> TRAMP = make_tramps(std::make_integer_sequence<int, NTRAMP>());

struct ReplyCtx : public mpt::reply_context {
	int n;
	ReplyCtx() : n(0) { }
	int reply(const mpt::message *) override { ++n; return 0; }
};
struct RawArr { mpt::buffer *_buf; };
// copies are only compiled into real scenarios while the classes are copyable (cf. C13 copy_scenario)
template <typename D> static typename std::enable_if<std::is_copy_constructible<D>::value && std::is_copy_assignable<D>::value, bool>::type
dispatch_copy(D *d, int how) { if (how) { D b; b = *d; } else { D b(*d); } return true; }
template <typename D> static typename std::enable_if<!(std::is_copy_constructible<D>::value && std::is_copy_assignable<D>::value), bool>::type
dispatch_copy(D *, int) { return false; }
template <typename C> static typename std::enable_if<std::is_copy_constructible<C>::value, bool>::type
command_copy(C *c) { C b(*c); return true; }
template <typename C> static typename std::enable_if<!std::is_copy_constructible<C>::value, bool>::type
command_copy(C *) { return false; }   // C view of MPT_STRUCT(array) (MPT_ARRAY_INIT = { 0 })

struct Sys {
	Run &r;
	int alpha, sub;                // sub: 0 = dispatcher, 1 = reply table
	uint64_t t0;
	bool dead;
	mpt::dispatch *d;
	RawArr wait;
	std::vector<Tok> toks;
	int tramp_tok[NTRAMP], next_tramp;
	std::map<uint64_t, int> reg;   // model: id -> token (dispatcher table or reply table)
	std::set<uint64_t> rsv;        // model: ids reserved on the dispatcher table whose slot was never activated (library placeholder, no handler registered)
	uint64_t def;                  // model: default id
	int fb;                        // model: fallback: -2 built-in, -1 none, >= 0 token
	std::vector<Obs> obs;
	std::vector<Exp> exp;
	int answer;
	bool had_free, had_growth, counted;
	// context of the running op (for signatures / details, formatted only when needed)
	const Letter *cur;
	char cls[112];
	uint64_t pre_ids[16]; int pre_n; uint64_t pre_def; int pre_fb; const char *pre_tcls;
	const char *frag_txt; size_t frag_c1, frag_c2, frag_len; int frag_clen;   // running fragmentation of a hash letter

	Sys(Run &run, uint64_t init) : r(run), alpha(((init & 128) && (init & 3) < 2) ? 4 : (int) (init & 3)), sub((init & 3) >= 2), t0(run.transitions), dead(false), d(0), def(0), fb(-2), answer(A0),
	                               had_free(false), had_growth(false), counted(false), cur(0), pre_n(0), pre_def(0), pre_fb(0), pre_tcls(""), frag_txt(0), frag_c1(0), frag_c2(0), frag_len(0), frag_clen(0)
	{
		static bool once = false;
		if (!once) { once = true; mpt::mpt_log_default_skip(1); }
		wait._buf = 0; cls[0] = 0; next_tramp = 0;
		g_sys = this;
		if (!sub) d = new mpt::dispatch;
		else {
			fb = -1;
			// reply table pre-filled with outstanding requests
			// flag 128 on a reply table: 1-byte ids, all but <field> of the 127 ids of that width are outstanding
			unsigned prefill = (unsigned) (init >> 2) & 31;
			bool full = init & 128;
			if (full) prefill = 127 - prefill;
			for (unsigned i = 0; i < prefill; ++i) {
				mpt::command *c = mpt::mpt_command_reserve(warr(), full ? 1 : 2);
				if (!c) { r.incomplete("prefill of the reply table refused"); break; }
				int t = newtok(c->id, 2);
				c->cmd = (raw_handler) H; c->arg = targ(t); reg[c->id] = t;
			}
			obs.clear();
		}
		for (uint64_t p = init >> 8; p & 1023; p >>= 10) {
			int op = (int) (p & 1023) - 1;
			if (r.replaying && op < nletters()) r.note("init prefix: %s", opname(op).c_str());
			if (!apply(op)) break;
		}
		t0 = r.transitions;
	}
	~Sys()
	{
		static const Letter down = { FINI, 0, 0, 0, "teardown", "teardown" };
		g_sys = this;
		begin(down);
		for (auto &kv : reg) exp.push_back(Exp{kv.second, true});
		if (fb >= 0) exp.push_back(Exp{fb, true});
		r.hint("teardown");
		if (d) { LIB((delete d, 0)); d = 0; }
		if (wait._buf) { LIB((mpt::mpt_command_clear(warr()), mpt::mpt_array_clone(reinterpret_cast<mpt::array *>(&wait), 0), 0)); }
		if (!dead) {
			setcls(exp.empty() ? "nothing-registered" : "handlers-registered");
			bool some = !exp.empty();
			if (settle() && some) cnt("path:end-of-life on teardown");
		}
		g_sys = 0;
	}
	bool final_op() const { return r.transitions != t0 || r.replaying; }
	mpt::unique_array<mpt::command> *warr() { return reinterpret_cast<mpt::unique_array<mpt::command> *>(&wait); }
	void *targ(int t) const { return toks[t].tramp >= 0 ? 0 : (void *) (uintptr_t) (t + 1); }
	ev_handler hfn(int t) const { return toks[t].tramp >= 0 ? TRAMP[toks[t].tramp] : H; }
	raw_handler rfn(int t) const { return (raw_handler) hfn(t); }
	int newtok(uint64_t id, int kind, bool nullctx = false)
	{
		int tr = -1;
		if (nullctx && next_tramp < NTRAMP) { tr = next_tramp++; tramp_tok[tr] = (int) toks.size(); }
		toks.push_back(Tok{id, kind, 0, 0, tr});
		return (int) toks.size() - 1;
	}
	int nletters() const { return (int) letters(alpha).size(); }
	int nops() { ++g_expanded; return nletters(); }
	std::string opname(int op) { return letters(alpha)[op].name; }
	mpt::buffer *tbuf() const { return sub ? wait._buf : (d ? *(mpt::buffer **) (void *) d : 0); }

	void cnt(const char *key) { if (final_op()) r.count(key); }
	void nontrivial() { if (final_op() && !counted) { counted = true; r.count("nontrivial"); } }
	void setcls(const char *a, const char *b = 0, const char *c = 0)
	{
		size_t n = 0;
		const char *p[3] = { a, b, c };
		for (int i = 0; i < 3; ++i) if (p[i] && *p[i]) { if (n && n < sizeof cls - 1) cls[n++] = ','; for (const char *q = p[i]; *q && n < sizeof cls - 1; ++q) cls[n++] = *q; }
		cls[n] = 0;
	}
	void begin(const Letter &l)
	{
		cur = &l; obs.clear(); exp.clear(); cls[0] = 0; frag_txt = 0;
		pre_n = 0; for (auto &kv : reg) if (pre_n < 16) pre_ids[pre_n++] = kv.first;
		pre_def = def; pre_fb = fb; pre_tcls = tclass();
		asan_error();
	}
	std::string desc() const
	{
		std::string s = cur->name + (sub ? " on live ids {" : " on {");
		for (int i = 0; i < pre_n; ++i) s += (i ? " " : "") + idname(pre_ids[i]);
		s += "}";
		if (!sub) s += " default=" + idname(pre_def) + " fallback=" + (pre_fb == -2 ? "built-in" : (pre_fb == -1 ? "none" : "handler"));
		s += std::string(", ") + pre_tcls;
		if (frag_txt) s += fmt(" [text \"%s\", message bytes 0..%zu cut into %d segment(s): [0,%zu) [%zu,%zu) [%zu,%zu)]", frag_txt, frag_len, frag_clen + 1, frag_c1, frag_c1, frag_c2, frag_c2, frag_len);
		return s;
	}
	bool fail(const char *group, const std::string &detail)
	{
		r.violation(cur->sig + "|" + cls + "|" + group, desc() + ": " + detail);
		dead = true;
		return false;
	}
	std::string tokname(int t) const { return fmt("token %d (id %s)", t, idname(toks[t].id).c_str()); }
	// compare the recorded handler calls with the expected ones, update the token counters
	bool settle()
	{
		if (asan_error()) return fail("memory-error", "AddressSanitizer reported an invalid memory access");
		for (Obs &o : obs) {
			o.used = false;
			if (o.tok < 0) return fail("bogus-arg", "a handler was called with a context pointer that does not belong to a registration of that handler function");
			Tok &t = toks[o.tok];
			if (o.fin) { if (t.fin) return fail("end-of-life-twice", tokname(o.tok) + " received a second end-of-life notification"); ++t.fin; }
			else { if (t.fin) return fail("invoked-after-end-of-life", tokname(o.tok) + " was invoked after its end-of-life notification"); ++t.inv; }
		}
		for (const Exp &e : exp) {
			size_t i;
			for (i = 0; i < obs.size(); ++i) if (!obs[i].used && obs[i].tok == e.tok && obs[i].fin == e.fin) break;
			if (i < obs.size()) { obs[i].used = true; continue; }
			if (e.fin) return fail("end-of-life-missing", tokname(e.tok) + " did not receive its end-of-life notification");
			for (const Obs &o : obs) if (!o.used && !o.fin) return fail("wrong-handler", "delivered to " + tokname(o.tok) + " instead of " + tokname(e.tok));
			return fail("not-delivered", tokname(e.tok) + " was not invoked");
		}
		for (const Obs &o : obs) if (!o.used) {
			if (o.fin) return fail("premature-end-of-life", tokname(o.tok) + " received an end-of-life notification although it stays registered");
			return fail("extra-delivery", tokname(o.tok) + " was invoked although the event is not for it");
		}
		if (!obs.empty() && cur->sig != "teardown") nontrivial();
		return true;
	}
	// public lookup (command::array::handler / mpt_command_get) must agree with the model for every id of interest
	bool lookup_one(uint64_t id)
	{
		mpt::command *c = sub ? mpt::mpt_command_get(warr(), id) : d->handler(id);
		auto it = reg.find(id);
		if (rsv.count(id)) return c ? true : fail("lookup-mismatch", "reserved id " + idname(id) + " vanished from the table");
		if (!c && it == reg.end()) return true;
		if (!c) return fail("lookup-mismatch", "no handler found for registered id " + idname(id));
		if (it == reg.end()) return fail("lookup-mismatch", "a handler is found for unregistered id " + idname(id));
		if (c->cmd != rfn(it->second) || c->arg != targ(it->second)) return fail("lookup-mismatch", "id " + idname(id) + " is bound to another handler than the one registered last");
		return true;
	}
	bool lookup_ok()
	{
		static const uint64_t fixd[] = {0, 1, 2, 3, 9, ID_GO, ID_STOP, ID_XX}, fixw[] = {0, 1, 2, 126, 127, 128, 32767, UINTPTR_MAX};
		if (!sub) { for (uint64_t id : fixd) if (!lookup_one(id)) return false; }
		else for (uint64_t id : fixw) if (!lookup_one(id)) return false;
		for (auto &kv : reg) if (!lookup_one(kv.first)) return false;
		if (tbuf()) { size_t n = tbuf()->_used / sizeof(mpt::command); mpt::command *c = (mpt::command *) (tbuf() + 1); for (size_t i = 0; i < n; ++i) if (!lookup_one(c[i].id)) return false; }
		if (!sub && d->_def != def) return fail("default-bookkeeping", "default id is " + idname(d->_def) + ", documented bookkeeping gives " + idname(def));
		return true;
	}
	const char *tclass() const
	{
		if (!tbuf()) return "no-table";
		return had_growth ? "grown-table" : (had_free || has_free_slot() ? "table-with-freed-slot" : "small-table");
	}
	const char *target_class(uint64_t id) const
	{
		if (reg.count(id)) return "registered";
		return fb == -2 ? "unregistered,builtin-fallback" : (fb == -1 ? "unregistered,no-fallback" : "unregistered,fallback-handler");
	}
	void track_table(size_t cap_before)
	{
		mpt::buffer *b = tbuf();
		size_t cap = b ? b->_size / sizeof(mpt::command) : 0;
		if (cap_before && cap > cap_before) { had_growth = true; cnt("path:table growth"); }
	}
	bool has_free_slot(uint64_t *top = 0) const
	{
		bool f = false;
		if (top) *top = 0;
		if (tbuf()) { size_t n = tbuf()->_used / sizeof(mpt::command); mpt::command *c = (mpt::command *) (tbuf() + 1); for (size_t i = 0; i < n; ++i) { if (!c[i].cmd) f = true; if (top && c[i].id > *top) *top = c[i].id; } }
		return f;
	}

	// model of one delivery: returns raw handler answer, updates evid
	int model_answer(int target, uint64_t &evid, bool hasmsg)
	{
		if (target == -2) {       // built-in unknownEvent of dispatch_finit.c
			if (evid) { evid = 0; return F_DEFAULT | F_FAIL; }
			if (!hasmsg) return F_DEFAULT | F_FAIL;
			return F_FAIL;        // harness messages always carry a first byte
		}
		switch (answer) {
		case A0: return 0;
		case ADEF: return F_DEFAULT;
		case ADEFFAIL: evid = 0; return F_DEFAULT | F_FAIL;
		case ATERM: return F_TERM;
		default: return -1;
		}
	}

	bool apply(int op);
	bool apply_disp(const Letter &l);
	bool apply_wait(const Letter &l);
	std::string canon();
};

static int handle(Sys *s, int tok, mpt::event *ev)
{
	Obs o;
	o.tok = tok;
	o.fin = !ev; o.used = false;
	o.evid = 0; o.hasmsg = false;
	bool reply_entry = o.tok >= 0 && s->toks[o.tok].kind == 2;
	if (ev && !reply_entry) { o.evid = ev->id; o.hasmsg = ev->msg != 0; }
	s->obs.push_back(o);
	if (!ev || reply_entry) return 0;
	switch (s->answer) {
	case A0: return 0;
	case ADEF: return F_DEFAULT;
	case ADEFFAIL: ev->id = 0; return F_DEFAULT | F_FAIL;
	case ATERM: return F_TERM;
	default: return -1;
	}
}
static int H(void *arg, mpt::event *ev)
{
	Sys *s = g_sys;
	if (!s) return 0;
	uintptr_t k = (uintptr_t) arg;
	return handle(s, (k >= 1 && k <= s->toks.size() && s->toks[k - 1].tramp < 0) ? (int) k - 1 : -1, ev);
}
static int tramp_call(int n, void *arg, mpt::event *ev)
{
	Sys *s = g_sys;
	if (!s) return 0;
	return handle(s, (n < s->next_tramp && !arg) ? s->tramp_tok[n] : -1, ev);   // a NULL-context handler must see its NULL context
}

std::string Sys::canon()
{
	std::string s = sub ? "W" : "D";
	s.reserve(160);
	mpt::buffer *b = tbuf();
	if (!b) s += " notable";
	else {
		size_t n = b->_used / sizeof(mpt::command);
		mpt::command *c = (mpt::command *) (b + 1);
		s += " cap="; s += std::to_string(b->_size / sizeof(mpt::command)); s += b->_content_traits ? " typed [" : " untyped [";
		for (size_t i = 0; i < n; ++i) {
			s += idname(c[i].id);
			if (!c[i].cmd) s += "/- ";
			else if (rsv.count(c[i].id)) s += "/R ";
			else { auto it = reg.find(c[i].id); s += (it != reg.end() && c[i].cmd == rfn(it->second) && c[i].arg == targ(it->second)) ? (toks[it->second].tramp >= 0 ? "/N " : "/L ") : "/L! "; }
		}
		s += "]";
	}
	if (!sub) {
		s += " def=" + idname(d->_def);
		if (!d->_err.cmd) s += " err=0";
		else if (fb >= 0 && d->_err.cmd == hfn(fb) && d->_err.arg == targ(fb)) s += toks[fb].tramp >= 0 ? " err=N" : " err=T";
		else s += fb == -2 ? " err=B" : " err=T!";
	}
	s += " | M{";
	for (auto &kv : reg) { s += idname(kv.first); s += ' '; }
	if (!rsv.empty()) { s += "} R{"; for (uint64_t id : rsv) { s += idname(id); s += ' '; } }
	s += "} def=" + idname(def) + (fb == -2 ? " fb=B" : (fb == -1 ? " fb=0" : (toks[fb].tramp >= 0 ? " fb=N" : " fb=T")));
	if (had_growth) s += " g";
	if (had_free) s += " f";
	if (dead) s += " DEAD";
	return s;
}

bool Sys::apply(int op)
{
	if (dead) return false;
	const std::vector<Letter> &L = letters(alpha);
	if (op < 0 || op >= (int) L.size()) return false;
	const Letter &l = L[op];
	g_sys = this;
	begin(l);
	r.hint(l.sig.c_str());
	return sub ? apply_wait(l) : apply_disp(l);
}

bool Sys::apply_disp(const Letter &l)
{
	ReplyCtx ctx;
	size_t cap0 = tbuf() ? tbuf()->_size / sizeof(mpt::command) : 0;
	bool free0 = has_free_slot();
	switch (l.k) {
	case DSET: case XSET: {
		bool have = reg.count(l.id);
		setcls(have ? "registered" : "unregistered", tclass());
		int t = newtok(l.id, 0, l.shape);
		int ret = l.k == DSET ? LIB(mpt::mpt_dispatch_set(d, l.id, hfn(t), targ(t))) : (LIB(d->set_handler(l.id, hfn(t), targ(t))) ? 0 : -1);
		if (!settle()) return false;
		if (have) { if (ret >= 0) return fail("accepted-duplicate", "second registration for a used id reported success (mpt_dispatch_set documents refusal)"); cnt("path:dispatch_set refuses used id"); }
		else if (ret < 0) cnt(rsv.count(l.id) ? "registration refused for a reserved id (not flagged)" : "spurious refusal of registration (not flagged)");
		else { reg[l.id] = t; rsv.erase(l.id); cnt("path:registered"); if (free0) cnt("path:freed slot reused"); }
		track_table(cap0);
		return lookup_ok(); }
	case DCLR: {
		bool have = reg.count(l.id);
		setcls(have ? "registered" : "unregistered", tclass());
		int ret = LIB(mpt::mpt_dispatch_set(d, l.id, 0, 0));
		if (have && ret < 0 && obs.empty()) { cnt("spurious refusal of removal (not flagged)"); return lookup_ok(); }
		if (have) { exp.push_back(Exp{reg[l.id], true}); reg.erase(l.id); had_free = true; }
		else if (ret >= 0 && rsv.erase(l.id)) had_free = true;   // the reserved slot is given back
		if (!settle()) return false;
		if (have) cnt("path:end-of-life on removal"); else cnt("path:removal of unregistered id");
		return lookup_ok(); }
	case CSET: {
		bool have = reg.count(l.id);
		setcls(have ? "registered" : "unregistered", tclass());
		int t = newtok(l.id, 0, l.shape);
		if (have) exp.push_back(Exp{reg[l.id], true});
		int ret = LIB(mpt::mpt_command_set(d, l.id, rfn(t), targ(t)));
		if (ret < 0 && obs.empty()) { cnt("spurious refusal of registration (not flagged)"); return lookup_ok(); }
		reg[l.id] = t; rsv.erase(l.id);
		if (!settle()) return false;
		if (have) cnt("path:end-of-life on replacement"); else { cnt("path:registered"); if (free0) cnt("path:freed slot reused"); }
		track_table(cap0);
		return lookup_ok(); }
	case CCLR: {
		bool have = reg.count(l.id);
		setcls(have ? "registered" : "unregistered", tclass());
		if (have) { exp.push_back(Exp{reg[l.id], true}); reg.erase(l.id); had_free = true; }
		LIB(mpt::mpt_command_set(d, l.id, 0, 0));
		if (rsv.erase(l.id)) had_free = true;
		if (!settle()) return false;
		if (have) cnt("path:end-of-life on removal");
		track_table(cap0);
		return lookup_ok(); }
	case EMIT: case EMSG: case EMSG_EMPTY: case ENULL: {
		answer = l.ans;
		mpt::event ev;
		ev.reply = &ctx;
		uint8_t bytes[2] = { (uint8_t) l.id, 0x55 };
		struct iovec io; io.iov_base = bytes; io.iov_len = 2;
		mpt::message msg;
		uint64_t evid = l.id;
		bool hasmsg = false;
		if (l.k == EMIT) ev.id = l.id;
		else if (l.k == EMSG) {
			if (l.shape == 0) { msg.base = bytes; msg.used = 2; }
			else { msg.base = 0; msg.used = 0; msg.cont = &io; msg.clen = 1; }
			ev.msg = &msg; ev.id = 0x7777; hasmsg = true;
		}
		else if (l.k == EMSG_EMPTY) { ev.msg = &msg; ev.id = 0x7777; }
		int target = -3;   // -3: nobody
		int want_ret = 0; bool want_neg = false, stale = false;
		uint64_t ndef = def;
		if (l.k == EMSG_EMPTY) { setcls("empty-message"); want_neg = true; }
		else if (l.k == ENULL) {
			evid = def;
			if (!def) { setcls("no-default"); want_ret = 0; }
			else if (!reg.count(def)) { setcls("stale-default"); want_neg = true; ndef = 0; stale = true; }   // "bad default command": cleared, error
			else { setcls("default-registered"); target = reg[def]; }
		}
		else {
			setcls(target_class(evid));
			if (reg.count(evid)) target = reg[evid];
			else if (fb != -1) target = fb;
			else want_neg = true;
		}
		if (target != -3) {
			uint64_t id_after = evid;
			int raw = model_answer(target, id_after, hasmsg);
			if (target >= 0) exp.push_back(Exp{target, false});
			if (raw < 0) want_ret = raw;
			else {
				if (raw & F_DEFAULT) { raw &= ~F_DEFAULT; ndef = id_after; }
				if (ndef) raw |= F_DEFAULT;
				want_ret = raw;
			}
		}
		// An event for a reserved, never activated id: no handler was registered for it (mpt_command_reserve: "set control handler
		// of returned element to activate"), so the model sends it to the fallback.  The library placeholder in that slot is a
		// reply callback; the call is tried in a forked child first so that a fault is a violation of this case only.
		if (l.k != EMSG_EMPTY && evid && rsv.count(evid)) {
			setcls("reserved-slot-not-activated");
			if (l.ans != A0 || l.shape) return false;   // the harness answer / message shape cannot matter here: one letter per kind is enough (not enabled otherwise)
			cnt("path:event for a reserved, not activated id");
			{
				// The real call must never fault in this process (also while replaying a prefix or listing jobs).  What the placeholder
				// does with an event does not depend on the dispatcher state, so the outcome is probed in a forked child once per
				// process and letter kind and reused afterwards (a fork of the sanitized process per case is far too slow).
				static std::string verdict[3];
				std::string &res = verdict[l.k == EMIT ? 0 : (l.k == EMSG ? 1 : 2)];
				if (res.empty() || r.replaying) {
					mpt::event *evp = l.k == ENULL ? 0 : &ev;
					res = in_child([&]() { asan_error(); mpt::mpt_dispatch_emit(d, evp); return std::string(asan_error() ? "asan" : "ok"); });
				}
				// one failure group for "faults" and "sanitizer report" (which of the two happens depends on stack garbage)
				if (!res.empty() && res[0] == '\x01') return fail("reply-callback-called-with-event", "the event is passed to the placeholder reply callback of the reserved slot, which reads it as a message: the call does not return (" + res.substr(1) + ")");
				if (res == "asan") return fail("reply-callback-called-with-event", "the event is passed to the placeholder reply callback of the reserved slot, which reads it as a message (AddressSanitizer: read behind the event)");
			}
		}
		int ret = LIB(mpt::mpt_dispatch_emit(d, l.k == ENULL ? 0 : &ev));
		if (!settle()) return false;
		for (const Obs &o : obs) if (!o.fin) {
			if (o.evid != evid) return fail("wrong-event-id", "the handler saw event id " + idname(o.evid) + ", expected " + idname(evid));
			if (o.hasmsg != hasmsg) return fail("wrong-event-id", std::string("the handler saw ") + (o.hasmsg ? "a" : "no") + " message");
		}
		if (target != -3) {
			if (target >= 0 && toks[target].kind == 0) cnt(l.k == ENULL ? "path:default event delivered" : (l.k == EMSG ? "path:message delivered to registered handler" : "path:id delivered to registered handler"));
			else if (target >= 0) cnt("path:delivered to fallback handler");
			else cnt("path:delivered to built-in fallback");
			if (want_ret < 0) cnt("path:handler error propagated");
			else if (ndef != def) cnt(!def ? "path:default added" : (ndef ? "path:default replaced" : "path:default removed"));
			else if (def && l.ans == ADEF && target >= 0) cnt("path:default kept");
		} else if (stale) cnt("path:stale default cleared");
		else if (want_neg && l.k != EMSG_EMPTY) cnt("path:no handler and no fallback");
		def = ndef;
		if (want_neg) { if (ret >= 0) return fail("return-value", fmt("returned %d, an error code is documented", ret)); }
		else if (ret != want_ret) return fail((ret ^ want_ret) == F_DEFAULT ? "default-bookkeeping" : "return-value", fmt("returned %d, handler answer and documented default bookkeeping give %d", ret, want_ret));
		return lookup_ok(); }
	case HASH_BAD: {
		mpt::event ev;
		ev.reply = &ctx;
		ev.id = 0x7777;
		mpt::message msg;
		uint8_t *data = (uint8_t *) malloc(l.shape == 2 ? 2 : 1);   // exactly sized
		data[0] = mpt::msgtype::Command; if (l.shape == 2) data[1] = 0;
		setcls(l.shape == 0 ? "no-message" : (l.shape == 1 ? "short-message" : "no-text"));
		if (l.shape) { msg.base = data; msg.used = l.shape; ev.msg = &msg; }
		int ret = LIB(mpt::mpt_dispatch_hash(d, &ev));
		free(data);
		if (!settle()) return false;
		if (ret != (F_DEFAULT | F_FAIL)) return fail("return-value", fmt("returned %d, expected %d", ret, F_DEFAULT | F_FAIL));
		if (ev.id != 0) return fail("return-value", "event id after the call is " + idname(ev.id) + ", expected 0");
		return lookup_ok(); }
	case HASH: {
		answer = l.ans;
		// the fragmentation does not change the dispatcher state: the final op of a history runs every fragmentation,
		// prefix replays only the unfragmented message
		bool all = final_op();
		bool delivered = false, crossed = false;
		uint64_t nfrag = 0;
		// unknown names: all lengths with the plain answer, only "xx" with the other answers
		size_t ntxt = l.id == ID_XX && l.ans == A0 ? sizeof unknown_txt / sizeof *unknown_txt : 1;
		for (size_t ti = 0; ti < ntxt; ++ti) {
			const char *txt = l.id == ID_GO ? "go" : (l.id == ID_STOP ? TXT_STOP : unknown_txt[ntxt > 1 ? ti : 1]);
			size_t n = strlen(txt);
			// registered names: the id the handler was registered under (mpt_hash(name), zero-terminated form)
			uint64_t id = l.id == ID_XX ? djb2x(txt) : l.id;
			setcls(target_class(id));
			if (l.id == ID_STOP && final_op()) r.count("path:hash of a non-ASCII command name");
			if (djb2x(txt) != mpt::mpt_hash(txt, (int) n)) return fail("hash-function", "mpt_hash differs from the documented djb2-xor variant");
			int target = -3, want_ret; uint64_t want_id, id_after = id;
			if (reg.count(id)) {
				target = reg[id];
				int raw = model_answer(target, id_after, true);
				if (raw < 0) { want_ret = F_DEFAULT | F_FAIL; want_id = 0; }   // MPT_event_fail
				else { want_ret = raw; want_id = id_after; }
			} else if (fb != -1) {
				target = fb;
				want_ret = model_answer(target, id_after, true); want_id = id_after;
			} else { want_ret = F_DEFAULT | F_FAIL; want_id = 0; }
			// separator letters: ' ' with tail " now"; on the final op also ':' with tail ":arg\0" and ':' with a NUL terminated single word
			for (int sv = 0; sv < (l.shape && all ? 3 : 1); ++sv) {
			uint8_t S[32]; size_t L;
			const char *sepcls = !l.shape ? 0 : (sv == 0 ? 0 : (sv == 1 ? "printable-separator" : "printable-separator,terminated-word"));
			S[0] = mpt::msgtype::Command; S[1] = !l.shape ? 0 : (sv ? ':' : ' ');
			memcpy(S + 2, txt, n);
			if (!l.shape) { S[2 + n] = 0; L = 3 + n; }
			else if (sv == 0) { memcpy(S + 2 + n, " now", 4); L = 6 + n; }
			else if (sv == 1) { memcpy(S + 2 + n, ":arg", 5); L = 7 + n; }
			else { S[2 + n] = 0; L = 3 + n; }
			for (size_t c1 = all ? 0 : L; c1 <= L; ++c1) for (size_t c2 = c1; c2 <= L; ++c2) for (int clen = 2; clen >= 0; --clen) {
				if ((clen < 2 && c2 != L) || (clen < 1 && c1 != L)) continue;   // fewer segments only when the dropped ones are empty
				if (!all && clen) continue;
				// text bytes are S[2, 2+n): which segments hold them?
				size_t tb = 2, te = 2 + n;
				int sb = tb < c1 ? 0 : (tb < c2 ? 1 : 2), se = te - 1 < c1 ? 0 : (te - 1 < c2 ? 1 : 2);
				setcls(target_class(id), clen == 0 ? "one-segment" : (sb != se ? "text-crosses-segments" : (c1 < 2 && c1 ? "header-split" : "text-in-one-segment")), sepcls);
				frag_txt = txt; frag_c1 = c1; frag_c2 = c2; frag_len = L; frag_clen = clen;
				obs.clear(); exp.clear();
				if (target >= 0) exp.push_back(Exp{target, false});
				// every segment and the iovec array are exactly sized heap blocks: over-reads hit ASan redzones
				uint8_t *s0 = (uint8_t *) malloc(c1), *s1 = (uint8_t *) malloc(c2 - c1), *s2 = (uint8_t *) malloc(L - c2);
				struct iovec *io = (struct iovec *) malloc(clen * sizeof *io);
				if (c1) memcpy(s0, S, c1);
				if (c2 - c1) memcpy(s1, S + c1, c2 - c1);
				if (L - c2) memcpy(s2, S + c2, L - c2);
				if (clen > 0) { io[0].iov_base = s1; io[0].iov_len = c2 - c1; }
				if (clen > 1) { io[1].iov_base = s2; io[1].iov_len = L - c2; }
				mpt::message msg;
				msg.base = s0; msg.used = c1; msg.cont = io; msg.clen = clen;
				mpt::event ev;
				ev.reply = &ctx; ev.id = 0x7777; ev.msg = &msg;
				int ret = LIB(mpt::mpt_dispatch_hash(d, &ev));
				uint64_t evid = ev.id;
				free(s0); free(s1); free(s2); free(io);
				++nfrag;
				if (!settle()) return false;
				for (const Obs &o : obs) if (!o.fin && (o.evid != id || !o.hasmsg)) return fail("wrong-event-id", "the handler saw event id " + idname(o.evid) + ", expected " + idname(id));
				if (ret != want_ret) return fail("return-value", fmt("returned %d, expected %d", ret, want_ret));
				if (evid != want_id) return fail("return-value", "event id after the call is " + idname(evid) + ", expected " + idname(want_id));
				if (target >= 0 && toks[target].kind == 0) { delivered = true; if (sb != se) crossed = true; }
			}
			}
			frag_txt = 0;
			if (target >= 0 && toks[target].kind == 0) cnt("path:hash delivered");
			else if (target != -3) cnt("path:hash to fallback");
			else cnt("path:hash without fallback");
		}
		if (delivered && crossed) cnt("path:hash delivered (text split over fragments)");
		if (final_op()) r.count("hash-dispatch calls (all fragmentations)", nfrag);
		return lookup_ok(); }
	case SETERR: {
		setcls(fb == -2 ? "builtin-fallback" : (fb == -1 ? "no-fallback" : "fallback-handler"));
		if (fb >= 0) exp.push_back(Exp{fb, true});
		int t = l.id ? newtok(0, 1, l.shape) : -1;
		LIB((d->set_error(l.id ? hfn(t) : 0, l.id ? targ(t) : 0), 0));
		if (fb >= 0) cnt("path:end-of-life of replaced fallback");
		fb = t;
		if (!settle()) return false;
		return lookup_ok(); }
	case SETDEF: {
		setcls(reg.count(l.id) ? "registered" : "unregistered");
		bool ok = LIB(d->set_default(l.id));
		if (!ok && reg.count(l.id)) cnt("set_default refuses a registered id (refusal, not flagged)");
		if (ok) def = l.id;
		if (!settle()) return false;
		// an accepted default id must have a handler: otherwise the next default event reaches neither a handler nor the fallback
		if (ok && !reg.count(l.id) && !rsv.count(l.id)) return fail("accepted-unregistered-id", "set_default(" + idname(l.id) + ") reports success although no handler is registered for that id: the next emit(NULL) is delivered nowhere");
		if (ok) cnt("path:set_default accepted for a registered id");
		return lookup_ok(); }
	case FINI: {
		setcls(reg.empty() && fb < 0 ? "nothing-registered" : "handlers-registered");
		for (auto &kv : reg) exp.push_back(Exp{kv.second, true});
		if (fb >= 0) exp.push_back(Exp{fb, true});
		LIB((mpt::mpt_dispatch_fini(d), 0));
		if (!exp.empty()) cnt("path:end-of-life on fini");
		reg.clear(); rsv.clear(); def = 0; fb = -1; had_free = had_growth = false;
		if (!settle()) return false;
		return lookup_ok(); }
	case RESIZE: {
		mpt::buffer *b = tbuf();
		size_t used = b ? b->_used / sizeof(mpt::command) : 0;
		if (!b || used <= l.id) return false;   // not enabled: nothing to cut
		setcls(tclass(), b->_content_traits ? "typed" : "untyped");
		// every live entry behind the new length is removed: its handler gets the end-of-life call
		std::vector<uint64_t> gone;
		mpt::command *c = (mpt::command *) (b + 1);
		for (size_t i = l.id; i < used; ++i) if (c[i].cmd) {
			gone.push_back(c[i].id);
			auto it = reg.find(c[i].id);
			if (!rsv.count(c[i].id) && it != reg.end()) exp.push_back(Exp{it->second, true});
		}
		bool ok = LIB(d->resize((long) l.id));
		if (!ok && obs.empty()) { cnt("array resize refused (not flagged)"); return lookup_ok(); }
		for (uint64_t id : gone) { reg.erase(id); rsv.erase(id); }
		if (!exp.empty()) cnt("path:end-of-life on array resize");
		if (!settle()) return false;
		return lookup_ok(); }
	case DCOPY: {
		setcls(reg.empty() && fb < 0 ? "nothing-registered" : "handlers-registered");
		// a destroyed copy must leave the original alone: nobody is called, every registration stays
		if (!LIB(dispatch_copy<mpt::dispatch>(d, l.shape))) { cnt("dispatch is not copyable (nothing to check)"); return false; }
		cnt("dispatch copies checked");
		if (!settle()) return false;
		return lookup_ok(); }
	case CCOPY: {
		if (!reg.count(l.id)) return false;   // not enabled
		setcls("registered");
		mpt::command *c = d->handler(l.id);
		if (!c) return fail("lookup-mismatch", "no handler found for registered id " + idname(l.id));
		if (!LIB(command_copy<mpt::command>(c))) { cnt("command is not copyable (nothing to check)"); return false; }
		cnt("command copies checked");
		if (!settle()) return false;
		return lookup_ok(); }
	case XRESERVE: case XRESERVE_RAW: {
		setcls(tclass(), tbuf() && tbuf()->_content_traits ? "typed" : "untyped");
		uint64_t max = l.id == 1 ? 127 : 32767;
		mpt::command *c = LIB(d->reserve(l.id));
		if (!settle()) return false;
		if (!c) { cnt("reserve refused (not flagged)"); return lookup_ok(); }
		if (reg.count(c->id) || rsv.count(c->id)) return fail("duplicate-id", "reserved id " + idname(c->id) + " is already in use");
		if (c->id > max) return fail("id-out-of-width", "reserved id " + idname(c->id) + fmt(" does not fit %d byte(s)", (int) l.id));
		if (l.k == XRESERVE_RAW) { rsv.insert(c->id); cnt("path:id reserved on dispatcher table, slot not activated"); }
		else {
			int t = newtok(c->id, 0);
			c->cmd = (raw_handler) H; c->arg = targ(t); reg[c->id] = t;
			cnt("path:id reserved on dispatcher table");
		}
		nontrivial();
		track_table(cap0);
		return lookup_ok(); }
	default: break;
	}
	return false;
}

bool Sys::apply_wait(const Letter &l)
{
	size_t cap0 = tbuf() ? tbuf()->_size / sizeof(mpt::command) : 0;
	uint64_t top = 0;
	bool free0 = has_free_slot(&top);
	switch (l.k) {
	case W_RESERVE: {
		uint64_t max = l.id == 1 ? 127 : 32767;
		bool typed = tbuf() && tbuf()->_content_traits;
		setcls(!tbuf() ? "no-table" : (top >= max ? "top-id-used" : "ids-available"), free0 ? "freed-slots" : 0, typed ? "typed" : 0);
		mpt::command *c = l.shape ? LIB(reinterpret_cast<mpt::command::array *>(&wait)->reserve(l.id)) : LIB(mpt::mpt_command_reserve(warr(), l.id));
		if (!settle()) return false;
		if (!c) {
			{ uint64_t live = 0; for (auto &kv : reg) if (kv.first >= 1 && kv.first <= max) ++live; if (live == max) cnt("path:reserve refused, every id of the width outstanding"); }
			cnt(typed ? "reserve refused on table created by command_set (not flagged)" : "reserve refused (not flagged)");
			return lookup_ok();   // compaction must keep all bindings
		}
		if (reg.size() >= max) cnt("path:reserve with at least as many outstanding requests as ids of the width");
		if (reg.count(c->id)) return fail("duplicate-id", "reserved id " + idname(c->id) + " belongs to an outstanding request");
		if (c->id > max) return fail("id-out-of-width", "reserved id " + idname(c->id) + fmt(" does not fit %d byte(s)", (int) l.id));
		int t = newtok(c->id, 2);
		c->cmd = (raw_handler) H; c->arg = targ(t); reg[c->id] = t;
		nontrivial(); cnt("path:id reserved");
		if (top >= max) cnt("path:reserve searches low free id");
		if (top == UINTPTR_MAX) cnt("path:reserve with id UINTPTR_MAX in the table");
		if (free0) cnt("path:reserve compacts freed slots");
		if (!cap0) cnt("path:reserve creates table");
		track_table(cap0);
		return lookup_ok(); }
	case W_REL: {
		if (reg.empty() || (l.id != 99 && l.id >= reg.size())) return false;   // not enabled
		auto it = reg.begin();
		if (l.id == 99) { it = reg.end(); --it; if (reg.size() <= 3) return false; }   // same as one of #0..#2
		else std::advance(it, (long) l.id);
		setcls("outstanding");
		exp.push_back(Exp{it->second, true});
		uint64_t id = it->first;
		reg.erase(it); had_free = true;
		LIB(mpt::mpt_command_set(warr(), id, 0, 0));
		if (!settle()) return false;
		cnt("path:end-of-life on release");
		return lookup_ok(); }
	case W_SET: {
		bool have = reg.count(l.id);
		setcls(have ? "outstanding" : "unused-id");
		int t = newtok(l.id, 2);
		if (have) exp.push_back(Exp{reg[l.id], true});
		int ret = LIB(mpt::mpt_command_set(warr(), l.id, (raw_handler) H, targ(t)));
		if (ret < 0 && obs.empty()) { cnt("spurious refusal of registration (not flagged)"); return lookup_ok(); }
		reg[l.id] = t;
		if (!settle()) return false;
		if (have) cnt("path:end-of-life on replacement");
		track_table(cap0);
		return lookup_ok(); }
	case W_CLEAR: {
		setcls(reg.empty() ? "nothing-registered" : "outstanding");
		for (auto &kv : reg) exp.push_back(Exp{kv.second, true});
		LIB((mpt::mpt_command_clear(warr()), 0));
		if (!reg.empty()) cnt("path:end-of-life on clear");
		reg.clear();
		if (!settle()) return false;
		return lookup_ok(); }
	default: break;
	}
	return false;
}

// ---------------------------------------------------------------- jobs
// job names:  closure            dispatcher, small alphabet, depth bound high enough for the fixpoint
//             large:root         dispatcher, large alphabet, all histories up to the split depth
//             large:<a>.<b>      dispatcher, large alphabet, continues from the state reached by letters a, b
//             wait:<k>           reply table pre-filled with k outstanding requests
static const int SPLIT = 2;
static int closure_depth(Tier t) { return t == Quick ? 16 : 24; }
static int large_depth(Tier t) { return t == Quick ? 4 : 6; }
static int wait_depth(Tier t, unsigned prefill) { return t == Quick ? 6 : (prefill ? 6 : 8); }

// distinct canonical states first reached after exactly SPLIT letters of the large alphabet (computed in a forked child:
// a fault in the code under test must surface as a violation of the root job, not break the job listing)
static std::string split_jobs()
{
	{ int nul = open("/dev/null", O_WRONLY); if (nul >= 0) { dup2(nul, 2); close(nul); } }   // sanitizer reports of probed cases do not belong into the job listing
	Run tmp; tmp.tier = Thorough;
	std::set<std::string> seen;
	std::vector<std::vector<int> > level(1, std::vector<int>()), next;
	std::string out;
	{ Sys s(tmp, make_init(1, 0, level[0])); seen.insert(s.canon()); }
	int nops = (int) letters(1).size();
	for (int dpt = 0; dpt < SPLIT; ++dpt) {
		next.clear();
		for (const std::vector<int> &p : level) for (int op = 0; op < nops; ++op) {
			std::vector<int> q = p; q.push_back(op);
			Sys s(tmp, make_init(1, 0, q));
			if (s.dead) continue;
			if (seen.insert(s.canon()).second) next.push_back(q);
		}
		level.swap(next);
	}
	for (const std::vector<int> &p : level) { out += "large:"; for (size_t i = 0; i < p.size(); ++i) out += (i ? "." : "") + std::to_string(p[i]); out += "\n"; }
	return out;
}
void mc_jobs(Tier t, std::vector<std::string> &jobs)
{
	jobs.push_back("closure");
	jobs.push_back("wait:0");
	jobs.push_back("wait:7");
	jobs.push_back("wait:full");     // 1-byte ids, all 127 outstanding
	jobs.push_back("wait:full-1");   // 126 outstanding
	if (t == Thorough) jobs.push_back("wait:8");
	jobs.push_back("large:root");
	if (large_depth(t) > SPLIT) {
		std::string s = in_child([]() { return split_jobs(); }, 300);
		if (!s.empty() && s[0] != '\x01') { size_t p = 0, q; while ((q = s.find('\n', p)) != std::string::npos) { jobs.push_back(s.substr(p, q - p)); p = q + 1; } }
		else jobs.push_back("large:unsplit");
	}
}
static void requirements(Run &r, const std::string &job)
{
	r.require("nontrivial");
	if (job == "closure" || job == "large:root") {
		if (job == "large:root") r.require("path:hash of a non-ASCII command name");
		const char *req[] = { "path:registered", "path:dispatch_set refuses used id", "path:end-of-life on removal", "path:end-of-life on replacement", "path:end-of-life on fini",
			"path:end-of-life on teardown", "path:end-of-life of replaced fallback", "path:id delivered to registered handler", "path:message delivered to registered handler",
			"path:default event delivered", "path:delivered to fallback handler", "path:delivered to built-in fallback", "path:no handler and no fallback",
			"path:handler error propagated", "path:default added", "path:default removed", "path:hash delivered", "path:hash delivered (text split over fragments)",
			"path:hash to fallback", "path:hash without fallback" };
		for (const char *k : req) r.require(k);
	}
	if (job == "large:root") { r.require("path:id reserved on dispatcher table, slot not activated"); r.require("path:event for a reserved, not activated id"); }
	if (job == "closure") {
		const char *req[] = { "path:freed slot reused", "path:table growth", "path:stale default cleared", "path:default replaced", "path:default kept" };
		for (const char *k : req) r.require(k);
	}
	if (job.compare(0, 5, "wait:") == 0) {
		const char *req[] = { "path:id reserved", "path:reserve compacts freed slots", "path:reserve searches low free id", "path:reserve with id UINTPTR_MAX in the table", "path:end-of-life on release",
			"path:end-of-life on clear", "path:end-of-life on teardown" };
		for (const char *k : req) r.require(k);
		if (job.compare(0, 9, "wait:full") == 0) { if (job == "wait:full") r.require("path:reserve refused, every id of the width outstanding"); r.require("path:reserve with at least as many outstanding requests as ids of the width"); }
		else if (job != "wait:0") r.require("path:table growth"); else r.require("path:reserve creates table");
	}
}
void mc_explore(Run &r, const std::string &job)
{
	requirements(r, job);
	std::vector<uint64_t> inits;
	std::vector<int> prefix;
	int depth;
	if (job.compare(0, 9, "wait:full") == 0) { inits.push_back(make_init(r.tier == Quick ? 2 : 3, 32 + (unsigned) (job.size() > 9 ? strtoul(job.c_str() + 10, 0, 10) : 0), prefix)); depth = r.tier == Quick ? 4 : 5; }
	else if (job.compare(0, 5, "wait:") == 0) { inits.push_back(make_init(r.tier == Quick ? 2 : 3, (unsigned) strtoul(job.c_str() + 5, 0, 10), prefix)); depth = wait_depth(r.tier, (unsigned) strtoul(job.c_str() + 5, 0, 10)); }
	else if (job == "closure") { inits.push_back(make_init(r.tier == Quick ? 4 : 0, 0, prefix)); depth = closure_depth(r.tier); }
	else if (job == "large:root") { inits.push_back(make_init(1, 0, prefix)); depth = std::min(SPLIT, large_depth(r.tier)); }
	else if (job == "large:unsplit") { inits.push_back(make_init(1, 0, prefix)); depth = large_depth(r.tier); }
	else {
		const char *p = job.c_str() + 6;
		while (*p) { prefix.push_back((int) strtol(p, (char **) &p, 10)); if (*p == '.') ++p; }
		inits.push_back(make_init(1, 0, prefix));
		depth = large_depth(r.tier) - (int) prefix.size();
	}
	g_expanded = 0;
	bfs_histories<Sys>(r, inits, depth);
	r.executions = r.transitions;   // every transition is one history executed on the real code
	// a state is expanded exactly once (Sys::nops is called once per expanded node)
	if (r.nviol == 0 && g_expanded >= r.states) r.count(job == "closure" ? "closure: fixpoint reached, every discovered state expanded" : "fixpoint reached below the depth bound (jobs)");
	else if (r.states > g_expanded) r.count(job == "closure" ? "closure: states at the depth bound (not expanded)" : "states at the depth bound (not expanded)", r.states - g_expanded);
}
void mc_replay(Run &r, const std::string &job, const Vec &v)
{
	(void) job;
	bfs_replay<Sys>(r, v);
}

// C06 — type registry hands out unique, stable, correctly described types.
// The registry (mptcore/types/type_traits.c) is file-static, append-only and
// lazily initialised, so no two histories may share a process.  Exploration is
// a level-synchronous BFS over histories [mode, op1, op2, ...]:
//   * the worker (parent) only does bookkeeping: dedupe on the canonical state
//     string, counters, violations;
//   * for every new state it forks an "expander" (up to MC_WORKERS at a time)
//     that replays the history once on the real registry next to a reference
//     table and then forks one grandchild per letter of the alphabet; the
//     grandchild runs that letter plus the full lookup sweep (all ids
//     0..0x1100 through mpt_type_traits / mpt_interface_traits /
//     mpt_metatype_traits, all names through mpt_named_traits /
//     mpt_alias_typeid, the stateless id helpers) and reports
//     "canonical state + counters of the last step + violations";
//   * mode cold = no lookup before the last step's sweep (lazy initialisation
//     happens inside the registrations), warm = full sweep before the first
//     and after every step, cold/names-first = cold with names looked up
//     before ids.
// Replay runs the whole history in one child (same code path, run_history).
#include <cerrno>
#include <cstdlib>
#include <sys/uio.h>
#include <sys/time.h>
#include <sys/wait.h>
#include <poll.h>
#include <signal.h>
#include <unistd.h>
#include "types.h"
#include "convert.h"
#include "meta.h"
#include "object.h"
#include "array.h"
#include "event.h"
#include "message.h"
#include "mc.hpp"

using namespace mc;
const char *mc_id = "C06";
const char *mc_rule = "history BFS with dedupe on (registrations per kind, name sets), one forked process per history (cold = registrations before any lookup, warm = full lookup sweep before the first and after every step, names-first = cold with name lookups before id lookups): "
                      "registrations of basic sizes / generic traits / named+unnamed interfaces / named+unnamed metatypes incl. fill-to-chunk-boundary and fill-to-capacity macro steps, "
                      "then all ids 0..0x1100 and all names looked up against a reference table; "
                      "nontrivial = executed histories whose last step crosses a 30-entry chunk boundary, takes the last id of a range, is refused for exhaustion, or is refused for a duplicate / too short name";

// ------------------------------------------------------------------ alphabet
enum Op {
	B0, B1, B8,                                   // mpt_type_basic_add(0|1|8)
	G_OK, G_SZ0, G_NULL,                          // mpt_type_add(traits | traits with size 0 | NULL)
	I_NULL, I_SHORT, I_BETA, I_ALPHA, I_ALPHABET, I_LOGGER, I_ITER, I_META,            // mpt_type_interface_add(name)
	M_NULL, M_SHORT, M_BETA, M_ALPHA, M_ALPHABET, M_METATYPE, M_LOGGER, M_ITER, M_META, // mpt_type_metatype_add(name)
	FILL_B, FILL_G30, FILL_GCAP, FILL_I, FILL_M30, FILL_MCAP,          // macro steps
	NOPS
};
static const char *opname_[] = {
	"basic_add(0)", "basic_add(1)", "basic_add(8)",
	"type_add(traits)", "type_add(size 0)", "type_add(NULL)",
	"interface_add(NULL)", "interface_add(\"abc\")", "interface_add(\"beta\")", "interface_add(\"alpha\")", "interface_add(\"alphabet\")", "interface_add(\"logger\")", "interface_add(\"iter\")", "interface_add(\"meta\")",
	"metatype_add(NULL)", "metatype_add(\"abc\")", "metatype_add(\"beta\")", "metatype_add(\"alpha\")", "metatype_add(\"alphabet\")", "metatype_add(\"metatype\")", "metatype_add(\"logger\")", "metatype_add(\"iter\")", "metatype_add(\"meta\")",
	"fill(basic, capacity-1)", "fill(generic, next chunk end-1)", "fill(generic, capacity-1)", "fill(interface, capacity-1)", "fill(metatype, next chunk end-1)", "fill(metatype, capacity-1)"
};
static const char *opfunc(int op)
{
	if (op <= B8 || op == FILL_B) return "mpt_type_basic_add";
	if (op <= G_NULL || op == FILL_G30 || op == FILL_GCAP) return "mpt_type_add";
	if (op <= I_META || op == FILL_I) return "mpt_type_interface_add";
	return "mpt_type_metatype_add";
}
static const char *opargname(int op)
{
	switch (op) {
	case I_NULL: case M_NULL: return 0;
	case I_SHORT: case M_SHORT: return "abc";
	case I_BETA: case M_BETA: return "beta";
	case I_ALPHA: case M_ALPHA: return "alpha";
	case I_ALPHABET: case M_ALPHABET: return "alphabet";
	case I_LOGGER: case M_LOGGER: return "logger";
	case M_METATYPE: return "metatype";
	case I_ITER: case M_ITER: return "iter";
	case I_META: case M_META: return "meta";
	}
	return 0;
}

// ranges (public constants of types.h)
static const uintptr_t IF_BASE = mpt::_TypeInterfaceBase, IF_ADD = mpt::_TypeInterfaceAdd, IF_MAX = mpt::_TypeInterfaceMax;
static const uintptr_t DY_BASE = mpt::_TypeDynamicBase, DY_MAX = mpt::_TypeDynamicMax;
static const uintptr_t MT_BASE = mpt::_TypeMetaPtrBase, MT_MAX = mpt::_TypeMetaPtrMax;
static const uintptr_t GN_BASE = mpt::_TypeValueAdd, GN_MAX = mpt::_TypeValueMax;
static const uintptr_t SWEEP_TOP = 0x1100;
static const int CHUNK = 30;

enum Kind { KBasic, KGeneric, KIface, KMeta, KBuiltin };
static const char *kindname[] = { "basic", "generic", "interface", "metatype", "builtin" };

// traits objects handed to mpt_type_add: layout of MPT_STRUCT(type_traits), distinct content per registration
struct RawTraits { int (*init)(void *, const void *); void (*fini)(void *); size_t size; };
static int dummy_init(void *, const void *) { return 0; }
static void dummy_fini(void *) { }
static const size_t NRAW = 2048;
static RawTraits rawtraits[NRAW];
static RawTraits raw_zero = { 0, 0, 0 };

struct Entry {
	int kind;
	uintptr_t id;
	const mpt::named_traits *elem;      // named kinds: entry pointer handed out at registration
	const mpt::type_traits *traits;     // traits pointer seen at registration
	RawTraits want;                     // description at registration time
	bool named; std::string name;
	const char *cls;                    // signature class
};

// state-independent defects of the built-in tables are reported once, at the empty history of a job; deeper
// histories of that job do not report them again (set by the parent before it forks, inherited by the children)
static std::set<std::string> g_suppress;
static int g_progress_fd = -1;   // child side: where phase markers go (read by the parent only when the child dies)
static void progress(const char *m) { if (g_progress_fd >= 0) { ssize_t w = write(g_progress_fd, m, strlen(m)); (void) w; } }

struct Child {
	bool trace;
	std::vector<std::string> tr;
	std::map<std::string, uint64_t> cnt, mark;   // counters; snapshot taken before the last step (only the last step is reported)
	bool names_first;
	std::vector<std::pair<std::string, std::string> > viols;   // distinct signatures of this execution, first detail each
	std::map<uintptr_t, Entry> tab;     // every id that must resolve (built-ins + registered)
	std::vector<uintptr_t> ifaces, metas;   // named kinds in registration order (name precedence model)
	int nB, nG, nI, nM;                 // successful registrations by the history
	int lastflags;
	Child() : trace(false), names_first(false), nB(0), nG(0), nI(0), nM(0), lastflags(0) {}

	void note(const std::string &s) { if (trace) tr.push_back(s); }
	bool bad() const { return !viols.empty(); }
	void fail(const std::string &sig, const std::string &detail)
	{
		if (g_suppress.count(sig)) { count("builtin_table_defect_seen_again(reported at the empty history)"); return; }
		for (auto &v : viols) if (v.first == sig) return;
		if (viols.size() < 12) viols.push_back(std::make_pair(sig, detail));
	}
	void count(const char *k, uint64_t n = 1) { cnt[k] += n; }

	void builtin(uintptr_t id, size_t size, const char *cls, const char *name = 0, int kind = KBuiltin)
	{
		Entry e; e.kind = kind; e.id = id; e.elem = 0; e.traits = 0; e.want.init = 0; e.want.fini = 0; e.want.size = size;
		e.named = name != 0; if (name) e.name = name; e.cls = cls;
		tab[id] = e;
	}
	void init_table()
	{
		static const struct { uintptr_t id; size_t size; } core[] = {
			{ mpt::TypeUnixSocket, sizeof(int) }, { mpt::TypeFilePtr, sizeof(void *) }, { mpt::TypeAddressPtr, sizeof(void *) },
			{ mpt::TypeReplyDataPtr, sizeof(void *) }, { mpt::TypeNodePtr, sizeof(void *) },
			{ mpt::TypeValFmt, sizeof(mpt::value_format) }, { mpt::TypeValue, sizeof(mpt::value) }, { mpt::TypeProperty, sizeof(mpt::property) } };
		for (auto &c : core) builtin(c.id, c.size, "builtin-core");
		builtin(mpt::TypeBufferPtr, sizeof(void *), "builtin-pointer,TypeBufferPtr");
		static const struct { char id; size_t size; } sc[] = {
			{ 'c', sizeof(char) }, { 'b', sizeof(int8_t) }, { 'y', sizeof(uint8_t) }, { 'n', sizeof(int16_t) }, { 'q', sizeof(uint16_t) },
			{ 'i', sizeof(int32_t) }, { 'u', sizeof(uint32_t) }, { 'x', sizeof(int64_t) }, { 't', sizeof(uint64_t) },
			{ 'f', sizeof(float) }, { 'd', sizeof(double) }, { 'e', sizeof(long double) }, { 's', sizeof(char *) } };
		for (auto &s : sc) {
			builtin((uintptr_t) s.id, s.size, "builtin-scalar");
			builtin((uintptr_t) s.id - mpt::_TypeScalarBase + mpt::_TypeVectorBase, sizeof(struct iovec), "builtin-vector");
		}
		builtin(mpt::TypeVector, sizeof(struct iovec), "builtin-vector,TypeVector");
		static const struct { uintptr_t id; const char *name; } ifs[] = {
			{ mpt::TypeConvertablePtr, "convertable" }, { mpt::TypeLoggerPtr, "logger" }, { mpt::TypeReplyPtr, "reply" }, { mpt::TypeOutputPtr, "output" },
			{ mpt::TypeObjectPtr, "object" }, { mpt::TypeConfigPtr, "config" }, { mpt::TypeIteratorPtr, "iterator" }, { mpt::TypeCollectionPtr, "collection" },
			{ mpt::TypeSolverPtr, "solver" } };
		for (auto &i : ifs) { builtin(i.id, sizeof(void *), "builtin-interface", i.name, KIface); ifaces.push_back(i.id); iname[i.name] = i.id; }
		builtin(mpt::TypeMetaPtr, sizeof(void *), "builtin-metatype", "metatype", KMeta); metas.push_back(mpt::TypeMetaPtr); mname["metatype"] = mpt::TypeMetaPtr;
	}
	// name lookup model for names that are not registered as given (prefixes, over-long, unknown): exact match in either
	// kind; registered names are unique over both kinds (a second registration of a resolving name is a violation)
	std::map<std::string, uintptr_t> iname, mname;
	uintptr_t model_find(const std::string &name) const
	{
		auto m = mname.find(name); if (m != mname.end()) return m->second;
		auto i = iname.find(name); if (i != iname.end()) return i->second;
		return 0;
	}
	bool has_name(int kind, const std::string &name) const { return (kind == KMeta ? mname : iname).count(name) != 0; }

	// ---------------------------------------------------------- registrations
	bool check_new_id(const char *fn, int kind, long id, uintptr_t lo, uintptr_t hi, const std::string &what)
	{
		if (id < (long) lo || id > (long) hi) {
			fail(std::string(fn) + "|" + fillcls(kind) + "|id|out-of-range", what + fmt(": returned id 0x%lx outside the %s range 0x%lx..0x%lx", id, kindname[kind], (long) lo, (long) hi));
			return false;
		}
		if (tab.count((uintptr_t) id)) {
			fail(std::string(fn) + "|" + fillcls(kind) + "|id|not-unique", what + fmt(": returned id 0x%lx which is already in use", id));
			return false;
		}
		return true;
	}
	std::string fillcls(int kind) const
	{
		int n = kind == KBasic ? nB : kind == KGeneric ? nG : kind == KIface ? nI : nM;
		long cap = kind == KBasic ? (long) (DY_MAX - DY_BASE + 1) : kind == KGeneric ? (long) (GN_MAX - GN_BASE + 1) : kind == KIface ? (long) (IF_MAX - IF_ADD + 1) : (long) (MT_MAX - MT_BASE);
		if (n >= cap) return "range-exhausted";
		if (n == cap - 1) return "last-id";
		return "has-room";
	}
	enum { F_CHUNK = 1, F_LAST = 2, F_EXHAUST = 4, F_NAMEREF = 8 };

	bool add_basic(size_t size)
	{
		std::string what = fmt("mpt_type_basic_add(%zu) [%d registered]", size, nB);
		std::string st = fillcls(KBasic);
		errno = 0;
		int id = LIB(mpt::mpt_type_basic_add(size));
		if (id < 0) {
			if (st == "range-exhausted") { count("refused:basic,range-exhausted"); lastflags |= F_EXHAUST; }
			else {
				// duplicate / too short name and an exhausted range are the only refusal reasons the property names
				fail("mpt_type_basic_add|" + st + "|size|refused", what + fmt(": refused (%d) although the basic range has room", id));
				return false;
			}
			note(what + fmt(" -> refused (%d)", id));
			return true;
		}
		if (!check_new_id("mpt_type_basic_add", KBasic, id, DY_BASE, DY_MAX, what)) return false;
		const mpt::type_traits *t = mpt::mpt_type_traits(id);
		if (!t) { fail("mpt_type_basic_add|" + st + "|by-id|lost", what + fmt(": id 0x%x does not resolve right after registration", id)); return false; }
		Entry e; e.kind = KBasic; e.id = id; e.elem = 0; e.traits = t; e.named = false; e.cls = "registered-basic";
		e.want.init = t->init; e.want.fini = t->fini; e.want.size = t->size;
		if ((size && t->size != size) || !t->size || t->init || t->fini) {
			fail("mpt_type_basic_add|" + st + "|traits|wrong-size", what + fmt(": id 0x%x reports size=%zu init=%s fini=%s", id, t->size, t->init ? "set" : "0", t->fini ? "set" : "0"));
			return false;
		}
		if (!size && t->size == sizeof(void *)) count("basic_add(0)_is_pointer_sized");
		tab[id] = e; ++nB;
		if (st == "last-id") { lastflags |= F_LAST; count("accepted:basic,last-id"); }
		if ((uintptr_t) id == DY_MAX) count("id_reached:basic,range-max");
		note(what + fmt(" -> id 0x%x size %zu", id, t->size));
		return true;
	}
	bool add_generic(int variant)   // 0 = valid traits, 1 = size 0, 2 = NULL
	{
		std::string what = fmt("mpt_type_add(%s) [%d registered]", variant == 0 ? "traits" : variant == 1 ? "traits with size 0" : "NULL", nG);
		std::string st = fillcls(KGeneric);
		const RawTraits *raw = variant == 0 ? &rawtraits[nG % NRAW] : variant == 1 ? &raw_zero : 0;
		int id = LIB(mpt::mpt_type_add((const mpt::type_traits *) raw));
		if (id < 0) {
			if (variant) count("refused:generic,invalid-traits");
			else if (st == "range-exhausted") { count("refused:generic,range-exhausted"); lastflags |= F_EXHAUST; }
			else {
				fail("mpt_type_add|" + st + "|valid-traits|refused", what + fmt(": refused (%d) although the generic range has room", id));
				return false;
			}
			note(what + fmt(" -> refused (%d)", id));
			return true;
		}
		if (variant) {
			// a type without size / without description cannot "report the size of the type it stands for"
			fail(std::string("mpt_type_add|") + st + "|" + (variant == 1 ? "size-0" : "null-traits") + "|accepted", what + fmt(": registered as id 0x%x", id));
			return false;
		}
		if (!check_new_id("mpt_type_add", KGeneric, id, GN_BASE, GN_MAX, what)) return false;
		Entry e; e.kind = KGeneric; e.id = id; e.elem = 0; e.traits = (const mpt::type_traits *) raw; e.named = false; e.cls = "registered-generic";
		e.want = *raw;
		tab[id] = e; ++nG;
		if ((id - GN_BASE) % CHUNK == 0 && (uintptr_t) id != GN_BASE) { lastflags |= F_CHUNK; count("accepted:generic,first-of-chunk"); }
		if (st == "last-id") { lastflags |= F_LAST; count("accepted:generic,last-id"); }
		if ((uintptr_t) id == GN_MAX) count("id_reached:generic,range-max");
		note(what + fmt(" -> id 0x%x", id));
		return true;
	}
	bool add_named(int kind, const char *name)
	{
		const char *fn = kind == KIface ? "mpt_type_interface_add" : "mpt_type_metatype_add";
		int n = kind == KIface ? nI : nM;
		std::string what = fmt("%s(%s%s%s) [%d registered]", fn, name ? "\"" : "", name ? name : "NULL", name ? "\"" : "", n);
		std::string st = fillcls(kind);
		// the registry has ONE name space for lookups (mpt_named_traits searches metatypes, then interfaces, after
		// rewriting the short names log/iter/out/meta): a name that already resolves - same kind, other kind or
		// built-in short name - is a duplicate, because one of the two entries could never be found by its name
		bool tooshort = name && strlen(name) < 4;
		bool dup = name && has_name(kind, name);
		bool shadow = name && !dup && has_name(kind == KIface ? KMeta : KIface, name);
		bool alias = name && !tooshort && !dup && !shadow && (!strcmp(name, "log") || !strcmp(name, "iter") || !strcmp(name, "out") || !strcmp(name, "meta"));
		std::string argc = !name ? "unnamed" : tooshort ? "short-name" : dup ? "dup-name" : shadow ? "name-of-other-kind" : alias ? "builtin-short-name" : "new-name";
		char *own = name ? strdup(name) : 0;     // the registry must keep its own copy
		errno = 0;
		const mpt::named_traits *nt = kind == KIface ? LIB(mpt::mpt_type_interface_add(own)) : LIB(mpt::mpt_type_metatype_add(own));
		if (own) { memset(own, '#', strlen(own)); free(own); }
		if (!nt) {
			if (tooshort) { count(kind == KIface ? "refused:interface,short-name" : "refused:metatype,short-name"); lastflags |= F_NAMEREF; }
			else if (dup) { count(kind == KIface ? "refused:interface,dup-name" : "refused:metatype,dup-name"); lastflags |= F_NAMEREF; }
			else if (shadow) { count(kind == KIface ? "refused:interface,name-of-other-kind" : "refused:metatype,name-of-other-kind"); lastflags |= F_NAMEREF; }
			else if (alias) { count(kind == KIface ? "refused:interface,builtin-short-name" : "refused:metatype,builtin-short-name"); lastflags |= F_NAMEREF; }
			else if (st == "range-exhausted") { count(kind == KIface ? "refused:interface,range-exhausted" : "refused:metatype,range-exhausted"); lastflags |= F_EXHAUST; }
			else {
				// neither too short, nor a name that already resolves, nor an exhausted range: must be accepted
				fail(std::string(fn) + "|" + st + "|" + argc + "|refused", what + fmt(": refused (errno %d) although the name does not resolve yet and the %s range has room", errno, kindname[kind]));
				return false;
			}
			note(what + " -> refused");
			return true;
		}
		if (tooshort || dup || shadow || alias) {
			fail(std::string(fn) + "|" + st + "|" + argc + "|accepted", what + fmt(": registered as id 0x%lx", (long) nt->type));
			return false;
		}
		long id = (long) nt->type;
		if (!check_new_id(fn, kind, id, kind == KIface ? IF_ADD : MT_BASE + 1, kind == KIface ? IF_MAX : MT_MAX, what)) return false;
		const mpt::type_traits *t = &nt->traits;
		Entry e; e.kind = kind; e.id = id; e.elem = nt; e.traits = t; e.named = name != 0; if (name) e.name = name;
		e.cls = kind == KIface ? "registered-interface" : "registered-metatype";
		e.want.init = 0; e.want.fini = 0; e.want.size = sizeof(void *);
		if (t->size != sizeof(void *) || t->init || t->fini) {
			fail(std::string(fn) + "|" + st + "|traits|wrong-size", what + fmt(": id 0x%lx reports size=0x%zx init=%s fini=%s, want a plain pointer type", id, t->size, t->init ? "set" : "0", t->fini ? "set" : "0"));
			return false;
		}
		if ((name != 0) != (nt->name != 0) || (name && strcmp(name, nt->name))) {
			fail(std::string(fn) + "|" + st + "|" + argc + "|wrong-name", what + fmt(": entry carries name %s%s", nt->name ? "" : "NULL", nt->name ? nt->name : ""));
			return false;
		}
		tab[id] = e;
		if (kind == KIface) { ifaces.push_back(id); ++nI; if (name) iname[name] = id; } else { metas.push_back(id); ++nM; if (name) mname[name] = id; }
		if (kind == KMeta && (id - MT_BASE) % CHUNK == 0) { lastflags |= F_CHUNK; count("accepted:metatype,first-of-chunk"); }
		if (st == "last-id") { lastflags |= F_LAST; count(kind == KIface ? "accepted:interface,last-id" : "accepted:metatype,last-id"); }
		if ((uintptr_t) id == (kind == KIface ? IF_MAX : MT_MAX)) count(kind == KIface ? "id_reached:interface,range-max" : "id_reached:metatype,range-max");
		note(what + fmt(" -> id 0x%lx", id));
		return true;
	}
	// fill names: entries next to chunk boundaries are named so that name scans cross chunks
	static bool fill_named(int pos) { int m = pos % CHUNK; return m == 0 || m == 1 || m == CHUNK - 1; }
	bool fill(int kind, int target)   // target = number of registrations of this kind after the step
	{
		bool t = trace; trace = false;
		bool ok = true;
		int before = kind == KBasic ? nB : kind == KGeneric ? nG : kind == KIface ? nI : nM, after = before;
		while (ok) {
			int n = kind == KBasic ? nB : kind == KGeneric ? nG : kind == KIface ? nI : nM;
			after = n;
			if (n >= target) break;
			if (kind == KBasic) ok = add_basic(1 + n % 200);
			else if (kind == KGeneric) ok = add_generic(0);
			else {
				char nm[32]; snprintf(nm, sizeof nm, kind == KIface ? "fill.i.%d" : "fill.m.%d", n);
				ok = add_named(kind, fill_named(n) ? nm : 0);
			}
			int n2 = kind == KBasic ? nB : kind == KGeneric ? nG : kind == KIface ? nI : nM;
			if (ok && n2 == n) { count("fill_stopped_at_exhausted_range"); break; }   // only exhaustion refusals get here, others are violations
		}
		trace = t;
		lastflags = 0;
		note(fmt("fill(%s): %d -> %d registrations", kindname[kind], before, after));
		return ok;
	}
	bool apply(int op)
	{
		progress("@op\n");
		lastflags = 0;
		asan_error();
		bool ok = true;
		switch (op) {
		case B0: ok = add_basic(0); break;
		case B1: ok = add_basic(1); break;
		case B8: ok = add_basic(8); break;
		case G_OK: ok = add_generic(0); break;
		case G_SZ0: ok = add_generic(1); break;
		case G_NULL: ok = add_generic(2); break;
		case I_NULL: case I_SHORT: case I_BETA: case I_ALPHA: case I_ALPHABET: case I_LOGGER: case I_ITER: case I_META: ok = add_named(KIface, opargname(op)); break;
		case M_NULL: case M_SHORT: case M_BETA: case M_ALPHA: case M_ALPHABET: case M_METATYPE: case M_LOGGER: case M_ITER: case M_META: ok = add_named(KMeta, opargname(op)); break;
		case FILL_B: ok = fill(KBasic, (int) (DY_MAX - DY_BASE)); break;
		case FILL_G30: ok = fill(KGeneric, nG + (CHUNK - 1 - nG % CHUNK ? CHUNK - 1 - nG % CHUNK : CHUNK)); break;
		case FILL_GCAP: ok = fill(KGeneric, (int) (GN_MAX - GN_BASE)); break;
		case FILL_I: ok = fill(KIface, (int) (IF_MAX - IF_ADD)); break;
		case FILL_M30: { int tot = nM + 1; ok = fill(KMeta, nM + (CHUNK - 1 - tot % CHUNK ? CHUNK - 1 - tot % CHUNK : CHUNK)); break; }
		case FILL_MCAP: ok = fill(KMeta, (int) (MT_MAX - MT_BASE) - 1); break;
		}
		if (asan_error()) fail(std::string(opfunc(op)) + "|any|any|asan", std::string(opname_[op]) + ": AddressSanitizer reported an invalid memory access inside the registration");
		return ok && !bad();
	}

	// ---------------------------------------------------------- lookup sweep
	static std::string rangecls(uintptr_t id)
	{
		if (id < mpt::_TypeCoreSize) return "core";
		if (id >= mpt::_TypeVectorBase && id < mpt::_TypeVectorBase + mpt::_TypeVectorSize) return "vector";
		if (id >= mpt::_TypeScalarBase && id < mpt::_TypeScalarBase + mpt::_TypeScalarSize) return "scalar";
		if (id >= IF_BASE && id <= IF_MAX) return "interface";
		if (id >= DY_BASE && id <= DY_MAX) return "basic";
		if (id >= MT_BASE && id <= MT_MAX) return "metatype";
		if (id >= GN_BASE && id <= GN_MAX) return "generic";
		if (id > GN_MAX) return "private";
		return "unassigned";
	}
	static std::string tdesc(const mpt::type_traits *t)
	{
		if (!t) return "NULL";
		return fmt("{size=0x%zx init=%s fini=%s}", t->size, !t->init ? "0" : (uintptr_t) t->init == 0xbebebebebebebebeULL ? "0xbebe..(uninitialised)" : "set",
		           !t->fini ? "0" : (uintptr_t) t->fini == 0xbebebebebebebebeULL ? "0xbebe..(uninitialised)" : "set");
	}
	bool lookup_name(const char *buf, int len, uintptr_t want, const char *mode, const std::string &cls)
	{
		asan_error();
		const mpt::named_traits *nt = mpt::mpt_named_traits(buf, len);
		count("lookups_by_name");
		if (asan_error()) { fail("mpt_named_traits|" + cls + "|" + mode + "|asan", fmt("mpt_named_traits(\"%s\", %d) made AddressSanitizer report an invalid memory access", buf, len)); return false; }
		uintptr_t got = nt ? nt->type : 0;
		if (got == want) return true;
		std::string what = fmt("mpt_named_traits(\"%s\", %d)", buf, len);
		if (!want) fail("mpt_named_traits|" + cls + "|" + mode + "|phantom", what + fmt(" resolves to id 0x%lx although no such name is registered", (long) got));
		else if (!got) fail("mpt_named_traits|" + cls + "|" + mode + "|not-found", what + fmt(" does not resolve, registered as id 0x%lx", (long) want));
		else fail("mpt_named_traits|" + cls + "|" + mode + "|wrong-id", what + fmt(" resolves to id 0x%lx, registered as id 0x%lx", (long) got, (long) want));
		return false;
	}
	void sweep(const char *when)
	{
		progress("@sweep\n");
		asan_error();
		if (names_first) { sweep_names(); sweep_ids(when); }
		else { sweep_ids(when); sweep_names(); }
		sweep_helpers();
		if (asan_error()) fail("sweep|any|any|asan", std::string(when) + ": AddressSanitizer reported an invalid memory access during lookups");
		count("sweeps");
	}
	void sweep_ids(const char *when)
	{
		// 1. every id
		for (uintptr_t id = 0; id <= SWEEP_TOP; ++id) {
			const mpt::type_traits *t = mpt::mpt_type_traits(id);
			const mpt::named_traits *it = mpt::mpt_interface_traits(id);
			const mpt::named_traits *mt = mpt::mpt_metatype_traits(id);
			count("lookups_by_id", 3);
			if (asan_error()) {
				// the lookup itself touched memory it does not own: do not trust (or dereference) what it returned
				fail("sweep|" + rangecls(id) + "-range|by-id|asan", fmt("%s: looking up id 0x%lx made AddressSanitizer report an invalid memory access", when, (long) id));
				continue;
			}
			auto f = tab.find(id);
			bool isstatic = id >= mpt::TypeIdentifier && id <= mpt::TypeCommand;
			if (f == tab.end() && !isstatic) {
				if (t || it || mt)
					fail("sweep|unregistered-" + rangecls(id) + "|by-id|phantom", fmt("id 0x%lx was never handed out but %s resolves it%s", (long) id,
					     t ? "mpt_type_traits" : it ? "mpt_interface_traits" : "mpt_metatype_traits", t ? (" to " + tdesc(t)).c_str() : ""));
				continue;
			}
			if (isstatic) {
				size_t want = id == mpt::TypeIdentifier ? sizeof(mpt::identifier) : id == mpt::TypeArray ? sizeof(mpt::array) : id == mpt::TypeCommand ? sizeof(mpt::command) : sizeof(void *);
				if (!t || t->size != want) fail("sweep|builtin-static|mpt_type_traits|wrong-size", fmt("static type 0x%lx reports %s, C type has %zu bytes", (long) id, tdesc(t).c_str(), want));
				else if (it || mt) fail("sweep|builtin-static|by-id|phantom", fmt("static type 0x%lx resolves as named type", (long) id));
				continue;
			}
			const Entry &e = f->second;
			std::string cls = e.cls;
			if (!t) {
				fail("sweep|" + cls + "|mpt_type_traits|" + (e.kind == KBuiltin || e.elem == 0 && e.traits == 0 ? "no-traits" : "lost"),
				     fmt("%s: mpt_type_traits(0x%lx) returns NULL, expected a description with size %zu", when, (long) id, e.want.size));
				continue;
			}
			if (t->size != e.want.size || (void *) t->init != (void *) e.want.init || (void *) t->fini != (void *) e.want.fini) {
				fail("sweep|" + cls + "|mpt_type_traits|" + (e.traits ? "changed" : "wrong-size"),
				     fmt("%s: mpt_type_traits(0x%lx) reports %s, expected {size=0x%zx init=%s fini=%s}", when, (long) id, tdesc(t).c_str(), e.want.size, e.want.init ? "set" : "0", e.want.fini ? "set" : "0"));
				continue;
			}
			if (e.traits && e.traits != t) count("traits_pointer_changed(not flagged)");
			if (e.traits && (e.traits->size != e.want.size || (void *) e.traits->init != (void *) e.want.init || (void *) e.traits->fini != (void *) e.want.fini)) {
				fail("sweep|" + cls + "|registration-time-pointer|changed", fmt("%s: description handed out for id 0x%lx at registration now reads %s", when, (long) id, tdesc(e.traits).c_str()));
				continue;
			}
			// named views
			const mpt::named_traits *nt = e.kind == KIface ? it : e.kind == KMeta ? mt : 0;
			const mpt::named_traits *other = e.kind == KIface ? mt : e.kind == KMeta ? it : (it ? it : mt);
			if (other) { fail("sweep|" + cls + "|by-id|phantom", fmt("%s: id 0x%lx also resolves through the %s table", when, (long) id, other == it ? "interface" : "metatype")); continue; }
			if (e.kind == KIface || e.kind == KMeta) {
				const char *fn = e.kind == KIface ? "mpt_interface_traits" : "mpt_metatype_traits";
				if (!nt) { fail("sweep|" + cls + "|" + fn + "|lost", fmt("%s: %s(0x%lx) returns NULL", when, fn, (long) id)); continue; }
				if (nt->type != id) { fail("sweep|" + cls + "|" + fn + "|wrong-entry", fmt("%s: %s(0x%lx) returns the entry of id 0x%lx", when, fn, (long) id, (long) nt->type)); continue; }
				if ((nt->name != 0) != e.named || (e.named && e.name != nt->name)) {
					fail("sweep|" + cls + "|" + fn + "|wrong-name", fmt("%s: %s(0x%lx) carries name %s, registered as %s", when, fn, (long) id, nt->name ? nt->name : "NULL", e.named ? e.name.c_str() : "NULL")); continue; }
				if (&nt->traits != t) { fail("sweep|" + cls + "|" + fn + "|wrong-entry", fmt("%s: %s(0x%lx)->traits is not what mpt_type_traits returns", when, fn, (long) id)); continue; }
				if (e.elem && e.elem != nt) count("entry_pointer_changed(not flagged)");
				if (e.elem && (e.elem->type != id || (e.named && (!e.elem->name || e.name != e.elem->name)))) {
					fail("sweep|" + cls + "|registration-time-pointer|changed", fmt("%s: entry handed out for id 0x%lx at registration was modified", when, (long) id)); continue; }
			}
		}
	}
	void sweep_names()
	{
		if (bad()) return;
		// 2. every name: full, exact length inside a longer buffer, every proper prefix; aliases; unknown names
		std::vector<uintptr_t> named;
		for (uintptr_t id : metas) named.push_back(id);
		for (uintptr_t id : ifaces) named.push_back(id);
		for (size_t k = 0; k < named.size() && !bad(); ++k) {
			const Entry &e = tab[named[k]];
			if (!e.named) continue;
			uintptr_t want = e.id;   // "looking a registered name up returns its identifier": names are unique over both kinds
			bool fillname = e.name.compare(0, 5, "fill.") == 0;
			std::string cls = e.cls;
			std::string longer = e.name + "~tail";
			int len = (int) e.name.size();
			if (!lookup_name(e.name.c_str(), -1, want, "full-name", cls)) break;
			if (!lookup_name(longer.c_str(), len, want, "length-limited", cls)) break;
			if (fillname) continue;
			if (!lookup_name(e.name.c_str(), len, want, "exact-length", cls)) break;
			if (!lookup_name(e.name.c_str(), len + 3, model_find(longer.substr(0, len + 3)), "length-beyond-name", cls)) break;
			for (int p = 1; p < len && !bad(); ++p) lookup_name(e.name.c_str(), p, model_find(e.name.substr(0, p)), "prefix-length", cls);
			// mpt_alias_typeid: "name", "name: sym", "name \t: sym"
			if (bad()) break;
			// the name ends at the FIRST ':'; the symbol part may itself contain ':' (C++ scope, "lib.so:init") or be a lone ':'
			const char *forms[] = { "%s", "%s: sym", "%s \t:  sym", "%s:", "%s: ns::sym", "%s :lib.so:init", "%s::", "%s: sym:" };
			const char *wantends[] = { "", "sym", "sym", "", "ns::sym", "lib.so:init", ":", "sym:" };
			for (int fi = 0; fi < 8 && !bad(); ++fi) {
				std::string d = fmt(forms[fi], e.name.c_str());
				const char *end = 0;
				int got = mpt::mpt_alias_typeid(d.c_str(), &end);
				int got2 = mpt::mpt_alias_typeid(d.c_str(), 0);
				count("lookups_by_alias_typeid", 2);
				const char *wantend = wantends[fi];
				const char *argcls = !fi ? "name" : fi >= 4 ? "name:symbol-with-colon" : "name:symbol";
				if (fi >= 4) count("alias_typeid_symbol_contains_colon");
				if (got != (int) want || got2 != (int) want) fail("mpt_alias_typeid|" + cls + "|" + argcls + "|wrong-id", fmt("mpt_alias_typeid(\"%s\") returns %d / %d, name is registered as id 0x%lx", d.c_str(), got, got2, (long) want));
				else if (!end || strcmp(end, wantend)) fail("mpt_alias_typeid|" + cls + "|" + argcls + "|wrong-end", fmt("mpt_alias_typeid(\"%s\") leaves the symbol at \"%s\"", d.c_str(), end ? end : "NULL"));
			}
		}
		if (!bad()) {
			static const struct { const char *alias, *full; } al[] = { { "log", "logger" }, { "iter", "iterator" }, { "out", "output" }, { "meta", "metatype" } };
			for (auto &a : al) {
				if (bad()) break;
				lookup_name(a.alias, -1, model_find(a.full), "alias", "builtin-alias");
				if (!bad()) {
					// the property does not say whether short names work in the length-limited form (today they do not,
					// so "log: sym" is refused by mpt_alias_typeid): either answer is fine, anything else is a wrong id
					const mpt::named_traits *nt = mpt::mpt_named_traits(a.alias, (int) strlen(a.alias));
					count("lookups_by_name");
					if (!nt) count("short_name_unresolved_in_length_limited_form(not flagged)");
					else if (nt->type != model_find(a.full)) fail("mpt_named_traits|builtin-alias|alias-with-length|wrong-id", fmt("mpt_named_traits(\"%s\", %d) resolves to id 0x%lx", a.alias, (int) strlen(a.alias), (long) nt->type));
				}
			}
			static const char *unknown[] = { "gamma", "abc", "alphabets", "fill.m.", "metatypes", "loggers", "x" };
			for (const char *u : unknown) { if (bad()) break; lookup_name(u, -1, model_find(u), "full-name", "unregistered-name"); if (!bad()) lookup_name(u, (int) strlen(u), model_find(u), "exact-length", "unregistered-name"); }
			if (!bad() && (mpt::mpt_named_traits(0, -1) || mpt::mpt_named_traits("", -1) || mpt::mpt_named_traits("logger", 0)))
				fail("mpt_named_traits|unregistered-name|empty|phantom", "empty / NULL / zero-length name resolves");
			const char *bads[] = { ": sym", " : sym", "gamma: sym", "gamma" };
			for (const char *b : bads) { if (bad()) break; int g = mpt::mpt_alias_typeid(b, 0); if (g >= 0) fail("mpt_alias_typeid|unregistered-name|name:symbol|phantom", fmt("mpt_alias_typeid(\"%s\") returns %d", b, g)); }
		}
	}
	void sweep_helpers()
	{
		// 3a. scalar <-> vector id mapping (types.h macros, used by span<T> type ids and value conversion) for EVERY id of
		// the sweep: only a built-in scalar id has a vector id, it lies in the vector range and maps back; in particular no
		// registered id (whatever its low byte) may be mapped onto the id of a built-in vector type
		for (uintptr_t id = 0; id <= SWEEP_TOP && !bad(); ++id) {
			int v = (int) id;
			bool scalar = id >= mpt::_TypeScalarBase && id <= mpt::_TypeScalarMax;
			bool vector = id >= mpt::_TypeVectorBase && id < mpt::_TypeVectorMax;
			using namespace mpt;   // the macros name the enumerators unqualified
			int tv = MPT_type_toVector(v), ts = MPT_type_toScalar(v);
			int wantv = scalar ? (int) (id - mpt::_TypeScalarBase + mpt::_TypeVectorBase) : 0;
			int wants = vector ? (int) (id - mpt::_TypeVectorBase + mpt::_TypeScalarBase) : 0;
			count("id_mapping_scalar_vector", 2);
			auto f = tab.find(id);
			bool reg = f != tab.end() && f->second.kind != KBuiltin && !(f->second.kind == KIface && id < IF_ADD) && id != MT_BASE;
			if (reg && (id & 0xff) >= mpt::_TypeScalarBase && (id & 0xff) <= mpt::_TypeScalarMax) count("id_mapping_registered_id_with_scalar_low_byte");
			if (reg && (id & 0xff) >= mpt::_TypeVectorBase && (id & 0xff) < mpt::_TypeVectorMax) count("id_mapping_registered_id_with_vector_low_byte");
			if (tv != wantv) {
				fail(std::string("MPT_type_toVector|") + (reg ? f->second.cls : (rangecls(id) + "-range").c_str()) + "|id|" + (tv && tab.count(tv) ? "not-unique" : "wrong-id"),
				     fmt("MPT_type_toVector(0x%lx) = 0x%x, want 0x%x%s", (long) id, tv, wantv, tv && tab.count(tv) ? ": the id of a built-in vector type is handed out for a type that is not its scalar" : ""));
			}
			else if (ts != wants) {
				fail(std::string("MPT_type_toScalar|") + (reg ? f->second.cls : (rangecls(id) + "-range").c_str()) + "|id|" + (ts && tab.count(ts) ? "not-unique" : "wrong-id"),
				     fmt("MPT_type_toScalar(0x%lx) = 0x%x, want 0x%x", (long) id, ts, wants));
			}
		}
		// 3. stateless id helpers: integer ids by size, message format codes
		for (size_t n = 0; n <= 17 && !bad(); ++n) {
			for (int u = 0; u < 2; ++u) {
				char c = u ? mpt::mpt_type_uint(n) : mpt::mpt_type_int(n);
				bool expect = n == 1 || n == 2 || n == 4 || n == 8;
				const mpt::type_traits *t = c ? mpt::mpt_type_traits((uintptr_t) (unsigned char) c) : 0;
				static const char sid[] = "bnix", uid[] = "yqut";
				char wantc = !expect ? 0 : (u ? uid : sid)[n == 1 ? 0 : n == 2 ? 1 : n == 4 ? 2 : 3];
				if (c != wantc || (c && (!t || t->size != n)))
					fail(std::string(u ? "mpt_type_uint" : "mpt_type_int") + "|builtin-scalar|size|wrong-id", fmt("%s(%zu) returns '%c' (%d) whose registered size is %s", u ? "mpt_type_uint" : "mpt_type_int", n, c ? c : '0', c, tdesc(t).c_str()));
			}
		}
		for (int f = 0; f < 256 && !bad(); ++f) {
			int id = mpt::mpt_msgvalfmt_typeid((uint8_t) f);
			if (id <= 0) continue;
			const mpt::type_traits *t = mpt::mpt_type_traits(id);
			int back = mpt::mpt_msgvalfmt_code(id);
			// a type id without format code is a refusal the property does not exclude (observed: 'e', the case is compiled out in msgvalfmt.c)
			if (back < 0) count("format_code_missing_for_type(not flagged)");
			if (!t || t->size != mpt::mpt_msgvalfmt_size((uint8_t) f) || (back >= 0 && back != f))
				fail("mpt_msgvalfmt_typeid|builtin-scalar|format-code|wrong-id", fmt("format 0x%02x (%zu bytes) maps to type '%c' with %s and back to code 0x%x", f, mpt::mpt_msgvalfmt_size((uint8_t) f), id, tdesc(t).c_str(), mpt::mpt_msgvalfmt_code(id)));
			else count("format_code_roundtrips");
		}
		for (int c = 0; c < 256 && !bad(); ++c) {
			int code = mpt::mpt_msgvalfmt_code(c);
			if (code < 0) continue;
			const mpt::type_traits *t = mpt::mpt_type_traits(c);
			if (code > 255 || mpt::mpt_msgvalfmt_typeid((uint8_t) code) != c || !t || t->size != mpt::mpt_msgvalfmt_size((uint8_t) code))
				fail("mpt_msgvalfmt_code|builtin-scalar|type-id|wrong-id", fmt("type '%c' maps to format 0x%x and back to %d", c, code, mpt::mpt_msgvalfmt_typeid((uint8_t) code)));
		}
	}

	std::string canon() const
	{
		std::set<std::string> in, mn;
		for (uintptr_t id : ifaces) { const Entry &e = tab.find(id)->second; if (e.named && id >= IF_ADD && e.name.compare(0, 5, "fill.")) in.insert(e.name); }
		for (uintptr_t id : metas) { const Entry &e = tab.find(id)->second; if (e.named && id > MT_BASE && e.name.compare(0, 5, "fill.")) mn.insert(e.name); }
		std::string s = fmt("basic=%d generic=%d interface=%d metatype=%d I{", nB, nG, nI, nM);
		for (auto &n : in) s += n + ",";
		s += "} M{";
		for (auto &n : mn) s += n + ",";
		return s + "}";
	}
};

// history vector: [mode, op1, op2, ...]; mode 0 = cold, 1 = warm
static void prepare_traits();
static std::string serialise(const Child &c)
{
	std::string out = "C " + c.canon() + "\n";
	out += "F " + std::to_string(c.lastflags) + "\n";
	for (auto &k : c.cnt) { auto m = c.mark.find(k.first); uint64_t b = m == c.mark.end() ? 0 : m->second; if (k.second > b) out += "K " + k.first + "\t" + std::to_string(k.second - b) + "\n"; }
	for (auto &v : c.viols) out += "V " + v.first + "\t" + v.second + "\n";
	for (auto &t : c.tr) out += "T " + t + "\n";
	return out;
}
static std::string run_history(const Vec &v, bool trace)
{
	prepare_traits();
	Child c; c.trace = trace;
	c.init_table();
	bool warm = v[0] == 1; c.names_first = v[0] == 2;
	if (warm) { c.sweep("before the first registration"); c.note("sweep (empty registry) " + std::string(c.bad() ? "FAILED" : "ok")); }
	for (size_t i = 1; i < v.size() && !c.bad(); ++i) {
		int op = (int) v[i];
		c.note(std::string("op ") + opname_[op]);
		if (i + 1 == v.size()) c.mark = c.cnt;
		if (!c.apply(op)) break;
		if (warm && i + 1 < v.size()) { c.sweep(("after " + std::string(opname_[op])).c_str()); c.note(std::string("sweep ") + (c.bad() ? "FAILED" : "ok")); }
	}
	if (!c.bad()) { c.sweep(v.size() > 1 ? ("after " + std::string(opname_[v.back()])).c_str() : "on the untouched registry"); c.note(std::string("final sweep ") + (c.bad() ? "FAILED" : "ok")); }
	return serialise(c);
}

static std::string run_history_plain(const Vec &v) { return run_history(v, false); }
static std::string run_history_trace(const Vec &v) { return run_history(v, true); }
static void child_signals(int timeout_s)
{
	signal(SIGSEGV, SIG_DFL); signal(SIGBUS, SIG_DFL); signal(SIGFPE, SIG_DFL); signal(SIGILL, SIG_DFL); signal(SIGABRT, SIG_DFL);
	struct itimerval it; memset(&it, 0, sizeof it); setitimer(ITIMER_REAL, &it, 0);
	signal(SIGALRM, SIG_DFL); alarm(timeout_s);
}
static void write_all(int fd, const std::string &s)
{
	size_t off = 0;
	while (off < s.size()) { ssize_t w = write(fd, s.data() + off, s.size() - off); if (w <= 0) { if (w < 0 && errno == EINTR) continue; break; } off += w; }
}
static std::string status_marker(int st)
{
	if (WIFSIGNALED(st)) return WTERMSIG(st) == SIGALRM ? std::string("\x01HANG") : "\x01SIG" + std::to_string(WTERMSIG(st));
	if (WEXITSTATUS(st) != 0) return "\x01" "EXIT" + std::to_string(WEXITSTATUS(st));
	return std::string();
}
// Expander process of BFS node h: replays h once (exactly as run_history does), then forks one
// grandchild per letter of the alphabet from that registry state; the grandchild runs the letter and the
// final sweep and reports like run_history(h + letter).  Output: "P <canon of h>" and one framed record per letter.
static std::string expand_node(const Vec &h)
{
	prepare_traits();
	g_progress_fd = -1;          // the prefix is known to replay cleanly; markers come from the grandchildren
	Child c; c.init_table();
	bool warm = h[0] == 1; c.names_first = h[0] == 2;
	if (warm) c.sweep("before the first registration");
	for (size_t i = 1; i < h.size() && !c.bad(); ++i) {
		if (!c.apply((int) h[i])) break;
		if (warm) c.sweep(("after " + std::string(opname_[h[i]])).c_str());
	}
	if (c.bad()) return "X\n";
	std::string out = "P " + c.canon() + "\n";
	c.mark = c.cnt;
	for (int op = 0; op < NOPS; ++op) {
		int fd[2];
		std::string res;
		if (pipe(fd) < 0) res = "\x01PIPE";
		else {
			pid_t pid = fork();
			if (pid == 0) {
				close(fd[0]);
				alarm(20);
				g_progress_fd = fd[1];
				if (c.apply(op) && !c.bad()) c.sweep(("after " + std::string(opname_[op])).c_str());
				write_all(fd[1], serialise(c));
				_exit(0);
			}
			close(fd[1]);
			if (pid < 0) res = "\x01" "FORK";
			else {
				char buf[16384]; ssize_t n;
				while ((n = read(fd[0], buf, sizeof buf)) > 0 || (n < 0 && errno == EINTR)) if (n > 0) res.append(buf, n);
				int st = 0;
				while (waitpid(pid, &st, 0) < 0 && errno == EINTR) {}
				std::string m = status_marker(st);
				if (!m.empty()) res = m + "\n" + res;
			}
			close(fd[0]);
		}
		out += "R " + std::to_string(op) + " " + std::to_string(res.size()) + "\n" + res + "\n";
	}
	return out;
}

struct Result { bool fault; std::string canon; std::vector<std::pair<std::string, std::string> > viols; int flags; std::vector<std::pair<std::string, uint64_t> > cnt; std::vector<std::string> tr; };
static void prepare_traits()
{
	for (size_t i = 0; i < NRAW; ++i) { rawtraits[i].init = i % 3 == 1 ? dummy_init : 0; rawtraits[i].fini = i % 3 ? dummy_fini : 0; rawtraits[i].size = i + 1; }
}
static Result parse_result(const Vec &v, const std::string &out)
{
	Result res; res.fault = false; res.flags = 0;
	if (!out.empty() && out[0] == '\x01') {
		res.fault = true;
		size_t nl = out.find('\n');
		std::string why = out.substr(1, nl == std::string::npos ? std::string::npos : nl - 1);
		size_t lastmark = out.rfind("@");
		bool insweep = v.size() <= 1 || (lastmark != std::string::npos && out.compare(lastmark, 6, "@sweep") == 0);
		if (why == "SIG11") why = "SIGSEGV"; else if (why == "SIG8") why = "SIGFPE"; else if (why == "SIG6") why = "SIGABRT"; else if (why == "SIG7") why = "SIGBUS"; else if (why == "EXIT99") why = "ASAN-FATAL";
		res.viols.push_back(std::make_pair(std::string(insweep ? "sweep" : opfunc((int) v.back())) + "|any|any|" + why,
		                                   std::string("child process running the history ended with ") + why + (insweep ? " during the lookup sweep" : " inside the last registration")));
		return res;
	}
	size_t p = 0;
	while (p < out.size()) {
		size_t e = out.find('\n', p); if (e == std::string::npos) e = out.size();
		std::string line = out.substr(p, e - p); p = e + 1;
		if (line.size() < 2) continue;
		std::string rest = line.substr(2);
		switch (line[0]) {
		case 'C': res.canon = rest; break;
		case 'F': res.flags = atoi(rest.c_str()); break;
		case 'K': { size_t t = rest.find('\t'); res.cnt.push_back(std::make_pair(rest.substr(0, t), strtoull(rest.c_str() + t + 1, 0, 10))); break; }
		case 'V': { size_t t = rest.find('\t'); res.viols.push_back(std::make_pair(rest.substr(0, t), rest.substr(t + 1))); break; }
		case 'T': res.tr.push_back(rest); break;
		}
	}
	if (res.canon.empty() && res.viols.empty()) { res.fault = true; res.viols.push_back(std::make_pair(std::string("ENGINE|child-output"), std::string("child returned no result"))); }
	return res;
}

static std::string hist_str(const Vec &v)
{
	std::string s = v[0] == 1 ? "[warm] " : v[0] == 2 ? "[cold, names first] " : "[cold] ";
	for (size_t i = 1; i < v.size(); ++i) s += (i > 1 ? " ; " : "") + std::string(opname_[v[i]]);
	return s;
}

static int depth_of(Tier t) { return t == Quick ? 4 : 5; }

void mc_jobs(Tier t, std::vector<std::string> &jobs)
{
	jobs.push_back("cold");   // registrations first, lookups only after the last step
	jobs.push_back("warm");   // full lookup sweep before the first and after every step
	jobs.push_back("cold,names-first");   // like cold, but the final sweep looks names up before ids (lazy initialisation through mpt_named_traits), depth 2
}

static const char *required_keys[] = {
	"refused:basic,range-exhausted", "refused:generic,range-exhausted", "refused:interface,range-exhausted", "refused:metatype,range-exhausted",
	"accepted:basic,last-id", "accepted:generic,last-id", "accepted:interface,last-id", "accepted:metatype,last-id",
	"accepted:generic,first-of-chunk", "accepted:metatype,first-of-chunk",
	"refused:interface,short-name", "refused:metatype,short-name", "refused:interface,dup-name", "refused:metatype,dup-name",
	"refused:interface,name-of-other-kind", "refused:metatype,name-of-other-kind", "refused:interface,builtin-short-name", "refused:metatype,builtin-short-name",
	"refused:generic,invalid-traits", "lookups_by_id", "lookups_by_name", "lookups_by_alias_typeid", "alias_typeid_symbol_contains_colon", "id_mapping_scalar_vector",
	"id_mapping_registered_id_with_scalar_low_byte", "id_mapping_registered_id_with_vector_low_byte", "format_code_roundtrips", "nontrivial" };

// Run all histories of one BFS level, each in its own forked child, up to P children at a time.
// Results are collected per task index, so the bookkeeping that follows is independent of timing.
static void run_level(Run &r, const std::vector<Vec> &tasks, std::vector<std::string> &outs, int P, std::string (*fn)(const Vec &))
{
	struct Slot { pid_t pid; int fd; size_t idx; std::string buf; };
	std::vector<Slot> run;
	outs.assign(tasks.size(), std::string());
	size_t next = 0, done = 0;
	while (done < tasks.size()) {
		while ((int) run.size() < P && next < tasks.size()) {
			const Vec &v = tasks[next];
			if (!r.enter(v, v.size() > 1 ? opfunc((int) v.back()) : "sweep")) { outs[next] = "\x02"; ++next; ++done; continue; }
			int fd[2];
			if (pipe(fd) < 0) { outs[next] = "\x01PIPE"; ++next; ++done; continue; }
			pid_t pid = fork();
			if (pid == 0) {
				close(fd[0]);
				for (auto &s : run) close(s.fd);
				child_signals(120);
				g_progress_fd = fd[1];
				write_all(fd[1], fn(v));
				_exit(0);
			}
			close(fd[1]);
			if (pid < 0) { close(fd[0]); outs[next] = "\x01" "FORK"; ++next; ++done; continue; }
			Slot s; s.pid = pid; s.fd = fd[0]; s.idx = next; run.push_back(s);
			++next;
		}
		if (run.empty()) continue;
		std::vector<struct pollfd> pf(run.size());
		for (size_t i = 0; i < run.size(); ++i) { pf[i].fd = run[i].fd; pf[i].events = POLLIN; pf[i].revents = 0; }
		int n = poll(pf.data(), pf.size(), 1000);
		if (n <= 0) continue;
		for (size_t i = run.size(); i-- > 0;) {
			if (!(pf[i].revents & (POLLIN | POLLHUP | POLLERR))) continue;
			char buf[16384];
			ssize_t k = read(run[i].fd, buf, sizeof buf);
			if (k > 0) { run[i].buf.append(buf, k); continue; }
			if (k < 0 && (errno == EINTR || errno == EAGAIN)) continue;
			close(run[i].fd);
			int st = 0;
			while (waitpid(run[i].pid, &st, 0) < 0 && errno == EINTR) {}
			outs[run[i].idx] = status_marker(st);
			if (outs[run[i].idx].empty()) outs[run[i].idx] = run[i].buf;
			else outs[run[i].idx] += "\n" + run[i].buf;
			run.erase(run.begin() + i);
			++done;
			r.beat();
		}
	}
}

void mc_explore(Run &r, const std::string &job)
{
	uint64_t mode = job == "warm" ? 1 : job == "cold,names-first" ? 2 : 0;
	int depth = mode == 2 ? 2 : depth_of(r.tier);
	int P = getenv("MC_WORKERS") ? atoi(getenv("MC_WORKERS")) : 16;
	if (P < 1) P = 1;
	r.additive = false;
	for (const char *k : required_keys) r.require(k);
	std::set<std::string> seen;
	std::map<Vec, std::string> canon_of;
	std::vector<Vec> level;
	// account one executed history; returns true when it reached a new state
	auto account = [&](const Vec &v, const std::string &out) -> bool {
		Result res = parse_result(v, out);
		++r.transitions; ++r.executions;
		for (auto &k : res.cnt) r.count(k.first, k.second);
		if (!res.viols.empty()) { for (auto &x : res.viols) r.violation_at(x.first, v, hist_str(v) + " :: " + x.second); return false; }
		if (res.flags) r.count("nontrivial");
		if (!seen.insert(res.canon).second) return false;
		++r.states;
		canon_of[v] = res.canon;
		if (v.size() == 1) r.sample(hist_str(v) + "(empty history)  =>  " + res.canon);
		else if (v.size() >= 4 && r.samples.size() < 3) r.sample(hist_str(v) + "  =>  " + res.canon);
		return true;
	};
	{
		// depth 0: the untouched registry
		std::vector<Vec> tasks(1, Vec(1, mode));
		std::vector<std::string> outs;
		run_level(r, tasks, outs, 1, run_history_plain);
		if (outs[0] != "\x02" && account(tasks[0], outs[0])) level.push_back(tasks[0]);
		else if (outs[0] != "\x02") {
			// only built-in table defects (no registry state involved): report them here, keep exploring without re-reporting them
			Result res = parse_result(tasks[0], outs[0]);
			bool only_builtin = !res.viols.empty() && !res.canon.empty();
			for (auto &x : res.viols) if (x.first.compare(0, 14, "sweep|builtin-")) only_builtin = false;
			if (only_builtin) {
				for (auto &x : res.viols) g_suppress.insert(x.first);
				seen.insert(res.canon); ++r.states; canon_of[tasks[0]] = res.canon; level.push_back(tasks[0]);
			}
		}
		r.count("new_states_at_depth_0", level.size());
	}
	for (int d = 1; d <= depth && !level.empty(); ++d) {
		if (r.expired()) return;
		std::vector<std::string> outs;
		run_level(r, level, outs, P, expand_node);
		std::vector<Vec> nextlevel;
		for (size_t i = 0; i < level.size(); ++i) {
			const Vec &h = level[i];
			const std::string &o = outs[i];
			if (o == "\x02") continue;           // on the skip list (reported by an earlier worker)
			if (o.empty() || o[0] == '\x01' || o[0] != 'P' || o.compare(2, o.find('\n') - 2, canon_of[h]) != 0) {
				r.violation_at("ENGINE|nondeterministic-replay", h, "history prefix did not reproduce its canonical state: " + hist_str(h));
				r.incomplete("nondeterministic replay");
				return;
			}
			size_t p = o.find('\n') + 1;
			int nres = 0;
			while (p < o.size() && o[p] == 'R') {
				int op = 0; size_t len = 0;
				sscanf(o.c_str() + p, "R %d %zu", &op, &len);
				p = o.find('\n', p) + 1;
				std::string one = o.substr(p, len);
				p += len + 1;
				Vec v = h; v.push_back(op);
				r.cur = v;
				if (account(v, one)) nextlevel.push_back(v);
				++nres;
			}
			if (nres != NOPS) { r.violation_at("ENGINE|child-output", h, "expander returned an incomplete result set"); r.incomplete("child output"); return; }
		}
		for (auto &h : level) canon_of.erase(h);
		level.swap(nextlevel);
		r.count(fmt("new_states_at_depth_%d", d), level.size());
	}
}

void mc_replay(Run &r, const std::string &job, const Vec &v)
{
	if (v.empty()) return;
	r.enter(v, v.size() > 1 ? opfunc((int) v.back()) : "sweep");
	r.note("history %s", hist_str(v).c_str());
	std::vector<std::string> outs;
	run_level(r, std::vector<Vec>(1, v), outs, 1, run_history_trace);
	++r.transitions; ++r.executions;
	Result res = parse_result(v, outs[0]);
	for (auto &t : res.tr) r.note("%s", t.c_str());
	if (!res.canon.empty()) r.note("state %s", res.canon.c_str());
	for (auto &x : res.viols) r.violation(x.first, hist_str(v) + " :: " + x.second);
}

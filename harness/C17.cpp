// C17 — fragmented messages read like contiguous ones.
// Stateless input grid, purely differential: every operation is evaluated by the
// real library on the single contiguous fragment (reference) and on every
// fragmentation of the same byte string (all compositions of the length, with up
// to E zero-length fragments inserted at any gaps, as pure iovec list and as
// message with the first part inline); results (return values, copied bytes,
// cursor position as absolute offset, bytes still readable, array content) must
// be identical.  Fragments and iovec arrays are exactly sized heap blocks, so
// AddressSanitizer sees every access outside a fragment.
#include <cctype>
#include <cerrno>
#include <cstdlib>
#include <sys/uio.h>
#include "message.h"
#include "array.h"
#include "queue.h"
#include "convert.h"
#include "layout.h"
#include "graphic.h"
#include "mc.hpp"

using namespace mc;
const char *mc_id = "C17";
const char *mc_rule = "input grid: byte strings (alphabet a b SP NUL \" \\ # (+ LF for the search functions) for content dependent functions, position labels for data-oblivious ones) "
                      "x all compositions into fragments x up to E inserted zero-length fragments x {iovec list, message with inline first part} "
                      "x all op arguments; oracle = same library function on the one-fragment form; "
                      "nontrivial = distinct (input, fragmentation, form) cases with at least two fragments (a boundary has to be crossed)";

// the search group uses all 8 symbols (newline ends a comment in mpt_memtok), the argument splitter group the first 7
static const uint8_t ALPHA[8] = {'a', 'b', ' ', 0, '"', '\\', '#', '\n'};
static const uint8_t FILL = 0xEE;

// ------------------------------------------------------------------ helpers
static std::string show(const uint8_t *s, size_t n)
{
	std::string o = "\"";
	for (size_t i = 0; i < n; ++i) {
		uint8_t c = s[i];
		if (c == 0) o += "\\0"; else if (c == '"') o += "\\\""; else if (c == '\\') o += "\\\\";
		else if (c >= 0x20 && c < 0x7f) o += (char) c; else o += fmt("\\x%02x", c);
	}
	return o + "\"";
}
static std::string show_cut(const uint8_t *s, const std::vector<size_t> &lens)
{
	std::string o; size_t p = 0;
	if (lens.empty()) return "(no fragments)";
	for (size_t i = 0; i < lens.size(); ++i) { o += (i ? " + " : "") + show(s + p, lens[i]); p += lens[i]; }
	return o;
}

// exactly sized heap copy of a fragmented byte string; the blocks are pooled per size and reused
// (every fragment and the iovec array stay separate heap blocks of exactly the needed size)
struct Frags {
	std::vector<size_t> lens;
	struct iovec *vec; size_t nv;
	std::vector<std::vector<void *> > pool; std::vector<size_t> taken;
	Frags() : vec(0), nv(0) {}
	void *get(size_t n)
	{
		if (pool.size() <= n) { pool.resize(n + 1); taken.resize(n + 1, 0); }
		if (taken[n] == pool[n].size()) pool[n].push_back(malloc(n));
		return pool[n][taken[n]++];
	}
	// A zero-length fragment never owns a readable byte of the message, so its base is made hostile:
	//   zmode 0: base = end of an exactly sized 1-byte block (any read through it is an ASan report, no crash)
	//   zmode 1: base = a readable 1-byte block holding LF, a byte the contiguous form does not have there
	//            (a read goes unnoticed by ASan but changes the result: LF ends comments, is white space)
	void build(const uint8_t *s, const std::vector<size_t> &l, int zmode = 0)
	{
		for (size_t &t : taken) t = 0;
		lens = l; nv = l.size();
		vec = (struct iovec *) get(nv * sizeof *vec);
		size_t p = 0;
		for (size_t i = 0; i < nv; ++i) {
			vec[i].iov_len = l[i];
			if (!l[i]) { uint8_t *z = (uint8_t *) get(1); *z = '\n'; vec[i].iov_base = zmode ? z : z + 1; continue; }
			vec[i].iov_base = get(l[i]);
			if (s) { if (l[i]) memcpy(vec[i].iov_base, s + p, l[i]); } else if (l[i]) memset(vec[i].iov_base, FILL, l[i]);
			p += l[i];
		}
	}
	void refill() { for (size_t i = 0; i < nv; ++i) if (lens[i]) memset(vec[i].iov_base, FILL, lens[i]); }
	size_t flat(uint8_t *out) const { size_t t = 0; for (size_t i = 0; i < nv; ++i) { if (vec[i].iov_len) memcpy(out + t, vec[i].iov_base, vec[i].iov_len); t += vec[i].iov_len; } return t; }
	// message forms: 0 = pure iovec list, 1 = first fragment inline
	mpt::message msg(int form) const
	{
		mpt::message m;
		if (form && nv) { m.base = vec[0].iov_base; m.used = vec[0].iov_len; m.cont = nv > 1 ? vec + 1 : 0; m.clen = nv - 1; }
		else { m.base = 0; m.used = 0; m.cont = nv ? vec : 0; m.clen = nv; }
		return m;
	}
};

// A fragmentation of n bytes = composition of n (one explorer choice, index 0 = one fragment)
// + up to E zero-length fragments distributed over the k+1 gaps (enumerated inside the case).
static size_t ncomp(size_t n) { return n ? (size_t) 1 << (n - 1) : 1; }
static void composition(size_t n, size_t idx, std::vector<size_t> &parts)
{
	parts.clear();
	if (!n) return;
	size_t cur = 1;
	for (size_t i = 1; i < n; ++i) { if (idx >> (i - 1) & 1) { parts.push_back(cur); cur = 1; } else ++cur; }
	parts.push_back(cur);
}
// all ways to put at most E zero-length fragments into k+1 gaps (as count per gap), the first is "none"
static const std::vector<std::vector<uint8_t> > &zero_places(size_t k, int E)
{
	static std::map<std::pair<size_t, int>, std::vector<std::vector<uint8_t> > > cache;
	auto key = std::make_pair(k, E);
	auto it = cache.find(key);
	if (it != cache.end()) return it->second;
	std::vector<std::vector<uint8_t> > &out = cache[key];
	std::vector<uint8_t> z(k + 1, 0);
	std::function<void(size_t, int)> rec = [&](size_t from, int left) {
		out.push_back(z);
		if (!left) return;
		for (size_t g = from; g <= k; ++g) { ++z[g]; rec(g, left - 1); --z[g]; }
	};
	// rec emits z at every node: nodes = multisets of size 0..E
	rec(0, E);
	return out;
}
static void with_zeros(const std::vector<size_t> &parts, const std::vector<uint8_t> &z, std::vector<size_t> &lens)
{
	lens.clear();
	for (size_t i = 0; i <= parts.size(); ++i) { for (uint8_t c = 0; c < z[i]; ++c) lens.push_back(0); if (i < parts.size()) lens.push_back(parts[i]); }
}

// result recorder: reference mode stores one blob per op, compare mode checks blob by op index
struct Sink {
	bool ref; std::vector<uint8_t> buf; std::vector<uint32_t> at; size_t op;
	uint8_t cur[8192]; size_t len;
	Sink() : ref(true), op(0), len(0) {}
	void start_ref() { ref = true; buf.clear(); at.clear(); op = 0; }
	void start_cmp() { ref = false; op = 0; }
	void begin() { len = 0; }
	void num(int64_t v) { if (len + 9 > sizeof cur) return; cur[len++] = 'i'; memcpy(cur + len, &v, 8); len += 8; }
	void bytes(const void *p, size_t n) { if (n > 96) { num((int64_t) n); n = 96; } if (len + 2 + n > sizeof cur) return; cur[len++] = 'b'; cur[len++] = (uint8_t) n; if (n) memcpy(cur + len, p, n); len += n; }
	bool end()
	{
		if (ref) { at.push_back((uint32_t) buf.size()); buf.insert(buf.end(), cur, cur + len); ++op; return true; }
		if (op >= at.size()) { ++op; return false; }
		size_t b = at[op], e = op + 1 < at.size() ? at[op + 1] : buf.size(); ++op;
		return e - b == len && (!len || !memcmp(&buf[b], cur, len));
	}
	void skip() { ++op; }
	std::string blob() const { return std::string((const char *) cur, len); }
	static std::string decode(const uint8_t *p, size_t n)
	{
		std::string o; size_t i = 0;
		while (i < n) {
			if (p[i] == 'i' && i + 9 <= n) { int64_t v; memcpy(&v, p + i + 1, 8); o += fmt("%s%lld", o.empty() ? "" : " ", (long long) v); i += 9; }
			else if (p[i] == 'b' && i + 2 + p[i + 1] <= n) { o += (o.empty() ? "" : " ") + show(p + i + 2, p[i + 1]); i += 2 + p[i + 1]; }
			else break;
		}
		return o;
	}
	std::string diff() const   // for the op just ended
	{
		size_t o = op - 1; std::string want = "(none)";
		if (o < at.size()) { size_t b = at[o], e = o + 1 < at.size() ? at[o + 1] : buf.size(); want = decode(&buf[b], e - b); }
		return "fragmented form gives {" + decode(cur, len) + "}, contiguous form gives {" + want + "}";
	}
};
// exactly sized, reused caller buffers (one heap block per size, so redzones sit directly behind them)
static uint8_t *exact(size_t n, int which = 0)
{
	static std::vector<uint8_t *> pool[3];
	std::vector<uint8_t *> &p = pool[which];
	if (p.size() <= n) p.resize(n + 1, 0);
	if (!p[n]) p[n] = (uint8_t *) malloc(n);
	if (n) memset(p[n], FILL, n);
	return p[n];
}

struct Case {
	Run &r; const uint8_t *s; size_t n; const std::vector<size_t> *lens; const char *form; bool isref;
	std::vector<std::string> reported; uint64_t evals; bool lastbad;
	Case(Run &run) : r(run), s(0), n(0), lens(0), form(""), isref(false), evals(0), lastbad(false) {}
	std::string where() const { return isref ? show(s, n) + " (contiguous)" : show_cut(s, *lens) + " (" + form + ")"; }
	void fail(const char *fn, const std::string &icls, const std::string &acls, const char *group, const std::string &what)
	{
		std::string sig = std::string(fn) + "|" + (isref ? "contiguous" : "fragmented") + (icls.empty() ? "" : "," + icls) + "|" + acls + "|" + group;
		for (auto &x : reported) if (x == sig) return;      // once per signature and case
		reported.push_back(sig);
		r.violation(sig, what);
	}
};
// after a library call and k.begin()..: close the op, report ASan / mismatch (arguments are evaluated on failure only)
#define CLOSE(fn, icls, acls, desc) do { ++c.evals; bool as_ = asan_error(); bool eq_ = k.end(); c.lastbad = as_ || !eq_; \
	if (as_) c.fail(fn, icls, acls, "asan", std::string(desc) + " on " + c.where() + ": access outside a fragment / caller buffer (AddressSanitizer)"); \
	else if (!eq_) c.fail(fn, icls, acls, "wrong-result", std::string(desc) + " on " + c.where() + ": " + k.diff()); } while (0)

// ------------------------------------------------------------------ path counters (vacuity)
struct Paths { uint64_t nontrivial, beyond_first, tok_comment_cross, tok_newline_cross, tok_empty_in_comment, zbase_unreadable, zbase_newline, trim_cross, quote_cross, read_cross, argv_multi, array_args, memcpy_both, memcpy_partial, append_multi, append_fail_late, append_fail_reloc, qget_two, qget_cross, qget_atwrap, qget_novec_ok, qget_cxx_novec, epush_multi, epush_leading_empty, epush_encoded, gr_limit_in_cont, gr_item_found, memcpy_nolist, with_empty, inline_form, list_form; };
static Paths P;

// ------------------------------------------------------------------ search functions on iovec lists
static int p_notspace(int ch, void *) { return !isspace(ch); }
static int p_eq(int ch, void *p) { return ch == *(int *) p; }
static int p_always(int, void *) { return 1; }
static int p_never(int, void *) { return 0; }

static const uint8_t TOKS[9] = {'a', 'b', ' ', 0, '"', '\\', '#', '\n', 'z'};
struct Set { const char *p; size_t n; const char *name; };
static const Set SETS[] = { {"", 0, "empty"}, {"a", 1, "a"}, {"ab", 2, "ab"}, {" \0", 2, "SP,NUL"}, {"#\"", 2, "#,\""}, {"z", 1, "absent"} };
static const char *TTOK[] = {0, "", "a", " ", "ab "};
static const char *TCOM[] = {0, "#", "#b"};
static const char *TESC[] = {0, "\"", "a\""};
static const char *nn(const char *s) { return s ? s : "NULL"; }

static void ops_search(Case &c, Sink &k, const struct iovec *v, size_t nv)
{
	Run &r = c.r;
	size_t first = nv ? v[0].iov_len : 0;
	r.hint("mpt_memchr");
	for (int t = 0; t < 9; ++t) {
		int tok = TOKS[t];
		ssize_t ret = mpt::mpt_memchr(v, nv, tok);
		if (!c.isref && nv > 1 && ret >= (ssize_t) first && first) ++P.beyond_first;
		k.begin(); k.num(ret); CLOSE("mpt_memchr", "", "tok", fmt("mpt_memchr(tok=0x%02x)", tok));
		ret = mpt::mpt_memrchr(v, nv, tok);
		k.begin(); k.num(ret); CLOSE("mpt_memrchr", "", "tok", fmt("mpt_memrchr(tok=0x%02x)", tok));
	}
	r.hint("mpt_memfcn");
	int eqa = 'a', eq0 = 0;
	struct { int (*f)(int, void *); void *p; const char *name; } preds[] = { {p_notspace, 0, "!isspace"}, {p_eq, &eqa, "=='a'"}, {p_eq, &eq0, "==NUL"}, {p_always, 0, "always"}, {p_never, 0, "never"}, {0, 0, "NULL"} };
	for (auto &pr : preds) {
		ssize_t ret = mpt::mpt_memfcn(v, nv, pr.f, pr.p);
		if (!c.isref && nv > 1 && ret >= (ssize_t) first && first) ++P.beyond_first;
		k.begin(); k.num(ret); CLOSE("mpt_memfcn", "", "predicate", fmt("mpt_memfcn(%s)", pr.name));
		ret = mpt::mpt_memrfcn(v, nv, pr.f, pr.p);
		k.begin(); k.num(ret); CLOSE("mpt_memrfcn", "", "predicate", fmt("mpt_memrfcn(%s)", pr.name));
	}
	r.hint("mpt_memstr");
	for (auto &st : SETS) {
		ssize_t ret = mpt::mpt_memstr(v, nv, st.p, st.n);
		k.begin(); k.num(ret); CLOSE("mpt_memstr", "", "set", fmt("mpt_memstr({%s})", st.name));
		ret = mpt::mpt_memrstr(v, nv, st.p, st.n);
		k.begin(); k.num(ret); CLOSE("mpt_memrstr", "", "set", fmt("mpt_memrstr({%s})", st.name));
	}
	r.hint("mpt_memtok");
	for (const char *tok : TTOK) for (const char *com : TCOM) for (const char *esc : TESC) {
		ssize_t ret = mpt::mpt_memtok(v, nv, tok, com, esc);
		if (!c.isref && nv > 1 && com && !tok && ret >= 0) {
			// a comment was skipped whose start lies in an earlier fragment than the hit
			size_t fend = 0, fi = 0; while (fi < nv && fend + v[fi].iov_len <= (size_t) ret) fend += v[fi++].iov_len;   // fend = start of hit fragment
			for (size_t p = 0; p < fend && p < c.n; ++p) if (c.s[p] == '#') { ++P.tok_comment_cross; break; }
			// ... and the comment was ended by a newline that sits in a later fragment than its '#'
			bool hit = false; size_t fs = 0;
			for (size_t a = 0; a < nv && !hit; fs += v[a++].iov_len)
				for (size_t p = fs; p < fs + v[a].iov_len && !hit; ++p) if (c.s[p] == '#')
					for (size_t q = fs + v[a].iov_len; q < (size_t) ret; ++q) if (c.s[q] == '\n') { hit = true; break; }
			if (hit) ++P.tok_newline_cross;
			// ... or a zero-length fragment lies inside the comment (after its '#', before the hit)
			bool ein = false, seen = false; fs = 0;
			for (size_t a = 0; a < nv && !ein && fs <= (size_t) ret; fs += v[a++].iov_len) {
				if (!v[a].iov_len) { if (seen && fs < (size_t) ret) { bool open = false; for (size_t p = 0; p < fs; ++p) { if (c.s[p] == '#') open = true; else if (c.s[p] == '\n') open = false; } ein = open; } continue; }
				for (size_t p = fs; p < fs + v[a].iov_len; ++p) if (c.s[p] == '#') seen = true;
			}
			if (ein) ++P.tok_empty_in_comment;
		}
		k.begin(); k.num(ret);
		CLOSE("mpt_memtok", "", std::string(tok ? "token" : "visible") + (com ? ",comments" : "") + (esc ? ",escapes" : ""), fmt("mpt_memtok(tok=%s,com=%s,esc=%s)", nn(tok), nn(com), nn(esc)));
	}
}

// ------------------------------------------------------------------ message cursor functions
static void put_rest(Sink &k, size_t n, const mpt::message &m)
{
	// cursor as absolute offset + bytes still readable (sanity bounded)
	if (m.clen > 64) { k.num(-777); return; }
	uint8_t tmp[128]; size_t t = 0, left = m.used;
	for (size_t i = 0; i < m.clen; ++i) left += m.cont[i].iov_len;
	const uint8_t *b = (const uint8_t *) m.base;
	for (size_t i = 0; i < m.used && t < sizeof tmp; ++i) tmp[t++] = b[i];
	for (size_t j = 0; j < m.clen; ++j) for (size_t i = 0; i < m.cont[j].iov_len && t < sizeof tmp; ++i) tmp[t++] = ((const uint8_t *) m.cont[j].iov_base)[i];
	k.num((int64_t) n - (int64_t) left); k.bytes(tmp, t);
}
static std::string lencls(size_t len, size_t first, size_t n)
{
	return len == 0 ? "len=0" : (len > n ? "len>total" : (len > first ? "len>first-fragment" : "len<=first-fragment"));
}
static void ops_read(Case &c, Sink &k, const mpt::message &m0, size_t first, bool full)
{
	Run &r = c.r; size_t n = c.n;
	r.hint("mpt_message_length");
	{ size_t l = mpt::mpt_message_length(&m0); k.begin(); k.num((int64_t) l); CLOSE("mpt_message_length", "", "-", "mpt_message_length()"); }
	r.hint("mpt_message_read");
	// content dependent groups only read everything at once; the read group (position labels) takes every length
	for (size_t len = full ? 0 : n; len <= n + 1; ++len) for (int withdest = 1; withdest >= 0; --withdest) {
		mpt::message m = m0;
		uint8_t *dest = withdest ? exact(len) : 0;
		size_t got = mpt::mpt_message_read(&m, len, dest);
		if (!c.isref && len > first && len <= n) ++P.read_cross;
		k.begin(); k.num((int64_t) got); if (dest) k.bytes(dest, len); put_rest(k, n, m);
		CLOSE("mpt_message_read", "", lencls(len, first, n), fmt("mpt_message_read(len=%zu,%s)", len, withdest ? "dest" : "NULL"));
	}
	if (!full) return;
	for (size_t l1 = 0; l1 <= n + 1; ++l1) for (size_t l2 = 0; l2 <= n + 1; ++l2) {
		mpt::message m = m0;
		uint8_t *d1 = exact(l1, 1), *d2 = exact(l2, 2);
		size_t g1 = mpt::mpt_message_read(&m, l1, d1);
		k.begin(); k.num((int64_t) g1); k.bytes(d1, l1); put_rest(k, n, m);
		size_t g2 = mpt::mpt_message_read(&m, l2, d2);
		k.num((int64_t) g2); k.bytes(d2, l2); put_rest(k, n, m);
		size_t g3 = mpt::mpt_message_read(&m, n + 1, 0);    // drain
		k.num((int64_t) g3); put_rest(k, n, m);
		CLOSE("mpt_message_read", "", "chained", fmt("mpt_message_read(len=%zu) ; mpt_message_read(len=%zu) ; drain", l1, l2));
	}
}

static const int SEPS[] = {0, ' ', 'b', ':'};
static std::string sepcls(int sep) { return !sep ? "sep=NUL" : (isgraph(sep) ? "sep=graph" : "sep=space"); }
// class of the input with respect to the argument splitter (keeps distinct causes under distinct signatures)
static std::string argv_icls(const Case &c, int sep)
{
	if (c.isref || !sep) return "";
	// quotes only matter to the whitespace splitter
	if (!isgraph(sep)) for (size_t i = 0; i < c.n; ++i) if (c.s[i] == '"' || c.s[i] == '\'') return "quoted";
	// whitespace directly before a fragment boundary (skipping it has to continue in the next fragment)
	size_t p = 0;
	for (size_t l : *c.lens) { p += l; if (l && p < c.n && isspace(c.s[p - 1])) return "space-at-fragment-end"; }
	return "plain";
}
static void ops_argv(Case &c, Sink &k, const mpt::message &m0)
{
	Run &r = c.r; size_t n = c.n;
	for (int sep : SEPS) {
		bool bad = false;
		r.hint("mpt_message_argv");
		{	// one step: returned length + where the cursor is afterwards
			mpt::message m = m0;
			ssize_t len = mpt::mpt_message_argv(&m, sep);
			k.begin(); k.num(len); put_rest(k, n, m);
			CLOSE("mpt_message_argv", argv_icls(c, sep), sepcls(sep), fmt("mpt_message_argv(sep=0x%02x)", sep));
			bad |= c.lastbad;
		}
		{	// iterate to exhaustion the way mpt_array_message does: argv ; read(len) ; read(1)
			mpt::message m = m0; size_t steps = 0, bound = 4 * n + 8;
			k.begin();
			while (steps < bound) {
				ssize_t len = mpt::mpt_message_argv(&m, sep);
				k.num(len);
				if (len < 0) break;
				uint8_t *d = exact(len);
				size_t got = mpt::mpt_message_read(&m, len, d);
				k.num((int64_t) got); k.bytes(d, len);
				uint8_t sp = FILL; got = mpt::mpt_message_read(&m, 1, &sp);
				k.num((int64_t) got); k.num(sp);
				++steps;
			}
			k.num((int64_t) steps); put_rest(k, n, m);
			if (!c.isref && steps > 1) ++P.argv_multi;
			CLOSE("mpt_message_argv", argv_icls(c, sep), sepcls(sep) + ",iterated", fmt("loop{mpt_message_argv(sep=0x%02x); read(len); read(1)}", sep));
			bad |= c.lastbad;
		}
		r.hint("mpt_array_message");
		// a case that already violated is not expanded further: mpt_array_message runs the same loop without a step bound
		if (bad && !c.isref) { k.skip(); r.count("array_message_skipped_after_argv_violation"); }
		else {
			mpt::array a;
			int narg = mpt::mpt_array_message(&a, &m0, sep);
			k.begin(); k.num(narg);
			mpt::array::content *b = a._buf.instance();
			if (b) k.bytes(b->data(), b->_used); else k.num(-1);
			if (!c.isref && narg > 1) ++P.array_args;
			CLOSE("mpt_array_message", argv_icls(c, sep), sepcls(sep), fmt("mpt_array_message(sep=0x%02x)", sep));
			mpt::mpt_array_clone(&a, 0);
		}
	}
}

// ------------------------------------------------------------------ jobs
// job names:  search/n=N[/p=digits]   argv/n=N[/p=digits]   read/n=N   memcpy/n=N   append   qget/max=M
struct Bounds { size_t Lstr, Lread, Lcpy, Lapp, Qmax; int E, Eread, Ecpy; };
static Bounds bounds(Tier t)
{
	Bounds b;
	if (t == Quick) { b.Lstr = 5; b.Lread = 6; b.Lcpy = 4; b.Lapp = 6; b.Qmax = 8; b.E = 2; b.Eread = 2; b.Ecpy = 2; }
	else            { b.Lstr = 6; b.Lread = 8; b.Lcpy = 6; b.Lapp = 8; b.Qmax = 14; b.E = 2; b.Eread = 3; b.Ecpy = 2; }
	return b;
}
void mc_jobs(Tier t, std::vector<std::string> &jobs)
{
	Bounds b = bounds(t);
	// big jobs first
	for (const char *g : {"argv", "search"}) for (size_t n = b.Lstr; n >= 4 && n <= b.Lstr; --n) {
		int A = g[0] == 's' ? 8 : 7;
		if (n >= 5) { for (int p = 0; p < A; ++p) for (int q = 0; q < A; ++q) jobs.push_back(fmt("%s/n=%zu/p=%d%d", g, n, p, q)); }
		else for (int p = 0; p < A; ++p) jobs.push_back(fmt("%s/n=%zu/p=%d", g, n, p));
	}
	for (size_t n = b.Lread + 1; n-- > 0;) jobs.push_back(fmt("read/n=%zu", n));
	for (size_t n = b.Lcpy + 1; n-- > 0;) jobs.push_back(fmt("memcpy/n=%zu", n));
	for (const char *g : {"argv", "search"}) for (size_t n = 0; n <= 3 && n <= b.Lstr; ++n) jobs.push_back(fmt("%s/n=%zu", g, n));
	jobs.push_back("append");
	jobs.push_back("append-fail");
	for (size_t n = 0; n <= (t == Quick ? 5u : 6u); ++n) jobs.push_back(fmt("graphic/n=%zu", n));
	for (size_t n = 0; n <= (t == Quick ? 5u : 6u); ++n) jobs.push_back(fmt("epush/n=%zu", n));
	for (size_t m = 1; m <= b.Qmax; ++m) jobs.push_back(fmt("qget/max=%zu", m));
}

static size_t jobnum(const std::string &job, const char *key)
{
	size_t p = job.find(key); return p == std::string::npos ? 0 : strtoul(job.c_str() + p + strlen(key), 0, 10);
}
static void count_case(Run &r, const std::vector<size_t> &lens, int forms)
{
	r.states += forms;
	if (lens.size() >= 2) { P.nontrivial += forms; }
	for (size_t l : lens) if (!l) { P.with_empty += forms; break; }
}

// ---- content dependent groups (search, argv): strings over ALPHA
// case vector: [symbol.., composition index]; the placements of zero-length fragments and both message forms
// are enumerated inside the case
static void body_string(Run &r, const std::string &job, Ctx &x, bool search)
{
	Bounds b = bounds(r.tier);
	size_t n = jobnum(job, "n=");
	uint8_t s[16]; size_t fixed = 0;
	size_t pp = job.find("p=");
	const size_t A = search ? 8 : 7;
	if (pp != std::string::npos) for (const char *d = job.c_str() + pp + 2; *d >= '0' && *d <= '7' && fixed < n; ++d) s[fixed++] = ALPHA[*d - '0'];
	if (n > fixed) { size_t m = 1; for (size_t i = fixed; i < n; ++i) m *= A; size_t v = x.choose(m); for (size_t i = n; i-- > fixed;) { s[i] = ALPHA[v % A]; v /= A; } }
	size_t ci = x.choose(ncomp(n));
	static std::vector<size_t> parts, lens;
	composition(n, ci, parts);

	static std::string refjob; static uint8_t refs[16]; static size_t refn = ~(size_t) 0; static Sink k;
	static Frags ref, f;
	Case c(r); c.s = s; c.n = n; c.lens = &lens;
	asan_error();
	if (refn != n || refjob != job || memcmp(refs, s, n)) {
		lens.assign(1, n);
		ref.build(s, lens);
		k.start_ref(); c.isref = true; c.form = "contiguous";
		if (search) ops_search(c, k, ref.vec, ref.nv);
		else { mpt::message m = ref.msg(1); ops_read(c, k, m, n, false); ops_argv(c, k, m); }
		refjob = job; refn = n; memcpy(refs, s, n); c.isref = false;
	}
	bool quote = false; for (size_t i = 0; i < n; ++i) if (s[i] == '"') quote = true;
	// at the longest thorough length only one empty fragment is inserted (two up to length 5)
	int E = n > 5 ? 1 : b.E;
	for (const std::vector<uint8_t> &z : zero_places(parts.size(), E)) {
		with_zeros(parts, z, lens);
		bool hasz = false; for (size_t l : lens) if (!l) hasz = true;
		f.build(s, lens);
		if (r.replaying) r.note("input %s cut as %s", show(s, n).c_str(), show_cut(s, lens).c_str());
		if (hasz) ++P.zbase_unreadable;
		if (search) {
			c.form = "iovec list"; k.start_cmp();
			ops_search(c, k, f.vec, f.nv);
			count_case(r, lens, 1); ++P.list_form;
			if (hasz) {   // second variant: the empty fragments point at a readable LF
				f.build(s, lens, 1);
				c.form = "iovec list, empty fragments based on a foreign LF byte"; k.start_cmp();
				ops_search(c, k, f.vec, f.nv);
				count_case(r, lens, 1); ++P.list_form; ++P.zbase_newline;
			}
			if (lens.size() == 3 && n == 3 && lens[1] == 0) r.sample("search: " + show_cut(s, lens) + " x {memchr/memrchr 9 tokens, memfcn/memrfcn 6 predicates, memstr/memrstr 6 sets, memtok 45 (tok,com,esc) combinations} vs " + show(s, n));
			continue;
		}
		size_t first = 0; for (size_t l : lens) if (l) { first = l; break; }
		bool spaceb = false; { size_t p = 0; for (size_t l : lens) { p += l; if (l && p < n && isspace(s[p - 1])) spaceb = true; } }
		for (int form = 0; form < 2; ++form) {
			if (form && lens.empty()) continue;
			c.form = form ? "message, first part inline" : "message, pure iovec list"; k.start_cmp();
			mpt::message m = f.msg(form);
			ops_read(c, k, m, first, false);
			ops_argv(c, k, m);
			count_case(r, lens, 1); ++(form ? P.inline_form : P.list_form);
			if (spaceb) ++P.trim_cross;
			if (quote && lens.size() > 1) ++P.quote_cross;
		}
		if (lens.size() == 3 && n == 4 && lens[1] == 0) r.sample("argv: " + show_cut(s, lens) + " as list and inline message x {length, read(all), argv/iterated argv/array_message for sep NUL,SP,'b',':'} vs " + show(s, n));
	}
	r.transitions += c.evals;
}

// ---- data-oblivious groups: position labelled bytes
static void label(uint8_t *s, size_t n) { for (size_t i = 0; i < n; ++i) s[i] = (uint8_t) ('A' + i); }

static void body_read(Run &r, const std::string &job, Ctx &x)
{
	Bounds b = bounds(r.tier);
	size_t n = jobnum(job, "n=");
	uint8_t s[32]; label(s, n);
	size_t ci = x.choose(ncomp(n));
	static std::vector<size_t> parts, lens;
	composition(n, ci, parts);
	static Sink k; static size_t refn = ~(size_t) 0; static Frags ref, f;
	Case c(r); c.s = s; c.n = n; c.lens = &lens;
	asan_error();
	if (refn != n) { lens.assign(1, n); ref.build(s, lens); k.start_ref(); c.isref = true; ops_read(c, k, ref.msg(1), n, true); c.isref = false; refn = n; }
	for (const std::vector<uint8_t> &z : zero_places(parts.size(), b.Eread)) {
		with_zeros(parts, z, lens);
		f.build(s, lens);
		if (r.replaying) r.note("input %s cut as %s", show(s, n).c_str(), show_cut(s, lens).c_str());
		size_t first = 0; for (size_t l : lens) if (l) { first = l; break; }
		for (int form = 0; form < 2; ++form) {
			if (form && lens.empty()) continue;
			c.form = form ? "message, first part inline" : "message, pure iovec list"; k.start_cmp();
			ops_read(c, k, f.msg(form), first, true);
			count_case(r, lens, 1); ++(form ? P.inline_form : P.list_form);
		}
		if (lens.size() == 4 && n == 5 && lens[2] == 0) r.sample("read: " + show_cut(s, lens) + " x {length, read(len 0..n+1, dest|NULL), all chained read(l1);read(l2);drain} vs " + show(s, n));
	}
	r.transitions += c.evals;
}

// case vector: [source composition, target size, target composition]
static void body_memcpy(Run &r, const std::string &job, Ctx &x)
{
	Bounds b = bounds(r.tier);
	size_t n = jobnum(job, "n=");
	uint8_t s[32]; label(s, n);
	static std::vector<size_t> sp, dp, sl, dl;
	composition(n, x.choose(ncomp(n)), sp);
	size_t m = x.choose(n + 2);
	composition(m, x.choose(ncomp(m)), dp);
	static Sink refs[40]; static bool have[40]; static size_t refn = ~(size_t) 0;
	static Frags src, dst;
	if (refn != n) { for (bool &h : have) h = false; refn = n; }
	Sink &k = refs[m];
	Case c(r); c.s = s; c.n = n; c.lens = &sl;
	r.hint("mpt_memcpy");
	asan_error();
	auto run = [&]() {
		uint8_t out[64];
		for (ssize_t len = -2; len <= (ssize_t) n + 1; ++len) {
			dst.refill();     // fresh target each time
			ssize_t ret = mpt::mpt_memcpy(len, src.vec, src.nv, dst.vec, dst.nv);
			size_t on = dst.flat(out);
			if (!c.isref && ret > 0 && src.nv > 1 && dst.nv > 1) ++P.memcpy_both;
			if (!c.isref && len < 0 && ret >= 0 && (size_t) ret < n) ++P.memcpy_partial;
			k.begin(); k.num(ret); k.bytes(out, on);
			CLOSE("mpt_memcpy", "", len < 0 ? "len<0" : (len == 0 ? "len=0" : ((size_t) len > n ? "len>source" : ((size_t) len > m ? "len>target" : "len-fits"))),
			      fmt("mpt_memcpy(len=%zd) into target of %zu bytes cut as %s", len, m, show_cut((const uint8_t *) std::string(m, '.').data(), dst.lens).c_str()));
		}
	};
	if (!have[m]) {
		sl.assign(1, n); dl.assign(1, m);
		src.build(s, sl); dst.build(0, dl); k.start_ref(); c.isref = true; run(); c.isref = false; have[m] = true;
	}
	for (const std::vector<uint8_t> &zs : zero_places(sp.size(), b.Ecpy)) for (const std::vector<uint8_t> &zd : zero_places(dp.size(), b.Ecpy)) {
		with_zeros(sp, zs, sl); with_zeros(dp, zd, dl);
		// the empty byte string given as NO fragment at all (the composition of 0) is compared like any other cut
		if (sl.empty() || dl.empty()) ++P.memcpy_nolist;
		src.build(s, sl); dst.build(0, dl);
		if (r.replaying) r.note("source %s, target %zu bytes in %zu fragments", show_cut(s, sl).c_str(), m, dl.size());
		c.form = "iovec list"; k.start_cmp();
		run();
		r.states += 1; if (sl.size() >= 2 || dl.size() >= 2) ++P.nontrivial;
		for (size_t l : sl) if (!l) { ++P.with_empty; break; }
		if (sl.size() == 3 && dl.size() == 2 && n == 4 && m == 4 && sl[1] == 0) r.sample("memcpy: source " + show_cut(s, sl) + fmt(" -> target fragments of %zu+%zu bytes, len -2..n+1", dl[0], dl[1]) + " vs contiguous source and target");
	}
	r.transitions += c.evals;
}

// mpt_message_append: a message whose clen is 0 is run in a forked child (cached), because the
// historic loop `while (--clen)` ran away for it; everything else runs in-process.
static std::string append_blob(const mpt::message &m, int prefill, bool *asan)
{
	mpt::array a;
	if (prefill) mpt::mpt_array_append(&a, 2, "XY");
	asan_error();
	int ret = mpt::mpt_message_append(&a, &m);
	*asan = asan_error();
	Sink k; k.begin(); k.num(ret);
	mpt::array::content *b = a._buf.instance();
	if (b) k.bytes(b->data(), b->_used); else k.num(-1);
	std::string out = k.blob();
	mpt::mpt_array_clone(&a, 0);
	return out;
}
static std::string append_guarded(const mpt::message &m, int prefill)
{
	return in_child([&]() { bool as = false; std::string o = append_blob(m, prefill, &as); return (as ? std::string("A") : std::string("R")) + o; }, 5);
}
// case vector: [length, array prefilled?, composition]
static void body_append(Run &r, const std::string &, Ctx &x)
{
	Bounds b = bounds(r.tier);
	size_t n = x.choose(b.Lapp + 1);
	int prefill = (int) x.choose(2);
	uint8_t s[32]; label(s, n);
	static std::vector<size_t> parts, lens;
	composition(n, x.choose(ncomp(n)), parts);
	static std::map<std::pair<size_t, int>, std::string> refs;
	static Frags one, f;
	Case c(r); c.s = s; c.n = n; c.lens = &lens;
	r.hint("mpt_message_append");
	auto key = std::make_pair(n, prefill);
	std::string acls = prefill ? "array-with-content" : "empty-array";
	if (!refs.count(key)) {
		lens.assign(1, n); one.build(s, lens);
		std::string o = append_guarded(one.msg(1), prefill);
		refs[key] = o; ++c.evals;
		c.isref = true;
		if (o.empty() || o[0] == '\x01') c.fail("mpt_message_append", "", acls, "fault", fmt("mpt_message_append(msg{used=%zu,clen=0}) on ", n) + c.where() + ": call does not return (crash or runaway loop in a forked child)");
		else if (o[0] == 'A') c.fail("mpt_message_append", "", acls, "asan", "mpt_message_append on " + c.where() + ": access outside the message (AddressSanitizer)");
		c.isref = false;
	}
	const std::string &ref = refs[key];
	bool haveref = !ref.empty() && ref[0] == 'R';
	for (const std::vector<uint8_t> &z : zero_places(parts.size(), b.Eread)) {
		with_zeros(parts, z, lens);
		f.build(s, lens);
		if (r.replaying) r.note("input %s cut as %s, array %s", show(s, n).c_str(), show_cut(s, lens).c_str(), acls.c_str());
		for (int form = 0; form < 2; ++form) {
			if (form && lens.empty()) continue;
			c.form = form ? "message, first part inline" : "message, pure iovec list";
			mpt::message m = f.msg(form);
			std::string got; bool as = false;
			if (m.clen == 0) { std::string o = append_guarded(m, prefill); if (o.empty() || o[0] == '\x01') { c.fail("mpt_message_append", "clen=0", acls, "fault", "mpt_message_append on " + c.where() + ": call does not return (crash or runaway loop in a forked child)"); continue; } as = o[0] == 'A'; got = o.substr(1); }
			else got = append_blob(m, prefill, &as);
			++c.evals;
			count_case(r, lens, 1); ++(form ? P.inline_form : P.list_form);
			if (lens.size() > 1) ++P.append_multi;
			if (as) c.fail("mpt_message_append", "", acls, "asan", "mpt_message_append on " + c.where() + ": access outside the message (AddressSanitizer)");
			else if (!haveref) r.count("append_without_reference(contiguous call faulted)");
			else if (got != ref.substr(1)) c.fail("mpt_message_append", "", acls, "wrong-result", "mpt_message_append on " + c.where() + ": fragmented form gives {" + Sink::decode((const uint8_t *) got.data(), got.size()) + "}, contiguous form gives {" + Sink::decode((const uint8_t *) ref.data() + 1, ref.size() - 1) + "}");
		}
		if (lens.size() == 3 && n == 4 && lens[0] == 0) r.sample("append: " + show_cut(s, lens) + " appended to an " + acls + " as list and inline message vs " + show(s, n));
	}
	r.transitions += c.evals;
}

// ---- mpt_message_append that has to FAIL: one fragment claims an absurd length (its base is an exactly sized
// 1-byte block, so the allocation for it fails before a byte can be copied; any read of the claimed range would be an
// ASan report).  The fragmented form (leading small fragments, the oversized one at every position, trailing ones)
// must behave like the contiguous message of the same total length: same result, array content as before the call.
// case vector: [small length, array state, composition, oversize index]; position of the oversized fragment, the
// placement of one zero-length fragment and both message forms are enumerated inside the case
static const size_t OVERSIZE[3] = { (size_t) -1 / 2, (size_t) -1 / 4, (size_t) 1 << 44 };
struct ArrState { std::string before; };
static void arr_prepare(mpt::array &a, int state)
{
	// 0: no buffer at all   1: some content, room left   2: buffer exactly full (next append has to relocate it)
	if (!state) return;
	mpt::mpt_array_append(&a, 2, "XY");
	if (state == 2) { mpt::array::content *b = a._buf.instance(); size_t left = b->_size - b->_used; std::string fill(left, 'f'); if (left) mpt::mpt_array_append(&a, left, fill.data()); }
}
static std::string arr_content(const mpt::array &a)
{
	mpt::array::content *b = a._buf.instance();
	return b ? std::string((const char *) b->data(), b->_used) : std::string();
}
static std::string append_fail_blob(const mpt::message &m, int state, bool *asan, bool *relocated)
{
	mpt::array a; arr_prepare(a, state);
	std::string before = arr_content(a);
	const void *b0 = a._buf.instance();
	asan_error();
	int ret = mpt::mpt_message_append(&a, &m);
	*asan = asan_error();
	if (relocated) *relocated = b0 && a._buf.instance() != b0;
	std::string after = arr_content(a);
	Sink k; k.begin(); k.num(ret); k.num((int64_t) after.size()); k.num(after == before ? 1 : 0); k.num((int64_t) fnv(after.data(), after.size())); k.bytes(after.data(), after.size() > 40 ? 40 : after.size());
	std::string out = k.blob();
	mpt::mpt_array_clone(&a, 0);
	return out;
}
static void body_append_fail(Run &r, const std::string &, Ctx &x)
{
	size_t N = r.tier == Quick ? 4 : 5;
	size_t n = x.choose(N + 1);
	int state = (int) x.choose(3);
	uint8_t s[32]; label(s, n);
	static std::vector<size_t> parts, lens;
	composition(n, x.choose(ncomp(n)), parts);
	size_t bi = x.choose(3), big = OVERSIZE[bi];
	static std::map<std::vector<size_t>, std::string> refs;
	static Frags one, f;
	Case c(r); c.s = s; c.n = n; c.lens = &lens;
	r.hint("mpt_message_append(oversized fragment)");
	static const char *stn[] = {"array-without-buffer", "array-with-content", "array-buffer-exactly-full"};
	std::string acls = std::string(stn[state]) + ",oversized-fragment";
	std::vector<size_t> key; key.push_back(n); key.push_back(state); key.push_back(bi);
	if (!refs.count(key)) {
		// contiguous form: one part of n + big bytes based on the exactly sized n-byte block (forked: historic clen==0 runaway)
		lens.assign(1, n); one.build(s, lens);
		mpt::message m = one.msg(1); m.used = n + big;
		std::string o = in_child([&]() { bool as = false; std::string b = append_fail_blob(m, state, &as, 0); return (as ? std::string("A") : std::string("R")) + b; }, 5);
		refs[key] = o; ++c.evals;
		c.isref = true;
		if (o.empty() || o[0] == '\x01') c.fail("mpt_message_append", "", acls, "fault", fmt("mpt_message_append(msg{used=%zu+%zu,clen=0}) does not return (forked child)", n, big));
		else if (o[0] == 'A') c.fail("mpt_message_append", "", acls, "asan", fmt("mpt_message_append(msg{used=%zu+%zu,clen=0}) on %s: the claimed range / array was accessed outside its blocks (AddressSanitizer)", n, big, stn[state]));
		c.isref = false;
	}
	const std::string &ref = refs[key];
	bool haveref = !ref.empty() && ref[0] == 'R';
	for (const std::vector<uint8_t> &z : zero_places(parts.size(), 1)) {
		with_zeros(parts, z, lens);
		size_t nsmall = lens.size();
		for (size_t pos = 0; pos <= nsmall; ++pos) {
			f.build(s, lens);
			// insert the oversized fragment at index pos (new exactly sized iovec array, 1-byte block as base)
			struct iovec *v2 = (struct iovec *) f.get((nsmall + 1) * sizeof *v2);
			for (size_t i = 0, j = 0; i <= nsmall; ++i) { if (i == pos) { v2[i].iov_base = f.get(1); *(uint8_t *) v2[i].iov_base = '!'; v2[i].iov_len = big; } else v2[i] = f.vec[j++]; }
			f.vec = v2; f.nv = nsmall + 1;
			size_t before_big = 0; for (size_t i = 0; i < pos; ++i) before_big += lens[i];
			std::string cut; { size_t p = 0; for (size_t i = 0, j = 0; i <= nsmall; ++i) { if (i) cut += " + "; if (i == pos) cut += fmt("<%zu bytes claimed>", big); else { cut += show(s + p, lens[j]); p += lens[j++]; } } }
			if (r.replaying) r.note("message %s, %s", cut.c_str(), stn[state]);
			for (int form = 0; form < 2; ++form) {
				c.form = form ? "message, first part inline" : "message, pure iovec list";
				mpt::message m = f.msg(form);
				bool as = false, reloc = false;
				std::string got = append_fail_blob(m, state, &as, &reloc);
				++c.evals; ++r.states; ++P.nontrivial; ++(form ? P.inline_form : P.list_form);
				if (before_big) { ++P.append_fail_late; if (reloc) ++P.append_fail_reloc; }
				std::string where = cut + " (" + c.form + ") onto " + stn[state];
				std::string sig_i = before_big ? "after-leading-fragments" : "first-data";
				if (as) { c.isref = false; c.fail("mpt_message_append", sig_i, acls, "asan", "mpt_message_append on " + where + ": access outside the message blocks / stale array buffer (AddressSanitizer)"); }
				else if (!haveref) r.count("append_without_reference(contiguous call faulted)");
				else if (got != ref.substr(1)) c.fail("mpt_message_append", sig_i, acls, "wrong-result", "mpt_message_append on " + where + ": {result, array length, unchanged?, hash, bytes} fragmented form gives {" + Sink::decode((const uint8_t *) got.data(), got.size()) + "}, contiguous form of the same total length gives {" + Sink::decode((const uint8_t *) ref.data() + 1, ref.size() - 1) + "}");
			}
			if (n == 3 && pos == 2 && nsmall == 2 && state == 2 && bi == 0) r.sample("append-fail: " + cut + " onto an array whose buffer is exactly full, as list and inline message, vs one part of the same total length");
		}
	}
	r.transitions += c.evals;
}

// ---- encode_array::push(const message &): the C++ "append a message to an (encoding) array".
// Strings over {x, NUL} (NUL matters to the COBS encoder), all cuts, both message forms, raw and COBS encoded array,
// fresh array and array that already holds a finished message.  Result = {push(msg), terminating push(0,0), finished
// bytes, done, scratch}.  The contiguous reference runs in a forked child (historically it never returned); once a
// reference call faulted the job stops evaluating (the violating execution is not expanded).
static std::string epush_blob(const mpt::message &m, int enc, int pre, bool *asan)
{
	mpt::encode_array a(enc ? (mpt::data_encoder_t) mpt::mpt_encode_cobs : (mpt::data_encoder_t) 0);
	if (pre) { a.push(1, "P"); a.push(0, 0); }
	asan_error();
	bool ok = a.push(m);
	ssize_t fin = a.push(0, 0);
	*asan = asan_error();
	mpt::span<const uint8_t> d = a.data();
	Sink k; k.begin(); k.num(ok ? 1 : 0); k.num(fin); k.num((int64_t) a._state.done); k.num((int64_t) a._state.scratch); k.bytes(d.begin(), d.size());
	return k.blob();
}
static void body_epush(Run &r, const std::string &job, Ctx &x)
{
	Bounds b = bounds(r.tier);
	size_t n = jobnum(job, "n=");
	uint8_t s[16];
	{ size_t v = x.choose((size_t) 1 << n); for (size_t i = 0; i < n; ++i) s[i] = (v >> i & 1) ? 0 : 'x'; }
	int enc = (int) x.choose(2), pre = (int) x.choose(2);
	static std::vector<size_t> parts, lens;
	composition(n, x.choose(ncomp(n)), parts);
	static std::map<std::string, std::string> refs; static bool broken = false;
	static Frags one, f;
	Case c(r); c.s = s; c.n = n; c.lens = &lens;
	r.hint("encode_array::push(message)");
	std::string acls = std::string(enc ? "cobs-encoder" : "raw") + (pre ? ",array-with-finished-message" : ",fresh-array");
	if (broken) { r.count("epush_skipped_after_reference_fault"); return; }
	std::string key = std::string((const char *) s, n) + char('0' + enc) + char('0' + pre);
	if (!refs.count(key)) {
		lens.assign(1, n); one.build(s, lens);
		mpt::message m = one.msg(1);
		std::string o = in_child([&]() { bool as = false; std::string bl = epush_blob(m, enc, pre, &as); return (as ? std::string("A") : std::string("R")) + bl; }, 3);
		refs[key] = o; ++c.evals;
		c.isref = true;
		if (o.empty() || o[0] == '\x01') { broken = true; c.fail("encode_array::push(message)", "", acls, "fault", "encode_array::push(message(" + show(s, n) + fmt(", %zu)) does not return (forked child, 3 s)", n)); }
		else if (o[0] == 'A') c.fail("encode_array::push(message)", "", acls, "asan", "encode_array::push on " + c.where() + ": access outside the message (AddressSanitizer)");
		c.isref = false;
		if (broken) return;
	}
	const std::string &ref = refs[key];
	int E = n > 5 ? 1 : b.E;
	for (const std::vector<uint8_t> &z : zero_places(parts.size(), E)) {
		with_zeros(parts, z, lens);
		f.build(s, lens);
		if (r.replaying) r.note("input %s cut as %s, %s", show(s, n).c_str(), show_cut(s, lens).c_str(), acls.c_str());
		for (int form = 0; form < 2; ++form) {
			if (form && lens.empty()) continue;
			c.form = form ? "message, first part inline" : "message, pure iovec list";
			mpt::message m = f.msg(form);
			bool as = false;
			std::string got = epush_blob(m, enc, pre, &as);
			++c.evals; count_case(r, lens, 1); ++(form ? P.inline_form : P.list_form);
			if (lens.size() > 1 && n) ++P.epush_multi;
			if (!m.used && n) ++P.epush_leading_empty;
			if (enc && lens.size() > 1) ++P.epush_encoded;
			if (as) c.fail("encode_array::push(message)", "", acls, "asan", "encode_array::push on " + c.where() + ": access outside the message (AddressSanitizer)");
			else if (got != ref.substr(1)) c.fail("encode_array::push(message)", "", acls, "wrong-result", "encode_array::push on " + c.where() + ": {push, terminate, done, scratch, finished bytes} fragmented form gives {" + Sink::decode((const uint8_t *) got.data(), got.size()) + "}, contiguous form gives {" + Sink::decode((const uint8_t *) ref.data() + 1, ref.size() - 1) + "}");
		}
		if (lens.size() == 3 && n == 3 && lens[0] == 0 && enc && !pre) r.sample("epush: encode_array(COBS).push(message " + show_cut(s, lens) + ") ; push(0,0) as list and inline message vs " + show(s, n));
	}
	r.transitions += c.evals;
}

// ---- graphic::target() / graphic::get_item(): consumers that find ':' in a length limited message by walking
// base/cont themselves.  Strings over {a b : 1}, every limit 0..n+1, all cuts, both forms; graphic with one layout "ab".
static void ops_graphic(Case &c, Sink &k, const mpt::graphic &g, mpt::layout *lay, const mpt::message &m0, const struct iovec *v, size_t nv, bool inlineform)
{
	size_t n = c.n;
	c.r.hint("graphic::target");
	for (size_t len = 0; len <= n + 1; ++len) {
		if (!c.isref && len < n) { size_t first = inlineform && nv ? v[0].iov_len : 0; if (len > first && nv > 1) ++P.gr_limit_in_cont; }
		{
			mpt::message m = m0; mpt::laydest d(0, 0, 0, 0);
			int ret = g.target(d, m, len);
			k.begin(); k.num(ret); k.num(d.lay); k.num(d.grf); k.num(d.wld); k.num(d.dim); put_rest(k, n, m);
			CLOSE("graphic::target", "", len == 0 ? "len=0" : (len < n ? "limit<total" : (len == n ? "limit=total" : "limit>total")), fmt("graphic::target(len=%zu)", len));
		}
		{
			c.r.hint("graphic::get_item");
			mpt::message m = m0;
			mpt::convertable *it = g.get_item(m, len);
			k.begin(); k.num(!it ? 0 : (it == static_cast<mpt::convertable *>(lay) ? 1 : 2)); put_rest(k, n, m);
			if (!c.isref && it && nv > 1) ++P.gr_item_found;
			CLOSE("graphic::get_item", "", len == 0 ? "len=0" : (len < n ? "limit<total" : (len == n ? "limit=total" : "limit>total")), fmt("graphic::get_item(len=%zu)", len));
			c.r.hint("graphic::target");
		}
	}
}
static void body_graphic(Run &r, const std::string &job, Ctx &x)
{
	static const uint8_t GA[4] = {'a', 'b', ':', '1'};
	Bounds b = bounds(r.tier);
	size_t n = jobnum(job, "n=");
	uint8_t s[16];
	{ size_t m = 1; for (size_t i = 0; i < n; ++i) m *= 4; size_t v = x.choose(m); for (size_t i = n; i-- > 0;) { s[i] = GA[v % 4]; v /= 4; } }
	static std::vector<size_t> parts, lens;
	composition(n, x.choose(ncomp(n)), parts);
	static mpt::graphic *g = 0; static mpt::layout *lay = 0;
	if (!g) { g = new mpt::graphic; lay = new mpt::layout; lay->set_alias("ab"); g->add_layout(lay); }
	static uint8_t refs[16]; static size_t refn = ~(size_t) 0; static Sink k; static Frags ref, f;
	Case c(r); c.s = s; c.n = n; c.lens = &lens;
	asan_error();
	if (refn != n || memcmp(refs, s, n)) {
		lens.assign(1, n); ref.build(s, lens);
		k.start_ref(); c.isref = true; ops_graphic(c, k, *g, lay, ref.msg(1), ref.vec, ref.nv, true); c.isref = false;
		refn = n; memcpy(refs, s, n);
	}
	int E = n > 5 ? 1 : b.E;
	for (const std::vector<uint8_t> &z : zero_places(parts.size(), E)) {
		with_zeros(parts, z, lens);
		f.build(s, lens);
		if (r.replaying) r.note("input %s cut as %s", show(s, n).c_str(), show_cut(s, lens).c_str());
		for (int form = 0; form < 2; ++form) {
			if (form && lens.empty()) continue;
			c.form = form ? "message, first part inline" : "message, pure iovec list"; k.start_cmp();
			ops_graphic(c, k, *g, lay, f.msg(form), f.vec, f.nv, form != 0);
			count_case(r, lens, 1); ++(form ? P.inline_form : P.list_form);
		}
		if (lens.size() == 2 && n == 4 && lens[0] == 1 && s[2] == ':') r.sample("graphic: target/get_item(limit 0..n+1) on " + show_cut(s, lens) + " (layout alias \"ab\" registered) vs " + show(s, n));
	}
	r.transitions += c.evals;
}

// mpt_message_get: every ring state (max,off,len) x (offset,take); reference = same content stored unwrapped (off=0)
static void body_qget(Run &r, const std::string &job, Ctx &x)
{
	size_t max = jobnum(job, "max=");
	size_t off = x.choose(max), len = x.choose(max + 1);
	bool wraps = off + len > max;
	Case c(r); uint8_t s[64]; label(s, len); c.s = s; c.n = len;
	std::vector<size_t> lens; if (wraps) { lens.push_back(max - off); lens.push_back(len - (max - off)); } else lens.push_back(len);
	c.lens = &lens; c.form = "queue";
	r.hint("mpt_message_get");
	uint8_t *st[2]; mpt::queue q[2];
	for (int i = 0; i < 2; ++i) {
		st[i] = (uint8_t *) malloc(max); memset(st[i], FILL, max);
		q[i].base = st[i]; q[i].max = max; q[i].len = len; q[i].off = i ? off : 0;
		for (size_t j = 0; j < len; ++j) st[i][(q[i].off + j) % max] = s[j];
	}
	if (r.replaying) r.note("queue max=%zu off=%zu len=%zu content %s", max, off, len, show(s, len).c_str());
	asan_error();
	const size_t seg1 = wraps ? max - off : len;     // size of the first (pre-wrap) segment of the stored queue
	for (size_t qo = 0; qo <= len + 1; ++qo) for (size_t take = 0; take <= len + 1; ++take) for (int withvec = 1; withvec >= 0; --withvec) {
		std::string res[2]; int rets[2];
		const bool valid = qo <= len && take <= len - qo;
		const bool atwrap = wraps && qo == seg1;
		std::string acls = take == 0 ? "take=0" : (qo + take > len ? "beyond-content" : (wraps && qo < seg1 && qo + take > seg1 ? "crossing-wrap" : (atwrap ? "at-wrap-point" : "in-segment")));
		std::string desc = fmt("mpt_message_get(off=%zu,take=%zu,%s) on queue(max=%zu,off=%zu,len=%zu)", qo, take, withvec ? "vec" : "NULL", max, off, len);
		for (int i = 0; i < 2; ++i) {
			mpt::message m; struct iovec *vec = withvec ? (struct iovec *) malloc(sizeof *vec) : 0;
			if (vec) { vec->iov_base = 0; vec->iov_len = 0; }
			int ret = mpt::mpt_message_get(&q[i], qo, take, &m, vec);
			rets[i] = ret; ++c.evals;
			Sink k; k.begin(); k.num(ret < 0 ? -1 : 0);
			if (ret >= 0) {
				if (i && ret > 0) ++P.qget_two;
				k.num((int64_t) mpt::mpt_message_length(&m));
				uint8_t *d = (uint8_t *) malloc(take); if (take) memset(d, FILL, take);
				mpt::message m2 = m; size_t got = mpt::mpt_message_read(&m2, take, d);
				k.num((int64_t) got); k.bytes(d, take); free(d);
			}
			res[i] = k.blob();
			// result shape: one piece exactly when the requested range lies inside one storage segment (so no iovec is
			// needed then), two non-empty pieces only when it really crosses the wrap, never an empty first piece
			if (valid) {
				const bool crossing = i && wraps && qo < seg1 && qo + take > seg1;
				const char *which = i ? "stored queue" : "unwrapped copy";
				std::string shape;
				if (ret >= 0) shape = fmt("returns %d, msg.used=%zu, clen=%zu%s", ret, m.used, m.clen, m.clen == 1 && m.cont ? fmt(", cont.iov_len=%zu", m.cont->iov_len).c_str() : "");
				else shape = fmt("returns %d", ret);
				bool ok;
				if (crossing) {
					++P.qget_cross;
					if (!withvec) { ok = ret == -3; if (ok) r.count("qget_refused_without_vec(range crosses the wrap: documented, not flagged)"); }
					else ok = ret == 1 && m.clen == 1 && m.used == seg1 - qo && m.cont == vec && vec->iov_len == take - m.used && m.used && vec->iov_len;
				} else {
					if (i && atwrap && take) ++P.qget_atwrap;
					if (!withvec && i && wraps) ++P.qget_novec_ok;
					ok = ret == 0 && m.used == take && m.clen == 0;
				}
				if (!ok) c.fail("mpt_message_get", i ? (wraps ? "wrapped" : "linear") : "unwrapped-copy", acls, "wrong-shape",
				                desc + ": " + which + " " + shape + "; expected " + (crossing ? (withvec ? fmt("1 with used=%zu and cont.iov_len=%zu", seg1 - qo, take - (seg1 - qo)) : std::string("-3 (two pieces need an iovec)")) : fmt("0 with used=%zu and no continuation (range lies in one segment)", take)));
			}
			free(vec);
		}
		if (asan_error()) c.fail("mpt_message_get", wraps ? "wrapped" : "", acls, "asan", desc + ": access outside the queue storage (AddressSanitizer)");
		else if (res[0] != res[1]) {
			if (!withvec && rets[1] == -3 && rets[0] >= 0) { /* judged by the shape rule above */ }
			else c.fail("mpt_message_get", wraps ? "wrapped" : "", acls, "wrong-result", desc + ": stored queue gives {" + Sink::decode((const uint8_t *) res[1].data(), res[1].size()) + "}, same content unwrapped gives {" + Sink::decode((const uint8_t *) res[0].data(), res[0].size()) + "}");
		}
		// C++ front end: decode_queue::current_message() without / with continuation vector on the same state
		{
			r.hint("decode_queue::current_message");
			const bool crossing = wraps && qo < seg1 && qo + take > seg1;
			mpt::decode_queue dq(0);
			dq.base = q[1].base; dq.max = q[1].max; dq.len = q[1].len; dq.off = q[1].off;
			dq._state.data.pos = qo; dq._state.data.msg = (ssize_t) take;
			mpt::message m; struct iovec *vec = withvec ? (struct iovec *) malloc(sizeof *vec) : 0;
			bool got = withvec ? dq.current_message(m, vec) : dq.current_message(m);
			++c.evals;
			bool want = valid && (withvec || !crossing);
			bool shape_ok = !got || (crossing ? (m.clen == 1 && m.used == seg1 - qo && m.used + vec->iov_len == take) : (m.used == take && m.clen == 0));
			if (got && !crossing && !withvec && wraps) ++P.qget_cxx_novec;
			if (asan_error()) c.fail("decode_queue::current_message", wraps ? "wrapped" : "linear", acls, "asan", desc + " via decode_queue: access outside the queue storage (AddressSanitizer)");
			else if (got != want || !shape_ok)
				c.fail("decode_queue::current_message", wraps ? "wrapped" : "linear", acls, got != want ? "wrong-result" : "wrong-shape",
				       fmt("decode_queue(max=%zu,off=%zu,len=%zu; message pos=%zu,len=%zu).current_message(msg%s) gives %s (used=%zu, clen=%zu), expected %s%s", max, off, len, qo, take, withvec ? ", cont" : "", got ? "true" : "false", m.used, m.clen, want ? "true" : "false", want ? (crossing ? " in two pieces" : " in one piece") : ""));
			free(vec);
			dq.base = 0; dq.max = dq.len = dq.off = 0;
			r.hint("mpt_message_get");
		}
	}
	free(st[0]); free(st[1]);
	r.states += 1; if (wraps) ++P.nontrivial;
	if (max == 5 && off == 3 && len == 4) r.sample("qget: queue(max=5,off=3,len=4 wrapped) x all (offset,take) in 0..len+1, message read back, vs the same content stored at off=0; result shape (one piece inside a segment, two only across the wrap); decode_queue::current_message with/without cont");
	r.transitions += c.evals;
}

static void body(Run &r, const std::string &job, Ctx &x)
{
	if (job.compare(0, 7, "search/") == 0) body_string(r, job, x, true);
	else if (job.compare(0, 5, "argv/") == 0) body_string(r, job, x, false);
	else if (job.compare(0, 5, "read/") == 0) body_read(r, job, x);
	else if (job.compare(0, 7, "memcpy/") == 0) body_memcpy(r, job, x);
	else if (job == "append") body_append(r, job, x);
	else if (job == "append-fail") body_append_fail(r, job, x);
	else if (job.compare(0, 8, "graphic/") == 0) body_graphic(r, job, x);
	else if (job.compare(0, 6, "epush/") == 0) body_epush(r, job, x);
	else if (job.compare(0, 5, "qget/") == 0) body_qget(r, job, x);
}

void mc_explore(Run &r, const std::string &job)
{
	memset(&P, 0, sizeof P);
	const char *req[] = {"nontrivial", "cases_with_zero_length_fragment", "form_inline_first_part", "form_pure_iovec_list", "search_hit_beyond_first_fragment",
	                     "memtok_comment_started_in_earlier_fragment", "memtok_comment_ended_by_newline_in_later_fragment", "memtok_zero_length_fragment_inside_comment", "empty_fragment_base_unreadable", "empty_fragment_base_foreign_newline", "argv_space_at_fragment_end", "argv_quoted_input_fragmented", "argv_iterated_more_than_one_argument",
	                     "array_message_more_than_one_argument", "read_crossing_fragment_boundary", "memcpy_source_and_target_fragmented", "memcpy_open_length_partial",
	                     "append_multi_fragment", "append_fails_after_leading_fragments_went_in", "graphic_limit_ends_inside_continuation", "graphic_get_item_found_fragmented", "memcpy_zero_fragment_list_compared", "encode_array_push_message_multi_fragment", "encode_array_push_message_empty_first_part", "encode_array_push_message_with_encoder", "qget_two_part_message", "qget_range_crossing_wrap", "qget_offset_exactly_at_wrap_point", "qget_wrapped_one_piece_without_vec", "decode_queue_current_message_wrapped_one_piece_without_cont"};
	for (const char *q : req) r.require(q);
	dfs(r, [&](Ctx &x) { body(r, job, x); });
	r.count("nontrivial", P.nontrivial); r.count("cases_with_zero_length_fragment", P.with_empty);
	r.count("form_inline_first_part", P.inline_form); r.count("form_pure_iovec_list", P.list_form);
	r.count("search_hit_beyond_first_fragment", P.beyond_first); r.count("memtok_comment_started_in_earlier_fragment", P.tok_comment_cross); r.count("memtok_comment_ended_by_newline_in_later_fragment", P.tok_newline_cross); r.count("memtok_zero_length_fragment_inside_comment", P.tok_empty_in_comment);
	r.count("empty_fragment_base_unreadable", P.zbase_unreadable); r.count("empty_fragment_base_foreign_newline", P.zbase_newline);
	r.count("argv_space_at_fragment_end", P.trim_cross); r.count("argv_quoted_input_fragmented", P.quote_cross);
	r.count("argv_iterated_more_than_one_argument", P.argv_multi); r.count("array_message_more_than_one_argument", P.array_args);
	r.count("read_crossing_fragment_boundary", P.read_cross);
	r.count("memcpy_source_and_target_fragmented", P.memcpy_both); r.count("memcpy_open_length_partial", P.memcpy_partial);
	r.count("append_multi_fragment", P.append_multi); r.count("append_fails_after_leading_fragments_went_in", P.append_fail_late); r.count("append_fails_after_buffer_was_relocated", P.append_fail_reloc);
 r.count("graphic_limit_ends_inside_continuation", P.gr_limit_in_cont); r.count("graphic_get_item_found_fragmented", P.gr_item_found); r.count("memcpy_zero_fragment_list_compared", P.memcpy_nolist);
	r.count("encode_array_push_message_multi_fragment", P.epush_multi); r.count("encode_array_push_message_empty_first_part", P.epush_leading_empty); r.count("encode_array_push_message_with_encoder", P.epush_encoded);
	r.count("qget_two_part_message", P.qget_two); r.count("qget_range_crossing_wrap", P.qget_cross); r.count("qget_offset_exactly_at_wrap_point", P.qget_atwrap);
	r.count("qget_wrapped_one_piece_without_vec", P.qget_novec_ok); r.count("decode_queue_current_message_wrapped_one_piece_without_cont", P.qget_cxx_novec);
}

void mc_replay(Run &r, const std::string &job, const Vec &v)
{
	memset(&P, 0, sizeof P);
	dfs_replay(r, [&](Ctx &x) { body(r, job, x); }, v);
}

// C01 — message framing round-trip for every codec.
// Stateless choice-tree exploration: message (structured shapes + all short strings over a boundary
// alphabet) x push split schedule x output-capacity schedule x framing, on the real encoders
// (through mpt_array_push and by direct calls with an explorer-owned, exactly sized window),
// decoded by the real decoder AND by the independent reference decoder of refcodec.hpp.
#include <cstdlib>
#include <algorithm>
#include <sys/uio.h>
#include "array.h"
#include "convert.h"
#include "message.h"
#include "mc.hpp"
#include "refcodec.hpp"

using namespace mc;
using namespace mpt;
using ref::Bytes;
const char *mc_id = "C01";
const char *mc_rule = "choice-tree DFS: (message shape | short string) x push splits x capacity grants x 5 framings, real encoder -> real decoder + reference decoder; "
                      "nontrivial = distinct executions with block rollover, tail inline, zero-pair code, MissingBuffer retry, or a push split";

static data_encoder_t encoders[] = { mpt_encode_cobs, mpt_encode_cobs_r, mpt_encode_cobs_zpe, mpt_encode_cobs_zpe_r, mpt_encode_string };
static data_decoder_t decoders[] = { mpt_decode_cobs, mpt_decode_cobs_r, mpt_decode_cobs_zpe, mpt_decode_cobs_zpe_r, mpt_decode_command };

// ---------------------------------------------------------------- message families
static const unsigned NQ[] = {0, 1, 2, 31, 32, 222, 223, 224, 254, 255};
static const unsigned NT[] = {0, 1, 2, 30, 31, 32, 62, 63, 64, 65, 190, 191, 192, 193, 221, 222, 223, 224, 253, 254, 255, 256, 508, 509};
static const unsigned N3[] = {0, 1, 31, 223, 254};
static const uint8_t V[] = {0x01, 0x20, 0xE0, 0xFF, 0x02, 0x1F, 0xDE, 0xDF, 0xE1, 0xFE};   // quick tier uses the first four
static const uint8_t A[] = {0x00, 0x01, 0x02, 0x1F, 0xE0, 0xFF};

struct Family {
	int kind;            // 0 = runs, 1 = strings
	std::vector<unsigned> n; unsigned zmax; int runs; unsigned first;   // runs family: first run length index fixed per job
	int L; unsigned nv;
};
// decode "msg" choices into bytes
static void build_runs(Ctx &x, const Family &f, Bytes &m, std::vector<size_t> &bounds)
{
	m.clear(); bounds.clear();
	for (int r = 0; r < f.runs; ++r) {
		unsigned z = (unsigned) x.choose(f.zmax + 1);
		unsigned n = r == 0 ? f.n[f.first] : f.n[x.choose(f.n.size())];
		m.insert(m.end(), z, 0); if (z) bounds.push_back(m.size());
		m.insert(m.end(), n, (uint8_t) (0x11 + r)); if (n) bounds.push_back(m.size());
	}
	unsigned tz = (unsigned) x.choose(3);
	if (!tz && !m.empty() && m.back()) m.back() = V[x.choose(f.nv)];    // final byte decides tail inlining
	m.insert(m.end(), tz, 0);
}
static void build_string(Ctx &x, const Family &f, Bytes &m)
{
	m.clear();
	unsigned len = (unsigned) x.choose(f.L + 1);
	for (unsigned i = 0; i < len; ++i) m.push_back(A[x.choose(sizeof A)]);
}
// split schedule: vector of piece lengths
static void build_splits(Ctx &x, const Family &f, const Bytes &m, const std::vector<size_t> &bounds, std::vector<size_t> &pieces, bool reduced)
{
	pieces.clear();
	size_t len = m.size();
	if (len < 2) { pieces.push_back(len); return; }
	if (f.kind == 1) {          // all compositions
		uint64_t mask = x.choose(1ull << (len - 1));
		size_t cur = 1;
		for (size_t i = 0; i + 1 < len; ++i) { if (mask >> i & 1) { pieces.push_back(cur); cur = 1; } else ++cur; }
		pieces.push_back(cur);
		return;
	}
	std::vector<size_t> cuts;
	auto add = [&](long p) { if (p > 0 && (size_t) p < len && std::find(cuts.begin(), cuts.end(), (size_t) p) == cuts.end()) cuts.push_back((size_t) p); };
	for (size_t b : bounds) { add((long) b - 1); add((long) b); add((long) b + 1); }
	add(1); add((long) len - 1);
	if (!reduced) for (long p : {62, 63, 64, 65, 127, 128, 129, 191, 192, 193, 222, 223, 253, 254, 255}) add(p);
	uint64_t c = x.choose(2 + cuts.size());
	if (c == 0) pieces.push_back(len);
	else if (c == 1) pieces.assign(len, 1);
	else { pieces.push_back(cuts[c - 2]); pieces.push_back(len - cuts[c - 2]); }
}

// ---------------------------------------------------------------- real decoder on one frame
static bool impl_decode(Run &r, int f, const Bytes &frame, Bytes &out, std::string &why)
{
	size_t n = frame.size();
	uint8_t *buf = (uint8_t *) malloc(n ? n : 1); memcpy(buf, frame.data(), n);
	decode_state st;
	bool ok = false;
	size_t lastcurr = ~(size_t) 0; int recalls = 0;
	for (int it = 0; it < 400; ++it) {
		struct iovec vec; vec.iov_base = buf; vec.iov_len = n;
		int code = LIB(decoders[f](&st, &vec, 1));
		if (code == MissingBuffer) {
			if (st.curr > n) { why = "decoder position beyond the data"; break; }
			uint8_t *nb = (uint8_t *) malloc(n + 8);
			memcpy(nb, buf, st.curr); memset(nb + st.curr, 0xCC, 8); memcpy(nb + st.curr + 8, buf + st.curr, n - st.curr);
			free(buf); buf = nb; n += 8; st.curr += 8;
			continue;
		}
		if (code < 0) { why = fmt("decoder reports error %d on the produced frame", code); break; }
		if (st.data.msg < 0) {
			// "nothing yet": call again as long as the decoder still advances through the (complete) frame
			if (st.curr != lastcurr) { lastcurr = st.curr; ++recalls; continue; }
			why = "decoder delivers no message although the complete frame is present"; break;
		}
		if (st.data.pos + (size_t) st.data.msg > n) { why = "decoded message range lies outside the buffer"; break; }
		out.assign(buf + st.data.pos, buf + st.data.pos + st.data.msg);
		ok = true; break;
	}
	if (!ok && why.empty()) why = "decoder kept asking for buffer space (200 rounds)";
	LIB(decoders[f](&st, 0, 0));
	free(buf);
	return ok;
}

// ---------------------------------------------------------------- real decoder, ONE decode_state over a growing stream
// history: frame present -> message; poll with no further input (drained); two more frames appended at once -> message, message
static int stream_call(int f, decode_state &st, uint8_t *&buf, size_t &n)
{
	for (int it = 0; it < 400; ++it) {
		struct iovec vec; vec.iov_base = buf; vec.iov_len = n;
		int code = LIB(decoders[f](&st, &vec, 1));
		if (code != MissingBuffer || st.curr > n) return code;
		uint8_t *nb = (uint8_t *) malloc(n + 8);
		memcpy(nb, buf, st.curr); memset(nb + st.curr, 0xCC, 8); memcpy(nb + st.curr + 8, buf + st.curr, n - st.curr);
		free(buf); buf = nb; n += 8; st.curr += 8;
	}
	return MissingBuffer;
}
static bool stream_decode(int f, const Bytes &frame, const Bytes &want, bool &drained, std::string &grp, std::string &why)
{
	size_t n = frame.size();
	uint8_t *buf = (uint8_t *) malloc(n ? n : 1); memcpy(buf, frame.data(), n);
	decode_state st;
	bool ok = true;
	auto next = [&](const char *which) -> bool {
		size_t lastcurr = ~(size_t) 0;
		for (int it = 0; it < 400; ++it) {
			int code = stream_call(f, st, buf, n);
			if (code < 0) { grp = "error"; why = fmt("%s: decoder reports error %d", which, code); return false; }
			if (st.data.msg < 0) {
				if (st.curr != lastcurr) { lastcurr = st.curr; continue; }
				grp = "no-message"; why = fmt("%s: decoder delivers no message although the complete frame is present", which); return false;
			}
			if (st.data.pos + (size_t) st.data.msg > n) { grp = "no-message"; why = fmt("%s: decoded message range lies outside the buffer", which); return false; }
			Bytes got(buf + st.data.pos, buf + st.data.pos + st.data.msg);
			if (got != want) { grp = "wrong-bytes"; why = fmt("%s: decodes to {%s}", which, ref::hexs(got).c_str()); return false; }
			return true;
		}
		grp = "no-message"; why = fmt("%s: decoder does not finish", which); return false;
	};
	ok = next("first frame of the stream");
	if (ok) {
		int code = stream_call(f, st, buf, n);      // nothing further available yet
		drained = code == 0 && st.data.msg < 0;
		size_t fs = frame.size();
		uint8_t *nb = (uint8_t *) malloc(n + 2 * fs);
		memcpy(nb, buf, n); memcpy(nb + n, frame.data(), fs); memcpy(nb + n + fs, frame.data(), fs);
		free(buf); buf = nb; n += 2 * fs;
		ok = next("frame arriving after a poll on drained input") && next("frame already waiting behind the previous one");
	}
	LIB(decoders[f](&st, 0, 0));
	free(buf);
	return ok;
}

struct Feat { bool rollover, inlined, pair, retry, split; };
static void frame_features(int f, const Bytes &frame, const Bytes &m, Feat &ft)
{
	unsigned maxc = (f == ref::ZPE || f == ref::ZPE_R) ? 0xDF : 0xFF;
	size_t i = 0;
	if (f == ref::COMMAND) return;
	Bytes dummy; size_t nx;
	while (i < frame.size() && frame[i]) {
		unsigned c = frame[i];
		if (c == maxc) ft.rollover = true;
		if ((f == ref::ZPE || f == ref::ZPE_R) && c >= 0xE0) ft.pair = true;
		unsigned nd = ((f == ref::ZPE || f == ref::ZPE_R) && c >= 0xE0) ? c - 0xE0 : c - 1;
		if (i + 1 + nd >= frame.size()) { ft.inlined = true; break; }
		i += 1 + nd;
	}
	(void) m; (void) dummy; (void) nx;
}

struct Counters { uint64_t exec, nontrivial, rollover, inlined, pair, retry, split, refused_zero, msgs, midmsg, drained; };

// ---------------------------------------------------------------- one execution
static void body(Run &r, Counters &c, int f, int mode, const Family &fam, Ctx &x)
{
	Bytes m; std::vector<size_t> bounds, pieces;
	if (fam.kind == 0) build_runs(x, fam, m, bounds); else build_string(x, fam, m);
	build_splits(x, fam, m, bounds, pieces, mode == 1);
	size_t grant = 64;
	if (mode == 1) { static const size_t G[] = {1, 2, 3, 64}; grant = G[x.choose(4)]; }
	bool haszero = std::find(m.begin(), m.end(), 0) != m.end();
	bool admitted = f != ref::COMMAND || !haszero;
	std::string sc = std::string(ref::framing_name[f]) + (mode == 2 ? "|array_shift" : (mode ? "|direct" : "|array_push"));
	std::string desc = fmt("%s msg[%zu]={%s} pieces=%zu(first %zu) grant=%zu", sc.c_str(), m.size(), ref::hexs(m).c_str(), pieces.size(), pieces.empty() ? 0 : pieces[0], grant);
	r.hint((sc + "|encode").c_str());
	r.note("%s", desc.c_str());
	asan_error();
	Feat ft = {false, false, false, false, pieces.size() > 1};
	Bytes frame; bool produced = false; std::string err;

	if (mode == 0) {
		encode_array arr(encoders[f]);
		size_t off = 0; bool fail = false;
		for (size_t p : pieces) {
			if (!p) continue;
			uint8_t *piece = (uint8_t *) malloc(p); memcpy(piece, m.data() + off, p);   // exactly sized source
			ssize_t ret = LIB(mpt_array_push(&arr, p, piece));
			free(piece);
			if (ret != (ssize_t) p) { err = fmt("push of %zu bytes at offset %zu returned %zd", p, off, ret); fail = true; break; }
			off += p;
		}
		if (!fail) {
			ssize_t ret = LIB(mpt_array_push(&arr, 0, 0));
			if (ret < 0) { err = fmt("frame termination returned %zd", ret); fail = true; }
		}
		if (!fail) {
			span<const uint8_t> d = arr.data();
			if (d.size() && d.begin()) frame.assign(d.begin(), d.end());
			produced = true;
		}
		if (arr._d._buf.instance() && arr._d._buf.instance()->_size > 64) ft.retry = true;
	} else if (mode == 2) {
		// one encode_array carries several frames and its output space is recycled with shift(): an earlier frame is
		// absent / handed out and consumed / still pending, the used segment is moved to the front between two pushes
		encode_array arr(encoders[f]);
		uint64_t pre = x.choose(3), mv = pieces.size() > 1 ? x.choose(2) : 0;
		Bytes prefix; size_t off = 0; bool fail = false;
		if (pre) {
			static const uint8_t P0[] = {'p', 0, 'q'}, P1[] = {'p', 'q'};
			ssize_t ret = f == ref::COMMAND ? LIB(mpt_array_push(&arr, sizeof P1, P1)) : LIB(mpt_array_push(&arr, sizeof P0, P0));
			if (ret < 0 || LIB(mpt_array_push(&arr, 0, 0)) < 0) { err = "earlier frame refused"; fail = true; }
			else if (pre == 1) { if (!LIB(arr.shift(arr.data().size()))) { err = "consuming the finished frame refused"; fail = true; } }
			else { span<const uint8_t> d = arr.data(); prefix.assign(d.begin(), d.end()); }
		}
		size_t pi = 0;
		for (size_t p : pieces) {
			if (fail) break;
			if (p) {
				uint8_t *piece = (uint8_t *) malloc(p); memcpy(piece, m.data() + off, p);
				ssize_t ret = LIB(mpt_array_push(&arr, p, piece));
				free(piece);
				if (ret != (ssize_t) p) { err = fmt("push of %zu bytes at offset %zu returned %zd", p, off, ret); fail = true; break; }
				off += p;
			}
			if (!pi++ && mv) LIB(arr.shift(0));
		}
		if (!fail && LIB(mpt_array_push(&arr, 0, 0)) < 0) { err = "frame termination refused"; fail = true; }
		// the producer has already started the following message (none / one byte / several bytes) when the finished frames are read
		uint64_t fol = fail ? 0 : x.choose(3);
		if (fol) {
			static const uint8_t F0[] = {'x', 0, 'y', 'z'}, F1[] = {'x', 'y', 'z'};
			size_t fl = fol == 1 ? 1 : (f == ref::COMMAND ? sizeof F1 : sizeof F0);
			if (LIB(mpt_array_push(&arr, fl, f == ref::COMMAND ? F1 : F0)) != (ssize_t) fl) { err = "start of the following message refused"; fail = true; }
			else if (arr._state.scratch) ++c.midmsg;
		}
		if (!fail) {
			span<const uint8_t> d = arr.data();
			Bytes all; if (d.size() && d.begin()) all.assign(d.begin(), d.end());
			if (all.size() < prefix.size() || !std::equal(prefix.begin(), prefix.end(), all.begin())) { r.violation(sc + "|frame|earlier-frame-changed", desc + ": the pending earlier frame {" + ref::hexs(prefix) + "} reads {" + ref::hexs(all) + "} after the next message"); return; }
			frame.assign(all.begin() + prefix.size(), all.end());
			// blocks of the following message that are already final are handed out as well (done counts them): the finished
			// frame is what precedes them, up to and including its delimiter
			if (fol) { Bytes::iterator z = std::find(frame.begin(), frame.end(), 0); if (z != frame.end()) frame.erase(z + 1, frame.end()); }
			produced = true;
		}
		desc += fmt(" earlier-frame=%s shift(0)=%d following-message-bytes=%d", pre == 0 ? "none" : (pre == 1 ? "consumed" : "pending"), (int) mv, (int) fol);
	} else {
		encode_state st;
		size_t wlen = grant; uint8_t *win = (uint8_t *) malloc(wlen);
		memset(win, 0xCC, wlen);
		auto grow = [&]() { uint8_t *nw = (uint8_t *) malloc(wlen + grant); memcpy(nw, win, wlen); memset(nw + wlen, 0xCC, grant); free(win); win = nw; wlen += grant; ft.retry = true; };
		size_t off = 0; bool fail = false;
		size_t limit = 2 * m.size() + 600;
		for (size_t p : pieces) {
			size_t left = p;
			while (left && !fail) {
				uint8_t *piece = (uint8_t *) malloc(left); memcpy(piece, m.data() + off, left);
				struct iovec dst = {win, wlen}, src = {piece, left};
				ssize_t ret = LIB(encoders[f](&st, &dst, &src));
				free(piece);
				if (st.done + st.scratch > wlen) { err = fmt("encoder state done=%zu scratch=%zu exceeds the granted window %zu", st.done, st.scratch, wlen); fail = true; break; }
				if (ret == MissingBuffer) { if (wlen > limit) { err = "encoder makes no progress however much space is granted"; fail = true; } else grow(); continue; }
				if (ret < 0) { err = fmt("encoder returned %zd for %zu bytes at offset %zu", ret, left, off); fail = true; break; }
				if ((size_t) ret > left) { err = fmt("encoder claims %zd of %zu offered bytes", ret, left); fail = true; break; }
				if ((size_t) ret < left) { if (wlen > limit) { err = "encoder makes no progress however much space is granted"; fail = true; break; } grow(); }
				off += ret; left -= ret;
			}
			if (fail) break;
		}
		while (!fail) {
			struct iovec dst = {win, wlen};
			ssize_t ret = LIB(encoders[f](&st, &dst, 0));
			if (ret == MissingBuffer) { if (wlen > limit) { err = "termination never succeeds however much space is granted"; fail = true; } else grow(); continue; }
			if (ret < 0) { err = fmt("frame termination returned %zd", ret); fail = true; break; }
			if (st.done > wlen) { err = "finished size exceeds the window"; fail = true; break; }
			frame.assign(win, win + st.done); produced = true; break;
		}
		LIB(encoders[f](&st, 0, 0));
		free(win);
	}
	bool asan = asan_error();
	++c.exec; ++r.transitions;
	std::string detail;
	if (asan) { r.violation(sc + "|encode|memory", desc + ": AddressSanitizer report while encoding"); return; }
	if (!admitted) {
		if (produced) r.violation(sc + "|zero-in-text|accepted", desc + ": message containing a zero byte was framed as command text: " + ref::hexs(frame));
		else ++c.refused_zero;
		return;
	}
	if (!produced) { r.violation(sc + "|encode|refused", desc + ": " + err); return; }
	// exactly one zero, the last byte
	size_t zeros = std::count(frame.begin(), frame.end(), 0);
	if (frame.empty() || frame.back() != 0 || zeros != 1) { r.violation(sc + "|frame|delimiter", desc + ": frame {" + ref::hexs(frame) + "} must contain exactly one zero, as last byte"); return; }
	Bytes want = m, got; size_t next = 0;
	ref::Verdict v = ref::decode((ref::Framing) f, frame, 0, got, next);
	if (v != ref::Ok || next != frame.size() || got != m) { r.violation(sc + "|frame|reference-decode", desc + ": frame {" + ref::hexs(frame) + "} does not decode (reference decoder) to the message, got {" + ref::hexs(got) + "}"); return; }
	if (f == ref::COMMAND) { want.insert(want.begin(), ' '); want.insert(want.begin(), (uint8_t) msgtype::Command); }
	r.hint((sc + "|decode").c_str());
	std::string why; got.clear();
	bool ok = impl_decode(r, f, frame, got, why);
	if (asan_error()) { r.violation(sc + "|decode|memory", desc + ": AddressSanitizer report while decoding {" + ref::hexs(frame) + "}"); return; }
	if (!ok) { r.violation(sc + "|decode|no-message", desc + ": frame {" + ref::hexs(frame) + "}: " + why); return; }
	if (got != want) { r.violation(sc + "|decode|wrong-bytes", desc + ": frame {" + ref::hexs(frame) + "} decodes to {" + ref::hexs(got) + "}"); return; }
	{
		bool drained = false; std::string grp; why.clear();
		r.hint((sc + "|decode-stream").c_str());
		bool sok = stream_decode(f, frame, want, drained, grp, why);
		++r.transitions;
		if (asan_error()) { r.violation(sc + "|decode-stream|memory", desc + ": AddressSanitizer report while decoding a stream of {" + ref::hexs(frame) + "} on one decode_state"); return; }
		if (!sok) { r.violation(sc + "|decode-stream|" + grp, desc + ": stream of frames {" + ref::hexs(frame) + "} on one decode_state: " + why); return; }
		if (drained) ++c.drained;
	}
	frame_features(f, frame, m, ft);
	if (ft.rollover) ++c.rollover; if (ft.inlined) ++c.inlined; if (ft.pair) ++c.pair; if (ft.retry) ++c.retry; if (ft.split) ++c.split;
	if (ft.rollover || ft.inlined || ft.pair || ft.retry || ft.split) ++c.nontrivial;
	if (r.samples.size() < 2 && ft.rollover && ft.split) r.sample(desc + " -> frame {" + ref::hexs(frame) + "}");
}

// ---------------------------------------------------------------- jobs
// job name: "<framing>:<mode>:<family>:<first>"
static bool parse_job(const std::string &job, Tier t, int &f, int &mode, Family &fam)
{
	int fk, first;
	if (sscanf(job.c_str(), "%d:%d:%d:%d", &f, &mode, &fk, &first) != 4) return false;
	fam.kind = fk == 9 ? 1 : 0; fam.first = first; fam.L = t == Quick ? 4 : 5; fam.nv = t == Quick ? 4 : sizeof V;
	if (fk == 2) { fam.n.assign(NQ, NQ + sizeof NQ / sizeof *NQ); if (t == Thorough) fam.n.assign(NT, NT + sizeof NT / sizeof *NT); fam.zmax = 2; fam.runs = 2; }
	else if (fk == 3) { fam.n.assign(N3, N3 + sizeof N3 / sizeof *N3); fam.zmax = 2; fam.runs = 3; fam.nv = 4; }
	return true;
}
void mc_jobs(Tier t, std::vector<std::string> &jobs)
{
	size_t n2 = t == Quick ? sizeof NQ / sizeof *NQ : sizeof NT / sizeof *NT;
	for (int f = 0; f < 5; ++f) for (int mode = 0; mode < 2; ++mode) {
		jobs.push_back(fmt("%d:%d:9:0", f, mode));
		for (size_t i = 0; i < n2; ++i) jobs.push_back(fmt("%d:%d:2:%zu", f, mode, i));
		if (t == Thorough) for (size_t i = 0; i < sizeof N3 / sizeof *N3; ++i) jobs.push_back(fmt("%d:%d:3:%zu", f, mode, i));
	}
	// mode 2: encode_array with recycled output space (shift), short strings and the first run lengths only
	for (int f = 0; f < 5; ++f) { jobs.push_back(fmt("%d:2:9:0", f)); for (size_t i = 0; i < 3; ++i) jobs.push_back(fmt("%d:2:2:%zu", f, i)); }
	jobs.push_back("python");
}

// ---------------------------------------------------------------- python client frames
static void python_job(Run &r, const Vec *only)
{
	// the script prints "<framing> <hex message> <hex frame>" for a fixed, fully enumerated message list
	std::string cmd = "python3 tools/pyframes.py " + std::string(getenv("MC_REPO") ? getenv("MC_REPO") : "/repo") + "/mpt.py";
	FILE *p = popen(cmd.c_str(), "r");
	if (!p) { r.violation("python|popen", "cannot run python3"); return; }
	char *line = 0; size_t cap = 0; uint64_t idx = 0, nontriv = 0, refused = 0;
	auto unhex = [](const char *s, Bytes &b) { b.clear(); if (s[0] == '-') return; for (; s[0] && s[1]; s += 2) { unsigned v; sscanf(s, "%2x", &v); b.push_back((uint8_t) v); } };
	while (getline(&line, &cap, p) > 0) {
		char fr[32]; char *hm = (char *) malloc(cap), *hf = (char *) malloc(cap);
		if (sscanf(line, "%31s %s %s", fr, hm, hf) == 3) {
			uint64_t me = idx++;
			if (!only || (only->size() && (*only)[0] == me)) {
				Vec v(1, me); r.enter(v, "python|decode");
				Bytes m, frame, got, want; unhex(hm, m); unhex(hf, frame);
				int f = !strcmp(fr, "command") ? ref::COMMAND : ref::COBS;
				std::string desc = fmt("python %s msg[%zu]={%s} frame {%s}", fr, m.size(), ref::hexs(m).c_str(), ref::hexs(frame).c_str());
				r.note("%s", desc.c_str());
				bool admitted = f != ref::COMMAND || std::find(m.begin(), m.end(), 0) == m.end();
				if (!admitted) {
					if (strcmp(hf, "ERROR")) r.violation(std::string("python|") + fr + "|zero-in-text|accepted", desc + ": message containing a zero byte was framed as command text");
					else ++refused;
				}
				else if (!strcmp(hf, "ERROR")) r.violation(std::string("python|") + fr + "|encode|exception", desc + ": encoder raised an exception");
				else {
					want = m; if (f == ref::COMMAND) { want.insert(want.begin(), ' '); want.insert(want.begin(), (uint8_t) msgtype::Command); }
					std::string why; asan_error();
					size_t zeros = std::count(frame.begin(), frame.end(), 0);
					if (frame.empty() || frame.back() || zeros != 1) r.violation(std::string("python|") + fr + "|frame|delimiter", desc + ": frame must contain exactly one zero, as last byte");
					else if (!impl_decode(r, f, frame, got, why)) r.violation(std::string("python|") + fr + "|decode|no-message", desc + ": " + why);
					else if (got != want) r.violation(std::string("python|") + fr + "|decode|wrong-bytes", desc + ": decodes to {" + ref::hexs(got) + "}");
					if (asan_error()) r.violation(std::string("python|") + fr + "|decode|memory", desc + ": AddressSanitizer report");
					if (m.size() >= 254) ++nontriv;
				}
				++r.transitions; ++r.states; ++r.executions;
				if (me == 300) r.sample(desc);
			}
		}
		free(hm); free(hf);
	}
	free(line);
	int st = pclose(p);
	if (st != 0 && !only) r.violation("python|script", "tools/pyframes.py failed (cannot import mpt.py?)");
	r.count("python_frames", idx); r.count("python_long_messages", nontriv); r.count("python_command_zero_refused", refused);
}

void mc_explore(Run &r, const std::string &job)
{
	if (job == "python") { r.require("python_frames"); python_job(r, 0); return; }
	int f, mode; Family fam;
	if (!parse_job(job, r.tier, f, mode, fam)) return;
	Counters c = {};
	for (const char *k : {"nontrivial", "rollover", "retry", "split", "drained_poll"}) r.require(k);
	if (mode == 2 && f != ref::COMMAND) r.require("drain_mid_message");
	dfs(r, [&](Ctx &x) { body(r, c, f, mode, fam, x); });
	r.states += c.exec;
	r.count("nontrivial", c.nontrivial); r.count("rollover", c.rollover); r.count("tail_inline", c.inlined); r.count("zero_pair", c.pair);
	r.count("retry", c.retry); r.count("split", c.split); r.count("command_zero_refused", c.refused_zero);
	r.count("drained_poll", c.drained); r.count("drain_mid_message", c.midmsg);
}
void mc_replay(Run &r, const std::string &job, const Vec &v)
{
	if (job == "python") { python_job(r, &v); return; }
	int f, mode; Family fam;
	if (!parse_job(job, r.tier, f, mode, fam)) return;
	Counters c = {};
	dfs_replay(r, [&](Ctx &x) { body(r, c, f, mode, fam, x); }, v);
}

// C15 — reference counts track handles exactly.
// History BFS on the real code, one job per object kind.  The reference model
// is a multiset of references per object (handles in slots, raw references,
// references held by other objects, deferred reply handles); an object must be
// destroyed exactly when that multiset becomes empty.  Harness objects count
// their own addref/unref calls and flag any call after destruction; library
// objects are watched through the allocation ledger (block freed <=> model
// count reached 0) and AddressSanitizer.  After every explored transition the
// state is additionally DRAINED (every remaining model reference is dropped
// through the object's own unref, checking liveness after each drop), so a
// count that is off by one in either direction is seen at the transition that
// caused it and not only when a longer history happens to reach zero.
#include <cerrno>
#include <cstdlib>
#include <new>
#include <utility>
#include <unistd.h>
#include <fcntl.h>
#include <sys/uio.h>
#include <sys/socket.h>
#include "meta.h"
#include "types.h"
#include "array.h"
#include "message.h"
#include "output.h"
#include "event.h"
#include "convert.h"
#include "connection.h"
#include "notify.h"
#include "stream.h"
#include "values.h"
#include "io.h"
#include "node.h"
#include "collection.h"
#include "layout.h"
#include "config.h"
#include <poll.h>
#include "mc.hpp"

using namespace mc;
using mpt::metatype;

const char *mc_id = "C15";
const char *mc_rule = "job 'refcount': all raise/lower sequences (C and C++ entry points) from counter presets 0,1,2,MAX-1,MAX; other jobs: BFS over all histories "
                      "(canonical-state dedupe) of new/addref/unref/clone/assign-through-conversion/reference-traits/reference<T>/array-clone/detach/array-set,slice,insert,append/defer+reply/rawdata advance+modify/node+item-group containers "
                      "operations over <=3 handle slots and <=3 objects of the job's object kind(s), every reached state drained to quiescence; "
                      "nontrivial = distinct transitions that drop or replace a held reference, act on a shared object (count>1) or hit a counter limit";

static const uintptr_t UMAX = UINTPTR_MAX;

// ---------------------------------------------------------------- ASan report filter
// metatype::generic releases malloc'd storage with operator delete; that allocator mismatch is not a
// reference-count matter (counted, not flagged).  Every other report is a memory error.
extern "C" void __asan_set_error_report_callback(void (*)(const char *));
static bool g_asan_real = false; static uint64_t g_mismatch = 0;
static void asan_cb(const char *t) { if (t && strstr(t, "alloc-dealloc-mismatch")) ++g_mismatch; else g_asan_real = true; }
static void asan_init() { static bool done = false; if (!done) { __asan_set_error_report_callback(asan_cb); done = true; } }
static bool asan_bad() { asan_error(); bool b = g_asan_real; g_asan_real = false; return b; }

// ---------------------------------------------------------------- harness objects
struct CountMeta : public metatype {
	uintptr_t cnt; bool destroyed; unsigned addrefs, unrefs, after;
	CountMeta() : cnt(1), destroyed(false), addrefs(0), unrefs(0), after(0) {}
	int convert(mpt::type_t t, void *p) override
	{
		if (destroyed) ++after;
		if (!t) { static const uint8_t fmt[] = {0}; if (p) *(const uint8_t **) p = fmt; return 0; }
		if (t == mpt::TypeMetaPtr) { if (p) *(metatype **) p = this; return 0; }
		return mpt::BadType;
	}
	void unref() override { if (destroyed) { ++after; return; } ++unrefs; if (!--cnt) destroyed = true; }
	uintptr_t addref() override { if (destroyed) { ++after; return 0; } if (cnt == UMAX) return 0; ++addrefs; return ++cnt; }
	metatype *clone() const override { int d = lib_depth; lib_depth = 0; CountMeta *c = new CountMeta; lib_depth = d; return c; }   // harness memory stays out of the ledger
};
// C++ reference<T>::type over a harness base class
struct PBase : public metatype {
	int *dtor;
	PBase() : dtor(0) {}
	virtual ~PBase() { if (dtor) ++*dtor; }
	metatype *clone() const override { return 0; }
};
typedef mpt::reference<PBase>::type CxxT;
typedef mpt::reference<metatype> MRef;

struct Arr { mpt::buffer *_buf; };
static mpt::array *A(Arr *a) { return reinterpret_cast<mpt::array *>(a); }

struct SendState { int calls; bool fail; };
static int send_cb(void *ptr, const mpt::reply_data *, const mpt::message *) { SendState *s = (SendState *) ptr; ++s->calls; return s->fail ? -1 : 0; }

// ---------------------------------------------------------------- object world shared by both systems
enum Kind { K_BUF, K_REFBUF, K_CNT, K_GENINFO, K_METABUF, K_REPLY, K_RAW, K_GENI, K_GENR, K_CXX, K_STREAM, K_IOBUF, K_NODE, K_GROUP, K_RARR, NKIND };
static const char *kname[] = { "buffer", "refbuffer", "counting", "geninfo", "metabuffer", "reply", "rawdata", "generic", "generic-ref", "cxxtype", "stream", "iobuffer", "node", "item-group", "reference_array" };
static bool kcountable(int k) { return k != K_GENINFO && k != K_METABUF && k != K_NODE && k != K_GROUP && k != K_RARR; }
static bool kpokeable(int k) { return kcountable(k) && k != K_REFBUF && k != K_GENR && k != K_IOBUF; }
// counter word(s) of a reply context relative to its metatype pointer, lowest address first (located by the probe: the implementation
// may count all holders in one word, or keep a second word for the metatype references only; every word moves with a metatype reference)
static std::vector<long> g_reply_ctr_offs(1, -(long) sizeof(void *));
static int g_reply_shareable = -1;   // does a reply context hand out further metatype references (probed on a throw-away instance)

struct Obj {
	int kind; void *ptr; const void *block;
	uintptr_t handles, phantom;    // model count = handles + phantom (phantom: references invented by a counter preset)
	int raw;                       // handles held as raw references (subset of handles)
	bool dead, armed;
	std::vector<int> holds;        // references this object holds itself (released when it is destroyed); -1 = empty element
	CountMeta *cm; int *dtor; int fd0, fd1;
	uintptr_t *ctr;                // counter located at run time (kinds without a mirrored layout)
	unsigned ma, mu;               // addref / unref calls the model expects the object to have seen
};

static const void *find_block(const void *p)
{
	for (size_t d = 0; d <= 256; d += 8) if (ledger_is_live((const char *) p - d)) return (const char *) p - d;
	return 0;
}

static std::map<std::string, int> g_guard;   // 0 unknown, 1 runs, 2 faults
// a defect in a central primitive violates in tens of thousands of transitions: report each signature a bounded number
// of times per job (every violating transition is still cut off and counted) so that the run stays below the engine's cap
static std::map<std::string, uint64_t> g_reported;
static void report(Run &r, const std::string &sg, const std::string &detail)
{
	if (++g_reported[sg] <= 40 || r.replaying) r.violation(sg, detail);
	else r.count("repeat_violations_not_listed");
}

struct World {
	Run &r;
	std::vector<Obj> objs;
	std::string sig;
	std::vector<int> hist; std::string (*namer)(int); const char *dstep; int darg;   // failure descriptions are built lazily from the history
	bool bad, nontrivial;
	bool loose;   // a container copy shares its element storage: counts of the elements are not comparable with the logical holders any more
	std::vector<CountMeta *> owned; std::vector<int *> flags; std::vector<int> fds;
	static unsigned nsys;
	size_t base;   // tracked blocks alive before this system allocated anything

	World(Run &run) : r(run), bad(false), nontrivial(false), loose(false)
	{
		asan_init();
		if (!(++nsys & 255)) ledger_reset();   // no tracked object is alive between two systems
		asan_bad(); sig = "new|none"; namer = 0; dstep = 0; darg = 0; base = ledger_live();
	}
	~World()
	{
		for (CountMeta *c : owned) delete c;
		for (int *f : flags) delete f;
		for (int fd : fds) close(fd);
	}
	uintptr_t count(int o) const { return objs[o].handles + objs[o].phantom; }
	bool can_addref(int o) const { return o >= 0 && !objs[o].dead && kcountable(objs[o].kind) && !(objs[o].kind == K_REPLY && g_reply_shareable == 0) && count(o) != 0 && count(o) != UMAX; }
	void retain(int o) { ++objs[o].handles; ++objs[o].ma; }
	void kill(int o)
	{
		objs[o].dead = true;
		std::vector<int> h; h.swap(objs[o].holds);
		for (int e : h) if (e >= 0) release(e);
	}
	void release(int o)
	{
		nontrivial = true; ++objs[o].mu;
		if (!kcountable(objs[o].kind)) { objs[o].handles = 0; kill(o); return; }
		--objs[o].handles;
		if (count(o) == 0) kill(o);
	}
	uintptr_t *counter(int o) const
	{
		const Obj &b = objs[o];
		if (b.ctr) return b.ctr;
		switch (b.kind) {
		case K_BUF: case K_REFBUF: return (uintptr_t *) b.block;
		case K_CNT: return &b.cm->cnt;
		case K_REPLY: return (uintptr_t *) ((char *) b.ptr + g_reply_ctr_offs[0]);   // first word = all holders
		case K_RAW: return (uintptr_t *) ((char *) b.ptr + 2 * sizeof(void *));
		case K_GENI: case K_GENR: return &((metatype::generic *) b.ptr)->_ref._val;
		case K_CXX: return &((CxxT *) b.ptr)->_ref._val;
		case K_STREAM: return (uintptr_t *) ((char *) b.ptr + sizeof(void *));
		default: return 0;
		}
	}
	int add(int kind, void *ptr, const void *block)
	{
		Obj b; b.kind = kind; b.ptr = ptr; b.block = block; b.handles = 1; b.phantom = 0; b.raw = 0; b.dead = false; b.armed = false;
		b.cm = 0; b.dtor = 0; b.fd0 = b.fd1 = -1; b.ctr = 0; b.ma = b.mu = 0;
		objs.push_back(b);
		return (int) objs.size() - 1;
	}
	// a preset invents metatype references: every counter word of the object moves by the same amount
	void shift_counters(int o, uintptr_t delta)
	{
		if (objs[o].kind == K_REPLY) { for (long off : g_reply_ctr_offs) *(uintptr_t *) ((char *) objs[o].ptr + off) += delta; }
		else *counter(o) += delta;
	}
	void preset(int o, uintptr_t v) { uintptr_t delta = v - count(o); shift_counters(o, delta); objs[o].phantom += delta; }
	// before the drain: take the invented references away again (an object held by nothing else keeps one, as a raw reference)
	void unpreset(int o)
	{
		Obj &b = objs[o];
		shift_counters(o, (uintptr_t) 0 - b.phantom); b.phantom = 0;
		if (!b.handles) { shift_counters(o, 1); b.handles = 1; ++b.raw; }
	}
	void preset_high(int o) { preset(o, UMAX - 1); }
	bool real_live(int o) const { const Obj &b = objs[o]; return b.kind == K_CNT ? !b.cm->destroyed : ledger_is_live(b.block); }
	std::string describe() const
	{
		std::string s = "history [";
		for (size_t i = 0; i < hist.size(); ++i) s += (i ? " ; " : "") + (namer ? namer(hist[i]) : std::to_string(hist[i]));
		s += "]";
		if (dstep) s += std::string("; then (drain to quiescence) ") + fmt(dstep, darg);
		return s;
	}
	bool fail(const char *group, const std::string &what)
	{
		report(r, sig + "|" + group, describe() + ": " + what);
		bad = true;
		return false;
	}
	std::string oname(int o) const { return o < 0 ? std::string("none") : fmt("%s#%d", kname[objs[o].kind], o); }
	std::string cstr(int o) const
	{
		uintptr_t c = count(o);
		if (c >= UMAX - 8) return c == UMAX ? "MAX" : fmt("MAX-%llu", (unsigned long long) (UMAX - c));
		return fmt("%llu", (unsigned long long) c);
	}
	// liveness oracle: every object is alive iff the model still holds references to it
	bool check()
	{
		if (bad) return false;
		if (asan_bad()) return fail("memory-error", "AddressSanitizer reported an invalid access (use after free, double free or out of bounds)");
		for (size_t o = 0; o < objs.size(); ++o) {
			const Obj &b = objs[o];
			bool live = real_live(o);
			if (b.cm && b.cm->after) return fail("call-after-destroy", oname(o) + " received a call after its count had reached zero");
			if (!b.dead && !live) return fail("premature-destroy", oname(o) + " was destroyed although the model still holds " + cstr(o) + " reference(s)");
			if (b.dead && live) return fail("leak", oname(o) + " is still alive although its last reference was dropped");
			if (b.cm && !b.dead && !loose && b.cm->cnt != count(o)) return fail("miscount", oname(o) + fmt(" counted %llu references, the model holds ", (unsigned long long) b.cm->cnt) + cstr(o));
			if (b.dtor && (*b.dtor != (b.dead ? 1 : 0))) return fail(b.dead ? "leak" : "premature-destroy", oname(o) + fmt(" destructor ran %d time(s)", *b.dtor));
			if (b.fd0 >= 0 && b.dead) { if (fcntl(b.fd0, F_GETFD) != -1) return fail("leak", oname(o) + " descriptor still open after the last reference was dropped"); objs[o].fd0 = -1; }
			if (b.fd0 >= 0 && !b.dead && fcntl(b.fd0, F_GETFD) == -1) return fail("premature-destroy", oname(o) + " descriptor closed while references remain");
		}
		return true;
	}
	// run fn in a forked copy first when this class of call has not been seen to survive yet
	template <class F> bool guarded(const std::string &cls, F fn)
	{
		int &g = g_guard[cls];
		if (g == 1) return true;
		if (g == 0) {
			std::string out = in_child([&]() { fn(); return std::string("ok"); });
			g = out == "ok" ? 1 : 2;
			if (g == 1) return true;
		}
		report(r, sig + "|SIGSEGV", describe() + ": the call faults (process fault in a forked probe of this call class)");
		bad = true;
		return false;
	}
};
unsigned World::nsys = 0;

struct Counters { uint64_t nontrivial, refused, limit, replaced, shared_op, destroyed, nonclonable, cleared, spurious, drained, refused_shared, traits_mismatch, reply_checked, group_items, quiescent, container_copies, next_handles, config_added, config_refused, content_accepted, content_refused; };
static Counters C;   // only the last operation of a transition counts: the BFS restores the snapshot after replaying a prefix

// ---------------------------------------------------------------- job configuration
struct OpDef { int code, a, b, c; };
struct Cfg {
	std::string name;
	std::vector<int> kinds;
	bool conv, cxx, traits, clone, reply, refbuf, genconv, inref, group, rdops, rarr, notify, groupcopy;
	int nslots, cap, rawcap, depth;
	std::vector<OpDef> ops;
};
static Cfg cfg;

// ================================================================= buffers and array handles
enum { B_NEW, B_CLONE, B_CLEAR, B_CXXASSIGN, B_TINIT, B_TFINI, B_ADDREF, B_UNREFRAW, B_DETACH, B_SET, B_SLICE, B_INSERT, B_APPEND };
static const char *bopn[] = { "new", "array_clone", "array_clone(NULL)", "array::operator=", "array_traits.init", "array_traits.fini", "buffer.addref", "buffer.unref", "buffer.detach",
                              "array_set(1 element @0)", "array_slice(0,1 element)", "array_insert(0,1 element)", "array_append(1 element)" };
// buffer content kinds: raw bytes, traits A (copy-init that can be made to fail + fini), traits B (different element size, plain copy-init + fini)
enum { T_RAW, T_A, T_B };
static const char *tkn[] = { "raw", "traitsA", "traitsB" };
static bool g_init_fail = false;
static int ta_init(void *p, const void *s) { if (g_init_fail) return mpt::BadOperation; if (s) memcpy(p, s, 8); else memset(p, 0, 8); return 0; }
static void t_fini(void *) {}
static int tb_init(void *p, const void *s) { if (s) memcpy(p, s, 4); else memset(p, 0, 4); return 0; }   // a finalizer-only type may not be copied from source data
static const mpt::type_traits traitsA(8, t_fini, ta_init), traitsB(4, t_fini, tb_init);
static const mpt::type_traits *tkt(int tk) { return tk == T_A ? &traitsA : (tk == T_B ? &traitsB : 0); }
static size_t tkes(int tk) { return tk == T_B ? 4 : 8; }
static const size_t SMALL = 16, LARGE = 96;   // LARGE does not fit the smallest allocation (64 data bytes): a copy into a minimal buffer fails
static const char *szn[] = { "smaller-than-content", "content-size", "larger-than-capacity" };

struct BufSys : World {
	Arr sl[3]; int so[3]; int created;
	std::vector<int> tk;   // traits kind per object
	BufSys(Run &run) : World(run), created(0) { namer = &BufSys::opname; for (int i = 0; i < 3; ++i) { sl[i]._buf = 0; so[i] = -1; } g_init_fail = false; }
	int nops() const { return (int) cfg.ops.size(); }
	static std::string opname(int i)
	{
		const OpDef &d = cfg.ops[i];
		if (d.code == B_NEW) return fmt("new %s %s buffer%s -> handle %d", (d.b & 1) ? "large(96)" : "small(16)", tkn[d.b >> 1], d.c ? " (count=MAX-1)" : "", d.a);
		if (d.code == B_DETACH) return fmt("buffer.detach(handle %d, %s%s)", d.a, szn[d.b], d.c ? ", element copy-init fails" : "");
		return fmt("%s(%d,%d)", bopn[d.code], d.a, d.b);
	}
	mpt::buffer *bp(int o) const { return (mpt::buffer *) objs[o].ptr; }
	bool enabled(int i) const
	{
		const OpDef &d = cfg.ops[i];
		int o = so[d.a < 3 ? d.a : 0];
		switch (d.code) {
		case B_NEW: return so[d.a] < 0 && created < cfg.cap;
		case B_CLONE: case B_CXXASSIGN: case B_CLEAR: case B_TFINI: return true;
		case B_TINIT: return so[d.a] < 0;
		case B_ADDREF: return o >= 0 && objs[o].raw < cfg.rawcap;
		case B_UNREFRAW: return d.a < (int) objs.size() && !objs[d.a].dead && objs[d.a].raw > 0;
		case B_DETACH: return o >= 0 && (count(o) == 1 || created < cfg.cap) && (!d.c || tk[o] == T_A);
		case B_SET: return o >= 0 && (count(o) == 1 || created < cfg.cap) && tk[o] != T_RAW;
		case B_SLICE: return o >= 0 && (count(o) == 1 || created < cfg.cap);
		// growth only from the two initial content sizes: the state space stays finite
		case B_INSERT: return o >= 0 && (count(o) == 1 || created < cfg.cap) && (bp(o)->_used == SMALL || bp(o)->_used == LARGE);
		case B_APPEND: return o >= 0 && (count(o) == 1 || created < cfg.cap) && tk[o] == T_RAW && (bp(o)->_used == SMALL || bp(o)->_used == LARGE);
		}
		return false;
	}
	std::string canon() const
	{
		std::string s;
		for (int i = 0; i < cfg.nslots; ++i) s += fmt("s%d=%d ", i, so[i]);
		for (size_t o = 0; o < objs.size(); ++o) { if (objs[o].dead) s += fmt("o%zu:dead ", o); else s += fmt("o%zu:%s,raw%d,%s,%s,u%zu ", o, cstr(o).c_str(), objs[o].raw, objs[o].phantom ? "hi" : "n", tkn[tk[o]], (size_t) bp(o)->_used); }
		s += fmt("created=%d", created);
		return s;
	}
	int newobj(mpt::buffer *b, int kind)
	{
		int o = add(K_BUF, b, find_block(b));
		tk.resize(objs.size(), T_RAW); tk[o] = kind;
		++created;
		return o;
	}
	std::string cls(int old, int nw) const
	{
		std::string s = old < 0 ? "held=none" : (count(old) > 1 ? "held=shared" : "held=unique");
		s += nw < 0 ? ",new=none" : (nw == old ? ",new=same" : (old >= 0 && tk[old] != tk[nw] ? ",new=other-traits" : (can_addref(nw) ? ",new=other" : ",new=at-limit")));
		return s;
	}
	bool slots_ok()
	{
		for (int i = 0; i < cfg.nslots; ++i) {
			mpt::buffer *want = so[i] >= 0 ? bp(so[i]) : 0;
			if (sl[i]._buf != want) return fail("wrong-target", fmt("handle %d does not refer to %s after the operation", i, oname(so[i]).c_str()));
		}
		return true;
	}
	// liveness + "reported shared iff at least two references exist" + handle targets, after EVERY operation (refused ones included)
	bool checkall()
	{
		if (!check()) return false;
		for (size_t o = 0; o < objs.size(); ++o) if (!objs[o].dead) {
			bool sh = (bp(o)->get_flags() & mpt::BufferShared) != 0;
			if (sh != (count(o) > 1)) return fail("shared-flag", oname(o) + fmt(" is reported %s but the model holds ", sh ? "shared" : "unshared") + cstr(o) + " reference(s)");
		}
		return slots_ok();
	}
	// a library call may have replaced the buffer of handle s (copy-on-write or reallocation): bring the model in line with the outcome
	bool after_write(int s, mpt::buffer *ob)
	{
		mpt::buffer *nb = sl[s]._buf;
		int o = so[s];
		if (nb == ob) return true;   // in place, or refused: no reference moved
		if (!nb) return fail("wrong-target", "the handle lost its buffer");
		if (count(o) == 1) {
			const void *oldblk = objs[o].block;
			objs[o].ptr = nb; objs[o].block = find_block(nb);
			if (ledger_is_live(oldblk)) return fail("leak", "the old block of a moved (unshared) buffer is still allocated");
		} else {
			++C.shared_op; nontrivial = true;
			release(o);
			so[s] = newobj(nb, tk[o]);
			if (!objs[so[s]].block) { r.incomplete("buffer block not found in the ledger"); return false; }
		}
		return true;
	}
	bool apply(int i)
	{
		static uint8_t data[128];
		const OpDef &d = cfg.ops[i];
		int s = d.a, t = d.b;
		nontrivial = false;
		hist.push_back(i);
		r.hint(bopn[d.code]);
		if (!data[1]) for (size_t k = 0; k < sizeof data; ++k) data[k] = (uint8_t) (k + 1);
		switch (d.code) {
		case B_NEW: {
			sig = "buffer.new|none";
			int kind = t >> 1; size_t n = (t & 1) ? LARGE : SMALL;
			mpt::buffer *b;
			if (kind == T_RAW) { b = LIB(mpt::_mpt_buffer_alloc(n, 0)); if (b) { memcpy(b + 1, data, n); b->_used = n; } }
			else { Arr a; a._buf = 0; LIB(mpt::mpt_array_set(A(&a), tkt(kind), n, data, 0)); b = a._buf; }
			if (!b || b->_used != n) { r.incomplete("buffer creation failed"); return false; }
			int o = newobj(b, kind);
			if (!objs[o].block) { r.incomplete("buffer block not found in the ledger"); return false; }
			sl[s]._buf = b; so[s] = o;
			if (d.c) preset_high(o);
			break; }
		case B_CLONE: case B_CXXASSIGN: {
			int old = so[s], nw = so[t];
			bool cxx = d.code == B_CXXASSIGN;
			sig = std::string(cxx ? "array-assign|" : "array_clone|") + cls(old, nw);
			if (old >= 0 && count(old) > 1) ++C.shared_op, nontrivial = true;
			if (!cxx && old >= 0 && nw < 0) {
				// documented: "Copy buffer reference with source array" — an empty source handle empties the target
				if (!guarded("array_clone:held<-empty", [&]() { mpt::mpt_array_clone(A(&sl[s]), A(&sl[t])); })) return false;
			}
			if (cxx) {
				LIB((*A(&sl[s]) = *A(&sl[t]), 0));
				if (nw == old) {}
				else if (nw >= 0 && !can_addref(nw)) { ++C.limit; ++C.cleared; nontrivial = true; so[s] = -1; if (old >= 0) release(old); }   // cannot report: target ends up empty
				else { if (nw >= 0) retain(nw); so[s] = nw; if (old >= 0) { release(old); ++C.replaced; } }
			} else {
				int ret = LIB(mpt::mpt_array_clone(A(&sl[s]), A(&sl[t])));
				int want;
				if (nw == old) want = 0;
				else if (nw >= 0 && old >= 0 && tk[nw] != tk[old]) { want = mpt::BadType; ++C.refused; ++C.traits_mismatch; nontrivial = true; }   // documented: content type mismatch, nothing changes
				else if (nw >= 0 && !can_addref(nw)) { want = mpt::BadOperation; ++C.limit; ++C.refused; nontrivial = true; }
				else { if (nw >= 0) retain(nw); so[s] = nw; if (old >= 0) { release(old); ++C.replaced; } want = old >= 0 ? (nw >= 0 ? 3 : 2) : (nw >= 0 ? 1 : 0); }
				if (!checkall()) return false;
				if (want < 0 ? ret >= 0 : ret != want) return fail(want < 0 ? "accepted-refusable" : "wrong-return", fmt("returned %d, documented result is %d", ret, want));
			}
			break; }
		case B_CLEAR: {
			int old = so[s];
			sig = "array_clone|" + cls(old, -1);
			if (old >= 0 && count(old) > 1) ++C.shared_op, nontrivial = true;
			int ret = LIB(mpt::mpt_array_clone(A(&sl[s]), 0));
			if (old >= 0) { release(old); so[s] = -1; }
			if (!checkall()) return false;
			if (ret != (old >= 0 ? 2 : 0)) return fail("wrong-return", fmt("returned %d, documented result is %d", ret, old >= 0 ? 2 : 0));
			break; }
		case B_TINIT: {
			int nw = so[t];
			sig = "array_traits.init|" + cls(-1, nw);
			const mpt::type_traits *tr = mpt::mpt_array_traits();
			sl[s]._buf = 0;
			int ret = LIB(tr->init(&sl[s], &sl[t]));
			if (nw >= 0 && !can_addref(nw)) { ++C.limit; ++C.refused; nontrivial = true; if (ret >= 0) { check(); return fail("accepted-at-limit", "copy-initialisation from a buffer whose count cannot be raised reported success"); } }
			else { if (nw >= 0) { retain(nw); if (count(nw) > 2) nontrivial = true; } so[s] = nw; if (ret < 0) ++C.spurious; }
			break; }
		case B_TFINI: {
			int old = so[s];
			sig = "array_traits.fini|" + cls(old, -1);
			const mpt::type_traits *tr = mpt::mpt_array_traits();
			LIB((tr->fini(&sl[s]), 0));
			if (old >= 0) { release(old); so[s] = -1; }
			break; }
		case B_ADDREF: {
			int o = so[s];
			sig = std::string("buffer.addref|") + (can_addref(o) ? (count(o) > 1 ? "shared" : "unique") : "at-limit");
			uintptr_t before = *counter(o);
			uintptr_t ret = LIB(bp(o)->addref());
			if (can_addref(o)) { retain(o); ++objs[o].raw; if (!ret) { check(); return fail("wrong-return", "addref reported failure although the count can be raised"); } }
			else {
				++C.limit; ++C.refused; nontrivial = true;
				if (ret || *counter(o) != before) { return fail("accepted-at-limit", fmt("addref at count %s returned %llu and left the counter %s", cstr(o).c_str(), (unsigned long long) ret, *counter(o) == before ? "unchanged" : "changed")); }
			}
			break; }
		case B_UNREFRAW: {
			int o = s;
			sig = std::string("buffer.unref|") + (count(o) > 1 ? "shared" : "last");
			LIB((bp(o)->unref(), 0));
			--objs[o].raw; release(o);
			break; }
		case B_DETACH: {
			int o = so[s];
			bool shared = count(o) > 1;
			sig = std::string("buffer.detach|") + (shared ? "shared," : "unique,") + szn[t] + (bp(o)->_used > 64 ? ",large-content" : ",small-content") + (d.c ? ",init-fails" : "");
			mpt::buffer *b = bp(o);
			size_t len = t == 0 ? tkes(tk[o]) : (t == 1 ? b->_used : 400);
			g_init_fail = d.c != 0;
			mpt::buffer *nb = LIB(b->detach(len));
			g_init_fail = false;
			if (!nb) { ++C.refused; if (shared) { ++C.refused_shared; nontrivial = true; } break; }   // refused: nothing may have changed
			sl[s]._buf = nb;
			if (!after_write(s, b)) return false;
			break; }
		case B_SET: case B_SLICE: case B_INSERT: case B_APPEND: {
			int o = so[s];
			bool shared = count(o) > 1;
			sig = std::string(d.code == B_SET ? "array_set|" : (d.code == B_SLICE ? "array_slice|" : (d.code == B_INSERT ? "array_insert|" : "array_append|")))
			      + (shared ? "shared" : "unique") + (bp(o)->_used > 64 ? ",large-content" : ",small-content");
			mpt::buffer *b = sl[s]._buf;
			size_t es = tkes(tk[o]);
			void *p;
			if (d.code == B_SET) p = LIB(mpt::mpt_array_set(A(&sl[s]), tkt(tk[o]), es, data, 0));
			else if (d.code == B_SLICE) p = LIB(mpt::mpt_array_slice(A(&sl[s]), 0, es));
			else if (d.code == B_INSERT) p = LIB(mpt::mpt_array_insert(A(&sl[s]), 0, es));
			else p = LIB(mpt::mpt_array_append(A(&sl[s]), es, data));
			if (!p) { ++C.refused; if (shared) { ++C.refused_shared; nontrivial = true; } }
			if (!after_write(s, b)) return false;
			break; }
		}
		if (!checkall()) return false;
		for (size_t o = 0; o < objs.size(); ++o) if (objs[o].dead) { ++C.destroyed; break; }
		if (nontrivial) ++C.nontrivial;
		return true;
	}
	// drop every remaining model reference through the public primitives; objects must die exactly at the last drop
	bool drain()
	{
		for (size_t o = 0; o < objs.size(); ++o) if (!objs[o].dead && objs[o].phantom) {
			unpreset((int) o);
		}
		for (int i = 0; i < cfg.nslots; ++i) if (so[i] >= 0) {
			dstep = "dropping handle %d"; darg = i;
			LIB(mpt::mpt_array_clone(A(&sl[i]), 0));
			release(so[i]); so[i] = -1;
			if (!checkall()) return false;
		}
		for (size_t o = 0; o < objs.size(); ++o) while (!objs[o].dead && objs[o].raw > 0) {
			dstep = "dropping a raw reference to object #%d"; darg = (int) o;
			LIB((bp(o)->unref(), 0));
			--objs[o].raw; release(o);
			if (!checkall()) return false;
		}
		for (size_t o = 0; o < objs.size(); ++o) if (!objs[o].dead) { return fail("leak", oname(o) + " has model references left after the drain (harness bookkeeping)"); }
		++C.drained;
		return true;
	}
};

// ================================================================= metatype references
enum { M_NEW, M_CONVREF, M_CONVPTR, M_CONVNULL, M_GENCONV, M_CXXASSIGN, M_CXXMOVE, M_CXXCOPY, M_CXXSET, M_CXXDETACH, M_CXXDTOR, M_RINIT, M_RFINI,
       M_ADDREF, M_UNREFRAW, M_CLONE, M_ARM, M_DEFER, M_DREPLY, M_RBPUT, M_RBCLONE, M_RBCLEAR, M_RBDETACH,
       M_CREPLY, M_RDADVANCE, M_RDMODIFY, M_NODEASSIGN, M_NODESET, M_NODEDROP, M_ADDITEMS, M_GRPAPPEND, M_GRPCLEAR, M_GRPDROP,
       M_GRPCLONE, M_GRPCLEARREF, M_RAINSERT, M_RACOPY, M_RASET, M_RACLEAR, M_RACLEARREF, M_RACOMPACT, M_RADROP, M_NADD, M_NCLEAR, M_NWAIT, M_NNEXT, M_NCONFIG, M_NFINI };
static const char *mopn[] = { "new", "value_convert(MetaRef->MetaRef)", "value_convert(MetaPtr->MetaRef)", "value_convert(MetaRef->MetaRef,NULL)", "generic.convert(MetaRef)",
       "reference::operator=", "reference::operator=(&&)", "reference(const reference&)", "reference::set_instance", "reference::detach", "~reference", "reference_traits.init", "reference_traits.fini",
       "addref", "unref", "clone", "reply_set", "defer", "deferred.reply", "refarray.set", "refarray.clone", "refarray.clone(NULL)", "refarray.detach",
       "context.reply", "rawdata.advance", "rawdata.modify", "node=reference", "node.set_metatype", "node_destroy", "add_items(group,node)", "group.append", "group.clear", "group.unref",
       "group.clone", "group.clear(item)", "refarray<T>.insert", "refarray<T>(copy)", "refarray<T>.set", "refarray<T>.clear", "refarray<T>.clear(item)", "refarray<T>.compact", "~refarray<T>",
       "notify_add", "notify_clear", "notify_wait", "notify_next", "notify_config", "notify_fini" };

struct Deferred { mpt::reply_context_detached *h; const void *block; int ctx; bool live; };

struct MetaSys : World {
	metatype *sl[3]; int so[3]; int created;
	Arr rb[2]; int rbo[2];
	std::vector<Deferred> defs;
	SendState send;
	int nodeo, grpo;   // library containers of metatype references (object indices, -1: not created yet)
	int grp2o, rao[2];
	typedef mpt::reference_array<metatype> RArr;
	mpt::notify *no; std::vector<int> nreg; std::vector<int> nfd;   // notifier, registered inputs (object index, descriptor)
	MetaSys(Run &run) : World(run), created(0), nodeo(-1), grpo(-1), grp2o(-1), no(0)
	{
		rao[0] = rao[1] = -1;
		namer = &MetaSys::opname;
		for (int i = 0; i < 3; ++i) { sl[i] = 0; so[i] = -1; }
		for (int i = 0; i < 2; ++i) { rb[i]._buf = 0; rbo[i] = -1; }
		send.calls = 0; send.fail = false;
	}
	int nops() const { return (int) cfg.ops.size(); }
	static std::string opname(int i)
	{
		const OpDef &d = cfg.ops[i];
		if (d.code == M_NEW) return fmt("new %s%s -> slot %d", kname[d.b], d.c == 1 ? "(count=MAX-1)" : (d.c == 2 ? "(count=2^32+1)" : (d.c == 3 ? "(then buffer count=MAX)" : (d.c == 4 ? "(from an array whose buffer count=MAX)" : ""))), d.a);
		return fmt("%s(%d,%d)", mopn[d.code], d.a, d.b);
	}
	~MetaSys() { if (no) { mpt::mpt_notify_fini(no); free(no); } }
	// MPT_NOTIFY_INIT: the C functions expect empty (NULL) slot arrays, not the C++ default buffers
	static mpt::notify *newnotify() { mpt::notify *n = (mpt::notify *) calloc(1, sizeof(mpt::notify)); n->_sysfd = -1; return n; }
	int grpidx(int g) const { return g ? grp2o : grpo; }
	mpt::item_group *grpp(int o) const { return static_cast<mpt::item_group *>((metatype *) objs[o].ptr); }
	RArr *rap(int a) const { return (RArr *) objs[rao[a]].ptr; }
	bool holdsobj(int c, int o) const { for (int e : objs[c].holds) if (e == o) return true; return false; }
	bool registered(int o) const { for (int e : nreg) if (e == o) return true; return false; }
	void drop_holds(int c, int only) { std::vector<int> keep, gone; for (int e : objs[c].holds) ((only < 0 || e == only) ? gone : keep).push_back(e); objs[c].holds = keep; for (int e : gone) if (e >= 0) release(e); }
	std::string pending() const
	{
		std::string t;
		mpt::buffer *w = no ? *(mpt::buffer **) &no->_wait : 0;
		if (w) for (size_t i = 0; i < w->_used / sizeof(void *); ++i) {
			void *p = ((void **) (w + 1))[i]; int who = -2;
			if (!p) who = -1; else for (size_t o = 0; o < objs.size(); ++o) if (!objs[o].dead && objs[o].ptr == p) who = (int) o;
			t += fmt("%d,", who);
		}
		return t;
	}
	const mpt::type_traits *reftraits() const { return cfg.inref ? mpt::mpt_input_reference_traits() : mpt::mpt_meta_reference_traits(); }
	mpt::rawdata *rawif(int o) const { return (mpt::rawdata *) ((char *) objs[o].ptr + sizeof(void *)); }   // RawData { _mt, _rd, ... }
	int metahandles(int o) const { int n = objs[o].raw; for (int i = 0; i < cfg.nslots; ++i) n += so[i] == o; return n; }
	bool usable(int o) const { return o >= 0 && !objs[o].dead; }
	int livedefs() const { int n = 0; for (const Deferred &d : defs) n += d.live; return n; }
	int nbufs() const { int n = 0; for (const Obj &b : objs) n += b.kind == K_REFBUF; return n; }
	bool enabled(int i) const
	{
		const OpDef &d = cfg.ops[i];
		int s = d.a, t = d.b;
		switch (d.code) {
		case M_NEW: return so[s] < 0 && created < cfg.cap;
		case M_CONVREF: case M_CONVPTR: case M_CXXASSIGN: case M_CXXMOVE: return true;
		case M_CONVNULL: return true;
		case M_GENCONV: return so[t] >= 0 && objs[so[t]].kind == K_GENR;
		case M_CXXCOPY: case M_RINIT: return so[s] < 0;
		case M_CXXSET: return t < (int) objs.size() && !objs[t].dead && objs[t].raw > 0 && objs[t].kind >= K_CNT;
		case M_CXXDETACH: return so[s] >= 0 && objs[so[s]].raw < cfg.rawcap;
		case M_CXXDTOR: case M_RFINI: return true;
		case M_ADDREF: return so[s] >= 0 && objs[so[s]].raw < cfg.rawcap;
		case M_UNREFRAW: return s < (int) objs.size() && !objs[s].dead && objs[s].raw > 0 && objs[s].kind >= K_CNT;
		case M_CLONE: return so[s] < 0 && so[t] >= 0 && created < cfg.cap;
		case M_ARM: return so[s] >= 0 && objs[so[s]].kind == K_REPLY && !objs[so[s]].armed;
		case M_DEFER: return so[s] >= 0 && objs[so[s]].kind == K_REPLY && livedefs() < 2;
		case M_DREPLY: return s < (int) defs.size() && defs[s].live;
		case M_RBPUT: return (rbo[0] < 0 || objs[rbo[0]].holds.size() < 2) && nbufs() < 3;
		case M_RBCLONE: return rbo[t] >= 0;
		case M_RBCLEAR: return true;
		case M_RBDETACH: return rbo[s] >= 0 && (count(rbo[s]) == 1 || nbufs() < 3);
		case M_CREPLY: return so[s] >= 0 && objs[so[s]].kind == K_REPLY && objs[so[s]].armed;
		case M_RDADVANCE: case M_RDMODIFY: return so[s] >= 0 && objs[so[s]].kind == K_RAW;
		case M_NODEASSIGN: return nodeo < 0 || !objs[nodeo].dead;
		case M_NODESET: return (nodeo < 0 || !objs[nodeo].dead) && s < (int) objs.size() && !objs[s].dead && objs[s].raw > 0 && objs[s].kind >= K_CNT;
		case M_NODEDROP: return usable(nodeo);
		case M_ADDITEMS: return usable(nodeo) && (grpo < 0 || (!objs[grpo].dead && objs[grpo].holds.size() < 2));
		case M_GRPAPPEND: return (grpo < 0 || (!objs[grpo].dead && objs[grpo].holds.size() < 2)) && s < (int) objs.size() && !objs[s].dead && objs[s].raw > 0 && objs[s].kind >= K_CNT;
		case M_GRPCLEAR: case M_GRPDROP: return usable(grpidx(s));
		case M_GRPCLONE: return usable(grpo) && grp2o < 0;
		case M_GRPCLEARREF: return usable(grpidx(s)) && t < (int) objs.size() && holdsobj(grpidx(s), t);
		case M_RAINSERT: return (rao[0] < 0 || (!objs[rao[0]].dead && objs[rao[0]].holds.size() < 2)) && s < (int) objs.size() && !objs[s].dead && objs[s].raw > 0 && objs[s].kind >= K_CNT;
		case M_RACOPY: return usable(rao[0]) && rao[1] < 0;
		case M_RASET: return usable(rao[s]) && !objs[rao[s]].holds.empty() && t < (int) objs.size() && !objs[t].dead && objs[t].raw > 0 && objs[t].kind >= K_CNT;
		case M_RACLEAR: case M_RACOMPACT: case M_RADROP: return usable(rao[s]);
		case M_RACLEARREF: return usable(rao[s]) && t < (int) objs.size() && holdsobj(rao[s], t);
		case M_NADD: return so[s] >= 0 && objs[so[s]].kind == K_STREAM && can_addref(so[s]) && !registered(so[s]);
		case M_NCLEAR: return s < (int) objs.size() && registered(s);
		case M_NWAIT: return !nreg.empty();
		case M_NNEXT: case M_NFINI: return no != 0;
		case M_NCONFIG: return so[s] >= 0 && objs[so[s]].kind == K_STREAM;
		}
		return false;
	}
	std::string canon() const
	{
		std::string s;
		for (int i = 0; i < cfg.nslots; ++i) s += fmt("s%d=%d ", i, so[i]);
		for (size_t o = 0; o < objs.size(); ++o) {
			const Obj &b = objs[o];
			if (b.dead) { s += fmt("o%zu:dead ", o); continue; }
			s += fmt("o%zu:%s,%s,raw%d,%s%s[", o, kname[b.kind], cstr(o).c_str(), b.raw, b.phantom ? "hi" : "n", b.armed ? ",armed" : "");
			if (b.kind == K_REPLY) s += *(void *const *) b.block ? "connected;" : "disconnected;";   // reply.send, first member of the context
			if (cfg.rdops && b.kind == K_RAW) { mpt::rawdata *rd = rawif((int) o); s += fmt("st%ld,d%ld,d%ld;", rd->stage_count(), rd->dimension_count(0), rd->dimension_count(1)); }
			for (int e : b.holds) s += fmt("%d,", e);
			s += "] ";
		}
		for (size_t i = 0; i < defs.size(); ++i) s += defs[i].live ? fmt("d%zu=%d ", i, defs[i].ctx) : fmt("d%zu=- ", i);
		if (cfg.refbuf) s += fmt("rb=%d,%d nb=%d ", rbo[0], rbo[1], nbufs());
		if (cfg.group || cfg.groupcopy) s += fmt("node=%d grp=%d,%d ", nodeo, grpo, grp2o);
		if (cfg.rarr) s += fmt("ra=%d,%d ", rao[0], rao[1]);
		if (cfg.groupcopy || cfg.rarr) s += loose ? "shared-storage " : "";
		if (cfg.notify) { s += "reg="; for (int e : nreg) s += fmt("%d,", e); s += " pending=" + pending() + " "; }
		s += fmt("created=%d", created);
		return s;
	}
	MRef &ref(int i) { return *reinterpret_cast<MRef *>(&sl[i]); }
	std::string cls(int old, int nw) const
	{
		std::string s = old < 0 ? "held=none" : (!kcountable(objs[old].kind) ? "held=unique-owner" : "held=refcounted");
		s += nw < 0 ? ",new=none" : (nw == old ? ",new=same" : (can_addref(nw) ? ",new=other" : ",new=unretainable"));
		return s;
	}
	bool slots_ok()
	{
		for (int i = 0; i < cfg.nslots; ++i) {
			metatype *want = so[i] >= 0 ? (metatype *) objs[so[i]].ptr : 0;
			if (sl[i] != want) return fail("wrong-target", fmt("handle %d does not refer to %s after the operation", i, oname(so[i]).c_str()));
		}
		for (int i = 0; i < 2; ++i) {
			mpt::buffer *want = rbo[i] >= 0 ? (mpt::buffer *) objs[rbo[i]].ptr : 0;
			if (rb[i]._buf != want) return fail("wrong-target", fmt("reference array %d does not refer to %s after the operation", i, oname(rbo[i]).c_str()));
		}
		return true;
	}
	// every container must list exactly the objects its holder was given and has not given up (a copy is a holder of its own)
	bool containers_ok()
	{
		for (int c : {grpo, grp2o, rao[0], rao[1]}) {
			if (!usable(c)) continue;
			std::multiset<void *> want, got;
			for (int e : objs[c].holds) if (e >= 0) want.insert(objs[e].ptr);
			if (objs[c].kind == K_GROUP) { for (const mpt::item<metatype> &it : grpp(c)->items()) if (it.instance()) got.insert(it.instance()); }
			else { RArr *a = (RArr *) objs[c].ptr; for (long i = 0, n = a->length(); i < n; ++i) if (a->begin()[i].instance()) got.insert(a->begin()[i].instance()); }
			if (want != got) return fail("holder-content", oname(c) + fmt(" lists %zu object(s), its holder put in and kept %zu (an operation on another copy changed it)", got.size(), want.size()));
		}
		return true;
	}
	bool checkall()
	{
		if (!bad && (cfg.group || cfg.rarr) && !containers_ok()) return false;   // first: reads pointers only, names the container operation as the culprit
		if (!check()) return false;
		for (size_t i = 0; i < defs.size(); ++i) {
			bool live = ledger_is_live(defs[i].block);
			if (defs[i].live && !live) return fail("premature-destroy", fmt("deferred reply handle %zu was freed while it is still held", i));
			if (!defs[i].live && live) return fail("leak", fmt("deferred reply handle %zu is still allocated after its reply", i));
		}
		return slots_ok();
	}
	struct Calls { unsigned a, u, ma, mu; };
	Calls calls(int o) const { Calls c = {0, 0, 0, 0}; if (o >= 0 && objs[o].cm) { c.a = objs[o].cm->addrefs; c.u = objs[o].cm->unrefs; c.ma = objs[o].ma; c.mu = objs[o].mu; } return c; }
	// "releases the old referent once and retains the new one once"
	bool once(int old, int nw, Calls co, Calls cn)
	{
		if (old == nw || loose) return true;
		// expected numbers come from the model (1 addref for the new, 1 unref for the old referent, plus what objects destroyed by the release drop themselves)
		if (nw >= 0 && objs[nw].cm) { Calls c = calls(nw); if (c.a - cn.a != c.ma - cn.ma || c.u - cn.u != c.mu - cn.mu) return fail("retain-count", fmt("new referent %s saw %u addref / %u unref calls, expected %u / %u", oname(nw).c_str(), c.a - cn.a, c.u - cn.u, c.ma - cn.ma, c.mu - cn.mu)); }
		if (old >= 0 && objs[old].cm) { Calls c = calls(old); if (c.a - co.a != c.ma - co.ma || c.u - co.u != c.mu - co.mu) return fail("release-count", fmt("old referent %s saw %u addref / %u unref calls, expected %u / %u", oname(old).c_str(), c.a - co.a, c.u - co.u, c.ma - co.ma, c.mu - co.mu)); }
		return true;
	}
	// model of "slot s takes a reference to nw (or none)"; returns false when the reference cannot be taken
	void m_assign(int s, int nw)
	{
		int old = so[s];
		if (nw >= 0) retain(nw);
		so[s] = nw;
		if (old >= 0) { release(old); if (old != nw) ++C.replaced; }
	}
	int create(int kind, int s, int pre)
	{
		metatype *mt = 0; int o = -1;
		switch (kind) {
		case K_CNT: { CountMeta *c = new CountMeta; owned.push_back(c); o = add(K_CNT, c, 0); objs[o].cm = c; mt = c; break; }
		case K_GENINFO: mt = LIB(mpt::mpt_meta_geninfo(8)); if (mt) o = add(kind, mt, find_block(mt)); break;
		case K_METABUF: case K_IOBUF: {
			Arr a; a._buf = LIB(mpt::_mpt_buffer_alloc(8, 0));
			if (!a._buf) return -1;
			memcpy(a._buf + 1, "ab\0cd\0", 6); a._buf->_used = 6;
			int bo = add(K_BUF, a._buf, find_block(a._buf));
			// mpt_meta_buffer itself is replaced by mpt++ (io::buffer::metatype, kind iobuffer) when both libraries are linked;
			// mpt_meta_arguments is the same C object (bufferRef/bufferUnref/bufferCopy of meta_buffer.c) with another reset
			if (pre == 4) {
				// the buffer's counter is at its maximum before the metatype is created from the array: the reference cannot be taken,
				// the creation has to report that (probe on a throw-away buffer, nothing is kept)
				const void *blk = objs[bo].block;
				objs.pop_back();
				++C.limit; ++C.refused; nontrivial = true;
				*(uintptr_t *) blk = UMAX;
				mt = LIB(mpt::mpt_meta_arguments(A(&a)));
				if (mt) { fail("accepted-unretainable", "mpt_meta_arguments returned a metatype (without the data) although the reference to the array's buffer could not be taken"); return -1; }
				*(uintptr_t *) blk = 1;
				LIB(mpt::mpt_array_clone(A(&a), 0));
				if (ledger_is_live(blk)) { fail("leak", "buffer of the refused creation is still allocated"); return -1; }
				return -2;
			}
			if (pre >= 5) {
				// creation over every content layout of the table (raw / character / typed content, complete, unterminated and partial
				// trailing segments): whether the creation is accepted or refused, afterwards the array handle must be the only
				// owner again and the buffer is destroyed with it (probe on a throw-away buffer, nothing is kept)
				static const struct { int tk; const char *data; size_t used; } lay[] = {
					{ 0, "abcdef\0\0", 6 }, { 0, "ab\0cd\0\0\0", 5 }, { 0, "ab\0\0\0\0\0\0", 3 }, { 0, "\0\0\0\0\0\0\0\0", 0 },
					{ 1, "ab\0cd\0\0\0", 6 }, { 1, "ab\0cd\0\0\0", 5 }, { 1, "abcdef\0\0", 6 },
					{ 2, "\0\0\0\0\0\0\0\0", 4 }, { 2, "\0\0\0\0\0\0\0\0", 6 }, { 2, "\0\0\0\0\0\0\0\0", 8 }, { 2, "\0\0\0\0\0\0\0\0", 2 },
					{ 3, "\0\0\0\0\0\0\0\0", 8 }, { 3, "\0\0\0\0\0\0\0\0", 4 } };
				const void *blk = objs[bo].block;
				objs.pop_back();
				nontrivial = true;
				for (size_t li = 0; li < sizeof(lay) / sizeof(*lay); ++li) {
					if (li) { a._buf = LIB(mpt::_mpt_buffer_alloc(8, 0)); if (!a._buf) return -1; blk = find_block(a._buf); }
					memcpy(a._buf + 1, lay[li].data, 8); a._buf->_used = lay[li].used;
					a._buf->_content_traits = lay[li].tk == 1 ? mpt::mpt_type_traits('c') : (lay[li].tk == 2 ? &traitsB : (lay[li].tk == 3 ? &traitsA : 0));
					mt = LIB(mpt::mpt_meta_arguments(A(&a)));
					char where[96]; snprintf(where, sizeof(where), "content layout %d (traits %d, %d bytes used)", (int) li, lay[li].tk, (int) lay[li].used);
					if (mt) {
						++C.content_accepted;
						if (!(a._buf->get_flags() & mpt::BufferShared)) { fail("not-shared", std::string("mpt_meta_arguments returned a metatype that holds no reference to the array's buffer, ") + where); return -1; }
						LIB((mt->unref(), 0));
					} else { ++C.content_refused; ++C.refused; }
					if (asan_bad()) { fail("asan", std::string("memory error creating/dropping a metatype over ") + where); return -1; }
					if (!ledger_is_live(blk)) { fail("early-free", std::string("array's buffer destroyed while the array still holds it, ") + where); return -1; }
					if ((a._buf->get_flags() & mpt::BufferShared) || (blk && *(const uintptr_t *) blk != 1)) {
						fail("leak", std::string(mt ? "dropped" : "refused") + " mpt_meta_arguments creation keeps a reference to the array's buffer (still shared), " + where); return -1; }
					LIB(mpt::mpt_array_clone(A(&a), 0));
					if (ledger_is_live(blk)) { fail("leak", std::string("buffer not destroyed with its last handle after a ") + (mt ? "dropped" : "refused") + " creation, " + where); return -1; }
				}
				return -2;
			}
			size_t bytes = ledger_live_bytes();
			if (kind == K_METABUF) mt = LIB(mpt::mpt_meta_arguments(A(&a)));
			else mt = LIB(mpt::io::buffer::metatype::create(A(&a)));
			bytes = ledger_live_bytes() - bytes;   // size of the one block the call allocated
			LIB(mpt::mpt_array_clone(A(&a), 0));
			if (!mt) return -1;
			o = add(kind, mt, find_block(mt)); objs[o].holds.push_back(bo);
			if (kind == K_IOBUF && objs[o].block) {
				// private counter of a function-local class: the word of the object that goes 1 -> 2 -> 1 over addref/unref
				uintptr_t *w = (uintptr_t *) objs[o].block; size_t n = bytes / sizeof(uintptr_t);
				std::vector<uintptr_t> snap(w, w + n);
				if (LIB(mt->addref())) {
					for (size_t k = 0; k < n; ++k) if (snap[k] == 1 && w[k] == 2) objs[o].ctr = w + k;
					LIB((mt->unref(), 0));
					if (objs[o].ctr && *objs[o].ctr != 1) objs[o].ctr = 0;
				}
			}
			if (pre == 3) { preset(bo, UMAX); pre = 0; }   // the shared buffer cannot take a further reference
			break; }
		case K_REPLY:
			if (g_reply_shareable < 0) {   // design decision of the implementation: is the metatype handle of a reply context shareable at all
				metatype *p = LIB(mpt::mpt_reply_deferrable(2, 0, 0));
				if (!p) return -1;
				const void *blk = find_block(p);
				size_t nw = blk ? (size_t) (((char *) p - (const char *) blk) / sizeof(uintptr_t)) + 1 : 0;
				std::vector<uintptr_t> snap((const uintptr_t *) blk, (const uintptr_t *) blk + nw);
				g_reply_shareable = LIB(p->addref()) ? 1 : 0;
				std::vector<long> offs;
				for (size_t k = 0; k < nw; ++k) if (snap[k] == 1 && ((const uintptr_t *) blk)[k] == 2) offs.push_back((long) ((const char *) blk + k * sizeof(uintptr_t) - (char *) p));
				if (!offs.empty()) g_reply_ctr_offs = offs;
				if (g_reply_shareable) LIB((p->unref(), 0));
				LIB((p->unref(), 0));
			}
			mt = LIB(mpt::mpt_reply_deferrable(2, send_cb, &send)); if (mt) o = add(kind, mt, find_block(mt)); break;
		case K_RAW: mt = LIB(mpt::mpt_rawdata_create(cfg.rdops ? 2 : -1)); if (mt) o = add(kind, mt, find_block(mt)); break;
		case K_GENI: { int32_t v = 42; mt = LIB(metatype::generic::create('i', &v)); if (mt) o = add(kind, mt, find_block(mt)); break; }
		case K_GENR: {
			int t = (s + 1) % cfg.nslots, nw = so[t];
			mt = LIB(metatype::generic::create(mpt::TypeMetaRef, &sl[t]));
			if (nw >= 0 && !can_addref(nw)) { ++C.limit; ++C.refused; if (mt) { fail("accepted-at-limit", "generic metatype took a reference to an object whose count cannot be raised"); return -1; } return -2; }
			if (!mt) return -1;
			o = add(kind, mt, find_block(mt));
			if (nw >= 0) retain(nw);
			objs[o].holds.push_back(nw);
			break; }
		case K_CXX: { CxxT *c = LIB(new CxxT); int *f = new int(0); flags.push_back(f); c->dtor = f; mt = c; o = add(kind, mt, find_block(c)); objs[o].dtor = f; break; }
		case K_STREAM: {
			int sv[2];
			if (socketpair(AF_UNIX, SOCK_STREAM, 0, sv) < 0) return -1;
			fds.push_back(sv[1]); fds.push_back(sv[0]);
			mpt::socket sock; sock._id = sv[0];
			mpt::input *in = LIB(mpt::mpt_stream_input(&sock, mpt::stream::RdWr | mpt::stream::Buffer, mpt::EncodingCobs, 0));
			if (!in) { sock._id = -1; return -1; }
			sock._id = -1;   // the C++ socket wrapper closes its descriptor on scope exit
			mt = in; o = add(kind, mt, find_block(in)); objs[o].fd0 = sv[0]; objs[o].fd1 = sv[1];
			break; }
		}
		if (o < 0) return -1;
		if (kind != K_CNT && !objs[o].block) return -1;
		++created;
		sl[s] = mt; so[s] = o;
		if (pre == 1) preset_high(o);
		if (pre == 2) {   // 2^32+1: one unref leaves exactly 2^32 references
			if (!counter(o)) { r.incomplete(std::string("reference counter of a ") + kname[kind] + " object not located"); return -1; }
			preset(o, ((uintptr_t) 1 << 32) + 1);
		}
		return o;
	}
	// model of a copy of the reference buffer `b` made by the library (each element is copy-constructed)
	int copy_refbuf(int b, mpt::buffer *nb)
	{
		int n = add(K_REFBUF, nb, find_block(nb));
		std::vector<int> el = objs[b].holds;
		for (int &e : el) { if (e >= 0 && can_addref(e)) retain(e); else { if (e >= 0) ++C.limit; e = -1; } }
		objs[n].holds = el;
		return n;
	}
	bool apply(int i)
	{
		const OpDef &d = cfg.ops[i];
		int s = d.a, t = d.b;
		nontrivial = false;
		hist.push_back(i);
		r.hint(mopn[d.code]);
		const mpt::type_traits *rt = reftraits();
		switch (d.code) {
		case M_NEW: {
			sig = std::string("new|") + kname[t];
			int o = create(t, s, d.c);
			if (bad) return false;
			if (o == -2) break;
			if (o < 0) { r.incomplete(std::string("creating a ") + kname[t] + " object failed"); return false; }
			break; }
		case M_CONVREF: case M_CONVPTR: case M_GENCONV: {
			int old = so[s], nw = d.code == M_GENCONV ? objs[so[t]].holds[0] : so[t];
			sig = std::string(d.code == M_GENCONV ? "generic-convert-assign|" : "convert-assign|") + cls(old, nw);
			Calls co = calls(old), cn = calls(nw);
			int ret;
			if (d.code == M_GENCONV) ret = LIB(sl[t]->convert(mpt::TypeMetaRef, &sl[s]));
			else {
				mpt::value v; v._addr = &sl[t]; v._type = d.code == M_CONVREF ? mpt::TypeMetaRef : mpt::TypeMetaPtr;
				ret = LIB(mpt::mpt_value_convert(&v, mpt::TypeMetaRef, &sl[s]));
			}
			if (nw >= 0 && !can_addref(nw)) {
				++C.limit; ++C.refused; nontrivial = true;
				if (ret >= 0) { checkall(); return fail("accepted-unretainable", fmt("assignment of %s (count cannot be raised) reported success %d", oname(nw).c_str(), ret)); }
			}
			else if (ret < 0) ++C.spurious;
			else {
				m_assign(s, nw);
				if (!checkall()) return false;
				if (!once(old, nw, co, cn)) return false;
			}
			break; }
		case M_CONVNULL: {
			sig = "convert-assign|no-target";
			mpt::value v; v._addr = &sl[s]; v._type = mpt::TypeMetaRef;
			LIB(mpt::mpt_value_convert(&v, mpt::TypeMetaRef, 0));
			break; }
		case M_CXXASSIGN: case M_CXXCOPY: {
			int old = so[s], nw = so[t];
			sig = std::string("reference-assign|") + cls(old, nw);
			Calls co = calls(old), cn = calls(nw);
			if (d.code == M_CXXASSIGN) LIB((ref(s) = ref(t), 0));
			else { sl[s] = 0; LIB((new (&sl[s]) MRef(ref(t)), 0)); }
			if (nw == old) {}
			else if (nw >= 0 && !can_addref(nw)) { ++C.limit; ++C.cleared; nontrivial = true; m_assign(s, -1); }   // no way to report: the target ends up empty
			else { m_assign(s, nw); if (!checkall() || !once(old, nw, co, cn)) return false; }
			break; }
		case M_CXXMOVE: {
			int old = so[s], nw = so[t];
			sig = std::string("reference-move|") + cls(old, nw);
			LIB((ref(s) = std::move(ref(t)), 0));
			if (s != t) { so[t] = -1; so[s] = nw; if (old >= 0) { release(old); ++C.replaced; } }
			break; }
		case M_CXXSET: {
			int old = so[s];
			sig = std::string("reference-set|") + cls(old, t);
			LIB((ref(s).set_instance((metatype *) objs[t].ptr), 0));
			--objs[t].raw; so[s] = t;
			if (old >= 0) { release(old); ++C.replaced; }
			break; }
		case M_CXXDETACH: {
			sig = "reference-detach|held";
			metatype *p = LIB(ref(s).detach());
			int o = so[s];
			if (p != (metatype *) objs[o].ptr) return fail("wrong-target", "detach returned a different instance");
			++objs[o].raw; so[s] = -1;
			break; }
		case M_CXXDTOR: {
			int old = so[s];
			sig = std::string("reference-destroy|") + cls(old, -1);
			LIB((ref(s).~MRef(), 0)); sl[s] = 0;
			if (old >= 0) { release(old); so[s] = -1; }
			break; }
		case M_RINIT: {
			int nw = so[t];
			sig = std::string(cfg.inref ? "input_reference_traits.init|" : "reference_traits.init|") + cls(-1, nw);
			Calls cn = calls(nw), co = calls(-1);
			sl[s] = 0;
			int ret = LIB(rt->init(&sl[s], &sl[t]));
			if (nw >= 0 && !can_addref(nw)) { ++C.limit; ++C.refused; nontrivial = true; if (ret >= 0) { checkall(); return fail("accepted-unretainable", "copy-initialisation from a referent whose count cannot be raised reported success"); } }
			else if (ret < 0) ++C.spurious;
			else { m_assign(s, nw); if (!checkall() || !once(-1, nw, co, cn)) return false; }
			break; }
		case M_RFINI: {
			int old = so[s];
			sig = std::string(cfg.inref ? "input_reference_traits.fini|" : "reference_traits.fini|") + cls(old, -1);
			LIB((rt->fini(&sl[s]), 0)); sl[s] = 0;
			if (old >= 0) { release(old); so[s] = -1; }
			break; }
		case M_ADDREF: {
			int o = so[s];
			sig = std::string("addref|") + kname[objs[o].kind] + (can_addref(o) ? "" : (kcountable(objs[o].kind) ? ",at-limit" : ",unique-owner"));
			uintptr_t *cp = counter(o); uintptr_t before = cp ? *cp : 0;
			uintptr_t ret = LIB(sl[s]->addref());
			if (can_addref(o)) {
				if (!ret) {   // a refusal is not promised against: nothing may have changed
					++C.spurious;
					if (cp && *cp != before) return fail("refused-but-changed", "addref reported failure but changed the counter");
				}
				else { retain(o); ++objs[o].raw; if (count(o) > 2) nontrivial = true; }
			} else {
				++C.limit; ++C.refused; nontrivial = true;
				if (ret || (cp && *cp != before)) return fail("accepted-at-limit", fmt("addref at count %s returned %llu and left the counter %s", cstr(o).c_str(), (unsigned long long) ret, cp && *cp != before ? "changed" : "unchanged"));
			}
			break; }
		case M_UNREFRAW: {
			int o = s;
			sig = std::string("unref|") + kname[objs[o].kind] + (count(o) > 1 ? ",shared" : ",last");
			LIB((((metatype *) objs[o].ptr)->unref(), 0));
			--objs[o].raw; release(o);
			break; }
		case M_CLONE: {
			int o = so[t], k = objs[o].kind;
			sig = std::string("clone|") + kname[k];
			metatype *c = LIB(sl[t]->clone());
			if ((k == K_METABUF || k == K_IOBUF) && !can_addref(objs[o].holds[0])) {
				// a copy needs one more reference to the shared buffer, which cannot be taken
				++C.limit; nontrivial = true;
				if (!c) { ++C.refused; break; }
				if (k == K_METABUF) return fail("accepted-unretainable", "clone returned a metatype (without the data) although the reference to the shared buffer could not be taken");
				int n = add(k, c, find_block(c)); objs[n].holds.push_back(-1); ++C.cleared;   // C++ buffer class: cannot report, the copy is empty
				++created; sl[s] = c; so[s] = n;
				break;
			}
			bool clonable = k == K_CNT || k == K_GENINFO || k == K_METABUF || k == K_IOBUF || k == K_GENI || k == K_GENR;
			if (!c) {
				if (clonable && !(k == K_GENR && objs[o].holds[0] >= 0 && !can_addref(objs[o].holds[0]))) ++C.spurious;
				else ++C.nonclonable, nontrivial = true;
				break;
			}
			// a clone is an owned reference: either to a new object or (model) one more reference to an existing one
			int ex = -1;
			for (size_t q = 0; q < objs.size(); ++q) if (!objs[q].dead && objs[q].ptr == (void *) c) ex = (int) q;
			if (ex >= 0) { retain(ex); sl[s] = c; so[s] = ex; break; }
			int n;
			if (k == K_CNT) { CountMeta *cm = (CountMeta *) c; owned.push_back(cm); n = add(K_CNT, cm, 0); objs[n].cm = cm; }
			else {
				n = add(clonable ? k : K_GENINFO, c, find_block(c));
				if (!objs[n].block) { r.incomplete("clone is not a tracked heap block"); return false; }
				if (k == K_METABUF || k == K_IOBUF) { int bo = objs[o].holds[0]; retain(bo); objs[n].holds.push_back(bo); nontrivial = true; }
				if (k == K_GENR) { int e = objs[o].holds[0]; if (e >= 0) retain(e); objs[n].holds.push_back(e); nontrivial = true; }
			}
			++created; sl[s] = c; so[s] = n;
			break; }
		case M_ARM: {
			int o = so[s];
			sig = "reply_set|reply";
			mpt::reply_data *rd = (mpt::reply_data *) ((char *) objs[o].ptr + 2 * sizeof(void *));
			if (LIB(mpt::mpt_reply_set(rd, 2, "\x01\x02")) < 0) { r.incomplete("mpt_reply_set failed"); return false; }
			objs[o].armed = true;
			break; }
		case M_DEFER: {
			int o = so[s];
			bool room = count(o) != 0 && count(o) != UMAX;   // deferred handles are counted internally, whether or not the metatype handle is shareable
			sig = std::string("defer|reply") + (room ? "" : ",at-limit") + (objs[o].armed ? "" : ",no-request");
			mpt::reply_context *rc = 0;
			LIB(sl[s]->convert(mpt::TypeReplyPtr, &rc));
			if (!rc) { r.incomplete("reply context interface not available"); return false; }
			uintptr_t before = *counter(o);
			mpt::reply_context_detached *h = LIB(rc->defer());
			if (!room) { ++C.limit; nontrivial = true; }
			if (!h) {
				++C.refused;
				if (*counter(o) != before) return fail("refused-but-changed", "defer returned no handle but changed the reference count");
				break;
			}
			if (!room) return fail("accepted-at-limit", "defer handed out a handle although the context count cannot be raised");
			Deferred df; df.h = h; df.block = find_block(h); df.ctx = o; df.live = true;
			size_t slot = 0;
			while (slot < defs.size() && defs[slot].live) ++slot;   // a finished (and verified freed) entry is reused: the table stays bounded
			if (slot < defs.size()) defs[slot] = df; else defs.push_back(df);
			retain(o); objs[o].armed = false; nontrivial = true;
			break; }
		case M_DREPLY: {
			Deferred &df = defs[s];
			sig = std::string("deferred.reply|") + (t == 0 ? "no-message" : (t == 1 ? "send-ok" : "send-fails"));
			static const uint8_t body[2] = {0, 0};
			mpt::message msg(body, sizeof body);
			send.fail = t == 2;
			int calls = send.calls;
			bool owner = metahandles(df.ctx) > 0;   // the context is still held through its metatype interface
			int ret = LIB(df.h->reply(t ? &msg : 0));
			send.fail = false;
			if (t && owner) { ++C.reply_checked; if (send.calls != calls + 1) return fail("not-delivered", fmt("the send callback ran %d time(s) although the context is still referenced through its metatype interface (an earlier non-final unref disabled it)", send.calls - calls)); }
			if (t && ret < 0) { ++C.refused; break; }   // failed reply keeps the handle
			df.live = false; release(df.ctx);
			break; }
		case M_RBPUT: {
			int nw = so[s], b = rbo[0];
			sig = std::string(cfg.inref ? "input-refarray.set|" : "refarray.set|") + (b < 0 ? "empty" : (count(b) > 1 ? "shared" : "unique")) + (nw < 0 ? ",new=none" : (can_addref(nw) ? ",new=other" : ",new=unretainable"));
			size_t n = b < 0 ? 0 : objs[b].holds.size();
			mpt::buffer *ob = rb[0]._buf;
			void *p = LIB(mpt::mpt_array_set(A(&rb[0]), rt, sizeof(void *), &sl[s], (long) n));
			if (!p) { ++C.spurious; if (rb[0]._buf != ob) return fail("wrong-target", "failed element assignment replaced the buffer"); break; }
			if (b < 0) { b = add(K_REFBUF, rb[0]._buf, find_block(rb[0]._buf)); rbo[0] = b; }
			else if (count(b) > 1) { ++C.shared_op; nontrivial = true; int c = copy_refbuf(b, rb[0]._buf); release(b); rbo[0] = b = c; }
			if (!objs[b].block) { r.incomplete("reference buffer is not a tracked heap block"); return false; }
			if (nw >= 0 && can_addref(nw)) { retain(nw); objs[b].holds.push_back(nw); }
			else { if (nw >= 0) { ++C.limit; nontrivial = true; } objs[b].holds.push_back(-1); }
			break; }
		case M_RBCLONE: {
			int old = rbo[s], nw = rbo[t];
			sig = std::string("refarray.clone|") + (old < 0 ? "held=none" : (count(old) > 1 ? "held=shared" : "held=unique")) + (nw == old ? ",new=same" : ",new=other");
			LIB(mpt::mpt_array_clone(A(&rb[s]), A(&rb[t])));
			if (nw != old) { retain(nw); rbo[s] = nw; if (old >= 0) { release(old); ++C.replaced; } }
			break; }
		case M_RBCLEAR: {
			int old = rbo[s];
			sig = std::string("refarray.clear|") + (old < 0 ? "held=none" : (count(old) > 1 ? "held=shared" : "held=unique"));
			LIB(mpt::mpt_array_clone(A(&rb[s]), 0));
			if (old >= 0) { release(old); rbo[s] = -1; }
			break; }
		case M_RBDETACH: {
			int b = rbo[s];
			bool shared = count(b) > 1;
			sig = std::string(cfg.inref ? "input-refarray.detach|" : "refarray.detach|") + (shared ? "shared" : "unique");
			mpt::buffer *ob = rb[s]._buf;
			mpt::buffer *nb = LIB(ob->detach(ob->_used));
			if (!nb) { ++C.spurious; break; }
			if (nb == ob) {}   // same instance: no reference moved
			else if (!shared) { objs[b].ptr = nb; objs[b].block = find_block(nb); rb[s]._buf = nb; }
			else {
				++C.shared_op; nontrivial = true;
				int c = copy_refbuf(b, nb); release(b); rbo[s] = c; rb[s]._buf = nb;
			}
			break; }
		case M_CREPLY: {
			int o = so[s];
			sig = "context.reply|reply";
			mpt::reply_context *rc = 0;
			LIB(sl[s]->convert(mpt::TypeReplyPtr, &rc));
			if (!rc) { r.incomplete("reply context interface not available"); return false; }
			static const uint8_t body[2] = {0, 0};
			mpt::message msg(body, sizeof body);
			int calls = send.calls;
			LIB(rc->reply(&msg));
			objs[o].armed = false;
			++C.reply_checked; nontrivial = true;
			// the object is held through (at least) this handle: it must still do its work
			if (send.calls != calls + 1) { checkall(); return fail("not-delivered", fmt("the send callback ran %d time(s) for a reply through a held reference (an earlier non-final unref disabled the context)", send.calls - calls)); }
			break; }
		case M_RDADVANCE: {
			sig = "rawdata.advance|rawdata";
			LIB(rawif(so[s])->advance());
			break; }
		case M_RDMODIFY: {
			sig = "rawdata.modify|rawdata";
			double v = 1.5; mpt::value val; val.set('d', &v);
			if (LIB(rawif(so[s])->modify(0, val, 0)) < 0) ++C.spurious;
			break; }
		case M_NODEASSIGN: case M_NODESET: {
			if (nodeo < 0) { mpt::node *n = LIB(mpt::node::create("n0")); if (!n) { r.incomplete("node creation failed"); return false; } nodeo = add(K_NODE, n, find_block(n)); objs[nodeo].holds.push_back(-1); }
			mpt::node *n = (mpt::node *) objs[nodeo].ptr;
			int old = objs[nodeo].holds[0], nw;
			if (d.code == M_NODEASSIGN) {
				nw = so[s];
				sig = std::string("node-assign|") + cls(old, nw);
				Calls co = calls(old), cn = calls(nw);
				LIB((*n = ref(s), 0));
				if (nw >= 0 && !can_addref(nw)) { ++C.limit; ++C.cleared; nontrivial = true; nw = -1; }
				if (nw >= 0) retain(nw);
				objs[nodeo].holds[0] = nw;
				if (old >= 0) { release(old); ++C.replaced; }
				if (!checkall() || (nw >= 0 && !once(old, nw, co, cn))) return false;
			} else {
				nw = s;
				sig = std::string("node-set|") + cls(old, nw);
				LIB((n->set_metatype((metatype *) objs[nw].ptr), 0));
				--objs[nw].raw; objs[nodeo].holds[0] = nw;
				if (old >= 0) { release(old); ++C.replaced; }
			}
			if (n->_meta != (nw >= 0 ? (metatype *) objs[nw].ptr : 0)) return fail("wrong-target", "node does not refer to the assigned object");
			break; }
		case M_NODEDROP: {
			sig = "node_destroy|" + cls(objs[nodeo].holds[0], -1);
			LIB(mpt::mpt_node_destroy((mpt::node *) objs[nodeo].ptr));
			release(nodeo);
			break; }
		case M_ADDITEMS: case M_GRPAPPEND: {
			if (grpo < 0) { mpt::item_group *g = LIB(new mpt::item_group); grpo = add(K_GROUP, static_cast<metatype *>(g), find_block(g)); }
			mpt::item_group *g = static_cast<mpt::item_group *>((metatype *) objs[grpo].ptr);
			size_t before = g->items().size();
			if (d.code == M_ADDITEMS) {
				int x = objs[nodeo].holds[0];
				sig = std::string("add_items|") + (x < 0 ? "node=empty" : (can_addref(x) ? "node=refcounted" : "node=unretainable"));
				Calls cx = calls(x), none = calls(-1);
				LIB(mpt::add_items(*static_cast<metatype *>(g), (mpt::node *) objs[nodeo].ptr, 0, 0));
				size_t now = g->items().size();
				// the group shows whether it took an item: one more item = one more reference to the node's object
				if (now == before + 1 && x >= 0) { retain(x); objs[grpo].holds.push_back(x); ++C.group_items; nontrivial = true; if (!checkall() || !once(-1, x, none, cx)) return false; }
				else if (now != before) return fail("wrong-target", fmt("group went from %zu to %zu items", before, now));
				else if (x >= 0 && can_addref(x)) ++C.spurious;
			} else {
				sig = "group.append|raw-reference";
				if (LIB(g->append(0, (metatype *) objs[s].ptr)) < 0) { ++C.spurious; break; }
				--objs[s].raw; objs[grpo].holds.push_back(s); ++C.group_items;   // the group took over the caller's reference
			}
			break; }
		case M_GRPCLEAR: {
			int c = grpidx(s);
			sig = std::string("group.clear|") + (s ? "clone" : "original");
			LIB(grpp(c)->clear(0));
			drop_holds(c, -1);
			break; }
		case M_GRPDROP: {
			int c = grpidx(s);
			sig = std::string("group.unref|") + (s ? "clone" : "original");
			LIB((((metatype *) objs[c].ptr)->unref(), 0));
			release(c);
			break; }
		case M_GRPCLONE: {
			sig = "group.clone|items";
			mpt::item_group *g = grpp(grpo), *c = LIB(g->clone());
			if (!c) { ++C.spurious; break; }
			grp2o = add(K_GROUP, static_cast<metatype *>(c), find_block(c));
			// the copy is a second holder of every item, however the implementation stores that
			if (c->items().size() && c->items().begin() == g->items().begin()) loose = true;
			// what the copy holds is read from the copy: the same object (one more reference) or a real copy of an unshareable item
			for (const mpt::item<metatype> &it : c->items()) {
				metatype *p = it.instance(); int e = -1;
				for (size_t q = 0; p && q < objs.size(); ++q) if (!objs[q].dead && objs[q].ptr == (void *) p) e = (int) q;
				if (p && e < 0) {
					bool cnt = false; for (int h : objs[grpo].holds) if (h >= 0 && objs[h].cm) cnt = true;
					if (!cnt) { r.incomplete("group clone holds an unknown object"); return false; }
					CountMeta *cm = (CountMeta *) p; owned.push_back(cm); e = add(K_CNT, cm, 0); objs[e].cm = cm;
				}
				else if (e >= 0) retain(e);
				objs[grp2o].holds.push_back(e);
			}
			++C.container_copies; nontrivial = true;
			break; }
		case M_GRPCLEARREF: {
			int c = grpidx(s);
			sig = std::string("group.clear-item|") + (s ? "clone" : "original") + (grp2o >= 0 && !objs[grp2o].dead && !objs[grpo].dead ? ",copied" : ",single");
			size_t n = LIB(grpp(c)->clear((metatype *) objs[t].ptr));
			if (n) drop_holds(c, t); else ++C.spurious;   // a refusal (shared storage) changes nothing
			break; }
		case M_RAINSERT: {
			sig = "refarray<T>.insert|raw-reference";
			if (rao[0] < 0) { RArr *a = LIB(new RArr); rao[0] = add(K_RARR, a, find_block(a)); }
			if (!LIB(rap(0)->insert((long) objs[rao[0]].holds.size(), (metatype *) objs[s].ptr))) { ++C.spurious; break; }
			--objs[s].raw; objs[rao[0]].holds.push_back(s); ++C.group_items;
			break; }
		case M_RACOPY: {
			sig = "refarray<T>.copy|items";
			RArr *c = LIB(new RArr(*rap(0)));
			rao[1] = add(K_RARR, c, find_block(c));
			if (c->length() && c->begin() == rap(0)->begin()) loose = true;
			for (int e : objs[rao[0]].holds) { if (e >= 0) retain(e); objs[rao[1]].holds.push_back(e); }
			++C.container_copies; nontrivial = true;
			break; }
		case M_RASET: {
			int c = rao[s], old = objs[c].holds[0];
			bool copied = usable(rao[0]) && usable(rao[1]);
			sig = std::string("refarray<T>.set|") + (s ? "copy" : "original") + (copied ? ",copied" : ",single");
			if (!LIB(rap(s)->set(0, (metatype *) objs[t].ptr))) { ++C.spurious; break; }   // refused (shared storage): caller keeps its reference
			--objs[t].raw; objs[c].holds[0] = t;
			if (old >= 0) { release(old); ++C.replaced; }
			break; }
		case M_RACLEAR: case M_RACLEARREF: {
			int c = rao[s];
			bool copied = usable(rao[0]) && usable(rao[1]);
			sig = std::string(d.code == M_RACLEAR ? "refarray<T>.clear|" : "refarray<T>.clear-item|") + (s ? "copy" : "original") + (copied ? ",copied" : ",single");
			long n = LIB(rap(s)->clear(d.code == M_RACLEAR ? 0 : (metatype *) objs[t].ptr));
			if (n > 0) { std::vector<int> h = objs[c].holds; for (int &e : objs[c].holds) if (e >= 0 && (d.code == M_RACLEAR || e == t)) { int x = e; e = -1; release(x); } }
			else ++C.spurious;
			break; }
		case M_RACOMPACT: {
			sig = std::string("refarray<T>.compact|") + (s ? "copy" : "original");
			LIB((rap(s)->compact(), 0));
			break; }
		case M_RADROP: {
			sig = std::string("refarray<T>.destroy|") + (s ? "copy" : "original");
			LIB((delete rap(s), 0));
			release(rao[s]);
			break; }
		case M_NADD: {
			sig = "notify_add|stream";
			if (!no) no = newnotify();
			int o = so[s];
			// the caller takes a reference and hands it to the notifier (taken over on success only)
			if (!LIB(sl[s]->addref())) { ++C.spurious; break; }
			if (LIB(mpt::mpt_notify_add(no, POLLIN, (mpt::input *) objs[o].ptr)) < 0) { LIB((sl[s]->unref(), 0)); ++C.spurious; break; }
			retain(o); nreg.push_back(o); nfd.push_back(objs[o].fd0);
			break; }
		case M_NCLEAR: {
			sig = std::string("notify_clear|") + (pending().find(fmt("%d,", s)) != std::string::npos ? "pending" : "idle");
			size_t k = 0; while (nreg[k] != s) ++k;
			LIB(mpt::mpt_notify_clear(no, nfd[k]));
			nreg.erase(nreg.begin() + k); nfd.erase(nfd.begin() + k);
			release(s);
			break; }
		case M_NWAIT: {
			sig = "notify_wait|registered";
			for (int e : nreg) if (!objs[e].armed) { char c = 0; if (write(objs[e].fd1, &c, 1) == 1) objs[e].armed = true; }   // peer sends one byte per input, once
			LIB(mpt::mpt_notify_wait(no, POLLIN, 0));
			break; }
		case M_NNEXT: {
			sig = "notify_next|pending";
			mpt::input *p = LIB(mpt::mpt_notify_next(no));
			if (p) {
				++C.next_handles; nontrivial = true;
				bool live = false;
				for (size_t o = 0; o < objs.size(); ++o) if (!objs[o].dead && objs[o].ptr == (void *) p) live = true;
				if (!live) return fail("dangling-handle", "mpt_notify_next handed out an input that was destroyed when the notifier dropped its (last) reference");
			}
			break; }
		case M_NCONFIG: {
			int o = so[s];
			sig = std::string("notify_config|") + (registered(o) ? "already-registered" : "new-input");
			if (!no) no = newnotify();
			// global configuration element "mpt.connect" refers to the input for the duration of the call (borrowed, restored afterwards)
			mpt::path p; p.set("mpt.connect");
			metatype *ce = LIB(mpt::mpt_config_global(&p));
			mpt::node *n = 0;
			if (!ce || LIB(ce->convert(mpt::TypeNodePtr, &n)) < 0 || !n) { if (ce) LIB((ce->unref(), 0)); r.incomplete("global configuration element not available"); return false; }
			LIB((ce->unref(), 0));
			metatype *keep = n->_meta;
			n->_meta = (metatype *) objs[o].ptr;
			size_t used = no->_fdused;
			int cret = LIB(mpt::mpt_notify_config(no, 0));
			n->_meta = keep;
			r.note("  mpt_notify_config -> %d, inputs %zu -> %zu", cret, used, (size_t) no->_fdused);
			if (no->_fdused == used + 1) { retain(o); nreg.push_back(o); nfd.push_back(objs[o].fd0); ++C.config_added; }   // the notifier holds one more reference
			else if (no->_fdused != used) return fail("wrong-target", "notifier input count changed unexpectedly");
			else { ++C.refused; ++C.config_refused; nontrivial = true; }   // refused: no reference may stay behind
			break; }
		case M_NFINI: {
			sig = "notify_fini|registered";
			LIB((mpt::mpt_notify_fini(no), 0));
			std::vector<int> h; h.swap(nreg); nfd.clear();
			for (int e : h) release(e);
			break; }
		}
		if (!checkall()) return false;
		for (size_t o = 0; o < objs.size(); ++o) if (objs[o].dead) { ++C.destroyed; break; }
		if (nontrivial) ++C.nontrivial;
		return true;
	}
	bool drain()
	{
		for (size_t o = 0; o < objs.size(); ++o) if (!objs[o].dead && objs[o].phantom) {
			unpreset((int) o);
		}
		if (no && !nreg.empty()) {
			dstep = "finishing the notifier (%d inputs)"; darg = (int) nreg.size();
			LIB((mpt::mpt_notify_fini(no), 0));
			std::vector<int> h; h.swap(nreg); nfd.clear();
			for (int e : h) release(e);
			if (!checkall()) return false;
		}
		if (no) LIB((mpt::mpt_notify_fini(no), 0));
		for (int a = 1; a >= 0; --a) if (usable(rao[a])) {
			dstep = "destroying reference array %d"; darg = a;
			LIB((delete rap(a), 0));
			release(rao[a]);
			if (!checkall()) return false;
		}
		for (int g = 1; g >= 0; --g) if (usable(grpidx(g))) {
			dstep = "dropping item group %d"; darg = g;
			LIB((((metatype *) objs[grpidx(g)].ptr)->unref(), 0));
			release(grpidx(g));
			if (!checkall()) return false;
		}
		if (usable(nodeo)) {
			dstep = "destroying the node (object #%d)"; darg = nodeo;
			LIB(mpt::mpt_node_destroy((mpt::node *) objs[nodeo].ptr));
			release(nodeo);
			if (!checkall()) return false;
		}
		for (int i = 0; i < 2; ++i) if (rbo[i] >= 0) {
			dstep = "dropping reference array %d"; darg = i;
			LIB(mpt::mpt_array_clone(A(&rb[i]), 0));
			release(rbo[i]); rbo[i] = -1;
			if (!checkall()) return false;
		}
		for (size_t i = 0; i < defs.size(); ++i) if (defs[i].live) {
			dstep = "finishing deferred handle %d"; darg = (int) i;
			LIB(defs[i].h->reply(0));
			defs[i].live = false; release(defs[i].ctx);
			if (!checkall()) return false;
		}
		for (int i = 0; i < cfg.nslots; ++i) if (so[i] >= 0) {
			dstep = "dropping handle %d"; darg = i;
			LIB((sl[i]->unref(), 0)); sl[i] = 0;
			release(so[i]); so[i] = -1;
			if (!checkall()) return false;
		}
		for (size_t o = 0; o < objs.size(); ++o) while (!objs[o].dead && objs[o].raw > 0) {
			dstep = "dropping a raw reference to object #%d"; darg = (int) o;
			if (objs[o].kind == K_BUF || objs[o].kind == K_REFBUF) LIB((((mpt::buffer *) objs[o].ptr)->unref(), 0));
			else LIB((((metatype *) objs[o].ptr)->unref(), 0));
			--objs[o].raw; release(o);
			if (!checkall()) return false;
		}
		for (size_t o = 0; o < objs.size(); ++o) if (!objs[o].dead) { return fail("leak", oname(o) + " has model references left after the drain (harness bookkeeping)"); }
		++C.drained;
		return true;
	}
};

// ================================================================= history BFS with drain
// after the drain nothing the library allocated for the dropped objects may be left (owned sub-objects included).
// Lazily created library singletons show up once per process: the verdict comes from a repetition on a fresh system.
template <class Sys>
static bool quiescent(Run &r, Sys &s, const Vec &v)
{
	if (ledger_live() == s.base) { ++C.quiescent; return true; }
	Counters keep = C;
	Sys s2(r);
	bool ok = true;
	for (size_t i = 1; i < v.size() && ok; ++i) ok = s2.apply((int) v[i]);
	if (ok) ok = s2.drain();
	C = keep;
	if (!ok) return false;
	size_t now = ledger_live();
	if (now == s2.base) { ++C.quiescent; return true; }
	s2.dstep = "all references dropped, %d block(s) left"; s2.darg = (int) (now - s2.base);
	return s2.fail("leak-at-quiescence", fmt("%zu heap block(s) allocated by the library on behalf of the dropped objects are still allocated after the last reference was dropped", now - s2.base));
}
template <class Sys>
static void explore(Run &r, int depth)
{
	r.additive = false;
	struct Node { Vec hist; Hash128 h; };
	std::unordered_set<Hash128, Hash128H> seen;
	std::deque<Node> frontier;
	int nops;
	{
		Vec v(1, 0);
		if (!r.enter(v, "init")) return;
		Sys s(r);
		nops = s.nops();
		Hash128 h = hash128(s.canon());
		seen.insert(h); frontier.push_back(Node{v, h}); ++r.states;
		s.drain();
	}
	int deepest = 0; uint64_t cut = 0;
	while (!frontier.empty()) {
		Node n = frontier.front(); frontier.pop_front();
		if ((int) n.hist.size() - 1 >= depth) { ++cut; continue; }
		if (r.expired()) return;
		std::vector<int> en;
		Counters snap = C;
		{
			Sys s(r);
			bool ok = true;
			for (size_t i = 1; i < n.hist.size() && ok; ++i) ok = s.apply((int) n.hist[i]);
			if (ok) for (int op = 0; op < nops; ++op) if (s.enabled(op)) en.push_back(op);
			if (ok) ok = s.drain();
			if (!ok) { r.violation("ENGINE|nondeterministic-replay", "history prefix did not reproduce"); r.incomplete("nondeterministic replay"); return; }
		}
		C = snap;
		for (int op : en) {
			Vec v = n.hist; v.push_back(op);
			if (!r.enter(v, "")) continue;
			Sys s(r);
			bool ok = true;
			for (size_t i = 1; i < n.hist.size() && ok; ++i) ok = s.apply((int) n.hist[i]);
			if (!ok || !(hash128(s.canon()) == n.h)) { r.violation("ENGINE|nondeterministic-replay", "history prefix did not reproduce its canonical state"); r.incomplete("nondeterministic replay"); return; }
			C = snap;
			++r.transitions;
			if (!s.apply(op)) continue;
			std::string c = s.canon();
			if (!s.drain() || !quiescent(r, s, v)) continue;
			snap = C;
			Hash128 h = hash128(c);
			if (seen.insert(h).second) {
				frontier.push_back(Node{v, h}); ++r.states;
				if ((int) v.size() - 1 > deepest) deepest = (int) v.size() - 1;
				if (r.samples.size() < 3 && v.size() >= 4) { Counters keep = C; Sys q(r); std::string t; for (size_t i = 1; i < v.size(); ++i) { t += (i > 1 ? " ; " : "") + q.opname((int) v[i]); q.apply((int) v[i]); } q.drain(); C = keep; r.sample(cfg.name + ": " + t); }
			}
		}
	}
	r.count("deepest_level_with_a_new_state(" + cfg.name + ")", deepest);
	r.count("states_not_expanded_at_depth_bound", cut);
	if (!cut) r.count("jobs_closed_under_the_alphabet(all reachable states within the caps expanded)", 1);
}
template <class Sys>
static void replay(Run &r, const Vec &v)
{
	r.enter(v, "");
	Sys s(r);
	r.note("job %s, initial state: %s", cfg.name.c_str(), s.canon().c_str());
	for (size_t i = 1; i < v.size(); ++i) {
		r.note("op %s", s.opname((int) v[i]).c_str());
		if (!s.enabled((int) v[i])) { r.note("  (not enabled)"); return; }
		bool ok = s.apply((int) v[i]);
		r.note("  -> %s %s", ok ? "ok" : "STOP", s.canon().c_str());
		if (!ok) return;
	}
	bool ok = s.drain();
	r.note("drain -> %s", ok ? "all objects destroyed exactly at their last reference" : "STOP");
	if (ok) { ok = quiescent(r, s, v); r.note("quiescence -> %s", ok ? "no library block left" : "STOP"); }
}

// ================================================================= refcount primitives
static int rc_depth(Tier t) { return t == Quick ? 5 : 7; }
static void refcount_body(Run &r, Ctx &x, int depth)
{
	// limits plus every integer-width boundary (a count squeezed through a narrower type shows up there)
	static const uintptr_t B31 = (uintptr_t) 1 << 31, B32 = (uintptr_t) 1 << 32, B63 = (uintptr_t) 1 << 63;
	static const uintptr_t presets[] = { 0, 1, 2, UMAX - 1, UMAX, B31 - 1, B31, B31 + 1, B32 - 1, B32, B32 + 1, B32 * 2, B63 - 1, B63, B63 + 1 };
	static const char *pn[] = { "0", "1", "2", "MAX-1", "MAX", "2^31-1", "2^31", "2^31+1", "2^32-1", "2^32", "2^32+1", "2^33", "2^63-1", "2^63", "2^63+1" };
	size_t pi = x.choose(sizeof presets / sizeof *presets);
	uintptr_t v = presets[pi];
	mpt::refcount *rc = (mpt::refcount *) malloc(sizeof(mpt::refcount));
	rc->_val = v;
	std::string trace = std::string("counter=") + pn[pi];
	bool boundary = false;
	asan_init(); asan_bad();
	++r.states;
	for (int i = 0; i < depth; ++i) {
		int op = (int) x.choose(5);
		if (!op) break;
		bool raise = op == 1 || op == 3, cxx = op >= 3;
		const char *nm = raise ? (cxx ? "refcount::raise" : "mpt_refcount_raise") : (cxx ? "refcount::lower" : "mpt_refcount_lower");
		trace += std::string(" ") + nm;
		r.hint(nm);
		++r.transitions;
		uintptr_t ret = raise ? (cxx ? LIB(rc->raise()) : LIB(mpt::mpt_refcount_raise(rc))) : (cxx ? LIB(rc->lower()) : LIB(mpt::mpt_refcount_lower(rc)));
		const char *cls = v == 0 ? "at-zero" : (v == UMAX ? "at-max" : (v > B31 - 4 ? "in-range,wide" : "in-range"));
		std::string sg = std::string(raise ? "refcount_raise|" : "refcount_lower|") + cls + "|";
		if (v == 0 || (raise && v == UMAX) || pi >= 5) boundary = true;
		if (pi >= 5) r.count("raise_lower_at_width_boundary");
		if (raise) {
			if (v == 0 || v == UMAX) {
				r.count("raise_refused_at_limit");
				if (rc->_val != v) { r.violation(sg + "counter-changed", trace + fmt(": counter changed to %llx by a raise that must fail", (unsigned long long) rc->_val)); break; }
				if (ret != 0) { r.violation(sg + "reported-success", trace + fmt(": returned %llx instead of 0", (unsigned long long) ret)); break; }
			} else {
				++v;
				if (rc->_val != v || ret != v) { r.violation(sg + "wrong-result", trace + fmt(": counter %llx, returned %llx, expected %llx", (unsigned long long) rc->_val, (unsigned long long) ret, (unsigned long long) v)); break; }
			}
		} else {
			if (v == 0) {
				r.count("lower_at_zero");
				if (rc->_val != 0) { r.violation(sg + "counter-changed", trace + fmt(": counter wrapped to %llx", (unsigned long long) rc->_val)); break; }
			} else {
				--v;
				if (rc->_val != v || ret != v) { r.violation(sg + "wrong-result", trace + fmt(": counter %llx, returned %llx, expected %llx", (unsigned long long) rc->_val, (unsigned long long) ret, (unsigned long long) v)); break; }
			}
		}
		if (asan_bad()) { r.violation(sg + "memory-error", trace + ": AddressSanitizer report"); break; }
	}
	if (boundary) r.count("nontrivial");
	r.note("%s", trace.c_str());
	if (pi == 3 && x.taken.size() == 4) r.sample("refcount: " + trace);
	free(rc);
}

// ================================================================= jobs
static void add_ops(std::vector<OpDef> &v, int code, int na, int nb, int c = 0) { for (int a = 0; a < na; ++a) for (int b = 0; b < (nb ? nb : 1); ++b) v.push_back(OpDef{code, a, b, c}); }

static bool configure(const std::string &job, Tier tier)
{
	cfg = Cfg();
	cfg.name = job;
	cfg.nslots = 3; cfg.cap = 3; cfg.rawcap = tier == Quick ? 1 : 2;
	cfg.conv = cfg.cxx = cfg.traits = cfg.clone = true; cfg.reply = cfg.refbuf = cfg.genconv = cfg.inref = cfg.group = cfg.rdops = cfg.rarr = cfg.notify = cfg.groupcopy = false;
	std::vector<OpDef> &o = cfg.ops;
	int S = cfg.nslots;
	if (job == "buffer" || job == "buffer:typed") {
		bool typed = job != "buffer";
		cfg.depth = tier == Quick ? 5 : 40;
		cfg.rawcap = 1;
		// new: b = 2*kind + large, c = counter preset MAX-1
		if (!typed) { for (int v : {0, 1}) { add_ops(o, B_NEW, S, 0, 0); for (size_t i = o.size() - S; i < o.size(); ++i) o[i].b = v; add_ops(o, B_NEW, S, 0, 1); for (size_t i = o.size() - S; i < o.size(); ++i) o[i].b = v; } }
		else for (int v : {2, 3, 4, 0}) { add_ops(o, B_NEW, S, 0, 0); for (size_t i = o.size() - S; i < o.size(); ++i) o[i].b = v; }
		add_ops(o, B_CLONE, S, S); add_ops(o, B_CLEAR, S, 0); add_ops(o, B_CXXASSIGN, S, S);
		add_ops(o, B_TINIT, S, S); add_ops(o, B_TFINI, S, 0);
		add_ops(o, B_ADDREF, S, 0); add_ops(o, B_UNREFRAW, 3, 0);
		add_ops(o, B_DETACH, S, 3, 0); if (typed) add_ops(o, B_DETACH, S, 3, 1);
		if (typed) add_ops(o, B_SET, S, 0);
		add_ops(o, B_SLICE, S, 0); add_ops(o, B_INSERT, S, 0); add_ops(o, B_APPEND, S, 0);
		return true;
	}
	if (job.compare(0, 5, "meta:")) return false;
	std::string k = job.substr(5);
	cfg.depth = tier == Quick ? 5 : 40;
	if (k == "counting") cfg.kinds = {K_CNT};
	else if (k == "geninfo") cfg.kinds = {K_GENINFO, K_CNT};
	else if (k == "metabuffer") cfg.kinds = {K_METABUF, K_CNT};
	else if (k == "rawdata") cfg.kinds = {K_RAW, K_CNT};
	else if (k == "rawdata-stages") { cfg.kinds = {K_RAW}; cfg.rdops = true; cfg.nslots = S = 2; cfg.cap = 2; cfg.rawcap = 1; cfg.cxx = false; cfg.clone = false; }
	else if (k == "generic") { cfg.kinds = {K_GENI, K_GENR, K_CNT}; cfg.genconv = true; cfg.depth = tier == Quick ? 3 : 4; }   // every destroyed generic costs an ASan alloc-dealloc-mismatch report
	else if (k == "cxxtype") cfg.kinds = {K_CXX, K_CNT};
	else if (k == "stream") cfg.kinds = {K_STREAM, K_CNT};
	else if (k == "iobuffer") cfg.kinds = {K_IOBUF, K_CNT};
	else if (k == "reply") { cfg.kinds = {K_REPLY}; cfg.reply = true; cfg.cxx = false; cfg.traits = false; cfg.cap = 2; }
	else if (k == "refarray") { cfg.kinds = {K_CNT, K_GENINFO}; cfg.refbuf = true; cfg.nslots = S = 2; cfg.cap = 2; cfg.rawcap = 1; cfg.cxx = false; cfg.traits = false; cfg.clone = false; cfg.conv = false; }
	else if (k == "inputref") { cfg.kinds = {K_STREAM}; cfg.inref = cfg.refbuf = true; cfg.nslots = S = 2; cfg.cap = 2; cfg.rawcap = 1; cfg.cxx = false; cfg.clone = false; cfg.conv = false; }
	else if (k == "group") { cfg.kinds = {K_CNT, K_CXX}; cfg.group = true; cfg.nslots = S = 2; cfg.cap = 2; cfg.rawcap = tier == Quick ? 1 : 2; cfg.cxx = false; cfg.clone = false; cfg.conv = false; }
	else if (k == "groupcopy") { cfg.kinds = {K_CNT}; cfg.groupcopy = true; cfg.nslots = S = 2; cfg.cap = 2; cfg.rawcap = 1; cfg.cxx = false; cfg.clone = false; cfg.conv = false; }
	else if (k == "cxxarray") { cfg.kinds = {K_CNT, K_CXX}; cfg.rarr = true; cfg.nslots = S = 2; cfg.cap = 2; cfg.rawcap = 2; cfg.cxx = false; cfg.clone = false; cfg.conv = false; }
	else if (k == "notify") { cfg.kinds = {K_STREAM}; cfg.notify = true; cfg.nslots = S = 2; cfg.cap = 2; cfg.rawcap = 1; if (tier == Quick) cfg.depth = 7; cfg.cxx = false; cfg.clone = false; cfg.conv = false; }
	else if (k == "mixed") { cfg.kinds = {K_GENINFO, K_RAW, K_REPLY, K_CXX}; cfg.cxx = false; cfg.traits = false; cfg.clone = false; }
	else return false;
	// two raw references per object only where the closed state space stays small; the other jobs close with one
	if (!(k == "counting" || k == "geninfo" || k == "metabuffer" || k == "reply" || k == "cxxarray")) cfg.rawcap = 1;
	for (int kind : cfg.kinds) { add_ops(o, M_NEW, S, 0, 0); for (size_t i = o.size() - S; i < o.size(); ++i) o[i].b = kind;
		if (kpokeable(kind)) { add_ops(o, M_NEW, S, 0, 1); for (size_t i = o.size() - S; i < o.size(); ++i) o[i].b = kind; }
		// the kinds counted through the C++ refcount wrappers also start at 2^32+1
		// a text metatype over a shared buffer whose counter is at its limit (after / before the metatype takes its reference)
		if (kind == K_METABUF || kind == K_IOBUF) { add_ops(o, M_NEW, S, 0, 3); for (size_t i = o.size() - S; i < o.size(); ++i) o[i].b = kind; }
		if (kind == K_METABUF) { add_ops(o, M_NEW, S, 0, 5); for (size_t i = o.size() - S; i < o.size(); ++i) o[i].b = kind; }
		if (kind == K_METABUF) { add_ops(o, M_NEW, S, 0, 4); for (size_t i = o.size() - S; i < o.size(); ++i) o[i].b = kind; }
		if ((kind == K_CXX || kind == K_GENI || kind == K_IOBUF) && k != "mixed") { add_ops(o, M_NEW, S, 0, 2); for (size_t i = o.size() - S; i < o.size(); ++i) o[i].b = kind; } }
	if (cfg.conv) { add_ops(o, M_CONVREF, S, S); add_ops(o, M_CONVPTR, S, S); add_ops(o, M_CONVNULL, S, 0); }
	if (cfg.genconv) add_ops(o, M_GENCONV, S, S);
	if (cfg.cxx) { add_ops(o, M_CXXASSIGN, S, S); add_ops(o, M_CXXMOVE, S, S); add_ops(o, M_CXXCOPY, S, S); add_ops(o, M_CXXSET, S, 6); add_ops(o, M_CXXDETACH, S, 0); add_ops(o, M_CXXDTOR, S, 0); }
	if (cfg.traits) { add_ops(o, M_RINIT, S, S); add_ops(o, M_RFINI, S, 0); }
	add_ops(o, M_ADDREF, S, 0); add_ops(o, M_UNREFRAW, 6, 0);
	if (cfg.clone) add_ops(o, M_CLONE, S, S);
	if (cfg.reply) { add_ops(o, M_ARM, S, 0); add_ops(o, M_DEFER, S, 0); add_ops(o, M_DREPLY, 2, 3); add_ops(o, M_CREPLY, S, 0); }
	if (cfg.rdops) { add_ops(o, M_RDADVANCE, S, 0); add_ops(o, M_RDMODIFY, S, 0); }
	if (cfg.group) { add_ops(o, M_NODEASSIGN, S, 0); add_ops(o, M_NODESET, 6, 0); add_ops(o, M_NODEDROP, 1, 0); add_ops(o, M_ADDITEMS, 1, 0); add_ops(o, M_GRPAPPEND, 6, 0); add_ops(o, M_GRPCLEAR, 1, 0); add_ops(o, M_GRPDROP, 1, 0); }
	if (cfg.groupcopy) { add_ops(o, M_GRPAPPEND, 4, 0); add_ops(o, M_GRPCLEAR, 2, 0); add_ops(o, M_GRPDROP, 2, 0); add_ops(o, M_GRPCLONE, 1, 0); add_ops(o, M_GRPCLEARREF, 2, 4); }
	if (cfg.rarr) { add_ops(o, M_RAINSERT, 4, 0); add_ops(o, M_RACOPY, 1, 0); add_ops(o, M_RASET, 2, 4); add_ops(o, M_RACLEAR, 2, 0); add_ops(o, M_RACLEARREF, 2, 4); add_ops(o, M_RACOMPACT, 2, 0); add_ops(o, M_RADROP, 2, 0); }
	if (cfg.notify) { add_ops(o, M_NADD, S, 0); add_ops(o, M_NCLEAR, 4, 0); add_ops(o, M_NWAIT, 1, 0); add_ops(o, M_NNEXT, 1, 0); add_ops(o, M_NCONFIG, S, 0); add_ops(o, M_NFINI, 1, 0); }
	if (cfg.refbuf) { add_ops(o, M_RBPUT, S, 0); add_ops(o, M_RBCLONE, 2, 2); add_ops(o, M_RBCLEAR, 2, 0); add_ops(o, M_RBDETACH, 2, 0); if (!cfg.traits) add_ops(o, M_RFINI, S, 0); }
	return true;
}

void mc_jobs(Tier t, std::vector<std::string> &jobs)
{
	jobs.push_back("refcount");
	jobs.push_back("buffer");
	jobs.push_back("buffer:typed");
	for (const char *k : {"counting", "geninfo", "metabuffer", "rawdata", "rawdata-stages", "iobuffer", "generic", "cxxtype", "stream", "reply", "refarray", "inputref", "group", "groupcopy", "cxxarray", "notify", "mixed"}) jobs.push_back(std::string("meta:") + k);
}

static void flush_counters(Run &r)
{
	r.count("nontrivial", C.nontrivial); r.count("refused", C.refused); r.count("at_counter_limit", C.limit); r.count("held_reference_replaced", C.replaced);
	r.count("op_on_shared_object", C.shared_op); r.count("transitions_with_destroyed_object", C.destroyed); r.count("clone_of_nonclonable", C.nonclonable);
	r.count("cxx_assign_unretainable_clears_target(not flagged)", C.cleared); r.count("spurious_refusals(not flagged)", C.spurious); r.count("states_drained_to_quiescence", C.drained); r.count("refused_write_on_shared_buffer", C.refused_shared); r.count("clone_between_different_content_traits", C.traits_mismatch); r.count("replies_through_held_context_checked", C.reply_checked); r.count("group_items_taken", C.group_items); r.count("drained_states_with_no_block_left", C.quiescent); r.count("container_copies(group clone, reference_array copy)", C.container_copies); r.count("notify_next_handles_checked", C.next_handles); r.count("notify_config_registered", C.config_added); r.count("notify_config_refused", C.config_refused); r.count("metabuffer_creation_accepted_on_content_layout", C.content_accepted); r.count("metabuffer_creation_refused_after_reference_taken(content layout)", C.content_refused);
	r.count("alloc_dealloc_mismatch_reports(out of scope, not flagged)", g_mismatch);
}

void mc_explore(Run &r, const std::string &job)
{
	C = Counters(); g_mismatch = 0; g_reported.clear();
	r.require("nontrivial");
	if (job == "refcount") {
		r.require("raise_refused_at_limit"); r.require("lower_at_zero"); r.require("raise_lower_at_width_boundary");
		int depth = rc_depth(r.tier);
		dfs(r, [&](Ctx &x) { refcount_body(r, x, depth); });
		return;
	}
	if (!configure(job, r.tier)) { r.incomplete("unknown job " + job); return; }
	for (const char *k : {"held_reference_replaced", "at_counter_limit", "refused", "transitions_with_destroyed_object", "states_drained_to_quiescence", "op_on_shared_object", "clone_of_nonclonable", "replies_through_held_context_checked", "group_items_taken", "drained_states_with_no_block_left", "container_copies(group clone, reference_array copy)", "notify_next_handles_checked", "notify_config_registered", "notify_config_refused", "metabuffer_creation_accepted_on_content_layout", "metabuffer_creation_refused_after_reference_taken(content layout)"}) r.require(k);
	if (job.compare(0, 6, "buffer") == 0) { r.require("refused_write_on_shared_buffer"); if (job != "buffer") r.require("clone_between_different_content_traits"); explore<BufSys>(r, cfg.depth); } else explore<MetaSys>(r, cfg.depth);
	flush_counters(r);
}

void mc_replay(Run &r, const std::string &job, const Vec &v)
{
	if (job == "refcount") { int depth = rc_depth(r.tier); dfs_replay(r, [&](Ctx &x) { refcount_body(r, x, depth); }, v); return; }
	if (!configure(job, r.tier)) return;
	if (job.compare(0, 6, "buffer") == 0) replay<BufSys>(r, v); else replay<MetaSys>(r, v);
}

#!/usr/bin/env python3
"""Regenerates /verif/MANIFEST.json from the table below (one entry per claimed property)."""
import json, os
ROOT = os.path.dirname(os.path.dirname(os.path.abspath(__file__)))
ALL = ["C%02d" % i for i in range(1, 21)]
# claims/Cnn.json: {"technique", "level_text", "level_note", "design_ref"} for every claimed property
import glob
CLAIMED = {}
# only properties listed in claims/ENABLED (integrated: fixes committed, check green on the unchanged tree) are claimed
ENABLED = set(open(os.path.join(ROOT, "claims", "ENABLED")).read().split())
for f in sorted(glob.glob(os.path.join(ROOT, "claims", "C*.json"))):
    if os.path.basename(f)[:-5] not in ENABLED: continue
    d = json.load(open(f)); CLAIMED[os.path.basename(f)[:-5]] = (d["technique"], d["level_text"], d["level_note"], d.get("design_ref", "DESIGN.md " + os.path.basename(f)[:-5]))
PENDING_REASON = "check not built yet in this round (planned, see DESIGN.md section 8); not claimed until its harness has run to completion on the unchanged tree"
checks = []
for pid in ALL:
    if pid not in CLAIMED: continue
    tech, text, note, ref = CLAIMED[pid]
    checks.append({
        "property_id": pid,
        "quick_cmd": "./check %s --tier quick" % pid,
        "thorough_cmd": "./check %s --tier thorough" % pid,
        "evidence_file": "evidence/%s.json" % pid,
        "replay_cmd_template": "./check %s --replay {path}" % pid,
        "engine": "mc",
        "level_claimed": {"category": "model_checking", "text": text, "design_ref": ref},
        "level_note": note,
        "technique": tech,
    })
m = {
 "version": 1,
 "setup_cmd": "make -f build.mk -j16 -s libs build/obj/mc/engine.o",
 "hooks": {
   "guard": "MPT_BASE_VERIF",
   "enable": "checks compile /repo sources directly with -DMPT_BASE_VERIF (build.mk); no source hook exists, the define guards nothing today",
   "baseline_off_cmd": "cmake -G Ninja -S /repo -B /repo/_build >/dev/null && cmake --build /repo/_build && ctest --test-dir /repo/_build -j8 --timeout 900",
   "source_commits": [],
   "add_only": True,
 },
 "engines": [{"name": "mc", "path": "mc/", "serves_properties": sorted(CLAIMED), "kind_free_text": "hand-written bounded exhaustive explorer (choice-tree DFS with deviation bound, BFS over histories/snapshots) running the real code under ASan in forked workers; ./check merges, replays twice, matches known_findings.json"}],
 "checks": checks,
 "not_applicable": [{"property_id": p, "reason": PENDING_REASON} for p in ALL if p not in CLAIMED],
 "notes": "All checks: exit 0 held / exit 1 + VIOLATION line / exit 2 check broken. Genuine defects repaired in /repo are listed as fixed in known_findings.json.",
}
json.dump(m, open(os.path.join(ROOT, "MANIFEST.json"), "w"), indent=1)
print("MANIFEST.json: %d checks, %d not_applicable" % (len(checks), len(m["not_applicable"])))

#!/usr/bin/env python3
"""run_refactors.py <Cnn> [...] — files the behaviour-preserving changes a sub-agent left in /tmp/ref-<Cnn>/refactors/
(rK.diff, rK.txt) under /verif/refactors/<Cnn>-rK/, applies each alone in a scratch worktree of /repo HEAD, checks
that the project's tests pass, runs the property's check (quick) and expects exit 0.  An exit 1 is a false-alarm
candidate and must be examined (either the refactor does change what the property states, or the check demands too much)."""
import sys, os, json, subprocess, glob, shutil
ROOT = os.path.dirname(os.path.dirname(os.path.abspath(__file__))); os.chdir(ROOT)
WT = "/tmp/refwt"
def sh(c, **kw): return subprocess.run(c, shell=True, capture_output=True, text=True, **kw)
sh("git -C /repo worktree remove --force %s" % WT); sh("git -C /repo worktree add --detach -q %s HEAD" % WT)
resf = "refactors/RESULTS.json"; os.makedirs("refactors", exist_ok=True)
res = json.load(open(resf)) if os.path.exists(resf) else {}
for pid in sys.argv[1:]:
    src = "/tmp/ref-%s/refactors" % pid
    for d in sorted(glob.glob(src + "/r[0-9].diff")):
        k = os.path.basename(d)[1]; rid = "%s-r%s" % (pid, k); dst = "refactors/" + rid
        os.makedirs(dst, exist_ok=True); shutil.copy(d, dst + "/patch.diff")
        if os.path.exists(d[:-5] + ".txt"): shutil.copy(d[:-5] + ".txt", dst + "/notes.txt")
for rid in sorted(os.path.basename(p) for p in glob.glob("refactors/C*-r*")):
    if sys.argv[1:] and rid.split("-")[0] not in sys.argv[1:]: continue
    pid = rid.split("-")[0]
    a = sh("git -C %s apply --whitespace=nowarn %s" % (WT, os.path.abspath("refactors/%s/patch.diff" % rid)))
    if a.returncode: print(rid, "does not apply:", a.stderr[:150]); res[rid] = {"error": "does not apply"}; continue
    try:
        b = sh("cmake -G Ninja -S %s -B %s/_build >/dev/null 2>&1 && cmake --build %s/_build -j8 2>&1 | tail -2 && ctest --test-dir %s/_build -j8 2>&1 | grep 'tests passed'" % (WT, WT, WT, WT))
        tests_ok = "100% tests passed, 0 tests failed out of 29" in b.stdout
        env = dict(os.environ, MC_BUILD="build-seed", MC_REPO=WT)
        r = subprocess.run(["./check", pid, "--tier", "quick"], capture_output=True, text=True, env=env)
        sigs = [l.strip()[:260] for l in r.stdout.splitlines() if l.strip().startswith("signature")]
        res[rid] = {"project_tests_pass": tests_ok, "check_exit": r.returncode, "signatures": sigs[:6]}
        print("%-10s tests=%s check exit=%d %s" % (rid, "ok" if tests_ok else "FAIL", r.returncode, ("| " + sigs[0][:200]) if sigs else ""))
    finally:
        sh("git -C %s checkout -- ." % WT)
json.dump(res, open(resf, "w"), indent=1, sort_keys=True)
sh("git -C /repo worktree remove --force %s" % WT)

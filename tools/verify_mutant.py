#!/usr/bin/env python3
"""verify_mutant.py <worktree> <k> <seed-id> <property> [--also Cxx,...]
Independently re-verifies mutant k delivered in <worktree>/mutants/ (mK.diff, mK_demo.c|cpp, mK.txt):
  clean tree: library builds, demo exits 0
  mutant applied alone: library builds, the project's 29 ctest cases pass, demo fails
and, only if all of that holds, files it as /verif/seeded/<seed-id>/ (patch.diff, demo, notes.txt, meta.json).
The worktree is left clean."""
import sys, os, subprocess, json, shutil, glob
wt, k, sid, prop = sys.argv[1:5]
also = []
if "--also" in sys.argv: also = sys.argv[sys.argv.index("--also") + 1].split(",")
md = os.path.join(wt, "mutants")
diff = os.path.join(md, "m%s.diff" % k)
demo = (glob.glob(os.path.join(md, "m%s_demo.c" % k)) + glob.glob(os.path.join(md, "m%s_demo.cpp" % k)))[0]
def sh(cmd, **kw): return subprocess.run(cmd, shell=True, capture_output=True, text=True, errors="replace", **kw)
def build():
    r = sh("cmake -G Ninja -S %s -B %s/_build >/dev/null 2>&1 && cmake --build %s/_build 2>&1 | tail -3" % (wt, wt, wt))
    return r.returncode == 0 and "FAILED" not in r.stdout and "error" not in r.stdout.lower(), r.stdout
def run_demo():
    cxx = demo.endswith(".cpp")
    libs = "-L{w}/_build/mpt++ -L{w}/_build/mptplot -L{w}/_build/mptio -L{w}/_build/mptcore {pp} -lmptplot -lmptio -lmptcore -Wl,-rpath,{w}/_build/mpt++:{w}/_build/mptplot:{w}/_build/mptio:{w}/_build/mptcore".format(w=wt, pp="-lmpt++" if cxx else "")
    inc = "-I{w}/mptcore -I{w}/mptplot -I{w}/mptio -I{w}/mpt++ -I{w}".format(w=wt)
    exe = os.path.join(wt, "_build", "demo_%s" % k)
    c = sh("%s %s -o %s %s %s -lm" % ("c++ -std=gnu++14" if cxx else "cc", inc, exe, demo, libs))
    if c.returncode != 0: return None, "demo does not compile: " + c.stderr[-600:]
    try: r = subprocess.run([exe], capture_output=True, text=True, errors="replace", timeout=60, cwd=wt); return r.returncode, (r.stdout + r.stderr)[-400:]
    except subprocess.TimeoutExpired: return -99, "timeout (hang)"
log = {}
sh("git -C %s checkout -- ." % wt)
ok, out = build(); assert ok, "clean build failed: " + out
rc, out = run_demo(); log["clean_demo_exit"] = rc
if rc != 0: sys.exit("REJECT: demo does not pass on the clean tree (exit %s) %s" % (rc, out))
a = sh("git -C %s apply --whitespace=nowarn %s" % (wt, diff))
if a.returncode != 0: sys.exit("REJECT: diff does not apply: " + a.stderr)
try:
    ok, out = build()
    if not ok: sys.exit("REJECT: mutant does not build: " + out)
    t = sh("ctest --test-dir %s/_build -j8 --timeout 300 2>&1 | tail -4" % wt)
    log["ctest"] = t.stdout.strip().splitlines()[-3:] if t.stdout.strip() else []
    if "100% tests passed, 0 tests failed out of 29" not in t.stdout: sys.exit("REJECT: project tests do not pass with the mutant: " + t.stdout[-500:])
    rc, out = run_demo(); log["mutant_demo_exit"] = rc; log["mutant_demo_output"] = out
    if rc == 0 or rc is None: sys.exit("REJECT: demo does not fail with the mutant (%s) %s" % (rc, out))
finally:
    sh("git -C %s checkout -- ." % wt)
dst = os.path.join("/verif/seeded", sid)
os.makedirs(dst, exist_ok=True)
shutil.copy(diff, os.path.join(dst, "patch.diff"))
shutil.copy(demo, os.path.join(dst, "demo" + os.path.splitext(demo)[1]))
notes = os.path.join(md, "m%s.txt" % k)
needs = open(notes).read().strip() if os.path.exists(notes) else ""
open(os.path.join(dst, "notes.txt"), "w").write(needs + "\n")
files = sh("git -C %s apply --numstat %s" % (wt, diff)).stdout.split()
meta = {"property": prop, "also": also, "files": files[2::3], "needs_to_manifest": needs,
        "verified": {"clean_tree_demo_exit": log["clean_demo_exit"], "mutant_builds": True, "project_tests_with_mutant": "29/29 passed",
                     "mutant_demo_exit": log["mutant_demo_exit"], "mutant_demo_output": log.get("mutant_demo_output", "")[:300],
                     "how": "tools/verify_mutant.py in a scratch worktree of /repo HEAD (cmake+ninja build, ctest, stand-alone demo linked against the built shared libraries)"},
        "origin": "fresh sub-agent given only the property text and a scratch worktree"}
json.dump(meta, open(os.path.join(dst, "meta.json"), "w"), indent=1)
print("ACCEPT %s -> %s (demo clean=%s mutant=%s)" % (sid, dst, log["clean_demo_exit"], log["mutant_demo_exit"]))

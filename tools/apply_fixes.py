#!/usr/bin/env python3
"""apply_fixes.py <Cnn> [NN ...] — applies proposed_fixes/<Cnn>/NN-*.patch to /repo, one "fix:" commit per patch
(message = NN-*.msg, or a message derived from the patch name), and records each as fixed in known_findings.json."""
import sys, os, glob, json, subprocess, re
ROOT = os.path.dirname(os.path.dirname(os.path.abspath(__file__)))
pid = sys.argv[1]; only = sys.argv[2:]
d = os.path.join(ROOT, "proposed_fixes", pid)
kf = os.path.join(ROOT, "known_findings.json")
k = json.load(open(kf))
def git(*a, **kw): return subprocess.run(["git", "-C", "/repo"] + list(a), capture_output=True, text=True, **kw)
if git("status", "--porcelain", "--untracked-files=no").stdout.strip(): sys.exit("/repo not clean")
for patch in sorted(glob.glob(os.path.join(d, "[0-9][0-9]-*.patch"))):
    nn = os.path.basename(patch)[:2]
    if only and nn not in only: continue
    msgf = patch[:-6] + ".msg"
    if os.path.exists(msgf): msg = open(msgf).read().strip()
    else: msg = "fix: " + os.path.basename(patch)[3:-6].replace("-", " ")
    if not msg.startswith("fix:"): msg = "fix: " + msg
    a = git("apply", "--whitespace=nowarn", patch)
    if a.returncode != 0:
        a = git("apply", "--3way", "--whitespace=nowarn", patch)
        if a.returncode != 0: print("FAILED to apply %s: %s" % (patch, a.stderr[:300])); git("checkout", "--", "."); continue
    c = git("commit", "-q", "-a", "-m", msg)
    if c.returncode != 0: print("commit failed", c.stderr); git("checkout", "--", "."); continue
    h = git("log", "--oneline", "-1").stdout.split()[0]
    first = msg.splitlines()[0][4:].strip()
    k["findings"].append({"property": pid, "status": "fixed", "commit": h, "what": "fixed: property=%s %s %s" % (pid, h, first), "patch": "proposed_fixes/%s/%s" % (pid, os.path.basename(patch))})
    print("committed", h, first)
json.dump(k, open(kf, "w"), indent=1)

#!/usr/bin/env python3
"""reverify_seed.py <seed-id>... — re-checks (after a manual rebase of seeded/<id>/patch.diff onto /repo HEAD) that the change
still compiles, that the project's 29 tests still pass with it and that its demonstration passes on the clean tree and fails
with the change.  Uses a scratch worktree; /repo is not touched."""
import sys, os, subprocess, glob, json
WT = "/tmp/reverifywt"
def sh(cmd): return subprocess.run(cmd, shell=True, capture_output=True, text=True)
sh("git -C /repo worktree remove --force %s" % WT); assert sh("git -C /repo worktree add --detach -q %s HEAD" % WT).returncode == 0
def build():
    r = sh("cmake -G Ninja -S %s -B %s/_build >/dev/null 2>&1 && cmake --build %s/_build 2>&1 | tail -3" % (WT, WT, WT))
    return "FAILED" not in r.stdout and "error" not in r.stdout.lower(), r.stdout
def demo(path):
    cxx = path.endswith(".cpp")
    libs = "-L{w}/_build/mpt++ -L{w}/_build/mptplot -L{w}/_build/mptio -L{w}/_build/mptcore {pp} -lmptplot -lmptio -lmptcore -Wl,-rpath,{w}/_build/mpt++:{w}/_build/mptplot:{w}/_build/mptio:{w}/_build/mptcore".format(w=WT, pp="-lmpt++" if cxx else "")
    inc = "-I{w}/mptcore -I{w}/mptplot -I{w}/mptio -I{w}/mpt++ -I{w}".format(w=WT)
    c = sh("%s %s -o %s/_build/demo %s %s -lm" % ("c++ -std=gnu++14" if cxx else "cc", inc, WT, path, libs))
    if c.returncode: return None, c.stderr[-300:]
    try: r = subprocess.run([WT + "/_build/demo"], capture_output=True, text=True, timeout=60, cwd=WT); return r.returncode, (r.stdout + r.stderr)[-200:]
    except subprocess.TimeoutExpired: return -99, "timeout"
ok, out = build(); assert ok, out
for s in sys.argv[1:]:
    d = "/verif/seeded/%s/" % s; dm = (glob.glob(d + "demo.c") + glob.glob(d + "demo.cpp"))[0]
    sh("git -C %s checkout -- ." % WT); build()
    rc0, o0 = demo(dm)
    a = sh("git -C %s apply --whitespace=nowarn %spatch.diff" % (WT, d))
    if a.returncode: print(s, "REJECT: does not apply", a.stderr[:200]); continue
    ok, out = build()
    if not ok: print(s, "REJECT: does not build", out[-300:]); continue
    t = sh("ctest --test-dir %s/_build -j8 --timeout 300 2>&1 | tail -4" % WT)
    tests = "100% tests passed, 0 tests failed out of 29" in t.stdout
    rc1, o1 = demo(dm)
    verdict = "OK" if (rc0 == 0 and tests and rc1 not in (0, None)) else "REJECT"
    print(s, verdict, "clean demo exit=%s, tests %s, mutant demo exit=%s %s" % (rc0, "29/29" if tests else "FAIL", rc1, o1.strip().splitlines()[-1][:100] if o1.strip() else ""))
    if verdict == "OK":
        m = json.load(open(d + "meta.json")); m["rebased_on"] = sh("git -C /repo rev-parse --short HEAD").stdout.strip(); m["rebase"] = "manual: same change re-made on the repaired code; re-verified with tools/reverify_seed.py"
        json.dump(m, open(d + "meta.json", "w"), indent=1)
sh("git -C /repo worktree remove --force %s" % WT)

#!/usr/bin/env python3
"""run_seeded.py [seed-id ...] [--tier quick|thorough]
Applies each seeded change under /verif/seeded/<seed-id>/patch.diff to /repo (git apply), runs the check
of the property it breaks (meta.json: "property", optional "also": [...]), records whether a VIOLATION was
reported, and always restores /repo (git checkout -- .).  Results -> seeded/RESULTS.json + table on stdout.
Never commits anything to /repo."""
import sys, os, json, subprocess, glob, time
ROOT = os.path.dirname(os.path.dirname(os.path.abspath(__file__)))
os.chdir(ROOT)
args = [a for a in sys.argv[1:] if not a.startswith("--")]
tier = "quick"
if "--tier" in sys.argv: tier = sys.argv[sys.argv.index("--tier") + 1]; args.remove(tier)
# --worktree: apply in a scratch worktree of /repo HEAD instead of /repo itself (while other work uses /repo)
TARGET = "/repo"
if "--worktree" in sys.argv:
    TARGET = "/tmp/seedwt" + os.environ.get("SEED_SFX", "")
    subprocess.run(["git", "-C", "/repo", "worktree", "remove", "--force", TARGET], capture_output=True)
    subprocess.run(["git", "-C", "/repo", "worktree", "add", "--detach", "-q", TARGET, "HEAD"], check=True)
seeds = args or sorted(os.path.basename(d) for d in glob.glob("seeded/*") if os.path.isdir(d))
st = subprocess.run(["git", "-C", TARGET, "status", "--porcelain", "--untracked-files=no"], capture_output=True, text=True).stdout.strip()
if st: sys.exit("/repo has uncommitted changes; refusing to run")
resfile = "seeded/RESULTS%s.json" % os.environ.get("SEED_SFX", "")  # SEED_SFX: parallel instances, merged afterwards
results = json.load(open(resfile)) if os.path.exists(resfile) else {}
for sd in seeds:
    meta = json.load(open("seeded/%s/meta.json" % sd))
    if meta.get("obsolete"): print("%-14s obsolete: %s" % (sd, meta["obsolete"][:100])); continue
    patch = os.path.abspath("seeded/%s/patch.diff" % sd)
    props = [meta["property"]] + meta.get("also", [])
    a = subprocess.run(["git", "-C", TARGET, "apply", "--whitespace=nowarn", patch], capture_output=True, text=True)
    if a.returncode != 0:
        print("%-14s patch does not apply: %s" % (sd, a.stderr.strip()[:200])); results[sd] = {"error": "patch does not apply"}; continue
    try:
        row = {}
        for p in props:
            if not os.path.exists("harness/%s.cpp" % p): row[p] = "no-harness"; continue
            # cross-check properties are only consulted while the change is still uncaught
            if "--first-catch" in sys.argv and any(isinstance(v, dict) and v["exit"] == 1 and v["violations"] for v in row.values()): break
            t = time.time()
            env = dict(os.environ, MC_BUILD="build-seed" + os.environ.get("SEED_SFX", ""), MC_REPO=TARGET)
            r = subprocess.run(["./check", p, "--tier", tier], capture_output=True, text=True, env=env)
            viol = [l for l in r.stdout.splitlines() if l.startswith("VIOLATION")]
            row[p] = {"exit": r.returncode, "violations": len(viol), "first": (viol[0] if viol else ""), "wall_s": round(time.time() - t, 1)}
        results[sd] = {"tier": tier, "checks": row, "caught": any(isinstance(v, dict) and v["exit"] == 1 and v["violations"] for v in row.values())}
        json.dump(results, open(resfile, "w"), indent=1, sort_keys=True)
        print("%-14s %s  %s" % (sd, "CAUGHT" if results[sd]["caught"] else "MISSED", json.dumps({k: (v if isinstance(v, str) else "exit=%d viol=%d %.0fs" % (v["exit"], v["violations"], v["wall_s"])) for k, v in row.items()})))
    finally:
        subprocess.run(["git", "-C", TARGET, "checkout", "--", "."], check=True)
json.dump(results, open(resfile, "w"), indent=1, sort_keys=True)
if TARGET != "/repo": subprocess.run(["git", "-C", "/repo", "worktree", "remove", "--force", TARGET])

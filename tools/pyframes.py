#!/usr/bin/env python3
"""pyframes.py <path/to/mpt.py> — frames produced by the bundled Python client's encoders for a
fixed, fully enumerated message list. Output: "<framing> <hex message|-> <hex frame|ERROR>" per line."""
import sys, importlib.util, itertools
spec = importlib.util.spec_from_file_location("mpt_client", sys.argv[1])
mod = importlib.util.module_from_spec(spec)
sys.argv = [sys.argv[1]]
spec.loader.exec_module(mod)

def hx(b): return bytes(b).hex() if len(b) else "-"
N = [0, 1, 2, 30, 31, 32, 222, 223, 224, 252, 253, 254, 255, 256, 507, 508, 509, 762, 763]
V = [0x01, 0x02, 0x1F, 0x20, 0xDE, 0xDF, 0xE0, 0xE1, 0xFE, 0xFF]
msgs = []
# all strings over a small alphabet up to length 4
A = [0x00, 0x01, 0x02, 0xFF]
for L in range(0, 5):
    for t in itertools.product(A, repeat=L): msgs.append(bytes(t))
# run shapes: z zeros, n equal bytes, (second run), trailing zeros, final byte value
for z in (0, 1, 2):
    for n in N:
        for z2 in (0, 1):
            for n2 in (0, 1, 254):
                for tz in (0, 1):
                    base = bytes(z) + bytes([0x11]) * n + (bytes(z2) + bytes([0x12]) * n2 if z2 or n2 else b"") + bytes(tz)
                    if tz == 0 and base and base[-1]:
                        for v in V: msgs.append(base[:-1] + bytes([v]))
                    else: msgs.append(base)
seen = set(); out = []
for m in msgs:
    if m in seen: continue
    seen.add(m)
    try: f = mod.encode_cobs(bytearray(m)); out.append("cobs %s %s" % (hx(m), hx(f)))
    except Exception: out.append("cobs %s ERROR" % hx(m))
    # command text cannot carry a zero byte: for those messages the encoder has to refuse (ERROR is the expected answer)
    try: f = mod.encode_command(bytearray(m)); out.append("command %s %s" % (hx(m), hx(f)))
    except Exception: out.append("command %s ERROR" % hx(m))
sys.stdout.write("\n".join(out) + "\n")

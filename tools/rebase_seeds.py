#!/usr/bin/env python3
"""rebase_seeds.py — seeded patches that no longer apply to /repo HEAD (because repairs touched the same lines) are
re-applied with a three-way merge in a scratch worktree; where that merges cleanly the patch is regenerated against HEAD
(the original is kept as patch.orig.diff, meta.json gets "rebased_on").  Conflicts are listed for manual treatment."""
import os, sys, json, subprocess, glob
ROOT = os.path.dirname(os.path.dirname(os.path.abspath(__file__))); os.chdir(ROOT)
WT = "/tmp/rebasewt"
def git(*a, cwd="/repo"): return subprocess.run(["git", "-C", cwd] + list(a), capture_output=True, text=True)
git("worktree", "remove", "--force", WT); git("worktree", "add", "--detach", "-q", WT, "HEAD")
head = git("rev-parse", "--short", "HEAD").stdout.strip()
bad = []
DIR = sys.argv[1] if len(sys.argv) > 1 else "seeded"
for d in sorted(glob.glob(DIR + "/*/")):
    s = os.path.basename(d.rstrip("/")); patch = os.path.abspath(d + "patch.diff")
    if git("apply", "--check", "--whitespace=nowarn", patch, cwd=WT).returncode == 0: continue
    r = git("apply", "--3way", "--whitespace=nowarn", patch, cwd=WT)
    st = git("status", "--porcelain", "--untracked-files=no", cwd=WT).stdout
    if r.returncode != 0 or any(l[:2] in ("UU", "AA", "DU", "UD") for l in st.splitlines()):
        print("CONFLICT", s, r.stderr.strip().splitlines()[-1] if r.stderr.strip() else ""); bad.append(s)
    else:
        diff = git("diff", "HEAD", cwd=WT).stdout
        if not diff.strip(): print("EMPTY", s, "(the repair already contains / removes the change)"); bad.append(s)
        else:
            if not os.path.exists(d + "patch.orig.diff"): os.rename(d + "patch.diff", d + "patch.orig.diff")
            open(d + "patch.diff", "w").write(diff)
            m = json.load(open(d + "meta.json")) if os.path.exists(d + "meta.json") else {}
            m["rebased_on"] = head; json.dump(m, open(d + "meta.json", "w"), indent=1)
            print("REBASED", s)
    git("reset", "-q", "--hard", "HEAD", cwd=WT)
git("worktree", "remove", "--force", WT)
print("manual:", " ".join(bad))

#!/usr/bin/env python3
"""Regenerates the 'seeded changes' table in DESIGN.md (between the SEEDED-TABLE markers) from seeded/*/meta.json and seeded/RESULTS.json."""
import json, os, glob, re
ROOT = os.path.dirname(os.path.dirname(os.path.abspath(__file__)))
res = json.load(open(os.path.join(ROOT, "seeded/RESULTS.json")))
rows = ["| seed | breaks | changed file(s) | what it needs to manifest | caught by (quick tier) |", "|---|---|---|---|---|"]
n = c = 0
for d in sorted(glob.glob(os.path.join(ROOT, "seeded/*/meta.json"))):
    sid = os.path.basename(os.path.dirname(d)); m = json.load(open(d)); r = res.get(sid, {})
    needs = " ".join(m.get("needs_to_manifest", "").split())
    needs = (needs[:230] + "…") if len(needs) > 230 else needs
    by = [p for p, v in r.get("checks", {}).items() if isinstance(v, dict) and v["exit"] == 1 and v["violations"]]
    if m.get("obsolete"):
        rows.append("| %s | %s | %s | %s | obsolete on the repaired tree: %s (last caught by %s) |" % (sid, m["property"], ", ".join(os.path.basename(f) for f in m.get("files", [])), needs.replace("|", "\\|"), m["obsolete"], ", ".join(by) if by else "-")); continue
    n += 1; c += 1 if by else 0
    rows.append("| %s | %s | %s | %s | %s |" % (sid, m["property"], ", ".join(os.path.basename(f) for f in m.get("files", [])), needs.replace("|", "\\|"), ", ".join(by) if by else ("**missed**" if r else "not run")))
txt = "<!-- SEEDED-TABLE-BEGIN -->\n%d seeded changes, %d caught.\n\n%s\n<!-- SEEDED-TABLE-END -->" % (n, c, "\n".join(rows))
p = os.path.join(ROOT, "DESIGN.md"); s = open(p).read()
if "<!-- SEEDED-TABLE-BEGIN -->" in s: s = re.sub(r"<!-- SEEDED-TABLE-BEGIN -->.*?<!-- SEEDED-TABLE-END -->", lambda _: txt, s, flags=re.S)
else: s = s.rstrip("\n") + "\n\n## 10. Seeded changes (independent sub-agents) and which checks catch them\n\nEach change was produced by a fresh sub-agent that saw only the property text and a scratch worktree, and was re-verified by `tools/verify_mutant.py` (compiles, the 29 project tests pass, its stand-alone demonstration fails with the change and passes without). `tools/run_seeded.py` applies each one, runs the listed checks and restores the tree.\n\n" + txt + "\n"
open(p, "w").write(s)
print("%d seeds, %d caught" % (n, c))

#!/usr/bin/env python3
"""Regenerates the per-property summary of repaired defects / known findings in DESIGN.md (FINDINGS-TABLE markers) from known_findings.json."""
import json, os, re, collections
ROOT = os.path.dirname(os.path.dirname(os.path.abspath(__file__)))
k = json.load(open(os.path.join(ROOT, "known_findings.json")))["findings"]
by = collections.OrderedDict()
for f in k: by.setdefault(f["property"], []).append(f)
rows = ["| property | repaired (`fix:` commits) | known findings (not repaired) |", "|---|---|---|"]
nf = nk = 0
for p in sorted(by):
    fx = [f for f in by[p] if f.get("status") == "fixed"]; kn = [f for f in by[p] if f.get("status") == "known"]
    nf += len(fx); nk += len(kn)
    def short(f):
        w = f["what"]; w = re.sub(r"^(fixed|known): property=\S+ (\S+ )?", "", w); return (w[:110] + "…") if len(w) > 110 else w
    rows.append("| %s | %d | %s |" % (p, len(fx), "<br>".join(short(f).replace("|", "\\|") for f in kn) if kn else "–"))
txt = "<!-- FINDINGS-TABLE-BEGIN -->\n%d repaired defects (one `fix:` commit each in /repo, listed with commit, signatures and description in `known_findings.json`), %d known findings.\n\n%s\n<!-- FINDINGS-TABLE-END -->" % (nf, nk, "\n".join(rows))
p = os.path.join(ROOT, "DESIGN.md"); s = open(p).read()
if "<!-- FINDINGS-TABLE-BEGIN -->" in s: s = re.sub(r"<!-- FINDINGS-TABLE-BEGIN -->.*?<!-- FINDINGS-TABLE-END -->", lambda _: txt, s, flags=re.S)
else: s = s.replace("\n## 10. Seeded changes", "\n" + txt + "\n\n## 10. Seeded changes", 1)
open(p, "w").write(s)
print(nf, "fixed,", nk, "known")

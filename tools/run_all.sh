#!/bin/sh
# run_all.sh [quick|thorough] — runs every enabled check on /repo as it is, one after the other; summary on stdout
tier=${1:-quick}
cd "$(dirname "$0")/.."
for p in $(cat claims/ENABLED); do
  t0=$(date +%s)
  out=$(./check $p --tier $tier 2>&1); rc=$?
  echo "$p exit=$rc $(($(date +%s)-t0))s | $(echo "$out" | grep -E "^$p tier" | cut -c1-150)"
  echo "$out" | grep -E "^VIOLATION|^CHECK-ERROR|^KNOWN-FINDING" | head -5
done

#!/bin/sh
# process_batch.sh <suffix> <id> [<id> ...] — verify the three mutants of each /tmp/mut-<id>-<suffix> worktree,
# file the accepted ones under seeded/, remove the worktrees, then run the checks against the new seeds.
sfx=$1; shift
cd "$(dirname "$0")/.."
new=""
for id in "$@"; do
  wt=/tmp/mut-$id-$sfx
  [ -d $wt/mutants ] || { echo "$id: no mutants dir"; continue; }
  for k in 1 2 3; do
    out=$(python3 tools/verify_mutant.py $wt $k $id-$sfx$k $id 2>&1 | tail -1)
    case "$out" in ACCEPT*) new="$new $id-$sfx$k";; *) echo "$id-$sfx$k: $out";; esac
  done
  git -C /repo worktree remove --force $wt
done
[ -n "$new" ] && python3 tools/run_seeded.py --worktree $new 2>&1 | grep -E "CAUGHT|MISSED|apply"

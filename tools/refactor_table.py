#!/usr/bin/env python3
"""Regenerates the refactor (false alarm) table in DESIGN.md between the REFACTOR-TABLE markers."""
import json, os, glob, re
ROOT = os.path.dirname(os.path.dirname(os.path.abspath(__file__)))
res = json.load(open(os.path.join(ROOT, "refactors/RESULTS.json")))
rows = ["| refactor | what changed (first line of the author's note) | project tests | check |", "|---|---|---|---|"]
n = ok = 0
for d in sorted(glob.glob(os.path.join(ROOT, "refactors/C*-r*"))):
    rid = os.path.basename(d); r = res.get(rid, {})
    note = ""
    if os.path.exists(d + "/notes.txt"):
        note = " ".join(open(d + "/notes.txt").read().split())[:200]
    n += 1; ok += 1 if r.get("check_exit") == 0 else 0
    rows.append("| %s | %s | %s | exit %s |" % (rid, note.replace("|", "\\|"), "pass" if r.get("project_tests_pass") else "?", r.get("check_exit", "not run")))
txt = "<!-- REFACTOR-TABLE-BEGIN -->\n%d behaviour-preserving changes, %d left the property's check green (exit 0).\n\n%s\n<!-- REFACTOR-TABLE-END -->" % (n, ok, "\n".join(rows))
p = os.path.join(ROOT, "DESIGN.md"); s = open(p).read()
if "<!-- REFACTOR-TABLE-BEGIN -->" in s: s = re.sub(r"<!-- REFACTOR-TABLE-BEGIN -->.*?<!-- REFACTOR-TABLE-END -->", lambda _: txt, s, flags=re.S)
else: s = s.rstrip("\n") + "\n\n## 11. False-alarm testing with behaviour-preserving changes\n\nThe checks must stay quiet on code where the property holds.  Fresh sub-agents (property text + scratch worktree only) each wrote three non-trivial implementation changes that keep the property true (different algorithm, different internal bookkeeping, different growth/slot/id choices, reordered steps).  `tools/run_refactors.py` applies each alone, requires the project's 29 tests to pass and runs the property's quick check, which must exit 0.  One run ended with exit 2 (C17-r3: a *required* vacuity counter depended on the library reallocating before a failing append; the counter is now only counted) — no run produced a VIOLATION.  Incidentally one of these agents noticed a genuine defect the checks had not reached (buffer detach overrun, see known_findings.json, C04).\n\n" + txt + "\n"
open(p, "w").write(s)
print(n, ok)

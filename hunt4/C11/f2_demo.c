/*
 * f2: mpt_dispatch_hash() hashes the terminating NUL of the command word when the
 *     message uses a printable argument separator and the word is the only argument.
 *
 * build:
 *   gcc -g -fsanitize=address -I$W/mptcore f2_demo.c -o f2_demo \
 *       -L$W/_build/mptcore -lmptcore -Wl,-rpath,$W/_build/mptcore
 */
#include <stdio.h>
#include <string.h>
#include <sys/uio.h>
#include "core.h"
#include "message.h"
#include "event.h"

static int called, fallback;
static uintptr_t gotid;
static int handler(void *arg, MPT_STRUCT(event) *ev) { (void) arg; if (ev) { ++called; } return 0; }
static int other(void *arg, MPT_STRUCT(event) *ev) { (void) arg; if (ev) { ++fallback; gotid = ev->id; } return 0; }

static int emit(MPT_STRUCT(dispatch) *d, int sep, const char *txt, size_t len)
{
	uint8_t buf[64];
	MPT_STRUCT(message) msg = MPT_MESSAGE_INIT;
	MPT_STRUCT(event) ev = MPT_EVENT_INIT;
	
	buf[0] = MPT_MESGTYPE(Command);
	buf[1] = sep;
	memcpy(buf + 2, txt, len);
	msg.base = buf;
	msg.used = 2 + len;
	ev.msg = &msg;
	called = fallback = 0;
	mpt_dispatch_hash(d, &ev);
	printf("sep=%02x len=%zu: handler=%d fallback=%d\n", sep, len, called, fallback);
	return called;
}
int main()
{
	MPT_STRUCT(dispatch) d;
	int bad = 0;
	
	mpt_dispatch_init(&d);
	d._err.cmd = other;
	mpt_dispatch_set(&d, mpt_hash("start", 5), handler, 0);
	
	/* all of these carry the command text "start" */
	if (emit(&d, 0,   "start", 6) != 1) ++bad;       /* "start\0", NUL separated */
	if (emit(&d, ' ', "start", 6) != 1) ++bad;       /* "start\0", space separated */
	if (emit(&d, ' ', "start arg", 10) != 1) ++bad;
	if (emit(&d, ':', "start:arg", 10) != 1) ++bad;  /* "start:arg\0" */
	if (emit(&d, ':', "start", 5) != 1) ++bad;       /* "start" without terminator */
	if (emit(&d, ':', "start", 6) != 1) {            /* "start\0" -> hash("start\0") */
		printf("VIOLATION: \"start\\0\" with separator ':' dispatched as id %lx, registered %lx\n",
		       (unsigned long) gotid, (unsigned long) mpt_hash("start", 5));
		++bad;
	}
	d._err.cmd = 0;
	mpt_dispatch_fini(&d);
	return bad ? 1 : 0;
}

/*
 * f1: handler registered on a dispatcher whose table was created by reserve()
 *     never receives its end-of-life notification when the entry is dropped
 *     through the (public, inherited) unique_array interface.
 *
 * build:
 *   g++ -g -fsanitize=address -I$W/mptcore f1_demo.cpp -o f1_demo \
 *       -L$W/_build/mptcore -lmptcore -L$W/_build/mpt++ -lmpt++ \
 *       -Wl,-rpath,$W/_build/mptcore -Wl,-rpath,$W/_build/mpt++
 */
#include <stdio.h>
#include "core.h"
#include "array.h"
#include "event.h"

using namespace mpt;

struct tok { int eol, calls; };

static int handler(void *arg, event *ev)
{
	tok *t = static_cast<tok *>(arg);
	if (!ev) { ++t->eol; return 0; }
	++t->calls;
	return 0;
}
/* same history, only difference: is a reply id reserved before the first handler is set */
static int run(bool reserveFirst)
{
	tok t = { 0, 0 };
	{
		dispatch d;
		if (reserveFirst) {
			command *c = d.reserve(1);   /* reply id for an outstanding request ... */
			if (c) c->cmd = 0;           /* ... answered, slot released again */
		}
		if (!d.set_handler(300, handler, &t)) {
			printf("set_handler refused\n");
			return -1;
		}
		/* drop all entries */
		if (!d.resize(0)) {
			printf("resize refused\n");
		}
		event ev;
		ev.id = 300;
		mpt_dispatch_emit(&d, &ev); /* goes to fallback: handler is gone */
	}       /* dispatcher torn down */
	printf("reserveFirst=%d: calls=%d end-of-life notifications=%d\n", reserveFirst, t.calls, t.eol);
	return t.eol;
}
int main()
{
	int a = run(false);
	int b = run(true);
	if (a != 1 || b != 1) {
		printf("VIOLATION: handler got %d / %d end-of-life notifications (expected 1 / 1)\n", a, b);
		return 1;
	}
	return 0;
}

#include <stdio.h>
#include <string.h>
#include <stdint.h>
#include "types.h"
#include "convert.h"
int main(void){
  /* private type id (>= 4096, e.g. an object address) whose low 32 bits happen to spell 'i' */
  MPT_TYPE(type) priv = ((uintptr_t) 1 << 32) | 'i';
  unsigned char buf[16]; memset(buf, 0xA5, sizeof buf);
  int rq = mpt_convert_string("42", priv, 0);
  int rc = mpt_convert_string("42", priv, buf);
  int32_t v; memcpy(&v, buf, 4);
  printf("type=%#lx query=%d perform=%d stored=%d\n", (unsigned long) priv, rq, rc, v);
  /* expected: refused (BadType), nothing written */
  return (rc >= 0 || rq >= 0 || buf[0] != 0xA5) ? 1 : 0;
}

/* integer -> floating point conversion silently changes the number */
#include <stdio.h>
#include <string.h>
#include <stdint.h>
#include "types.h"
#include "convert.h"

static int bad = 0;
static void chk(const char *what, int rq, int rc, long double src, long double dst)
{
	if (rq < 0 && rc < 0) { printf("%s: refused (ok)\n", what); return; }
	if (src != dst) { printf("%s: accepted (query=%d perform=%d) %.21Lg -> %.21Lg\n", what, rq, rc, src, dst); ++bad; }
}
int main(void)
{
	struct mpt_value v;
	int32_t  i = 16777217;               /* 2^24 + 1 */
	uint32_t u = UINT32_MAX;
	int64_t  x = 9007199254740993LL;     /* 2^53 + 1 */
	uint64_t t = UINT64_MAX;
	float f; double d;
	int rq, rc;
	
	v._addr = &i; v._type = 'i';
	rq = mpt_value_convert(&v, 'f', 0); rc = mpt_value_convert(&v, 'f', &f);
	chk("int32 16777217 -> float", rq, rc, i, f);
	
	v._addr = &u; v._type = 'u';
	rq = mpt_value_convert(&v, 'f', 0); rc = mpt_value_convert(&v, 'f', &f);
	chk("uint32 4294967295 -> float", rq, rc, u, f);
	
	v._addr = &x; v._type = 'x';
	rq = mpt_value_convert(&v, 'd', 0); rc = mpt_value_convert(&v, 'd', &d);
	chk("int64 2^53+1 -> double", rq, rc, x, d);
	
	v._addr = &t; v._type = 't';
	rq = mpt_value_convert(&v, 'd', 0); rc = mpt_value_convert(&v, 'd', &d);
	chk("uint64 UINT64_MAX -> double", rq, rc, t, d);
	
	/* direct converter, same result */
	rc = mpt_data_convert_uint64(&t, 'f', &f);
	chk("uint64 UINT64_MAX -> float (direct)", rc, rc, t, f);
	
	return bad ? 1 : 0;
}

#include <stdio.h>
#include <string.h>
#include "types.h"
#include "convert.h"
int main(void){
  struct mpt_value_format fmt; memset(&fmt,0,sizeof fmt);
  int rc = mpt_convert_string("f10.3", MPT_ENUM(TypeValFmt), &fmt);
  printf("perform: rc=%d width=%d dec=%d\n", rc, fmt.width, fmt.dec); fflush(stdout);
  int rq = mpt_convert_string("f10.3", MPT_ENUM(TypeValFmt), 0);
  printf("query: rc=%d\n", rq);
  return rq!=rc;
}

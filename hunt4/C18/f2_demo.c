/*
 * f2: a hidden point that happens to be value number 65535 of a run is swallowed
 * by the first part; the line re-entering the range right behind it gets no cut,
 * i.e. the crossing of the range boundary is stored nowhere.
 * The same values anywhere else in a run are split so that the hidden point
 * opens the next part and carries the cut fraction.
 */
#include <stdio.h>
#include <stdlib.h>
#include <stdint.h>

#include "values.h"

/* split all values, return number of parts whose first segment is a recorded cut from 'hidden' */
static int crossing_recorded(const double *v, size_t len, const MPT_STRUCT(range) *r, size_t hidden, int show)
{
	size_t pos = 0;
	int found = 0;
	while (pos < len) {
		MPT_STRUCT(linepart) lp;
		mpt_linepart_linear(&lp, v + pos, len - pos, r);
		if (!lp.raw) {
			fprintf(stderr, "no progress\n");
			exit(2);
		}
		if (show || (pos + lp.raw + 3 > hidden && pos < hidden + 3)) {
			printf("  part at %zu: raw=%u usr=%u cut=%u trim=%u\n", pos, lp.raw, lp.usr, lp._cut, lp._trim);
		}
		if (pos == hidden && lp._cut && lp.usr >= 2) {
			++found;
		}
		pos += lp.raw;
	}
	return found;
}

int main(void)
{
	static double v[UINT16_MAX + 3];
	MPT_STRUCT(range) r;
	size_t i, len = UINT16_MAX + 3;
	int ok_small, ok_limit;
	
	r.min = 0; r.max = 1;
	
	/* reference: inside, inside, BELOW, inside, inside */
	for (i = 0; i < 5; i++) v[i] = 0.5;
	v[2] = -1;
	printf("hidden value at index 2:\n");
	ok_small = crossing_recorded(v, 5, &r, 2, 1);
	printf("  crossing -1 -> 0.5 behind it recorded as cut: %s\n", ok_small ? "yes" : "NO");
	
	/* same shape, hidden value is number 65535 (index 65534) of the run */
	for (i = 0; i < len; i++) v[i] = 0.5;
	v[UINT16_MAX - 1] = -1;
	printf("hidden value at index %d:\n", UINT16_MAX - 1);
	ok_limit = crossing_recorded(v, len, &r, UINT16_MAX - 1, 0);
	printf("  crossing -1 -> 0.5 behind it recorded as cut: %s\n", ok_limit ? "yes" : "NO");
	
	return (ok_small && !ok_limit) ? 1 : 0;
}

/*
 * f1: on a logarithmic axis the stored cut/trim fraction does not say where
 * the line crosses the range boundary.
 *
 * layout::graph::transform3::part() splits the RAW values against the range
 * [10^min, 10^max] with mpt_linepart_linear() -> fraction linear in raw space,
 * then tries to convert it with log10(fraction), which is always negative and is
 * therefore rejected by linepart::set_cut()/set_trim().  transform3::apply()
 * (apply_log) interpolates with that fraction between log10(hidden) and
 * log10(visible).
 */
#include <cstdio>
#include <cmath>
#include "layout.h"

using namespace mpt;

int main()
{
	layout::graph::transform3 tr;
	
	/* X axis: log. scale, visible exponents 0..2 -> raw range [1, 100] */
	tr._dim[0]._flags |= TransformLimit | TransformLg;
	tr._dim[0].limit.min = 0;
	tr._dim[0].limit.max = 2;
	
	/* hidden point 0.001 (below 1), visible points 10, 10, hidden point 100000 (above 100) */
	const double val[4] = { 0.001, 10, 10, 100000 };
	
	linepart lp = tr.part(0, val, 4);
	printf("part: raw=%u usr=%u cut=%u (%g) trim=%u (%g)\n", lp.raw, lp.usr, lp._cut, lp.cut(), lp._trim, lp.trim());
	
	/* on the log axis the line is straight between log10 of the values:
	 * -3 -> 1 crosses lower bound 0 at 3/4 of the way,
	 *  5 -> 1 crosses upper bound 2 at 3/4 of the way  */
	const double want = 0.75;
	int bad = 0;
	if (fabs(lp.cut() - want) > 2.0 / 65536) {
		printf("cut fraction %g, line crosses the lower bound at %g\n", lp.cut(), want);
		++bad;
	}
	if (fabs(lp.trim() - want) > 2.0 / 65536) {
		printf("trim fraction %g, line crosses the upper bound at %g\n", lp.trim(), want);
		++bad;
	}
	/* what gets drawn: first/last transformed point should sit on the bounds (log10: 0 and 2) */
	point<double> pts[4];
	tr.apply(0, lp, pts, val);
	printf("drawn x: %g %g %g %g\n", pts[0].x, pts[1].x, pts[2].x, pts[3].x);
	if (fabs(pts[0].x - 0.0) > 1e-3) {
		printf("cut end of the line drawn at 10^%g = %g, visible range starts at 1\n", pts[0].x, pow(10, pts[0].x));
		++bad;
	}
	if (fabs(pts[3].x - 2.0) > 1e-3) {
		printf("trimmed end of the line drawn at 10^%g = %g, visible range ends at 100\n", pts[3].x, pow(10, pts[3].x));
		++bad;
	}
	return bad ? 1 : 0;
}

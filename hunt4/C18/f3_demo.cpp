/*
 * f3: on a logarithmic axis the trimmed end point of a part is not transformed
 * at all when the part has 32*k+1 line points (apply_log() works in chunks of 32,
 * the last chunk then holds only the hidden end point and apply() gives up on it).
 */
#include <cstdio>
#include <cmath>
#include "layout.h"

using namespace mpt;

static double last_x(int visible)
{
	layout::graph::transform3 tr;
	tr._dim[0]._flags |= TransformLimit | TransformLg;
	tr._dim[0].limit.min = 0;
	tr._dim[0].limit.max = 2;
	
	double val[80];
	point<double> pts[80];
	for (int i = 0; i < visible; i++) val[i] = 10;
	val[visible] = 100000; /* above 100 */
	
	linepart lp = tr.part(0, val, visible + 1);
	tr.apply(0, lp, pts, val);
	printf("%d visible + 1 hidden: raw=%u usr=%u trim=%u, end of line drawn at x=%g\n",
	       visible, lp.raw, lp.usr, lp._trim, pts[lp.usr - 1].x);
	return pts[lp.usr - 1].x;
}
int main()
{
	double a = last_x(31), b = last_x(32), c = last_x(33);
	/* the line end lies between log10(10) = 1 and the upper bound 2, never at 0 */
	if (a < 1 || b < 1 || c < 1) {
		printf("trimmed end point left untransformed\n");
		return 1;
	}
	return 0;
}

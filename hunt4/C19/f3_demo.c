/* value list iterator: a refused advance replaces the current element */
#include <stdio.h>
#include <math.h>
#include "meta.h"
#include "convert.h"
#include "types.h"
#include "values.h"

int main(void)
{
	MPT_INTERFACE(metatype) *m = mpt_iterator_values("1 nan 3"), *c;
	MPT_INTERFACE(iterator) *it = 0, *ci = 0;
	const MPT_STRUCT(value) *v;
	double before = 0, after = 0, cl = 0;
	int r;
	
	if (!m) return 2;
	MPT_metatype_convert(m, MPT_ENUM(TypeIteratorPtr), &it);
	v = it->_vptr->value(it);
	if (!v || mpt_value_convert(v, 'd', &before) < 0) return 3;
	r = it->_vptr->advance(it);
	printf("current %g, advance -> %d\n", before, r);
	if (r >= 0) return 4; /* NaN element is refused, position is kept */
	v = it->_vptr->value(it);
	if (!v || mpt_value_convert(v, 'd', &after) < 0) return 5;
	printf("current after refused advance: %g\n", after);
	c = m->_vptr->clone(m);
	MPT_metatype_convert(c, MPT_ENUM(TypeIteratorPtr), &ci);
	v = ci->_vptr->value(ci);
	if (v) mpt_value_convert(v, 'd', &cl);
	printf("current of clone: %g\n", cl);
	c->_vptr->unref(c);
	m->_vptr->unref(m);
	if (!(after == before) || !(cl == before)) {
		fprintf(stderr, "FAIL: element at unchanged position changed from %g to %g\n", before, after);
		return 1;
	}
	return 0;
}

/* clone of a text iterator taken after the current element was read
 * reports "no further element" on advance while the original continues */
#include <stdio.h>
#include "meta.h"
#include "convert.h"
#include "types.h"

static MPT_INTERFACE(iterator) *getit(MPT_INTERFACE(metatype) *m)
{
	MPT_INTERFACE(iterator) *it = 0;
	MPT_metatype_convert(m, MPT_ENUM(TypeIteratorPtr), &it);
	return it;
}
static int rest(MPT_INTERFACE(iterator) *it, double *to, int max)
{
	int n = 0;
	while (n < max) {
		const MPT_STRUCT(value) *v = it->_vptr->value(it);
		if (!v || mpt_value_convert(v, 'd', to + n) < 0) break;
		++n;
		if (it->_vptr->advance(it) <= 0) break;
	}
	return n;
}
int main(void)
{
	MPT_INTERFACE(metatype) *m = mpt_iterator_string("1 2 3 4", 0), *c;
	MPT_INTERFACE(iterator) *it = getit(m), *ci;
	double first = 0, o[8], k[8];
	int ro, rc, no, nc, i;
	
	/* documented loop, first half: read current value */
	if (mpt_value_convert(it->_vptr->value(it), 'd', &first) < 0 || first != 1) {
		return 2;
	}
	/* clone between read and advance */
	if (!(c = m->_vptr->clone(m))) {
		return 3;
	}
	ci = getit(c);
	/* documented loop, second half: advance (both) */
	ro = it->_vptr->advance(it);
	rc = ci->_vptr->advance(ci);
	no = rest(it, o, 8);
	nc = rest(ci, k, 8);
	printf("original: advance=%d, remaining %d:", ro, no);
	for (i = 0; i < no; i++) printf(" %g", o[i]);
	printf("\nclone:    advance=%d, remaining %d:", rc, nc);
	for (i = 0; i < nc; i++) printf(" %g", k[i]);
	printf("\n");
	c->_vptr->unref(c);
	m->_vptr->unref(m);
	if (ro != rc || no != nc) {
		fprintf(stderr, "FAIL: clone does not replay the sequence of the original\n");
		return 1;
	}
	return 0;
}

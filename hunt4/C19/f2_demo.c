/* factor iterator built from an argument iterator accepts malformed arguments */
#include <stdio.h>
#include <errno.h>
#include "meta.h"
#include "convert.h"
#include "types.h"
#include "values.h"

static MPT_INTERFACE(iterator) *getit(MPT_INTERFACE(metatype) *m)
{
	MPT_INTERFACE(iterator) *it = 0;
	MPT_metatype_convert(m, MPT_ENUM(TypeIteratorPtr), &it);
	return it;
}
static int try(const char *args)
{
	MPT_INTERFACE(metatype) *src = mpt_iterator_string(args, 0), *m;
	MPT_INTERFACE(iterator) *sit = getit(src), *it;
	MPT_STRUCT(value) val;
	int accepted = 0;
	
	MPT_value_set(&val, MPT_ENUM(TypeIteratorPtr), &sit);
	if ((m = _mpt_iterator_factor(&val))) {
		int n = 0;
		accepted = 1;
		it = getit(m);
		printf("factor <%s> accepted:", args);
		while (n++ < 10) {
			const MPT_STRUCT(value) *v = it->_vptr->value(it);
			double d;
			if (!v || mpt_value_convert(v, 'd', &d) < 0) break;
			printf(" %g", d);
			if (it->_vptr->advance(it) <= 0) break;
		}
		printf("\n");
		m->_vptr->unref(m);
	} else {
		printf("factor <%s> refused\n", args);
	}
	src->_vptr->unref(src);
	return accepted;
}
int main(void)
{
	int bad = 0;
	/* same descriptions in text form are refused */
	if (mpt_iterator_create("fact(4:abc)") || mpt_iterator_create("fact(4:2:abc)")) {
		return 2;
	}
	bad += try("4 abc");      /* base is no number */
	bad += try("4 2 abc");    /* factor is no number */
	bad += try("4 2 3 abc");  /* initial value is no number */
	bad += try("4 1e999");    /* base out of range */
	if (bad) {
		fprintf(stderr, "FAIL: %d malformed factor descriptions accepted\n", bad);
		return 1;
	}
	return 0;
}

/* mpt_meta_buffer()/mpt_meta_arguments(): a refused buffer reference is reported as success */
/* build: gcc -g -fsanitize=address,undefined -I../mptcore f1_demo.c -L../_build/mptcore -lmptcore -Wl,-rpath,$PWD/../_build/mptcore */
#include <stdio.h>
#include <stdlib.h>
#include <string.h>
#include <stdint.h>
#include <sys/uio.h>

#include "meta.h"
#include "types.h"
#include "array.h"

int main(void)
{
	MPT_STRUCT(array) arr = MPT_ARRAY_INIT;
	MPT_STRUCT(buffer) *buf;
	MPT_INTERFACE(metatype) *mt;
	uintptr_t *count;
	struct iovec vec = { 0, 0 };
	int fail = 0;
	
	/* shared buffer with text content "hello" */
	if (!mpt_array_append(&arr, 6, "hello") || !(buf = arr._buf)) {
		return 2;
	}
	/* reference counter is the first member of the 8 pointer sized allocation header
	 * in front of the data, the buffer descriptor is its last member */
	count = (uintptr_t *) (((uint8_t *) (buf + 1)) - 8 * sizeof(void *));
	if (*count != 1) {
		fprintf(stderr, "unexpected buffer layout\n");
		return 2;
	}
	/* sanity: the same call works while the counter can be raised */
	if (!(mt = mpt_meta_buffer(&arr)) || *count != 2) {
		fprintf(stderr, "regular meta buffer failed\n");
		return 2;
	}
	mt->_vptr->unref(mt);
	
	/* counter at maximum: no further reference can be taken */
	*count = UINTPTR_MAX;
	if (buf->_vptr->addref(buf) != 0 || *count != UINTPTR_MAX) {
		fprintf(stderr, "addref did not refuse\n");
		return 2;
	}
	mt = mpt_meta_buffer(&arr);
	if (mt) {
		MPT_metatype_convert(mt, MPT_type_toVector('c'), &vec);
		fprintf(stderr, "mpt_meta_buffer: refused reference reported as success, metatype holds %zu of 6 bytes\n", vec.iov_len);
		fail |= 1;
		mt->_vptr->unref(mt);
	}
	mt = mpt_meta_arguments(&arr);
	if (mt) {
		const char *cmd = "?";
		MPT_metatype_convert(mt, 's', &cmd);
		fprintf(stderr, "mpt_meta_arguments: refused reference reported as success, command is %s\n", cmd ? cmd : "(null)");
		fail |= 2;
		mt->_vptr->unref(mt);
	}
	if (*count != UINTPTR_MAX) {
		fprintf(stderr, "counter changed: %lx\n", (unsigned long) *count);
		fail |= 4;
	}
	*count = 1;
	mpt_array_clone(&arr, 0);
	return fail;
}

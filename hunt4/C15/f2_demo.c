/* mpt_notify_change(): failed registration drops a reference of the wrong input */
/* build: gcc -g -fsanitize=address,undefined -I../mptcore -I../mptio f2_demo.c -L../_build/mptcore -lmptcore -L../_build/mptio -lmptio -Wl,-rpath,$PWD/../_build/mptcore:$PWD/../_build/mptio */
#include <stdio.h>
#include <stdlib.h>
#include <string.h>
#include <unistd.h>
#include <poll.h>

#include "meta.h"
#include "types.h"
#include "output.h"
#include "notify.h"

extern int mpt_notify_change(MPT_STRUCT(notify) *, MPT_INTERFACE(input) *, const MPT_STRUCT(value) *);

int main(int argc, char *argv[])
{
	MPT_STRUCT(notify) no = MPT_NOTIFY_INIT;
	MPT_INTERFACE(input) *in;
	MPT_STRUCT(value) val = MPT_VALUE_INIT(0, 0);
	const char *target = argc > 1 ? argv[1] : "r:/etc/passwd";
	int ret;
	
	if (!(in = mpt_output_remote())) {
		return 2;
	}
	MPT_value_set(&val, 's', &target);
	ret = mpt_notify_change(&no, in, &val);
	printf("change = %d, fdused=%d\n", ret, (int) no._fdused);
	/* caller still owns its reference, notifier owns at most one */
	mpt_notify_fini(&no);
	in->_vptr->meta.unref((void *) in);
	return 0;
}

/* f1: on a datagram connection the id of an awaited request is never cleared,
 * all later messages are sent with the same request id and no further
 * request can be registered */
#include <stdio.h>
#include <string.h>
#include <unistd.h>
#include <sys/socket.h>
#include <sys/uio.h>

#include "meta.h"
#include "array.h"
#include "message.h"
#include "event.h"
#include "output.h"
#include "connection.h"

static int calls;
static char text[32];
static int answer(void *ptr, const MPT_STRUCT(message) *msg)
{
	(void) ptr;
	if (msg) {
		MPT_STRUCT(message) tmp = *msg;
		size_t n = mpt_message_read(&tmp, sizeof(text) - 1, text);
		text[n] = 0;
		++calls;
	}
	return 0;
}
static int handler(void *ptr, MPT_STRUCT(event) *ev)
{
	(void) ptr; (void) ev;
	return 0;
}
static void dump(const char *pre, const uint8_t *b, ssize_t n)
{
	ssize_t i;
	printf("%s (%d bytes):", pre, (int) n);
	for (i = 0; i < n; ++i) printf(" %02x", b[i]);
	printf("\n");
}
int main(void)
{
	MPT_STRUCT(connection) con = MPT_CONNECTION_INIT;
	MPT_STRUCT(socket) s;
	uint8_t wire[256];
	uint64_t id1 = 0, id2 = 1234;
	ssize_t n;
	int sv[2], ret, fail = 0;
	
	if (socketpair(AF_UNIX, SOCK_DGRAM, 0, sv) < 0) { perror("socketpair"); return 77; }
	con.out._idlen = 2;
	s._id = sv[0];
	if ((ret = mpt_connection_assign(&con, &s)) < 0) { printf("assign: %d\n", ret); return 77; }
	
	/* request with registered answer handler */
	if (mpt_connection_await(&con, answer, 0) < 0) return 77;
	if (mpt_connection_push(&con, 2, "hi") < 0 || mpt_connection_push(&con, 0, 0) < 0) return 77;
	n = recv(sv[1], wire, sizeof(wire), 0);
	dump("request on the wire", wire, n);
	mpt_message_buf2id(wire, 2, &id1);
	
	/* one-way message (no await), must not ask for an answer: id 0 */
	if (mpt_connection_push(&con, 2, "yo") < 0 || mpt_connection_push(&con, 0, 0) < 0) return 77;
	n = recv(sv[1], wire, sizeof(wire), 0);
	dump("one-way message on the wire", wire, n);
	mpt_message_buf2id(wire, 2, &id2);
	printf("request id: %u, id in header of the later one-way message: %u\n", (unsigned) id1, (unsigned) id2);
	if (id2 == id1) {
		static const uint8_t r2[] = { 0x80, 0x01, 'Y', 'O' }; /* peer answers what it takes for request 1 */
		static const uint8_t r1[] = { 0x80, 0x01, 'H', 'I' };
		printf("VIOLATION: second message carries the id of the first request\n");
		fail = 1;
		/* a peer that deferred the first answer replies to the second message first */
		send(sv[1], r2, sizeof(r2), 0);
		send(sv[1], r1, sizeof(r1), 0);
		mpt_outdata_recv(&con.out);
		mpt_connection_dispatch(&con, handler, 0);
		mpt_outdata_recv(&con.out);
		ret = mpt_connection_dispatch(&con, handler, 0);
		printf("requester of \"hi\" was called %d time(s), got answer \"%s\"; the real answer was refused (%d)\n", calls, text, ret);
	}
	/* message is complete, a new request must be possible */
	if ((ret = mpt_connection_await(&con, answer, 0)) < 0) {
		printf("VIOLATION: await for next request refused (%d), cid still %u\n", ret, (unsigned) con.cid);
		fail = 1;
	}
	return fail;
}

/* f3: default reply of a stream input is the request itself instead of an answer message */
#include <stdio.h>
#include <string.h>
#include <unistd.h>
#include <poll.h>
#include <sys/socket.h>
#include <sys/uio.h>

#include "meta.h"
#include "array.h"
#include "convert.h"
#include "message.h"
#include "event.h"
#include "output.h"
#include "notify.h"
#include "connection.h"
#include "stream.h"

static int handler(void *ptr, MPT_STRUCT(event) *ev)
{
	(void) ptr; (void) ev;
	return 3; /* no explicit answer */
}
static uint8_t got[64];
static size_t gotlen;
static int replies;
static int peerMsg(void *ptr, const MPT_STRUCT(message) *msg)
{
	MPT_STRUCT(message) tmp = *msg;
	(void) ptr;
	gotlen = mpt_message_read(&tmp, sizeof(got), got);
	++replies;
	return 0;
}
int main(void)
{
	static const uint8_t req[] = { 0x00, 0x05 };
	MPT_STRUCT(stream) peer = MPT_STREAM_INIT;
	MPT_STRUCT(socket) s;
	MPT_INTERFACE(input) *in;
	size_t i;
	int sv[2], ret;
	
	if (socketpair(AF_UNIX, SOCK_STREAM, 0, sv) < 0) { perror("socketpair"); return 77; }
	s._id = sv[0];
	if (!(in = mpt_stream_input(&s, MPT_STREAMFLAG(Write) | MPT_STREAMFLAG(RdWr) | MPT_STREAMFLAG(Buffer), MPT_ENUM(EncodingCobs), 2))) {
		printf("no input\n"); return 77;
	}
	s._id = sv[1];
	if (mpt_stream_dopen(&peer, &s, MPT_STREAMFLAG(RdWr) | MPT_STREAMFLAG(Buffer)) < 0) return 77;
	peer._wd._enc = mpt_message_encoder(MPT_ENUM(EncodingCobs));
	peer._rd._dec = mpt_message_decoder(MPT_ENUM(EncodingCobs));
	
	/* request id 5, payload "hi" */
	mpt_stream_push(&peer, sizeof(req), req);
	mpt_stream_push(&peer, 2, "hi");
	mpt_stream_push(&peer, 0, 0);
	mpt_stream_flush(&peer);
	
	ret = in->_vptr->next(in, POLLIN);
	ret = in->_vptr->dispatch(in, handler, 0);
	printf("dispatch: %d\n", ret);
	in->_vptr->next(in, POLLIN | POLLOUT);
	
	mpt_stream_poll(&peer, POLLIN, 100);
	while ((ret = mpt_stream_dispatch(&peer, peerMsg, 0)) >= 0 && (ret & MPT_EVENTFLAG(Retry)));
	
	printf("replies: %d, content (%d bytes):", replies, (int) gotlen);
	for (i = 0; i < gotlen; ++i) printf(" %02x", got[i]);
	printf("\n");
	if (replies != 1 || gotlen < 2 || got[0] != 0x80 || got[1] != 0x05) {
		printf("no/invalid reply id\n");
		return 2;
	}
	if (gotlen < 4 || got[2] != MPT_MESGTYPE(Answer)) {
		printf("VIOLATION: default reply is not an answer message (request echoed back: id, unmarked id, payload)\n");
		return 1;
	}
	return 0;
}

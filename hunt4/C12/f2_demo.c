/* f2: a datagram that dispatch/receive refused stays in the connection buffer,
 * the next outgoing message is appended behind it and leaves with a foreign id header */
#include <stdio.h>
#include <string.h>
#include <unistd.h>
#include <sys/socket.h>
#include <sys/uio.h>

#include "meta.h"
#include "array.h"
#include "message.h"
#include "event.h"
#include "output.h"
#include "connection.h"

static int handler(void *ptr, MPT_STRUCT(event) *ev)
{
	(void) ptr; (void) ev;
	return 0;
}
static void dump(const char *pre, const uint8_t *b, ssize_t n)
{
	ssize_t i;
	printf("%s (%d bytes):", pre, (int) n);
	for (i = 0; i < n && i < 16; ++i) printf(" %02x", b[i]);
	printf(n > 16 ? " ...\n" : "\n");
}
static uint8_t wire[0x20000];
int main(void)
{
	static const uint8_t stray[] = { 0x80, 0x07, 'o', 'k' }; /* reply nobody waits for (e.g. duplicate) */
	static const uint8_t tiny[] = { 0x05 };                  /* shorter than the id */
	MPT_STRUCT(connection) con = MPT_CONNECTION_INIT;
	MPT_STRUCT(socket) s;
	uint64_t id = 1234;
	ssize_t n;
	int sv[2], ret, fail = 0;
	
	if (socketpair(AF_UNIX, SOCK_DGRAM, 0, sv) < 0) { perror("socketpair"); return 77; }
	con.out._idlen = 2;
	s._id = sv[0];
	if ((ret = mpt_connection_assign(&con, &s)) < 0) { printf("assign: %d\n", ret); return 77; }
	
	/* case A: reply with unregistered id is refused by dispatch */
	send(sv[1], stray, sizeof(stray), 0);
	ret = mpt_outdata_recv(&con.out);
	ret = mpt_connection_dispatch(&con, handler, 0);
	printf("A: dispatch of unexpected reply: %d (refused)\n", ret);
	
	/* one-way message, id 0 */
	if (mpt_connection_push(&con, 2, "yo") < 0 || mpt_connection_push(&con, 0, 0) < 0) { printf("push failed\n"); return 77; }
	n = recv(sv[1], wire, sizeof(wire), 0);
	dump("A: one-way message \"yo\" on the wire", wire, n);
	mpt_message_buf2id(wire, 2, &id);
	if (n != 4 || id != 0) {
		printf("A: VIOLATION: message sent with id %u instead of 0, peer will answer request %u\n", (unsigned) id, (unsigned) id);
		fail = 1;
	}
	/* case B: datagram shorter than the id is refused by receive */
	send(sv[1], tiny, sizeof(tiny), 0);
	ret = mpt_outdata_recv(&con.out);
	printf("B: receive of short datagram: %d (refused)\n", ret);
	if (mpt_connection_push(&con, 2, "yo") < 0 || (ret = mpt_connection_push(&con, 0, 0)) < 0) {
		printf("B: push failed (%d)\n", ret);
		return fail ? fail : 77;
	}
	n = recv(sv[1], wire, sizeof(wire), 0);
	dump("B: one-way message \"yo\" on the wire", wire, n);
	id = 1234;
	mpt_message_buf2id(wire, 2, &id);
	if (n != 4 || id != 0) {
		printf("B: VIOLATION: message of 4 bytes sent as %d bytes with id %u\n", (int) n, (unsigned) id);
		fail = 1;
	}
	return fail;
}

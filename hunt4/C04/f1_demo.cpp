/* array::insert()/prepend() with a source that lies in the array itself */
#include <cstdio>
#include <cstring>
#include <vector>
#include "array.h"

int main()
{
	int fail = 0;
	/* case A: no reallocation needed */
	{
		mpt::array a;
		a.append(8, "ABCDEFGH");
		std::vector<char> v(a.length());
		memcpy(v.data(), a.base(), a.length());
		/* prepend own bytes 4..7 */
		const char *src = static_cast<const char *>(a.base()) + 4;
		a.prepend(4, src);
		v.insert(v.begin(), { 'E', 'F', 'G', 'H' });
		if (a.length() != v.size() || memcmp(a.base(), v.data(), v.size())) {
			fprintf(stderr, "A: got '%.*s', expected '%.*s'\n", (int) a.length(), (char *) a.base(), (int) v.size(), v.data());
			fail |= 1;
		}
	}
	/* case B: insert forces a new block, source is read from the released one */
	{
		mpt::array a;
		char buf[40];
		memset(buf, 'x', sizeof(buf));
		memcpy(buf, "0123456789", 10);
		a.append(sizeof(buf), buf);
		size_t cap = a.length() + a.left();
		/* fill to capacity */
		while (a.left()) a.append(1, "y");
		const char *src = static_cast<const char *>(a.base());
		a.insert(20, 10, src);
		const char *now = static_cast<const char *>(a.base());
		if (a.length() != cap + 10 || memcmp(now + 20, "0123456789", 10)) {
			fprintf(stderr, "B: inserted '%.10s', expected '0123456789'\n", now + 20);
			fail |= 2;
		}
	}
	return fail;
}

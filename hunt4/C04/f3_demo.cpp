/* encode_array::shift(0) compacts the byte buffer in place although a copy shares it */
#include <cstdio>
#include <cstring>
#include "types.h"
#include "array.h"

int main()
{
	mpt::encode_array e1;
	if (e1.push(10, "0123456789") != 10 || e1.push(0, 0) != 0) {
		fprintf(stderr, "setup failed\n");
		return 0;
	}
	mpt::encode_array e2(e1); /* second handle, shares the buffer */
	mpt::span<const uint8_t> d1 = e1.data();
	if (d1.size() != 10 || memcmp(d1.begin(), "0123456789", 10)) {
		fprintf(stderr, "setup content\n");
		return 0;
	}
	/* consume 4 bytes through the copy and move the rest to the front */
	if (!e2.shift(4) || !e2.shift()) {
		fprintf(stderr, "shift refused\n");
		return 0;
	}
	mpt::span<const uint8_t> d2 = e2.data();
	if (d2.size() != 6 || memcmp(d2.begin(), "456789", 6)) {
		fprintf(stderr, "modified handle wrong\n");
		return 2;
	}
	/* first handle was not touched and must still read its 10 bytes */
	d1 = e1.data();
	if (d1.size() != 10 || memcmp(d1.begin(), "0123456789", 10)) {
		fprintf(stderr, "untouched handle reads %ld bytes '%.10s'\n", (long) d1.size(), (const char *) d1.begin());
		return 1;
	}
	return 0;
}

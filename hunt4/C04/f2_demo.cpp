/* array::set(len, base) with a source that lies in the array's own buffer:
 * the old buffer is released before the bytes are copied out of it */
#include <cstdio>
#include <cstring>
#include "types.h"
#include "array.h"

int main()
{
	static const double val[4] = { 1.5, 2.5, 3.5, 4.5 };
	mpt::array a;
	mpt::span<const double> s(val, 4);
	mpt::value v;
	v = s;
	if (a.set(v) < 0) {
		fprintf(stderr, "typed assignment refused\n");
		return 0;
	}
	/* array holds 4 doubles; turn it into raw bytes of its own last two elements */
	const mpt::array::content *c = a.data();
	const char *src = static_cast<const char *>(c->data()) + 2 * sizeof(double);
	size_t len = 2 * sizeof(double);
	if (!a.set(len, src)) {
		fprintf(stderr, "refused\n");
		return 0; /* refusal would be fine */
	}
	if (a.length() != len || memcmp(a.base(), val + 2, len)) {
		fprintf(stderr, "content differs from own elements 2..3\n");
		return 1;
	}
	return 0;
}

/*
 * f1: section/option names containing '.' (a "special" character the active
 * name flags permit) make the whole text unparsable in all three section styles.
 *
 * build:
 *   gcc -I<inc> f1_demo.c -o f1_demo -L/tmp/hunt4-C09/_build/mptcore -lmptcore -Wl,-rpath,/tmp/hunt4-C09/_build/mptcore
 *   (<inc> holds a symlink  mpt -> /tmp/hunt4-C09/mptcore)
 * exit code: number of failed cases (0 = property holds)
 */
#include <stdio.h>
#include <string.h>

#include <mpt/config.h>
#include <mpt/parse.h>
#include <mpt/node.h>
#include <mpt/meta.h>

struct src { const char *s; size_t pos, len; };
static int next_char(void *p)
{
	struct src *s = p;
	return (s->pos < s->len) ? (unsigned char) s->s[s->pos++] : -2;
}
/* parse text, expect: one section <sect> holding one option <opt> = <val> */
static int check(const char *label, const char *text, const char *fmt, const char *sect, const char *opt, const char *val)
{
	struct mpt_parser_context parse = MPT_PARSER_INIT;
	struct mpt_node root = MPT_NODE_INIT, *s, *o;
	struct src in;
	const char *id, *data;
	int ret, bad = 0;
	
	in.s = text; in.pos = 0; in.len = strlen(text);
	parse.src.getc = next_char;
	parse.src.arg  = &in;
	/* all name characters allowed for sections and options (numerals, special) */
	mpt_parse_accept(&parse.name, "nsNS");
	
	ret = mpt_parse_node(&root, &parse, fmt);
	if (ret < 0) {
		printf("%-28s FAIL: mpt_parse_node() = %d (line %d)\n", label, ret, (int) parse.src.line);
		return 1;
	}
	if (!(s = root.children) || !(id = mpt_node_ident(s)) || strcmp(id, sect)) {
		bad = 1;
	}
	else if (!(o = s->children) || !(id = mpt_node_ident(o)) || strcmp(id, opt)
	         || !(data = mpt_node_data(o, 0)) || strcmp(data, val)) {
		bad = 1;
	}
	printf("%-28s %s\n", label, bad ? "FAIL: wrong tree" : "ok");
	mpt_node_clear(&root);
	return bad;
}
int main(void)
{
	int fail = 0;
	/* control: same texts with '_' in place of '.' are read back faithfully */
	fail += check("pre  net_eth0/addr_v4", "net_eth0 {\n addr_v4 = 10.0.0.1\n}\n", 0,     "net_eth0", "addr_v4", "10.0.0.1");
	fail += check("sep  net_eth0/addr_v4", "[net_eth0]\naddr_v4 = 10.0.0.1\n",     "[ ]", "net_eth0", "addr_v4", "10.0.0.1");
	fail += check("enc  net_eth0/addr_v4", "[net_eth0\naddr_v4 = 10.0.0.1\n]\n",   "[x]", "net_eth0", "addr_v4", "10.0.0.1");
	if (fail) {
		printf("control cases failed, demo inconclusive\n");
		return 100;
	}
	/* dotted section name */
	fail += check("pre  net.eth0/addr",    "net.eth0 {\n addr = 10.0.0.1\n}\n", 0,     "net.eth0", "addr", "10.0.0.1");
	fail += check("sep  net.eth0/addr",    "[net.eth0]\naddr = 10.0.0.1\n",     "[ ]", "net.eth0", "addr", "10.0.0.1");
	fail += check("enc  net.eth0/addr",    "[net.eth0\naddr = 10.0.0.1\n]\n",   "[x]", "net.eth0", "addr", "10.0.0.1");
	/* dotted option name */
	fail += check("pre  net/addr.v4",      "net {\n addr.v4 = 10.0.0.1\n}\n",   0,     "net", "addr.v4", "10.0.0.1");
	fail += check("sep  net/addr.v4",      "[net]\naddr.v4 = 10.0.0.1\n",       "[ ]", "net", "addr.v4", "10.0.0.1");
	fail += check("enc  net/addr.v4",      "[net\naddr.v4 = 10.0.0.1\n]\n",     "[x]", "net", "addr.v4", "10.0.0.1");
	
	printf("%d dotted case(s) failed\n", fail);
	return fail;
}

/* finaliser-only element type: mpt_array_set()/mpt_buffer_set() duplicate raw bytes,
 * the same element is then finalised twice when the array is released */
#include <stdio.h>
#include <stdlib.h>
#include "types.h"
#include "array.h"

static int finalised[4];
typedef struct { int *owner; } elem;
static void e_fini(void *p) { elem *e = p; if (e->owner) ++*e->owner; }
/* same shape as the traits of mpt::reference_array<T>: finaliser, no init */
static const MPT_STRUCT(type_traits) tr = { 0, e_fini, sizeof(elem) };

int main(void)
{
	MPT_STRUCT(array) a = MPT_ARRAY_INIT, b = MPT_ARRAY_INIT;
	elem src[2] = { { &finalised[0] }, { &finalised[1] } };
	elem *e;
	int i, bad = 0;
	
	/* two elements handed over to the array */
	if (!(e = mpt_array_set(&a, &tr, sizeof(src), src, 0))) return 2;
	/* copy element 0 of the array behind its end (source in own content is a supported case) */
	if (!mpt_array_set(&a, &tr, sizeof(*e), e, 2)) { puts("self copy refused (ok)"); }
	/* copy the elements into a second typed array */
	else if (!mpt_array_set(&b, &tr, 2 * sizeof(*e), a._buf + 1, 0)) { puts("copy refused (ok)"); }
	
	mpt_array_clone(&a, 0);
	mpt_array_clone(&b, 0);
	for (i = 0; i < 2; i++) {
		printf("element %d finalised %d time(s)\n", i, finalised[i]);
		if (finalised[i] != 1) bad = 1;
	}
	return bad;
}

/* commands stored by mpt_command_reserve() live in an untyped buffer:
 * releasing the last array handle finalises none of them */
#include <stdio.h>
#include "types.h"
#include "array.h"
#include "event.h"

static int done[2];
static int handler(void *arg, void *ev) { if (!ev) ++*(int *) arg; return 0; }

int main(void)
{
	MPT_STRUCT(array) a = MPT_ARRAY_INIT, b = MPT_ARRAY_INIT;
	MPT_STRUCT(command) *c;
	
	/* reference: table created by mpt_command_set() is typed, release finalises the entry */
	if (mpt_command_set(&b, 1, handler, &done[1]) < 0) return 2;
	mpt_array_clone(&b, 0);
	
	/* table created by mpt_command_reserve() */
	if (!(c = mpt_command_reserve(&a, 2))) return 2;
	c->cmd = handler;
	c->arg = &done[0];
	/* a second entry added the regular way ends up in the same untyped buffer */
	if (mpt_command_set(&a, 77, handler, &done[0]) < 0) return 2;
	printf("content traits of reserve table: %p\n", (void *) a._buf->_content_traits);
	mpt_array_clone(&a, 0);
	
	printf("mpt_command_set table:     %d finalisation(s), expected 1\n", done[1]);
	printf("mpt_command_reserve table: %d finalisation(s), expected 2\n", done[0]);
	return (done[1] == 1 && done[0] == 2) ? 0 : 1;
}

/* sub-tree view of the global configuration: removing the view's own path
 * (empty relative path) keeps the value stored at that path */
#include <stdio.h>
#include <string.h>
#include "types.h"
#include "meta.h"
#include "config.h"

int main(void)
{
	MPT_STRUCT(path) base = MPT_PATH_INIT;
	MPT_INTERFACE(metatype) *sub;
	MPT_INTERFACE(config) *sc = 0;
	const char *got;
	int fails = 0, ret;
	
	mpt_path_set(&base, "a.b", -1);
	if (!(sub = mpt_config_global(&base))
	 || MPT_metatype_convert(sub, MPT_ENUM(TypeConfigPtr), &sc) < 0 || !sc) {
		return 2;
	}
	/* history on the view: assign own path, assign a child, remove own path */
	if (mpt_config_set(sc, 0, "own value", '.', 0) < 0) return 3;   /* path "" of view == global "a.b" */
	if (mpt_config_set(sc, "c", "child value", '.', 0) < 0) return 3; /* global "a.b.c" */
	
	got = 0; mpt_config_get(sc, 0, 's', &got);
	printf("before: view ''    = %s\n", got ? got : "(absent)");
	got = 0; mpt_config_get(0, "a.b", 's', &got);
	printf("before: global a.b = %s\n", got ? got : "(absent)");
	
	ret = mpt_config_set(sc, 0, 0, '.', 0); /* remove the view's own path */
	printf("remove returned %d\n", ret);
	
	got = 0; ret = mpt_config_get(sc, "c", 's', &got);
	printf("after:  view 'c'   = %s\n", (ret >= 0 && got) ? got : "(absent)");
	if (ret >= 0 && got) ++fails;
	
	got = 0; ret = mpt_config_get(sc, 0, 's', &got);
	printf("after:  view ''    = %s\n", (ret >= 0 && got) ? got : "(absent)");
	if (ret >= 0 && got) { printf("  VIOLATION: removed path still returns its old value through the view\n"); ++fails; }
	
	got = 0; ret = mpt_config_get(0, "a.b", 's', &got);
	printf("after:  global a.b = %s\n", (ret >= 0 && got) ? got : "(absent)");
	if (ret >= 0 && got) { printf("  VIOLATION: removed path still returns its old value through the global config\n"); ++fails; }
	
	/* reference: the same removal through the global view does remove the value */
	mpt_config_set(0, "a.b", "own value", '.', 0);
	mpt_config_set(0, "a.b", 0, '.', 0);
	got = 0; ret = mpt_config_get(0, "a.b", 's', &got);
	printf("reference (global remove of a.b): a.b = %s\n", (ret >= 0 && got) ? got : "(absent)");
	
	sub->_vptr->unref(sub);
	return fails ? 1 : 0;
}

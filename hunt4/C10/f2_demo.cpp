// a copy of a private C++ configuration shares the item storage of the original:
// assignments/removals on one configuration change what the other one returns
#include <cstdio>
#include <cstring>
#include "collection.h"
#include "config.h"
#include "meta.h"
using namespace mpt;
static const char *get(config &c, const char *p)
{
	const char *s = 0;
	path pp(p);
	return (mpt_config_getp(&c, &pp, 's', &s) >= 0) ? s : 0;
}
static int expect(const char *what, const char *got, const char *exp)
{
	bool ok = exp ? (got && !strcmp(got, exp)) : !got;
	printf("%-28s = %-10s expected %-10s %s\n", what, got ? got : "(absent)", exp ? exp : "(absent)", ok ? "" : "<-- VIOLATION");
	return ok ? 0 : 1;
}
int main()
{
	int fails = 0;
	config::root a;
	a.set("x.y", "1");
	a.set("x.z", "2");
	
	config::root b(a);          // independent private configuration
	
	bool r1 = b.set("x.y", "changed"); // history on b only
	bool r2 = b.set("x.w", "new");
	bool r3 = b.set("q", "top");
	printf("b.set results: %d %d %d\n", r1, r2, r3);
	
	fails += expect("a: x.y (never reassigned)", get(a, "x.y"), "1");
	fails += expect("a: x.w (never assigned)", get(a, "x.w"), 0);
	fails += expect("b: x.y", get(b, "x.y"), "changed");
	if (r3) fails += expect("b: q", get(b, "q"), "top");
	else { printf("b.set(\"q\") refused on the copy\n"); }
	
	b.set("x", 0);              // remove x in b only
	fails += expect("a: x.z after b.remove(x)", get(a, "x.z"), "2");
	
	return fails ? 1 : 0;
}

/* f2: a reply that (partly) consists of the request content is read from freed
 * memory when request + reply exceed the 64 KiB datagram buffer:
 * mpt_outdata_reply() grows con->out.buf, the message parts still point into the
 * old block.  Run with ASan for the heap-use-after-free report; without ASan
 * M_PERTURB makes the damage visible in the reply content. */
#include <stdio.h>
#include <stdlib.h>
#include <string.h>
#include <unistd.h>
#include <malloc.h>
#include <sys/socket.h>
#include <sys/uio.h>

#include "array.h"
#include "event.h"
#include "message.h"
#include "output.h"
#include "connection.h"

/* answer a request with its own content (echo) */
static int handler(void *arg, MPT_STRUCT(event) *ev)
{
	(void) arg;
	if (!ev || !ev->reply) return 0;
	return ev->reply->_vptr->reply(ev->reply, ev->msg) < 0 ? -1 : 0;
}
int main(int argc, char **argv)
{
	MPT_STRUCT(connection) con = MPT_CONNECTION_INIT;
	MPT_STRUCT(socket) s;
	int sv[2], ret;
	size_t i, len = argc > 1 ? (size_t) atoi(argv[1]) : 40000;
	static uint8_t buf[70000], in[70000];
	ssize_t n;
	
	mallopt(M_PERTURB, 0x55);
	if (len < 3 || len > sizeof(buf)) return 2;
	
	if (socketpair(AF_UNIX, SOCK_DGRAM, 0, sv) < 0) return 2;
	s._id = sv[0];
	if (mpt_connection_assign(&con, &s) < 0) return 2;
	con.out._idlen = 2;
	
	for (i = 0; i < len; ++i) buf[i] = 'a' + i % 23;
	buf[0] = 0; buf[1] = 5; /* request id 5 */
	if (send(sv[1], buf, len, 0) < 0) { perror("send"); return 2; }
	if ((ret = mpt_outdata_recv(&con.out)) < 0) { fprintf(stderr, "recv %d\n", ret); return 2; }
	ret = mpt_connection_dispatch(&con, handler, 0);
	fprintf(stderr, "dispatch = %d\n", ret);
	n = recv(sv[1], in, sizeof(in), MSG_DONTWAIT);
	fprintf(stderr, "reply size %zd, id %02x %02x\n", n, in[0], in[1]);
	if (n != (ssize_t) len || in[0] != 0x80 || in[1] != 5) {
		fprintf(stderr, "FAIL: no/short reply for request 5\n");
		return 1;
	}
	if (memcmp(in + 2, buf + 2, len - 2)) {
		for (i = 2; i < len && in[i] == buf[i]; ++i);
		fprintf(stderr, "FAIL: reply content differs from offset %zu (got %02x, want %02x)\n", i, in[i], buf[i]);
		return 1;
	}
	mpt_connection_fini(&con);
	return 0;
}

/* f3: on a datagram connection the request sent after a dispatched incoming
 * datagram does not carry its own id: the dispatched datagram stays in
 * con->out.buf and is sent in front of the new id + payload. */
#include <stdio.h>
#include <stdlib.h>
#include <string.h>
#include <unistd.h>
#include <sys/socket.h>
#include <sys/uio.h>

#include "array.h"
#include "event.h"
#include "message.h"
#include "output.h"
#include "connection.h"

static int got_reply;
static int on_reply(void *arg, const MPT_STRUCT(message) *msg)
{
	(void) arg;
	if (msg) ++got_reply;
	return 0;
}
static int handler(void *arg, MPT_STRUCT(event) *ev)
{
	(void) arg;
	if (!ev || !ev->reply) return 0;
	return mpt_context_reply(ev->reply, 0, "%s", "ok");
}
static void dump(const char *t, const uint8_t *b, ssize_t n)
{
	ssize_t i;
	fprintf(stderr, "%s (%zd bytes):", t, n);
	for (i = 0; i < n; ++i) fprintf(stderr, " %02x", b[i]);
	fputc('\n', stderr);
}
int main(void)
{
	MPT_STRUCT(connection) con = MPT_CONNECTION_INIT;
	MPT_STRUCT(socket) s;
	int sv[2], ret;
	uint8_t in[1024];
	uint64_t id = 0;
	static const uint8_t req[] = { 0x00, 0x05, 'h', 'e', 'l', 'l', 'o' };
	ssize_t n;
	
	if (socketpair(AF_UNIX, SOCK_DGRAM, 0, sv) < 0) return 2;
	s._id = sv[0];
	if (mpt_connection_assign(&con, &s) < 0) return 2;
	con.out._idlen = 2;
	
	/* request 5 of the peer is dispatched and answered */
	if (send(sv[1], req, sizeof(req), 0) < 0) return 2;
	if ((ret = mpt_outdata_recv(&con.out)) < 0) return 2;
	if ((ret = mpt_connection_dispatch(&con, handler, 0)) < 0) return 2;
	n = recv(sv[1], in, sizeof(in), MSG_DONTWAIT);
	dump("reply to peer   ", in, n);
	if (n < 2 || in[0] != 0x80 || in[1] != 0x05) return 2;
	
	/* own request: id is reserved, written to the header, message sent */
	if ((ret = mpt_connection_await(&con, on_reply, 0)) < 0) return 2;
	fprintf(stderr, "reserved request id = %u\n", (unsigned) con.cid);
	if ((ret = mpt_connection_push(&con, 4, "ping")) < 0) { fprintf(stderr, "push = %d\n", ret); return 2; }
	if ((ret = mpt_connection_push(&con, 0, 0)) < 0) { fprintf(stderr, "push end = %d\n", ret); return 2; }
	n = recv(sv[1], in, sizeof(in), MSG_DONTWAIT);
	dump("request from con", in, n);
	
	if (n < 2) { fprintf(stderr, "FAIL: nothing sent\n"); return 1; }
	mpt_message_buf2id(in, 2, &id);
	ret = 0;
	if (id != 1 || n != 6 || memcmp(in + 2, "ping", 4)) {
		fprintf(stderr, "FAIL: header of the request reads back as id %u instead of 1\n", (unsigned) id);
		ret = 1;
	}
	mpt_connection_fini(&con);
	return ret;
}

/* f1: mpt_stream_sync() dispatches a reply frame that is shorter than the
 * message id to a waiting request chosen by uninitialised stack bytes. */
#include <stdio.h>
#include <string.h>
#include <unistd.h>
#include <poll.h>
#include <sys/socket.h>
#include <sys/uio.h>

#include "array.h"
#include "queue.h"
#include "event.h"
#include "message.h"
#include "convert.h"
#include "connection.h"
#include "stream.h"

static int called[4];
static int handler(void *arg, void *msg)
{
	int idx = (int) (intptr_t) arg;
	if (msg) {
		++called[idx];
		fprintf(stderr, "handler of request id %d received a reply\n", idx);
	}
	return 0;
}
/* make the content of the (unused) stack below main() predictable */
static void __attribute__((noinline)) paint(int val)
{
	volatile unsigned char area[16384];
	size_t i;
	for (i = 0; i < sizeof(area); ++i) area[i] = val;
}
int main(void)
{
	MPT_STRUCT(stream) rx = MPT_STREAM_INIT, tx = MPT_STREAM_INIT;
	MPT_STRUCT(array) wait = MPT_ARRAY_INIT;
	MPT_STRUCT(socket) s;
	MPT_STRUCT(command) *cmd;
	int sv[2], i, ret;
	static const uint8_t frame[1] = { 0x80 }; /* 1 byte, id length is 2 */
	
	if (socketpair(AF_UNIX, SOCK_STREAM, 0, sv) < 0) return 2;
	s._id = sv[0];
	if (mpt_stream_dopen(&rx, &s, MPT_STREAMFLAG(RdWr) | MPT_STREAMFLAG(Buffer)) < 0) return 2;
	s._id = sv[1];
	if (mpt_stream_dopen(&tx, &s, MPT_STREAMFLAG(RdWr) | MPT_STREAMFLAG(Buffer)) < 0) return 2;
	rx._rd._dec = mpt_message_decoder(MPT_ENUM(EncodingCobs));
	rx._wd._enc = mpt_message_encoder(MPT_ENUM(EncodingCobs));
	tx._rd._dec = mpt_message_decoder(MPT_ENUM(EncodingCobs));
	tx._wd._enc = mpt_message_encoder(MPT_ENUM(EncodingCobs));
	
	/* three outstanding requests with ids 1, 2, 3 (2 byte id) */
	for (i = 1; i <= 3; ++i) {
		if (!(cmd = mpt_command_reserve(&wait, 2))) return 2;
		if (cmd->id != (uintptr_t) i) return 2;
		cmd->cmd = handler;
		cmd->arg = (void *) (intptr_t) i;
	}
	/* peer sends a truncated reply: only the first id byte, no request id in it */
	if (mpt_stream_push(&tx, sizeof(frame), frame) < 0
	    || mpt_stream_push(&tx, 0, 0) < 0
	    || mpt_stream_flush(&tx) < 0) return 2;
	
	/* resolve the symbol first, lazy binding would scribble over the painted stack */
	(void) mpt_stream_sync(&rx, 0, &wait, 0);
	paint(0x01);
	ret = mpt_stream_sync(&rx, 2, &wait, 1000);
	fprintf(stderr, "mpt_stream_sync() = %d, handler calls: %d %d %d\n", ret, called[1], called[2], called[3]);
	
	if (called[1] || called[2] || called[3]) {
		fprintf(stderr, "FAIL: reply without complete id was delivered to a waiting request\n");
		return 1;
	}
	return 0;
}

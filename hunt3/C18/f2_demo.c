/*
 * C18 finding 2: mpt_linepart_linear() loses the cut/trim mark (stores fraction 0 = "not cut")
 * when the fraction computation overflows or underflows; the out-of-range end point
 * is then reported as a drawn point of the part.
 *
 * build (from the worktree root R):
 *   gcc -g -I$R/mptcore -I$R/mptplot f2_demo.c -o f2_demo -L$R/_build/mptplot -lmptplot \
 *       -L$R/_build/mptcore -lmptcore -Wl,-rpath,$R/_build/mptplot:$R/_build/mptcore
 */
#include <stdio.h>
#include <math.h>
#include "values.h"

static int check(const char *name, const double *v, size_t len, double min, double max, double cut, double trim)
{
	MPT_STRUCT(linepart) lp;
	MPT_STRUCT(range) r;
	size_t first, last, i;
	int bad = 0;
	
	r.min = min;
	r.max = max;
	mpt_linepart_linear(&lp, v, len, &r);
	printf("%s: raw=%u usr=%u cut=%u (%g, expected %g) trim=%u (%g, expected %g)\n",
	       name, lp.raw, lp.usr,
	       lp._cut, mpt_linepart_real(lp._cut), cut,
	       lp._trim, mpt_linepart_real(lp._trim), trim);
	
	/* points of the drawn portion: line points without cut start and trim end */
	first = lp._cut ? 1 : 0;
	last  = lp._trim ? lp.usr - 1 : lp.usr;
	for (i = first; i < last; i++) {
		if (v[i] < min || v[i] > max) {
			printf("  VIOLATION: point %u (%g) is outside [%g,%g] but in the drawn portion\n",
			       (unsigned) i, v[i], min, max);
			bad = 1;
		}
	}
	if (fabs(mpt_linepart_real(lp._cut) - cut) > 2. / 65536) {
		printf("  VIOLATION: cut fraction does not reproduce the crossing\n");
		bad = 1;
	}
	if (fabs(mpt_linepart_real(lp._trim) - trim) > 2. / 65536) {
		printf("  VIOLATION: trim fraction does not reproduce the crossing\n");
		bad = 1;
	}
	return bad;
}

int main(void)
{
	/* difference of neighbours exceeds DBL_MAX: a/inf = 0 */
	static const double up[]   = { -1e308, 1e308 };
	static const double down[] = { 1e308, -1e308 };
	/* quotient below smallest double: 1e-300/1e300 = 0 */
	static const double tiny[] = { -1e-300, 1e300 };
	static const double tend[] = { 1e300, -1e-300 };
	int bad = 0;
	
	bad |= check("overflow, cut  ", up,   2, 0, 1.5e308, 0.5, 0);
	bad |= check("overflow, trim ", down, 2, 0, 1.5e308, 0, 0.5);
	bad |= check("underflow, cut ", tiny, 2, 0, 1e301, 1. / 65536, 0);
	bad |= check("underflow, trim", tend, 2, 0, 1e301, 0, 1. / 65536);
	
	return bad;
}

/*
 * C18 finding 1: polyline::set() partitions against a stale/wrong point count
 * because maxsize() only ever looks at the FIRST value store.
 *
 * build (from the worktree root R):
 *   g++ -std=c++11 -g -I$R/mptcore -I$R/mptplot -I$R/mptio f1_demo.cpp -o f1_demo \
 *       -L$R/_build/mpt++ -lmpt++ -L$R/_build/mptplot -lmptplot -L$R/_build/mptcore -lmptcore \
 *       -Wl,-rpath,$R/_build/mpt++:$R/_build/mptplot:$R/_build/mptcore:$R/_build/mptio
 */
#include <cstdio>
#include "layout.h"

using namespace mpt;

static void show(const char *txt, const polyline &p)
{
	long raw = 0, usr = 0;
	for (auto lp : p.parts()) {
		raw += lp.raw;
		usr += lp.usr;
	}
	printf("%s: %ld parts, %ld raw, %ld line points, %ld stored points\n",
	       txt, (long) p.parts().size(), raw, usr, (long) p.points().size());
}

int main()
{
	/* two dimensions, both limited to the visible range [0,1] */
	layout::graph::transform3 tr;
	tr._dim[2].to.x = tr._dim[2].to.y = 0;
	for (int i = 0; i < 2; i++) {
		tr._dim[i]._flags |= TransformLimit;
		tr._dim[i].limit.min = 0;
		tr._dim[i].limit.max = 1;
	}
	if (tr.dimensions() != 2) return 77;
	
	static const double in4[4] = { 0.1, 0.2, 0.3, 0.4 };
	static const double in10[10] = { 0.1, 0.2, 0.3, 0.4, 0.5, 0.6, 0.7, 0.8, 0.9, 1.0 };
	int fail = 0;
	
	/* A: same input, different history -> different partition */
	value_store sy[2];   /* x has no data (stays on base line), y has 10 in-range values */
	sy[1].set(span<const double>(in10, 10));
	
	polyline fresh;
	bool ok = fresh.set(tr, span<const value_store>(sy, 2));
	show("fresh polyline, y only (10 values)", fresh);
	if (!ok || fresh.points().size() != 10) { printf("  unexpected\n"); fail |= 1; }
	
	value_store s4[2];
	s4[0].set(span<const double>(in4, 4));
	s4[1].set(span<const double>(in4, 4));
	polyline used;
	used.set(tr, span<const value_store>(s4, 2));
	show("used polyline, x/y with 4 values", used);
	ok = used.set(tr, span<const value_store>(sy, 2));
	show("used polyline, y only (10 values)", used);
	if (!ok || used.points().size() != 10) {
		printf("  VIOLATION: 10 in-range input points, but only %ld are covered by the parts\n",
		       (long) used.points().size());
		fail |= 2;
	}
	
	/* B: no double data at all -> old partition is recycled and reported as success */
	value_store none[2];
	polyline p;
	p.set(tr, span<const value_store>(s4, 2));
	ok = p.set(tr, span<const value_store>(none, 2));
	show("used polyline, no data at all", p);
	if (ok || p.points().size() || p.parts().size()) {
		printf("  VIOLATION: set() = %d, parts still cover points of an input that has no values\n", ok);
		fail |= 4;
	}
	
	/* C: maxsize() itself */
	value_store m[2];
	m[0].set(span<const double>(in4, 4));
	m[1].set(span<const double>(in10, 10));
	long max = maxsize(span<const value_store>(m, 2));
	printf("maxsize({4 values, 10 values}) = %ld\n", max);
	if (max != 10) fail |= 8;
	
	return fail;
}

/*
 * C18 finding 3: apply_data() reads behind the end of a dimension that is
 * shorter than the points covered by the part list.
 *
 * build (from the worktree root R), AddressSanitizer makes the over-read visible:
 *   g++ -std=c++11 -g -fsanitize=address -I$R/mptcore -I$R/mptplot -I$R/mptio f3_demo.cpp -o f3_demo \
 *       -L$R/_build/mpt++ -lmpt++ -L$R/_build/mptplot -lmptplot -L$R/_build/mptcore -lmptcore \
 *       -Wl,-rpath,$R/_build/mpt++:$R/_build/mptplot:$R/_build/mptcore:$R/_build/mptio
 * Without ASan the program exits 1 when it sees foreign (indeterminate) values in the result.
 */
#include <cstdio>
#include <cstdlib>
#include "layout.h"

using namespace mpt;

int main()
{
	layout::graph::transform3 tr;
	tr._dim[2].to.x = tr._dim[2].to.y = 0;   /* x and y only */
	
	/* three parts of 3 points each: 9 points */
	linepart parts[3] = { linepart(3), linepart(3), linepart(3) };
	
	/* x has 9 values, y only 7 */
	value_store st[2];
	double x[9], y[9];
	for (int i = 0; i < 9; i++) x[i] = i;
	for (int i = 0; i < 9; i++) y[i] = 1;
	st[0].set(span<const double>(x, 9));
	st[1].set(span<const double>(y, 7));
	
	/* exact size destination */
	point<double> *dest = static_cast<point<double> *>(calloc(9, sizeof(*dest)));
	
	int dims = apply_data(dest, span<const linepart>(parts, 3), tr, span<const value_store>(st, 2));
	printf("dimensions applied: %d\n", dims);
	
	int bad = 0;
	for (int i = 0; i < 9; i++) {
		printf("  point %d: x = %g, y = %g\n", i, dest[i].x, dest[i].y);
		if (i >= 7 && dest[i].y != 0) {
			++bad;
		}
	}
	if (bad) {
		printf("VIOLATION: %d points got a y value although y has only 7 values\n", bad);
	}
	free(dest);
	
	/* same with a distance that leaves the allocation (ASan: heap-buffer-overflow in apply_data) */
	const long nx = 70000, ny = 66000;
	linepart big[2] = { linepart(65535), linepart(nx - 65535) };
	value_store bs[2];
	double *bx = bs[0].reserve<double>(nx)->begin();
	double *by = bs[1].reserve<double>(ny)->begin();
	for (long i = 0; i < nx; i++) bx[i] = i;
	for (long i = 0; i < ny; i++) by[i] = 1;
	dest = static_cast<point<double> *>(calloc(nx, sizeof(*dest)));
	apply_data(dest, span<const linepart>(big, 2), tr, span<const value_store>(bs, 2));
	for (long i = ny; i < nx; i++) {
		if (dest[i].y != 0) ++bad;
	}
	printf("large run: %d points behind the end of y carry a y value\n", bad);
	free(dest);
	return bad ? 1 : 0;
}

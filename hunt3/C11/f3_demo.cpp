/* f3: dispatch::set_default(id) looks up the table POSITION id, not the handler with that id
 * build:
 *  B=/tmp/hunt3-C11/_build
 *  g++ -g -fsanitize=address -I/tmp/hunt3-C11/mptcore -I$B/mptcore f3_demo.cpp -o f3_demo \
 *      -L$B/mptcore -lmptcore -L$B/mpt++ -lmpt++ -Wl,-rpath,$B/mptcore -Wl,-rpath,$B/mpt++
 */
#include <stdio.h>
#include "event.h"

using namespace mpt;

struct H { int eol, calls; };

static int h(void *a, event *ev)
{
	H *x = static_cast<H *>(a);
	if (!ev) { x->eol++; return 0; }
	x->calls++;
	return 0;
}

int main()
{
	H h100 = { 0, 0 }, h200 = { 0, 0 };
	int bad = 0;
	dispatch d;
	d.set_handler(100, h, &h100);
	d.set_handler(200, h, &h200);
	
	/* id 100 IS registered */
	bool ok = d.set_default(100);
	int ret = mpt_dispatch_emit(&d, 0);
	printf("set_default(100) = %d, emit(none) = %d, h100.calls = %d (expected 1, >=0, 1)\n",
	       ok, ret, h100.calls);
	if (!ok || h100.calls != 1) bad |= 1;
	
	/* id 1 is NOT registered (but table slot 1 exists) */
	ok = d.set_default(1);
	ret = mpt_dispatch_emit(&d, 0);
	printf("set_default(1) = %d, emit(none) = %d, calls = %d/%d (expected 0, no error)\n",
	       ok, ret, h100.calls, h200.calls);
	if (ok || ret < 0) bad |= 2;
	
	/* id UINTPTR_MAX is NOT registered (negative position = from the end) */
	ok = d.set_default((uintptr_t) -1);
	printf("set_default(UINTPTR_MAX) = %d (expected 0)\n", ok);
	if (ok) bad |= 4;
	
	if (bad) printf("VIOLATION (%d)\n", bad);
	return bad;
}

/* f1: mpt::dispatch can be copied member-wise
 * build:
 *  B=/tmp/hunt3-C11/_build
 *  g++ -g -fsanitize=address -I/tmp/hunt3-C11/mptcore -I$B/mptcore f1_demo.cpp -o f1_demo \
 *      -L$B/mptcore -lmptcore -L$B/mpt++ -lmpt++ -Wl,-rpath,$B/mptcore -Wl,-rpath,$B/mpt++
 */
#include <stdio.h>
#include "event.h"

using namespace mpt;

struct H { int eol, calls, dead; };

static int h(void *a, event *ev)
{
	H *x = static_cast<H *>(a);
	if (!ev) { x->eol++; return 0; }   /* end-of-life notification */
	if (x->eol) x->dead++;             /* invoked after end-of-life */
	x->calls++;
	return 0;
}

int main()
{
	H fb = { 0, 0, 0 }, h5 = { 0, 0, 0 };
	{
		dispatch a;
		a.set_error(h, &fb);        /* fallback handler */
		a.set_handler(5, h, &h5);   /* handler for id 5 */
		{
			dispatch b(a);          /* compiler generated member-wise copy */
		}                           /* ~b tears down what it shares with a */
		printf("after ~b (a still alive): fb.eol=%d h5.eol=%d a.handler(5)=%p\n",
		       fb.eol, h5.eol, (void *) a.handler(5));
		event ev;
		ev.id = 5;
		mpt_dispatch_emit(&a, &ev); /* a never unregistered 5 */
		printf("emit(5) on a: h5.calls=%d fb.calls=%d fb.dead=%d\n", h5.calls, fb.calls, fb.dead);
	}
	printf("after ~a: fb.eol=%d h5.eol=%d\n", fb.eol, h5.eol);
	
	if (fb.eol != 1 || h5.eol != 1 || fb.dead || h5.dead || h5.calls != 1) {
		printf("VIOLATION\n");
		return 1;
	}
	return 0;
}

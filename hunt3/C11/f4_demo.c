/* f4: a request id reserved on a dispatcher table is live with a handler of the wrong signature
 * build:
 *  B=/tmp/hunt3-C11/_build
 *  gcc -g -I/tmp/hunt3-C11/mptcore -I$B/mptcore f4_demo.c -o f4_demo \
 *      -L$B/mptcore -lmptcore -Wl,-rpath,$B/mptcore           (SIGSEGV)
 *  add -fsanitize=address: heap-buffer-overflow READ of size 32 in log_reply
 */
#include <stdio.h>
#include <stdlib.h>
#include <sys/uio.h>

#include "event.h"
#include "message.h"

static int fbcalls;
static int fallback(void *arg, MPT_STRUCT(event) *ev)
{
	(void) arg;
	if (ev) ++fbcalls;
	return 0;
}

int main()
{
	static const uint8_t data[] = { 1, 0 }; /* message whose first byte (= id) is 1 */
	MPT_STRUCT(message) msg = MPT_MESSAGE_INIT;
	MPT_STRUCT(dispatch) d;
	MPT_STRUCT(command) *c;
	MPT_STRUCT(event) *ev;
	int ret;
	
	mpt_dispatch_init(&d);
	d._err.cmd = fallback;
	
	/* reserve a request id on the dispatcher table (C++: dispatch::reserve(1)) */
	if (!(c = mpt_command_reserve(&d._d, 1))) {
		return 0;
	}
	printf("reserved id %lu\n", (unsigned long) c->id);
	
	/* nobody registered a handler for id 1 via mpt_dispatch_set();
	 * an incoming message with type byte 1 should reach the fallback */
	ev = malloc(sizeof(*ev));
	msg.base = data;
	msg.used = sizeof(data);
	ev->reply = 0;
	ev->msg = &msg;
	ev->id = 0;
	ret = mpt_dispatch_emit(&d, ev);   /* crashes inside log_reply() */
	
	printf("emit = %d, fallback calls = %d\n", ret, fbcalls);
	free(ev);
	mpt_dispatch_fini(&d);
	return fbcalls == 1 ? 0 : 1;
}

/* f2: mpt::command has a notifying destructor but an implicit copy constructor
 * build:
 *  B=/tmp/hunt3-C11/_build
 *  g++ -g -fsanitize=address -I/tmp/hunt3-C11/mptcore -I$B/mptcore f2_demo.cpp -o f2_demo \
 *      -L$B/mptcore -lmptcore -L$B/mpt++ -lmpt++ -Wl,-rpath,$B/mptcore -Wl,-rpath,$B/mpt++
 */
#include <stdio.h>
#include "event.h"

using namespace mpt;

struct H { int eol, calls, dead; };

static int h(void *a, event *ev)
{
	H *x = static_cast<H *>(a);
	if (!ev) { x->eol++; return 0; }
	if (x->eol) x->dead++;
	x->calls++;
	return 0;
}

int main()
{
	H h5 = { 0, 0, 0 };
	{
		dispatch d;
		d.set_handler(5, h, &h5);
		{
			command c(*d.handler(5));   /* inspect the registration by value */
			printf("registered id = %lu\n", (unsigned long) c.id);
		}                               /* ~command() calls cmd(arg, 0) */
		printf("handler still registered, h5.eol=%d\n", h5.eol);
		event ev;
		ev.id = 5;
		mpt_dispatch_emit(&d, &ev);
		printf("emit(5): calls=%d, of these after end-of-life: %d\n", h5.calls, h5.dead);
	}
	printf("after ~dispatch: h5.eol=%d\n", h5.eol);
	if (h5.eol != 1 || h5.dead) {
		printf("VIOLATION\n");
		return 1;
	}
	return 0;
}

/*
 * C07 finding 2: file iterator delivers the leading part of a word as its number
 *
 * build:
 *   gcc -I/tmp/hunt3-C07/mptcore -I/tmp/hunt3-C07/mptplot f2_demo.c -o f2_demo \
 *       -L/tmp/hunt3-C07/_build/mptcore -lmptcore -L/tmp/hunt3-C07/_build/mptplot -lmptplot \
 *       -Wl,-rpath,/tmp/hunt3-C07/_build/mptcore -Wl,-rpath,/tmp/hunt3-C07/_build/mptplot
 *
 * exit 0: every word is delivered exactly or refused
 * exit 1: a word was delivered as a number it does not denote
 */
#include <stdio.h>
#include <stdint.h>
#include <stdlib.h>
#include <unistd.h>

#include "types.h"
#include "meta.h"
#include "convert.h"
#include "values.h"

static int bad = 0;

/* first element of file content as type; <0: refused */
static int first(const char *content, int type, void *dest)
{
	char name[] = "/tmp/c07_f2_XXXXXX";
	MPT_INTERFACE(metatype) *mt;
	MPT_INTERFACE(iterator) *it = 0;
	FILE *fd;
	int ret, f;
	
	if ((f = mkstemp(name)) < 0 || !(fd = fdopen(f, "w"))) {
		perror("tmpfile");
		exit(2);
	}
	fputs(content, fd);
	fclose(fd);
	
	if (!(mt = mpt_iterator_filename(name))
	 || MPT_metatype_convert(mt, MPT_ENUM(TypeIteratorPtr), &it) < 0
	 || !it) {
		unlink(name);
		fprintf(stderr, "no file iterator\n");
		exit(2);
	}
	ret = mpt_iterator_consume(it, type, dest);
	mt->_vptr->unref(mt);
	unlink(name);
	return ret;
}

static void check_i32(const char *content)
{
	int32_t v = -12345;
	int ret = first(content, 'i', &v);
	if (ret < 0) {
		printf("int32  from \"%s\": refused (%d)\n", content, ret);
		return;
	}
	printf("int32  from \"%s\": %d   <-- VIOLATION\n", content, (int) v);
	++bad;
}
static void check_u8(const char *content)
{
	uint8_t v = 99;
	int ret = first(content, 'y', &v);
	if (ret < 0) {
		printf("uint8  from \"%s\": refused (%d)\n", content, ret);
		return;
	}
	printf("uint8  from \"%s\": %u   <-- VIOLATION\n", content, (unsigned) v);
	++bad;
}
static void check_dbl(const char *content)
{
	double v = -1;
	int ret = first(content, 'd', &v);
	if (ret < 0) {
		printf("double from \"%s\": refused (%d)\n", content, ret);
		return;
	}
	printf("double from \"%s\": %g   <-- VIOLATION\n", content, v);
	++bad;
}

int main(void)
{
	int32_t v = 0;
	/* sanity */
	if (first("42 7", 'i', &v) < 0 || v != 42) {
		fprintf(stderr, "sanity check failed\n");
		return 2;
	}
	/* none of these first words is a number of the requested type */
	check_i32("1.5 7");    /* current: 1  */
	check_i32("1e3 7");    /* current: 1  (text denotes 1000) */
	check_i32("08 7");     /* current: 0  */
	check_i32("12abc 7");  /* current: 12 */
	check_u8 ("0x10 7");   /* current: 0  (unsigned words are decimal only) */
	check_u8 ("25x 7");    /* current: 25 */
	check_dbl("1.5.7 2");  /* current: 1.5 */
	
	if (bad) {
		printf("%d words delivered as numbers they do not denote\n", bad);
		return 1;
	}
	printf("ok\n");
	return 0;
}

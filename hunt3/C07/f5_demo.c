/*
 * C07 finding 5 (minor): char value without data address - query says "convertible",
 * performing the conversion dereferences NULL
 *
 * build:
 *   gcc -I/tmp/hunt3-C07/mptcore f5_demo.c -o f5_demo \
 *       -L/tmp/hunt3-C07/_build/mptcore -lmptcore -Wl,-rpath,/tmp/hunt3-C07/_build/mptcore
 *
 * exit 0: same verdict for query and conversion;  killed by SIGSEGV on the current tree
 */
#include <stdio.h>
#include <stdint.h>

#include "types.h"
#include "convert.h"

int main(void)
{
	static const char types[] = "bynqiuxtfde";
	MPT_STRUCT(value) val;
	const char *t;
	char c = 'x';
	int q, r;
	
	/* all other scalar types: missing data is the zero value */
	for (t = types; *t; ++t) {
		uint8_t buf[32];
		MPT_value_set(&val, *t, 0);
		q = mpt_value_convert(&val, *t, 0);
		r = mpt_value_convert(&val, *t, buf);
		printf("'%c' without data: query %d, convert %d\n", *t, q, r);
		if ((q < 0) != (r < 0)) {
			return 1;
		}
	}
	MPT_value_set(&val, 'c', 0);
	q = mpt_value_convert(&val, 'c', 0);
	printf("'c' without data: query %d\n", q);
	fflush(stdout);
	r = mpt_value_convert(&val, 'c', &c);   /* memcpy(dest, NULL, 1) */
	printf("'c' without data: convert %d\n", r);
	return ((q < 0) != (r < 0)) ? 1 : 0;
}

/*
 * C07 finding 3: integer -> float/double conversion rounds silently
 *
 * build:
 *   gcc -I/tmp/hunt3-C07/mptcore f3_demo.c -o f3_demo \
 *       -L/tmp/hunt3-C07/_build/mptcore -lmptcore -Wl,-rpath,/tmp/hunt3-C07/_build/mptcore
 *
 * exit 0: every conversion is exact or refused
 * exit 1: a conversion succeeded with a target that denotes a different number
 */
#include <stdio.h>
#include <stdint.h>
#include <inttypes.h>

#include "types.h"
#include "convert.h"

static int bad = 0;

/* long double has a 64 bit mantissa on x86: holds all sources/targets used here exactly */
static void check(const char *name, int stype, const void *src, long double sval, int ttype)
{
	MPT_STRUCT(value) val;
	union { float f; double d; } dst;
	long double dval;
	int q, r;
	
	MPT_value_set(&val, stype, src);
	q = mpt_value_convert(&val, ttype, 0);
	r = mpt_value_convert(&val, ttype, &dst);
	if ((q < 0) != (r < 0)) {
		printf("%s: query %d / perform %d differ\n", name, q, r);
		++bad;
		return;
	}
	if (r < 0) {
		printf("%-28s -> '%c': refused (%d)\n", name, ttype, r);
		return;
	}
	dval = ttype == 'f' ? (long double) dst.f : (long double) dst.d;
	if (dval == sval) {
		printf("%-28s -> '%c': %.0Lf exact\n", name, ttype, dval);
		return;
	}
	printf("%-28s -> '%c': %.0Lf   <-- VIOLATION (source %.0Lf)\n", name, ttype, dval, sval);
	++bad;
}

int main(void)
{
	int32_t  i24  = 16777217;                /* 2^24 + 1 */
	int32_t  imax = INT32_MAX;               /* float result 2^31 is not even an int32 */
	uint32_t umax = UINT32_MAX;              /* float result 2^32 */
	int64_t  x53  = INT64_C(9007199254740993);   /* 2^53 + 1 */
	int64_t  xmax = INT64_MAX;               /* double result 2^63 */
	int64_t  xmin1 = INT64_MIN + 1;
	uint64_t tmax = UINT64_MAX;              /* double result 2^64 */
	uint64_t t24  = 16777217;
	int32_t  ok1  = 16777216;
	int64_t  ok2  = INT64_MIN;               /* -2^63: exact */
	
	check("int32 16777216",            'i', &ok1,  ok1,  'f');
	check("int64 INT64_MIN",           'x', &ok2,  ok2,  'd');
	
	check("int32 16777217",            'i', &i24,  i24,  'f');
	check("int32 INT32_MAX",           'i', &imax, imax, 'f');
	check("uint32 UINT32_MAX",         'u', &umax, umax, 'f');
	check("uint64 16777217",           't', &t24,  t24,  'f');
	check("int64 2^53+1",              'x', &x53,  x53,  'd');
	check("int64 INT64_MAX",           'x', &xmax, xmax, 'd');
	check("int64 INT64_MIN+1",         'x', &xmin1, xmin1, 'd');
	check("uint64 UINT64_MAX",         't', &tmax, tmax, 'd');
	check("uint64 UINT64_MAX",         't', &tmax, tmax, 'f');
	
	if (bad) {
		printf("%d conversions changed the number silently\n", bad);
		return 1;
	}
	printf("ok\n");
	return 0;
}

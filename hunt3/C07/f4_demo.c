/*
 * C07 finding 4: non-zero numbers become zero (underflow) in narrowing float
 * conversion and in float text conversion
 *
 * build:
 *   gcc -I/tmp/hunt3-C07/mptcore f4_demo.c -o f4_demo \
 *       -L/tmp/hunt3-C07/_build/mptcore -lmptcore -Wl,-rpath,/tmp/hunt3-C07/_build/mptcore
 *
 * exit 0: conversions are refused or keep a non-zero value non-zero
 * exit 1: a non-zero source was delivered as 0 with a success return
 */
#include <stdio.h>
#include <float.h>

#include "types.h"
#include "convert.h"

static int bad = 0;

static void bin(const char *name, int stype, const void *src, int ttype)
{
	MPT_STRUCT(value) val;
	union { float f; double d; } dst;
	int r;
	
	dst.d = 1;
	MPT_value_set(&val, stype, src);
	r = mpt_value_convert(&val, ttype, &dst);
	if (r < 0) {
		printf("%-26s -> '%c': refused (%d)\n", name, ttype, r);
		return;
	}
	if ((ttype == 'f' ? dst.f == 0 : dst.d == 0)) {
		printf("%-26s -> '%c': 0   <-- VIOLATION\n", name, ttype);
		++bad;
		return;
	}
	printf("%-26s -> '%c': %g\n", name, ttype, ttype == 'f' ? dst.f : dst.d);
}
static void txt(const char *text, int ttype)
{
	union { float f; double d; long double e; } dst;
	int r;
	
	dst.e = 1;
	r = mpt_convert_string(text, ttype, &dst);
	if (r <= 0) {
		printf("text \"%s\" -> '%c': refused (%d)\n", text, ttype, r);
		return;
	}
	if (ttype == 'f' ? dst.f == 0 : ttype == 'd' ? dst.d == 0 : dst.e == 0) {
		printf("text \"%s\" -> '%c': 0, consumed %d   <-- VIOLATION\n", text, ttype, r);
		++bad;
		return;
	}
	printf("text \"%s\" -> '%c': non-zero, consumed %d\n", text, ttype, r);
}

int main(void)
{
	double d1 = 1e-60, d2 = -DBL_MIN, d3 = 1e-30;
	long double e1 = 1e-400L, e2 = LDBL_MIN;
	
	bin("double 1e-30",  'd', &d3, 'f');  /* fine: representable range */
	
	bin("double 1e-60",  'd', &d1, 'f');
	bin("double -DBL_MIN", 'd', &d2, 'f');
	bin("ldouble 1e-400", 'e', &e1, 'd');
	bin("ldouble 1e-400", 'e', &e1, 'f');
	bin("ldouble LDBL_MIN", 'e', &e2, 'd');
	
	txt("1e-46",   'f');
	txt("1e-400",  'f');
	txt("1e-400",  'd');
	txt("-1e-5000", 'e');
	txt("0x1p-1080", 'd');
	
	if (bad) {
		printf("%d non-zero sources delivered as zero\n", bad);
		return 1;
	}
	printf("ok\n");
	return 0;
}

/*
 * C07 finding 1: numeric elements of the string iterator are silently truncated
 *
 * build:
 *   gcc -I/tmp/hunt3-C07/mptcore f1_demo.c -o f1_demo \
 *       -L/tmp/hunt3-C07/_build/mptcore -lmptcore -Wl,-rpath,/tmp/hunt3-C07/_build/mptcore
 *
 * exit 0: every element is delivered exactly or refused
 * exit 1: an element was delivered with a different number than its text denotes
 */
#include <stdio.h>
#include <stdint.h>
#include <string.h>

#include "types.h"
#include "meta.h"
#include "convert.h"

static int bad = 0;

/* consume up to 4 int32 elements from text, record them */
static int take(const char *txt, int32_t *out, int max)
{
	MPT_INTERFACE(metatype) *mt;
	MPT_INTERFACE(iterator) *it = 0;
	int n = 0;
	
	if (!(mt = mpt_iterator_string(txt, 0))
	 || MPT_metatype_convert(mt, MPT_ENUM(TypeIteratorPtr), &it) < 0
	 || !it) {
		fprintf(stderr, "no iterator for '%s'\n", txt);
		return -100;
	}
	while (n < max) {
		int32_t v = -12345;
		int q;
		/* query-only call must not be needed, just perform */
		if ((q = mpt_iterator_consume(it, 'i', &v)) < 0) {
			break;
		}
		out[n++] = v;
	}
	mt->_vptr->unref(mt);
	return n;
}

static void expect(const char *txt, const int32_t *want, int nwant)
{
	int32_t got[4];
	int i, n = take(txt, got, 4);
	
	printf("\"%s\" as int32:", txt);
	for (i = 0; i < n; i++) printf(" %d", (int) got[i]);
	if (!n) printf(" (refused)");
	
	/* all delivered values must be the numbers of the text elements, in order */
	for (i = 0; i < n; i++) {
		if (i >= nwant || got[i] != want[i]) {
			printf("   <-- VIOLATION: element %d delivered as %d", i, (int) got[i]);
			++bad;
			break;
		}
	}
	printf("\n");
}

int main(void)
{
	static const int32_t ok[] = { 10, 20, 30 };
	int32_t got[4];
	
	/* sanity: separated integers work */
	if (take("10,20;30", got, 4) != 3 || memcmp(got, ok, sizeof(ok))) {
		fprintf(stderr, "sanity check failed\n");
		return 2;
	}
	/* the first element is not an integer: nothing exact can be delivered for it */
	expect("1.5 7",  0, 0);   /* current: 1 5 7  (1.5 truncated, phantom element 5) */
	expect("1e3",    0, 0);   /* current: 1 3    (1000 delivered as 1, then 3) */
	expect("08",     0, 0);   /* current: 0      ('8' disappears) */
	expect("12abc",  0, 0);   /* current: 12 */
	
	if (bad) {
		printf("%d texts delivered numbers they do not denote\n", bad);
		return 1;
	}
	printf("ok\n");
	return 0;
}

/*
 * mpt_notify_clear() destroys an input that is still listed as pending,
 * mpt_notify_next() then hands out the destroyed input.
 * build (ASan makes the use of the released object visible, without it the program exits 1):
 *   gcc -g -fsanitize=address "-DMPT_INCLUDE(x)=#x" -I../mptio -I../mptcore f4_demo.c -o f4_demo \
 *       -L../_build/mptio -L../_build/mptcore -lmptio -lmptcore \
 *       -Wl,-rpath,/tmp/hunt3-C15/_build/mptio:/tmp/hunt3-C15/_build/mptcore
 */
#include <stdio.h>
#include <unistd.h>
#include <poll.h>
#include <sys/socket.h>
#include "meta.h"
#include "types.h"
#include "convert.h"
#include "output.h"
#include "connection.h"
#include "stream.h"
#include "notify.h"

static MPT_INTERFACE(input) *mkinput(int *peer, int *fd)
{
	MPT_STRUCT(socket) sock = MPT_SOCKET_INIT;
	int sv[2];
	if (socketpair(AF_UNIX, SOCK_STREAM, 0, sv) < 0) return 0;
	sock._id = *fd = sv[0];
	*peer = sv[1];
	return mpt_stream_input(&sock, MPT_STREAMFLAG(RdWr) | MPT_STREAMFLAG(Buffer), MPT_ENUM(EncodingCobs), 2);
}
int main()
{
	MPT_STRUCT(notify) no = MPT_NOTIFY_INIT;
	MPT_INTERFACE(input) *a, *b, *first, *second;
	int pa, pb, fa, fb, ret, fd = -1;
	
	if (!(a = mkinput(&pa, &fa)) || !(b = mkinput(&pb, &fb))) return 2;
	/* notifier takes over the only references */
	if (mpt_notify_add(&no, POLLIN, a) < 0 || mpt_notify_add(&no, POLLIN, b) < 0) return 3;
	/* both inputs have pending data */
	if (write(pa, "\x03xy\0", 4) != 4 || write(pb, "\x03xy\0", 4) != 4) return 4;
	ret = mpt_notify_wait(&no, POLLIN, 100);
	printf("wait = %d\n", ret);
	if (ret != 2) return 5;
	if (!(first = mpt_notify_next(&no))) return 6;
	/* the other input is removed from the notifier before its turn */
	second = first == a ? b : a;
	ret = mpt_notify_clear(&no, first == a ? fb : fa);
	printf("clear = %d (last reference of %p dropped, input destroyed)\n", ret, (void *) second);
	/* pending list still hands out the destroyed input */
	first = mpt_notify_next(&no);
	printf("next = %p\n", (void *) first);
	if (first) {
		/* any use of the handle touches released memory */
		first->_vptr->meta.convertable.convert((void *) first, MPT_ENUM(TypeUnixSocket), &fd);
		printf("fd = %d\n", fd);
	}
	mpt_notify_fini(&no);
	return first ? 1 : 0;
}

#include <stdio.h>
#include "meta.h"
#include "types.h"
#include "array.h"
#include "convert.h"
int main()
{
	MPT_STRUCT(array) fmt = MPT_ARRAY_INIT;
	MPT_STRUCT(value) val = MPT_VALUE_INIT(0, 0);
	const char *txt = "f8.3 q";
	MPT_INTERFACE(metatype) *src;
	int ret;
	MPT_value_set(&val, 's', &txt);
	if (!(src = mpt_meta_new(&val))) return 2;
	ret = mpt_valfmt_set(&fmt, (MPT_INTERFACE(convertable) *) src);
	printf("valfmt_set = %d, array buffer %p\n", ret, (void *) fmt._buf);
	src->_vptr->unref(src);
	mpt_array_clone(&fmt, 0);
	return 0;
}

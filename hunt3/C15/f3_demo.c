/*
 * mpt_notify_config() leaks one reference on an input for every call that
 * finds the input already registered (or fails to register it otherwise).
 * build:
 *   gcc -g "-DMPT_INCLUDE(x)=#x" -I../mptio -I../mptcore f3_demo.c -o f3_demo \
 *       -L../_build/mptio -L../_build/mptcore -lmptio -lmptcore \
 *       -Wl,-rpath,/tmp/hunt3-C15/_build/mptio:/tmp/hunt3-C15/_build/mptcore
 * A destroyed stream input closes its descriptor, this is used to observe destruction.
 */
#include <stdio.h>
#include <unistd.h>
#include <fcntl.h>
#include <sys/socket.h>
#include "meta.h"
#include "types.h"
#include "node.h"
#include "config.h"
#include "convert.h"
#include "output.h"
#include "connection.h"
#include "stream.h"
#include "notify.h"

static int run(int twice)
{
	MPT_STRUCT(notify) no = MPT_NOTIFY_INIT;
	MPT_STRUCT(path) p = MPT_PATH_INIT;
	MPT_STRUCT(socket) sock = MPT_SOCKET_INIT;
	MPT_INTERFACE(metatype) *cfg, *mt;
	MPT_INTERFACE(input) *in;
	MPT_STRUCT(node) *n = 0;
	int sv[2], ret, fd;
	
	if (socketpair(AF_UNIX, SOCK_STREAM, 0, sv) < 0) return -1;
	sock._id = fd = sv[0];
	/* handle 1: creator */
	if (!(in = mpt_stream_input(&sock, MPT_STREAMFLAG(RdWr) | MPT_STREAMFLAG(Buffer), MPT_ENUM(EncodingCobs), 2))) return -2;
	mt = (void *) in;
	
	/* handle 2: global config element "mpt.connect" */
	mpt_path_set(&p, "mpt.connect", -1);
	if (!(cfg = mpt_config_global(&p))) return -3;
	if (MPT_metatype_convert(cfg, MPT_ENUM(TypeNodePtr), &n) < 0 || !n) return -4;
	cfg->_vptr->unref(cfg);
	if (!mt->_vptr->addref(mt)) return -5;
	if (n->_meta) n->_meta->_vptr->unref(n->_meta);
	n->_meta = mt;
	
	/* handle 3: notifier slot */
	ret = mpt_notify_config(&no, 0);
	printf("  first config: %d\n", ret);
	if (twice) {
		/* input is already registered: nothing is added */
		ret = mpt_notify_config(&no, 0);
		printf("  second config: %d\n", ret);
	}
	/* drop handle 3 */
	mpt_notify_fini(&no);
	/* drop handle 2 */
	n->_meta = 0;
	mt->_vptr->unref(mt);
	if (fcntl(fd, F_GETFD) < 0) return -6; /* must still be alive here */
	/* drop handle 1 (last) */
	mt->_vptr->unref(mt);
	
	ret = fcntl(fd, F_GETFD) < 0 ? 0 : 1; /* destroyed input has closed its descriptor */
	close(sv[1]);
	return ret;
}
int main()
{
	int a, b;
	a = run(0);
	printf("configured once:  input %s after last unref\n", a == 0 ? "destroyed" : a > 0 ? "STILL ALIVE" : "error");
	b = run(1);
	printf("configured twice: input %s after last unref\n", b == 0 ? "destroyed" : b > 0 ? "STILL ALIVE" : "error");
	return (a || b) ? 1 : 0;
}

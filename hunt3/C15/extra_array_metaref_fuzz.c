#include <stdio.h>
#include <stdlib.h>
#include <string.h>
#include "meta.h"
#include "types.h"
#include "array.h"
#include "convert.h"

struct obj { MPT_INTERFACE(metatype) mt; long cnt; int dead; int maxed; };
static int oconv(MPT_INTERFACE(convertable) *c, MPT_TYPE(type) t, void *p) { (void)c;(void)t;(void)p; return MPT_ERROR(BadType); }
static void ounref(MPT_INTERFACE(metatype) *m) { struct obj *o=(void*)m; if (o->dead) { printf("UNREF DEAD\n"); abort(); } if (--o->cnt == 0) o->dead = 1; }
static uintptr_t oref(MPT_INTERFACE(metatype) *m) { struct obj *o=(void*)m; if (o->dead) { printf("REF DEAD\n"); abort(); } if (o->maxed) return 0; return ++o->cnt; }
static MPT_INTERFACE(metatype) *oclone(const MPT_INTERFACE(metatype) *m) { (void)m; return 0; }
static const MPT_INTERFACE_VPTR(metatype) ovptr = { { oconv }, ounref, oref, oclone };

#define NOBJ 3
#define NARR 3
static struct obj objs[NOBJ];
static long ext[NOBJ];
static MPT_STRUCT(array) arrs[NARR];
static const MPT_STRUCT(type_traits) *tr;

static int check(const char *what, unsigned long step)
{
	long want[NOBJ]; int i, j;
	MPT_STRUCT(buffer) *seen[NARR]; int ns = 0;
	for (i = 0; i < NOBJ; i++) want[i] = ext[i];
	for (i = 0; i < NARR; i++) {
		MPT_STRUCT(buffer) *b = arrs[i]._buf; size_t k, n; void **p;
		if (!b) continue;
		for (j = 0; j < ns; j++) if (seen[j] == b) break;
		if (j < ns) continue;
		seen[ns++] = b;
		if (b->_content_traits != tr) { printf("step %lu %s: traits lost\n", step, what); return 1; }
		n = b->_used / sizeof(void*); p = (void*)(b+1);
		for (k = 0; k < n; k++) { if (!p[k]) continue; for (j = 0; j < NOBJ; j++) if (p[k] == &objs[j]) { want[j]++; break; } if (j == NOBJ) { printf("step %lu %s: wild pointer %p at %zu\n", step, what, p[k], k); return 1; } }
	}
	for (i = 0; i < NOBJ; i++) {
		long have = objs[i].dead ? 0 : objs[i].cnt;
		if (have != want[i]) { printf("step %lu %s: obj %d count %ld expected %ld\n", step, what, i, have, want[i]); return 1; }
	}
	return 0;
}
int main(int argc, char **argv)
{
	unsigned long seed = argc > 1 ? strtoul(argv[1],0,0) : 1, step, steps = argc > 2 ? strtoul(argv[2],0,0) : 20000;
	int i;
	srand(seed);
	tr = mpt_meta_reference_traits();
	for (i = 0; i < NOBJ; i++) { objs[i].mt._vptr = &ovptr; objs[i].cnt = 1; ext[i] = 1; }
	for (step = 0; step < steps; step++) {
		int op = rand() % 12, a = rand() % NARR, b = rand() % NARR, o = rand() % NOBJ;
		MPT_STRUCT(array) *A = &arrs[a];
		size_t used = A->_buf ? A->_buf->_used / sizeof(void*) : 0;
		char what[128];
		if (used > 48) { mpt_array_clone(A, 0); used = 0; }
		void *src[8]; int n = rand() % 5, k;
		for (k = 0; k < 8; k++) { int r = rand() % (NOBJ+1); src[k] = r < NOBJ ? (void*)&objs[r] : 0; }
		objs[o].maxed = (rand() % 16) == 0;
		switch (op) {
		case 0: { long off = (rand()%3) ? (long)(rand() % (used + 3)) : -(long)(rand() % (used + 2));
			snprintf(what, sizeof(what), "array_set a%d n=%d off=%ld", a, n, off);
			mpt_array_set(A, tr, n * sizeof(void*), (rand()%4) ? src : 0, off); break; }
		case 1: snprintf(what, sizeof(what), "array_clone a%d <- a%d", a, b);
			mpt_array_clone(A, (rand()%8) ? &arrs[b] : 0); break;
		case 2: { size_t off = rand() % (used + 3);
			snprintf(what, sizeof(what), "array_slice a%d off=%zu n=%d", a, off, n);
			if (A->_buf) mpt_array_slice(A, off*sizeof(void*), n*sizeof(void*)); break; }
		case 3: { size_t len = rand() % 40;
			snprintf(what, sizeof(what), "array_reserve a%d len=%zu", a, len);
			mpt_array_reserve(A, len*sizeof(void*), tr); break; }
		case 4: { size_t off = rand() % (used + 2), len = rand() % (used + 2);
			snprintf(what, sizeof(what), "buffer_cut a%d off=%zu len=%zu", a, off, len);
			if (A->_buf && !(A->_buf->_vptr->get_flags(A->_buf) & MPT_ENUM(BufferShared))) mpt_buffer_cut(A->_buf, off*sizeof(void*), len*sizeof(void*)); break; }
		case 5: snprintf(what, sizeof(what), "array_reduce a%d", a); mpt_array_reduce(A); break;
		case 6: { size_t pos = rand() % (used + 3); void **p;
			snprintf(what, sizeof(what), "array_insert a%d pos=%zu n=%d", a, pos, n);
			if (A->_buf && n && (p = mpt_array_insert(A, pos*sizeof(void*), n*sizeof(void*)))) { for (k = 0; k < n; k++) tr->init(p+k, 0); } break; }
		case 7: { /* set from own elements */
			size_t from = used ? rand() % used : 0, cnt = used ? rand() % (used - from + 1) : 0; long off = rand() % (used + 2);
			snprintf(what, sizeof(what), "array_set-own a%d from=%zu cnt=%zu off=%ld", a, from, cnt, off);
			if (A->_buf && cnt) mpt_array_set(A, tr, cnt*sizeof(void*), ((void**)(A->_buf+1)) + from, off); break; }
		case 8: { /* set from other array */
			MPT_STRUCT(buffer) *B = arrs[b]._buf; size_t bu = B ? B->_used/sizeof(void*) : 0; long off = rand() % (used + 2);
			snprintf(what, sizeof(what), "array_set a%d from a%d cnt=%zu off=%ld", a, b, bu, off);
			if (B && bu) mpt_array_set(A, tr, bu*sizeof(void*), B+1, off); break; }
		case 9: { /* conversion assignment into element */
			MPT_TYPE(data_converter) conv = mpt_data_converter(MPT_ENUM(TypeMetaRef)); void *from = src[0];
			size_t pos = used ? rand() % used : 0; void **p;
			snprintf(what, sizeof(what), "convert-assign a%d[%zu] <- %p", a, pos, from);
			if (used && (p = mpt_array_slice(A, pos*sizeof(void*), sizeof(void*)))) conv(&from, MPT_ENUM(TypeMetaRef), p); break; }
		case 10: { size_t pos = rand() % (used + 3);
			snprintf(what, sizeof(what), "buffer_set a%d pos=%zu n=%d", a, pos, n);
			if (A->_buf && !(A->_buf->_vptr->get_flags(A->_buf) & MPT_ENUM(BufferShared))) mpt_buffer_set(A->_buf, tr, pos*sizeof(void*), (rand()%3)?src:0, n*sizeof(void*)); break; }
		default: { MPT_INTERFACE(metatype) *m = mpt_meta_buffer(0); (void) m; if (m) m->_vptr->unref(m); snprintf(what, sizeof(what), "noop"); }
		}
		objs[o].maxed = 0;
		if (check(what, step)) { printf("seed %lu\n", seed); return 1; }
	}
	for (i = 0; i < NARR; i++) mpt_array_clone(&arrs[i], 0);
	if (check("final", step)) return 1;
	return 0;
}

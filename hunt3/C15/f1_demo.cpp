/*
 * item_group::clone() followed by clear(ref) on the clone destroys an item
 * the original group still holds.
 * build:
 *   g++ -std=c++11 -g "-DMPT_INCLUDE(x)=#x" -I../mptplot -I../mpt++ -I../mptcore f1_demo.cpp -o f1_demo \
 *       -L../_build/mpt++ -L../_build/mptplot -L../_build/mptio -L../_build/mptcore \
 *       -lmpt++ -lmptplot -lmptio -lmptcore \
 *       -Wl,-rpath,/tmp/hunt3-C15/_build/mpt++:/tmp/hunt3-C15/_build/mptio:/tmp/hunt3-C15/_build/mptplot:/tmp/hunt3-C15/_build/mptcore
 */
#include <cstdio>
#include "layout.h"
using namespace mpt;

static int destroyed = 0;
/* reference counted metatype (count starts at 1) */
class counted : public reference<metatype::value<double> >::type
{
public:
	~counted() { ++destroyed; }
};
int main()
{
	item_group g;
	counted *m = new counted;       /* count 1, this reference is handed to the group */
	if (g.append(0, m) < 0) return 2;
	
	item_group *h = g.clone();      /* second handle on the item list */
	if (!h) return 3;
	
	h->clear(m);                    /* drop the reference of the COPY only */
	
	int early = destroyed;
	const metatype *left = 0;
	for (auto &it : g.items()) left = it.instance();
	printf("after clear(m) on the clone: m destroyed = %d, original group lists %p (m = %p)\n",
	       early, (void *) left, (void *) m);
	h->unref();
	if (early || left != m) {
		printf("VIOLATION: item held by the original group was destroyed through the clone\n");
		return 1;
	}
	return 0;
}

/*
 * reference_array<T>: copy of an array of references, then set()/clear() on the copy.
 * build:
 *   g++ -std=c++11 -g "-DMPT_INCLUDE(x)=#x" -I../mpt++ -I../mptcore f2_demo.cpp -o f2_demo \
 *       -L../_build/mpt++ -L../_build/mptcore -lmpt++ -lmptcore \
 *       -Wl,-rpath,/tmp/hunt3-C15/_build/mpt++:/tmp/hunt3-C15/_build/mptcore
 */
#include <cstdio>
#include "meta.h"
#include "array.h"
using namespace mpt;

class obj
{
public:
	obj() : gone(0) { }
	virtual ~obj() { if (gone) *gone = true; }
	virtual void unref() = 0;
	virtual uintptr_t addref() = 0;
	bool *gone;
};
int main()
{
	bool xgone = false, zgone = false;
	int fail = 0;
	{
		reference_array<obj> a;
		obj *x = new reference<obj>::type;  /* count 1, handed to array a */
		obj *y = new reference<obj>::type;  /* count 1, handed to array b below */
		obj *z = new reference<obj>::type;  /* count 1, handed to array a */
		x->gone = &xgone;
		z->gone = &zgone;
		if (!a.insert(0, x) || !a.insert(1, z)) return 2;
		
		reference_array<obj> b(a);          /* copy of the array of references */
		
		bool r = b.set(0, y);               /* replace the element of the COPY */
		printf("b.set(0, y) = %d: x destroyed = %d, a[0] = %p (x = %p, y = %p)\n",
		       r, xgone, (void *) a.get(0)->instance(), (void *) x, (void *) y);
		if (xgone || a.get(0)->instance() != x) fail |= 1;
		
		long n = b.clear();                 /* drop the references of the COPY */
		printf("b.clear() = %ld: z destroyed = %d, a[1] = %p (z = %p)\n",
		       n, zgone, (void *) a.get(1)->instance(), (void *) z);
		if (zgone || a.get(1)->instance() != z) fail |= 2;
		/* array a is still alive here and never gave up x or z */
	}
	printf("%s\n", fail ? "VIOLATION: objects held by the original array were destroyed through the copy" : "ok");
	return fail;
}

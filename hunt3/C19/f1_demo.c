/*
 * f1: reset of the variadic argument iterator (mpt_process_vararg) does not
 *     replay the argument sequence: the stale last value is delivered first
 *     and the walk has one element too many.
 *
 * build:
 *   gcc -I/tmp/hunt3-C19/mptcore f1_demo.c -o f1_demo \
 *       -L/tmp/hunt3-C19/_build/mptcore -lmptcore -Wl,-rpath,/tmp/hunt3-C19/_build/mptcore
 */
#include <stdio.h>
#include <stdarg.h>
#include <sys/uio.h>

#include "types.h"
#include "convert.h"

#define MAXELEM 16

/* documented loop: read value, advance, stop when advance reports no further element */
static int walk(MPT_INTERFACE(iterator) *it, double *dest)
{
	int n = 0;
	while (n < MAXELEM) {
		const MPT_STRUCT(value) *val;
		int ret;
		if (!(val = it->_vptr->value(it))) {
			break;
		}
		if (mpt_value_convert(val, 'd', dest + n) < 0) {
			return -1;
		}
		++n;
		if ((ret = it->_vptr->advance(it)) < 0) {
			return -1;
		}
		if (!ret) {
			break;
		}
	}
	return n;
}
static int fail = 0;

static int process(void *ctx, MPT_INTERFACE(iterator) *it)
{
	double first[MAXELEM], second[MAXELEM];
	int n1, n2, i;
	(void) ctx;
	
	n1 = walk(it, first);
	printf("first walk : %d elements:", n1);
	for (i = 0; i < n1; i++) printf(" %g", first[i]);
	printf("\n");
	
	i = it->_vptr->reset(it);
	printf("reset() = %d\n", i);
	
	n2 = walk(it, second);
	printf("second walk: %d elements:", n2);
	for (i = 0; i < n2; i++) printf(" %g", second[i]);
	printf("\n");
	
	if (n1 != n2) {
		printf("FAIL: element count differs after reset (%d != %d)\n", n1, n2);
		fail = 1;
	}
	for (i = 0; i < n1 && i < n2; i++) {
		if (first[i] != second[i]) {
			printf("FAIL: element %d differs after reset (%g != %g)\n", i, first[i], second[i]);
			fail = 1;
			break;
		}
	}
	return 0;
}
static int run(const char *fmt, ...)
{
	va_list va;
	int ret;
	va_start(va, fmt);
	ret = mpt_process_vararg(fmt, va, process, 0);
	va_end(va);
	return ret;
}
int main(void)
{
	run("iid", 1, 2, 3.5);
	run("d", 7.0);
	return fail;
}

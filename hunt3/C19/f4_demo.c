/*
 * f4: the argument iterator (mpt_meta_arguments) hands out its command (first segment)
 *     as C string without checking that the segment is terminated.  For a character
 *     array without any NUL byte the string runs past the used data and, when the
 *     data fills the allocation (64 bytes), past the heap block.
 *     The sibling mpt_meta_buffer() checks this (memchr) and refuses with BadType.
 *
 * build:
 *   B=/tmp/hunt3-C19/_build
 *   gcc -g -fsanitize=address -I/tmp/hunt3-C19/mptcore f4_demo.c -o f4_demo \
 *       -L$B/mptcore -lmptcore -Wl,-rpath,$B/mptcore
 *   (also without -fsanitize: exits 1 after the explicit check below)
 */
#include <stdio.h>
#include <string.h>
#include <sys/uio.h>

#include "types.h"
#include "convert.h"
#include "array.h"
#include "meta.h"

int main(void)
{
	const MPT_STRUCT(type_traits) *traits = mpt_type_traits('c');
	MPT_STRUCT(array) a = MPT_ARRAY_INIT;
	MPT_STRUCT(buffer) *buf;
	MPT_INTERFACE(metatype) *args, *plain;
	MPT_INTERFACE(iterator) *it = 0;
	const char *cmd = 0;
	char text[64];
	int ret;
	
	/* 64 characters, no terminator (e.g. command text copied with its strlen()) */
	memset(text, 'x', sizeof(text));
	if (!(buf = mpt_array_reserve(&a, sizeof(text), traits))
	    || mpt_buffer_set(buf, traits, 0, text, sizeof(text)) < 0) {
		return 2;
	}
	printf("array: %zu bytes used of %zu\n", (size_t) a._buf->_used, (size_t) a._buf->_size);
	
	/* reference: the plain buffer metatype refuses the string conversion */
	if (!(plain = mpt_meta_buffer(&a))) {
		return 2;
	}
	ret = MPT_metatype_convert(plain, 's', &cmd);
	printf("mpt_meta_buffer   : convert to 's' = %d\n", ret);
	plain->_vptr->unref(plain);
	
	if (!(args = mpt_meta_arguments(&a))) {
		printf("arguments refused (fine)\n");
		return 0;
	}
	/* walking is fine: the unterminated segment is the command, no argument follows */
	MPT_metatype_convert(args, MPT_ENUM(TypeIteratorPtr), &it);
	printf("mpt_meta_arguments: value() = %p\n", (void *) it->_vptr->value(it));
	
	cmd = 0;
	ret = MPT_metatype_convert(args, 's', &cmd);
	printf("mpt_meta_arguments: convert to 's' = %d, string %p\n", ret, (void *) cmd);
	if (ret < 0 || !cmd) {
		printf("command refused (fine)\n");
		return 0;
	}
	if (!memchr(cmd, 0, a._buf->_used)) {
		printf("FAIL: command \"string\" has no terminator inside the %zu used bytes\n", (size_t) a._buf->_used);
		/* what every consumer does (mpt_client_command: mpt_hash(cmd, strlen(cmd))) */
		printf("strlen() = %zu\n", strlen(cmd));
		return 1;
	}
	return 0;
}

/*
 * f3: the text iterator (mpt_iterator_string) resumes exactly one character behind
 *     the text a conversion terminated, whatever that character is:
 *       a) keys: "a ,b" with separator "," is walked as  "a" "" "b"  (3 elements, the
 *          key converter consumed " ," but advance only skips the blank)
 *       b) numbers: "1.5 2" read as integers is walked as  1 5 2  (the word "1.5" is cut
 *          in two elements, the '.' is swallowed as if it were a separator);
 *          "4.7 0 1" as arguments of _mpt_iterator_linear() builds lin(4: 7 .. 0).
 *
 * build:
 *   B=/tmp/hunt3-C19/_build
 *   gcc -I/tmp/hunt3-C19/mptcore -I/tmp/hunt3-C19/mptplot f3_demo.c -o f3_demo \
 *       -L$B/mptplot -lmptplot -L$B/mptcore -lmptcore -Wl,-rpath,$B/mptplot -Wl,-rpath,$B/mptcore
 */
#include <stdio.h>
#include <string.h>
#include <sys/uio.h>

#include "types.h"
#include "convert.h"
#include "meta.h"
#include "values.h"

static int fail = 0;

/* documented loop with key conversion of each element */
static void keys(const char *text, const char *sep, int expect)
{
	MPT_INTERFACE(metatype) *mt = mpt_iterator_string(text, sep);
	MPT_INTERFACE(iterator) *it = 0;
	int n = 0;
	
	MPT_metatype_convert(mt, MPT_ENUM(TypeIteratorPtr), &it);
	printf("keys of \"%s\" (separator \"%s\"):", text, sep);
	while (n < 16) {
		const MPT_STRUCT(value) *val;
		const char *key = 0;
		int ret;
		if (!(val = it->_vptr->value(it))) {
			break;
		}
		if ((ret = mpt_value_convert(val, 'k', &key)) < 0) {
			printf(" <error %d>", ret);
			break;
		}
		printf(" \"%s\"", key);
		++n;
		if ((ret = it->_vptr->advance(it)) <= 0) {
			break;
		}
	}
	printf("  -> %d elements, expected %d%s\n", n, expect, n == expect ? "" : "  FAIL");
	if (n != expect) fail = 1;
	mt->_vptr->unref(mt);
}
/* consume all elements as 32bit integers */
static void ints(const char *text, int expect)
{
	MPT_INTERFACE(metatype) *mt = mpt_iterator_string(text, 0);
	MPT_INTERFACE(iterator) *it = 0;
	int n = 0;
	
	MPT_metatype_convert(mt, MPT_ENUM(TypeIteratorPtr), &it);
	printf("integers of \"%s\":", text);
	while (n < 16) {
		int32_t v;
		int ret;
		if ((ret = mpt_iterator_consume(it, 'i', &v)) < 0) {
			printf(" <stop %d>", ret);
			break;
		}
		printf(" %d", v);
		++n;
	}
	printf("  -> %d elements, at most %d expected%s\n", n, expect, n <= expect ? "" : "  FAIL");
	if (n > expect) fail = 1;
	mt->_vptr->unref(mt);
}
int main(void)
{
	MPT_INTERFACE(metatype) *args, *lin;
	MPT_INTERFACE(iterator) *it = 0;
	MPT_STRUCT(value) val;
	
	keys("a,b", ",", 2);   /* reference: fine */
	keys("a ,b", ",", 2);  /* blank in front of the separator */
	keys("a , b", ",", 2);
	
	ints("1 2", 2);        /* reference: fine */
	ints("1.5 2", 2);      /* two words: refusal of "1.5" or 1,2 would be fine, 1,5,2 is not */
	
	/* consequence for generators built from text arguments: (count=4.7, min=0, max=1)
	 * is neither refused nor 0..1, it is taken as count=4, min=7, max=0 */
	args = mpt_iterator_string("4.7 0 1", 0);
	MPT_metatype_convert(args, MPT_ENUM(TypeIteratorPtr), &it);
	MPT_value_set(&val, MPT_ENUM(TypeIteratorPtr), &it);
	if ((lin = _mpt_iterator_linear(&val))) {
		const MPT_STRUCT(value) *first;
		double d = 0;
		MPT_metatype_convert(lin, MPT_ENUM(TypeIteratorPtr), &it);
		if ((first = it->_vptr->value(it))) mpt_value_convert(first, 'd', &d);
		printf("linear from arguments \"4.7 0 1\": accepted, first element %g%s\n", d, d == 0 ? "" : "  FAIL");
		if (d != 0) fail = 1;
		lin->_vptr->unref(lin);
	}
	else {
		printf("linear from arguments \"4.7 0 1\": refused (fine)\n");
	}
	args->_vptr->unref(args);
	return fail;
}

/*
 * f2: with libmpt++ linked (it overrides mpt_meta_buffer() by mpt::io::buffer::metatype)
 *     reset() of the buffer argument iterator over a character array
 *     (the kind mpt_array_message()/mpt_meta_new() create) leaves the iterator EMPTY
 *     instead of replaying the arguments.
 *
 * build (C program, the C++ library supplies the iterator):
 *   B=/tmp/hunt3-C19/_build
 *   gcc -I/tmp/hunt3-C19/mptcore f2_demo.c -o f2_demo \
 *       -L$B/mpt++ -lmpt++ -L$B/mptplot -lmptplot -L$B/mptio -lmptio -L$B/mptcore -lmptcore -lstdc++ \
 *       -Wl,-rpath,$B/mpt++ -Wl,-rpath,$B/mptplot -Wl,-rpath,$B/mptio -Wl,-rpath,$B/mptcore
 *
 * (linked against libmptcore only, i.e. with the C implementation, the program exits 0)
 */
#include <stdio.h>
#include <string.h>
#include <sys/uio.h>

#include "types.h"
#include "convert.h"
#include "array.h"
#include "meta.h"

/* documented loop: read value, advance, stop when advance reports no further element */
static int walk(MPT_INTERFACE(iterator) *it)
{
	int n = 0;
	while (n < 16) {
		const MPT_STRUCT(value) *val;
		int ret;
		if (!(val = it->_vptr->value(it))) {
			printf(" <no value>");
			break;
		}
		if (val->_type == 's') {
			printf(" \"%s\"", *((const char * const *) val->_addr));
		}
		else if (val->_type == MPT_type_toVector('c')) {
			const struct iovec *vec = val->_addr;
			printf(" \"%.*s\"", (int) vec->iov_len, (const char *) vec->iov_base);
		}
		++n;
		if ((ret = it->_vptr->advance(it)) < 0) {
			printf(" <advance error %d>", ret);
			break;
		}
		if (!ret) {
			break;
		}
	}
	printf("  (%d elements)\n", n);
	return n;
}

int main(void)
{
	static const char args[] = "alpha\0beta\0gamma"; /* 3 terminated arguments */
	const MPT_STRUCT(type_traits) *traits = mpt_type_traits('c');
	MPT_STRUCT(array) a = MPT_ARRAY_INIT;
	MPT_STRUCT(buffer) *buf;
	MPT_INTERFACE(metatype) *mt;
	MPT_INTERFACE(iterator) *it = 0;
	int n1, n2, ret;
	
	/* character array, same construction as in mpt_meta_new() */
	if (!(buf = mpt_array_reserve(&a, sizeof(args), traits))
	    || mpt_buffer_set(buf, traits, 0, args, sizeof(args)) < 0) {
		return 2;
	}
	if (!(mt = mpt_meta_buffer(&a))
	    || MPT_metatype_convert(mt, MPT_ENUM(TypeIteratorPtr), &it) < 0
	    || !it) {
		return 2;
	}
	printf("first walk :");
	n1 = walk(it);
	
	ret = it->_vptr->reset(it);
	printf("reset() = %d\n", ret);
	
	printf("second walk:");
	n2 = walk(it);
	
	mt->_vptr->unref(mt);
	mpt_array_clone(&a, 0);
	
	if (n1 != 3) {
		printf("unexpected: first walk has %d elements\n", n1);
		return 3;
	}
	if (n2 != n1) {
		printf("FAIL: %d elements before, %d elements after reset()\n", n1, n2);
		return 1;
	}
	return 0;
}

/*
 * f1: mpt_parse_format() reads behind the terminator of a format description
 *     that is shorter than two characters ("" or "{").
 *
 * build:
 *   cc -I/tmp/hunt3-C08/mptcore -I/tmp/hunt3-C08/_build/mptcore f1_demo.c -o f1_demo \
 *      -L/tmp/hunt3-C08/_build/mptcore -lmptcore -Wl,-rpath,/tmp/hunt3-C08/_build/mptcore
 *
 * The format string is placed directly in front of an inaccessible page, so
 * the first byte read behind its terminating NUL faults (no sanitizer needed;
 * with -fsanitize=address and a malloc'ed copy it is a heap-buffer-overflow
 * in parse_format.c:43).
 * exit 0: format accepted/refused without touching foreign memory
 * killed by SIGSEGV (or exit 1 via handler): read behind the string
 */
#include <stdio.h>
#include <stdlib.h>
#include <string.h>
#include <signal.h>
#include <unistd.h>
#include <sys/mman.h>

#include "node.h"
#include "config.h"
#include "parse.h"

struct src { const char *d; size_t len, pos; };
static int src_getc(void *p)
{
	struct src *s = p;
	return (s->pos < s->len) ? (unsigned char) s->d[s->pos++] : -2;
}
static void segv(int sig)
{
	static const char msg[] = "VIOLATION: mpt_parse_format read behind the end of the format string\n";
	(void) sig;
	if (write(2, msg, sizeof(msg) - 1) < 0) { }
	_exit(1);
}
int main(int argc, char **argv)
{
	MPT_STRUCT(parser_context) pc = MPT_PARSER_INIT;
	MPT_STRUCT(node) root = MPT_NODE_INIT;
	struct src s = { "a = 1\n", 6, 0 };
	const char *desc = argc > 1 ? argv[1] : "{";   /* also try "" */
	long ps = sysconf(_SC_PAGESIZE);
	size_t dl = strlen(desc) + 1;
	char *mem, *fmt;
	int ret;
	
	if (dl > 2) {
		fputs("use a description of 0 or 1 characters\n", stderr);
		return 2;
	}
	if ((mem = mmap(0, 2 * ps, PROT_READ | PROT_WRITE, MAP_PRIVATE | MAP_ANONYMOUS, -1, 0)) == MAP_FAILED
	    || mprotect(mem + ps, ps, PROT_NONE) < 0) {
		perror("mmap");
		return 2;
	}
	/* terminated string ends exactly at the page end */
	fmt = mem + ps - dl;
	memcpy(fmt, desc, dl);
	signal(SIGSEGV, segv);
	
	pc.src.getc = src_getc;
	pc.src.arg  = &s;
	ret = mpt_parse_node(&root, &pc, fmt);
	printf("mpt_parse_node(.., \"%s\") = %d\n", desc, ret);
	mpt_node_clear(&root);
	return 0;
}

/*
 * f2: reading a deeply nested configuration text into a node that already
 *     holds the same sections overflows the call stack (mpt_node_move recursion
 *     in the merge step of mpt_parse_node).
 *
 * build:
 *   cc -O1 -I/tmp/hunt3-C08/mptcore -I/tmp/hunt3-C08/_build/mptcore f2_demo.c -o f2_demo \
 *      -L/tmp/hunt3-C08/_build/mptcore -lmptcore -Wl,-rpath,/tmp/hunt3-C08/_build/mptcore
 *
 * usage: f2_demo [depth]     (default 500000: ~1.5 MB of input; about 105000
 *                             levels are enough for the usual 8 MiB stack)
 * exit 0: both reads returned;  killed by SIGSEGV: violation
 */
#include <stdio.h>
#include <stdlib.h>
#include <string.h>

#include "node.h"
#include "config.h"
#include "parse.h"

struct src { const char *d; size_t len, pos; };
static int src_getc(void *p)
{
	struct src *s = p;
	return (s->pos < s->len) ? (unsigned char) s->d[s->pos++] : -2;
}
int main(int argc, char **argv)
{
	MPT_STRUCT(parser_context) pc = MPT_PARSER_INIT;
	MPT_STRUCT(node) root = MPT_NODE_INIT;
	size_t depth = argc > 1 ? strtoul(argv[1], 0, 0) : 500000, i, n = 0;
	char *in;
	struct src s;
	int ret;
	
	if (!(in = malloc(depth * 3 + 8))) {
		return 2;
	}
	/* a{a{a{ ... b=1 ... }}} */
	for (i = 0; i < depth; i++) { in[n++] = 'a'; in[n++] = '{'; }
	memcpy(in + n, "b=1\n", 4); n += 4;
	for (i = 0; i < depth; i++) { in[n++] = '}'; }
	
	s.d = in; s.len = n; s.pos = 0;
	pc.src.getc = src_getc;
	pc.src.arg  = &s;
	
	/* first read: target is empty, no merge */
	ret = mpt_parse_node(&root, &pc, 0);
	printf("first read:  %d\n", ret); fflush(stdout);
	if (ret < 0) return 2;
	
	/* "reload": same text, target holds the sections of the first read */
	s.pos = 0;
	pc.src.line = 0;
	ret = mpt_parse_node(&root, &pc, 0);
	printf("second read: %d\n", ret); fflush(stdout);
	
	mpt_node_clear(&root);
	free(in);
	return 0;
}

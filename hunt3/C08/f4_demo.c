/*
 * f4: mpt_path_add() on a path that does not own its data yet (set by
 *     mpt_path_set(), C++: mpt::path p("abc"); p.add();) moves the path into a
 *     new buffer but does not mark the path as owner: the buffer is never
 *     released, every further add leaks another one.
 *
 * build:
 *   cc -I/tmp/hunt3-C08/mptcore -I/tmp/hunt3-C08/_build/mptcore f4_demo.c -o f4_demo \
 *      -L/tmp/hunt3-C08/_build/mptcore -lmptcore -Wl,-rpath,/tmp/hunt3-C08/_build/mptcore
 *   (with -fsanitize=address LeakSanitizer reports the blocks from _mpt_buffer_alloc)
 *
 * exit 0: memory in use is the same before and after;  exit 1: leak
 */
#include <stdio.h>
#include <string.h>
#include <malloc.h>

#include "config.h"

int main(void)
{
	/* path "abc" followed by three more characters that become the next element */
	static const char text[] = "abc\0def";
	struct mallinfo2 before, after;
	int i, flags = 0, ret = 0;
	
	before = mallinfo2();
	for (i = 0; i < 10000; i++) {
		MPT_STRUCT(path) p = MPT_PATH_INIT;
		mpt_path_set(&p, text, -1);        /* "abc", unowned */
		ret = mpt_path_add(&p, 3);         /* -> "abc.def", in new storage */
		flags = p.flags;
		mpt_path_fini(&p);                 /* releases nothing: HasArray is not set */
	}
	after = mallinfo2();
	printf("mpt_path_add = %d, flags after add = 0x%x (HasArray = 0x%x)\n", ret, flags, MPT_PATHFLAG(HasArray));
	printf("heap in use: before %zu, after %zu bytes\n", (size_t) before.uordblks, (size_t) after.uordblks);
	if (after.uordblks > before.uordblks + 100000) {
		puts("VIOLATION: mpt_path_add leaks the buffer it created");
		return 1;
	}
	return 0;
}

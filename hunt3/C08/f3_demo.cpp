/*
 * f3: mpt::parser::open(0) closes the input but leaves the stdio reader
 *     installed with a NULL FILE; the next read() dereferences it.
 *
 * build:
 *   c++ -I/tmp/hunt3-C08/mptcore -I/tmp/hunt3-C08/_build/mptcore f3_demo.cpp -o f3_demo \
 *      -L/tmp/hunt3-C08/_build/mpt++ -lmpt++ -L/tmp/hunt3-C08/_build/mptcore -lmptcore \
 *      -Wl,-rpath,/tmp/hunt3-C08/_build/mpt++ -Wl,-rpath,/tmp/hunt3-C08/_build/mptcore
 *
 * exit 0: read() without input reports an error;  SIGSEGV: violation
 */
#include <cstdio>
#include <cstdlib>
#include <unistd.h>

#include "node.h"
#include "config.h"
#include "parse.h"

int main()
{
	char fn[] = "/tmp/f3_demo_XXXXXX";
	int fd = mkstemp(fn);
	if (fd < 0 || write(fd, "a = 1\n", 6) != 6) return 2;
	close(fd);
	
	mpt::config_parser p;
	mpt::node to;
	
	/* fresh parser: no input, read() is refused */
	int ret = p.read(to, 0);
	std::printf("read without input: %d\n", ret);
	
	if (!p.open(fn)) { unlink(fn); return 2; }
	ret = p.read(to, 0);
	std::printf("read from file: %d\n", ret);
	unlink(fn);
	
	/* close the input again (documented by the 'fn == 0' handling in open()) */
	if (!p.open(0)) return 2;
	std::fflush(stdout);
	
	/* expected: same refusal as for the fresh parser; actual: fgetc(NULL) */
	ret = p.read(to, 0);
	std::printf("read after close: %d\n", ret);
	return ret < 0 ? 0 : 1;
}

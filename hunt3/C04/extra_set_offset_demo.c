/*
 * extra (minor): mpt_array_set() multiplies the element offset with the
 * element size without overflow check, element offsets far outside the data
 * wrap to a valid byte position and are executed instead of refused.
 *
 * build:
 *   gcc '-DMPT_INCLUDE(x)=#x' -I../mptcore extra_set_offset_demo.c -o extra_demo \
 *       -L../_build/mptcore -lmptcore -Wl,-rpath,$PWD/../_build/mptcore
 */
#include <stdio.h>
#include <string.h>
#include <limits.h>

#include "types.h"
#include "array.h"

int main(void)
{
	MPT_STRUCT(array) a = MPT_ARRAY_INIT;
	const MPT_STRUCT(type_traits) *t = mpt_type_traits('i');
	int32_t v[4] = { 1, 2, 3, 4 }, n = 99, *d;
	int fail = 0;
	void *r;
	
	if (!t || !mpt_array_set(&a, t, sizeof(v), v, 0)) {
		return 100;
	}
	/* element offset 2^62: (2^62 * 4) mod 2^64 == 0 */
	r = mpt_array_set(&a, t, sizeof(n), &n, (long) (1UL << 62));
	d = (void *) (a._buf + 1);
	printf("set(off = 2^62)  -> %s, used = %zu, [0] = %d\n", r ? "accepted" : "refused", a._buf->_used, d[0]);
	if (r || d[0] != 1) {
		printf("FAIL: offset outside the data overwrote element 0\n");
		fail |= 1;
	}
	/* element offset -2^62 relative to the end: wraps to 'end' */
	r = mpt_array_set(&a, t, sizeof(n), &n, -(long) (1UL << 62));
	printf("set(off = -2^62) -> %s, used = %zu\n", r ? "accepted" : "refused", a._buf->_used);
	if (r || a._buf->_used != sizeof(v)) {
		printf("FAIL: offset before the data start changed the length\n");
		fail |= 2;
	}
	mpt_array_clone(&a, 0);
	return fail;
}

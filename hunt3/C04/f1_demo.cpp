/*
 * f1: reference_array<T>::set()/clear()/compact() and item_array<T>::compact()
 *     modify the buffer in place although it is shared with a copy of the array.
 *
 * build:
 *   g++ '-DMPT_INCLUDE(x)=#x' -I../mpt++ -I../mptcore f1_demo.cpp -o f1_demo \
 *       -L../_build/mpt++ -lmpt++ -L../_build/mptcore -lmptcore \
 *       -Wl,-rpath,$PWD/../_build/mpt++:$PWD/../_build/mptcore
 */
#include <cstdio>
#include "array.h"

using namespace mpt;

struct obj
{
	obj() : refs(100) { }
	void unref() { --refs; }
	uintptr_t addref() { return ++refs; }
	int refs;
};

int main()
{
	int fail = 0;
	obj a, b, c;
	
	/* reference_array: set() through the copy */
	{
		reference_array<obj> r1;
		if (!r1.insert(0, &a) || !r1.insert(1, &b)) {
			std::printf("setup failed\n");
			return 100;
		}
		reference_array<obj> r2(r1); /* second handle, same buffer */
		
		bool ok = r2.set(0, &c);
		std::printf("r2.set(0, &c) = %d: r1[0] is %s, r2[0] is %s\n", ok,
		            r1.get(0)->instance() == &a ? "a" : "NOT a",
		            r2.get(0)->instance() == &c ? "c" : "not c");
		if (r1.get(0)->instance() != &a) {
			std::printf("FAIL: set() through r2 changed what r1 reads\n");
			fail |= 1;
		}
		long n = r2.clear(&b);
		std::printf("r2.clear(&b) = %ld: r1[1] is %s\n", n,
		            r1.get(1)->instance() == &b ? "b" : "NOT b");
		if (r1.get(1)->instance() != &b) {
			std::printf("FAIL: clear() through r2 changed what r1 reads\n");
			fail |= 2;
		}
	}
	/* item_array: compact() through the copy */
	{
		item_array<obj> i1;
		if (!i1.append(0, "empty") || !i1.append(&a, "a")) {
			std::printf("setup failed\n");
			return 100;
		}
		item_array<obj> i2(i1); /* second handle, same buffer */
		long before = i1.length();
		bool ok = i2.compact();
		std::printf("i2.compact() = %d: i1.length() %ld -> %ld\n", ok, before, i1.length());
		if (i1.length() != before) {
			std::printf("FAIL: compact() through i2 changed the length of i1\n");
			fail |= 4;
		}
	}
	return fail;
}

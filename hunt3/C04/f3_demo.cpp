/*
 * f3: encode_array::prepare(len) (reserve space behind the stored data)
 *     replaces every stored byte with zero.
 *
 * build:
 *   g++ '-DMPT_INCLUDE(x)=#x' -I../mpt++ -I../mptcore f3_demo.cpp -o f3_demo \
 *       -L../_build/mpt++ -lmpt++ -L../_build/mptcore -lmptcore \
 *       -Wl,-rpath,$PWD/../_build/mpt++:$PWD/../_build/mptcore
 */
#include <cstdio>
#include <cstring>
#include "array.h"

using namespace mpt;

static int check(size_t reserve)
{
	encode_array e;          /* no encoder: plain byte store */
	
	if (e.push(5, "hello") != 5) {
		return 100;
	}
	e.push(0, 0);            /* terminate message: 5 bytes of finished data */
	
	span<const uint8_t> d = e.data();
	if (d.size() != 5 || std::memcmp(d.begin(), "hello", 5)) {
		std::printf("unexpected initial content\n");
		return 100;
	}
	bool ok = e.prepare(reserve);
	d = e.data();
	std::printf("prepare(%zu) = %d, %zu bytes:", reserve, ok, (size_t) d.size());
	for (const uint8_t *c = d.begin(); c != d.end(); ++c) std::printf(" %02x", *c);
	std::printf("\n");
	
	if (d.size() != 5 || std::memcmp(d.begin(), "hello", 5)) {
		std::printf("FAIL: reserving space changed the stored data\n");
		return 1;
	}
	return 0;
}
int main()
{
	int ret = 0;
	ret |= check(8);    /* fits into the existing block */
	ret |= check(1000); /* needs a new block */
	return ret;
}

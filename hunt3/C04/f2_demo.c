/*
 * f2: mpt_array_append(arr, len, src) with src inside the array's own data
 *     reads the source from the released block once the buffer had to grow.
 *
 * build (ASan shows heap-use-after-free for the small case, without ASan the
 * large case is killed by SIGSEGV because glibc unmaps the old block):
 *   gcc -g -fsanitize=address '-DMPT_INCLUDE(x)=#x' -I../mptcore f2_demo.c -o f2_demo \
 *       -L../_build/mptcore -lmptcore -Wl,-rpath,$PWD/../_build/mptcore
 */
#include <stdio.h>
#include <stdlib.h>
#include <string.h>

#include "array.h"

static int duplicate(size_t len)
{
	MPT_STRUCT(array) a = MPT_ARRAY_INIT;
	uint8_t *ref, *dest;
	size_t i;
	
	if (!(ref = malloc(len))) {
		return 100;
	}
	for (i = 0; i < len; i++) {
		ref[i] = (uint8_t) (i * 7 + 1);
	}
	if (!mpt_array_append(&a, len, ref)) {
		return 100;
	}
	/* "v.insert(v.end(), v.begin(), v.end())": append the current content */
	dest = mpt_array_append(&a, len, a._buf + 1);
	
	if (!dest) {
		printf("len %zu: refused (fine)\n", len);
	}
	else if (a._buf->_used != 2 * len
	      || memcmp(a._buf + 1, ref, len)
	      || memcmp(dest, ref, len)) {
		printf("len %zu: FAIL: appended copy differs from the content\n", len);
		return 1;
	}
	else {
		printf("len %zu: content as expected (source was read from freed memory)\n", len);
	}
	mpt_array_clone(&a, 0);
	free(ref);
	return 0;
}

int main(void)
{
	int ret;
	setvbuf(stdout, 0, _IONBF, 0);
	/* 60 of 64 bytes used: appending 60 more needs a new block */
	if ((ret = duplicate(60))) {
		return ret;
	}
	/* block above the mmap threshold: the old block is unmapped by free() */
	if ((ret = duplicate(1024 * 1024))) {
		return ret;
	}
	return 0;
}

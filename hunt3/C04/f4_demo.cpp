/*
 * f4: unique_array<T>::insert(pos) (also typed_array<T>, pointer_array<T>)
 *     returns a new element that is not default filled for element types
 *     without an init function (int, double, pointers, ...): the slot keeps
 *     the bytes that were at this place before.
 *
 * build:
 *   g++ '-DMPT_INCLUDE(x)=#x' -I../mpt++ -I../mptcore f4_demo.cpp -o f4_demo \
 *       -L../_build/mpt++ -lmpt++ -L../_build/mptcore -lmptcore \
 *       -Wl,-rpath,$PWD/../_build/mpt++:$PWD/../_build/mptcore
 */
#include <cstdio>
#include "array.h"

using namespace mpt;

template <typename A>
static int check(const char *name)
{
	int fail = 0;
	A a;
	for (int i = 0; i < 3; i++) {
		int *p = a.unique_array<int>::insert(i);
		if (!p) return 100;
		*p = i + 1;
	}
	/* [1 2 3] -> insert new element at position 1 -> [1 0 2 3] */
	int *p = a.unique_array<int>::insert(1);
	if (!p) return 100;
	std::printf("%s: insert(1) on [1 2 3]:", name);
	for (long i = 0; i < a.length(); i++) std::printf(" %d", *a.get(i));
	std::printf("\n");
	if (*a.get(1) != 0) {
		std::printf("FAIL: inserted element is %d, not int()\n", *a.get(1));
		fail |= 1;
	}
	/* truncate to one element, add a new one at the end -> [1 0] */
	if (!a.resize(1)) return 100;
	if (!(p = a.unique_array<int>::insert(1))) return 100;
	std::printf("%s: resize(1), insert(1):", name);
	for (long i = 0; i < a.length(); i++) std::printf(" %d", *a.get(i));
	std::printf("\n");
	if (*a.get(1) != 0) {
		std::printf("FAIL: appended element is %d (value of the truncated element), not int()\n", *a.get(1));
		fail |= 2;
	}
	/* gap elements before the position ARE zero: [1 x 0 0 new] */
	if (!(p = a.unique_array<int>::insert(4))) return 100;
	if (*a.get(2) || *a.get(3)) {
		std::printf("gap not zero\n");
		fail |= 4;
	}
	return fail;
}
int main()
{
	int ret = 0;
	ret |= check<unique_array<int> >("unique_array<int>");
	ret |= check<typed_array<int> >("typed_array<int>");
	return ret;
}

/* f4: mpt_path_set() with an explicit length reports one element less than the
 * path it just created contains ("\return number of path elements"). */
#include <stdio.h>
#include <string.h>
#include "config.h"

static int walk(const MPT_STRUCT(path) *p)
{
	MPT_STRUCT(path) c = *p;
	int n = 0;
	while (mpt_path_next(&c) >= 0) ++n;
	return n;
}
static int check(const char *txt, int len, int end)
{
	MPT_STRUCT(path) p = MPT_PATH_INIT;
	int ret, n;
	p.assign = end;
	ret = mpt_path_set(&p, txt, len);
	n = walk(&p);
	printf("mpt_path_set(\"%s\", %2d), end '%c': returned %d, walking visits %d element(s)%s\n",
	       txt, len, end ? end : '0', ret, n, ret == n ? "" : "   <-- MISMATCH");
	return ret != n;
}
int main(void)
{
	int bad = 0;
	/* terminated strings: count is right */
	bad += check("abc", -1, 0);
	bad += check("a.b.c", -1, 0);
	bad += check("a.b=x.y", -1, '=');
	/* same paths selected by length (the way mpt_config_args() and
	 * mpt::config::del(path, sep, len) do it) */
	bad += check("abc#junk", 3, 0);
	bad += check("a.b.c#junk", 5, 0);
	bad += check("a.b=x.y", 3, '=');
	bad += check("a.b=x.y", 4, '=');   /* end character inside the length: right again */
	return bad ? 1 : 0;
}

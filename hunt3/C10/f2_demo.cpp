/* f2: mpt_path_add() writes into a path buffer that is shared with a copy of the path.
 * Rebuilding path 'a' element by element yields a wrong second element after a copy
 * of it has added one element of its own. */
#include <cstdio>
#include <cstring>
#include "config.h"

using namespace mpt;

int main()
{
	path a;                         /* separator '.', end character 0 */
	
	/* first element "x" */
	mpt_path_addchar(&a, 'x'); mpt_path_valid(&a);
	if (a.add(1) < 0) return 2;
	/* two pending characters for the second element */
	mpt_path_addchar(&a, 'y'); mpt_path_valid(&a);
	mpt_path_addchar(&a, 'z'); mpt_path_valid(&a);
	
	path b = a;                     /* C++ copy: shares the buffer (refcount 2) */
	if (b.add(1) < 0) return 2;     /* b = "x.y", must not touch 'a' */
	
	if (a.add(2) < 0) return 2;     /* a = "x.yz" expected */
	
	/* walk a */
	span<const char> v = a.value();
	const char *name = v.begin();
	int len = mpt_path_next(&a);
	printf("1st element: '%.*s'\n", len, name);
	if (len != 1 || name[0] != 'x') return 1;
	
	v = a.value();
	name = v.begin();
	len = mpt_path_next(&a);
	printf("2nd element: len %d, bytes 0x%02x 0x%02x (expected 'y' 'z')\n", len, name[0], name[1]);
	if (len != 2 || memcmp(name, "yz", 2)) {
		puts("FAIL: element of 'a' corrupted by add() on its copy");
		return 1;
	}
	return 0;
}

#!/bin/sh
# usage: build.sh fK_demo.c|fK_demo.cpp  [builddir]   (builddir defaults to /tmp/hunt3-C10/_build)
B=${2:-/tmp/hunt3-C10/_build}
S=/tmp/hunt3-C10
L="-L$B/mpt++ -lmpt++ -L$B/mptio -lmptio -L$B/mptplot -lmptplot -L$B/mptcore -lmptcore -Wl,-rpath,$B/mptcore:$B/mpt++:$B/mptio:$B/mptplot"
case "$1" in
*.cpp) g++ -std=c++11 -g -fsanitize=address -I$S/mpt++ -I$S/mptcore "$1" -o "${1%.cpp}" $L ;;
*.c)   gcc -g -fsanitize=address -I$S/mptcore "$1" -o "${1%.c}" -L$B/mptcore -lmptcore -Wl,-rpath,$B/mptcore ;;
esac
# notes: f1, f2, f4 run against the plain build (exit code != 0 shows the defect);
#        f3 must be built WITHOUT sanitizer (g++ -g ... ) - it dies with SIGSEGV (stack overflow);
#        f5 needs an ASan-instrumented library build or valgrind, see f5.txt.

/* f1: a copy of a private C++ configuration (mpt::config::root) is not private:
 * assignments and removals on the copy change what the original returns. */
#include <cstdio>
#include <cstring>
#include "config.h"

using namespace mpt;

static const char *get(const config &c, const char *p)
{
	const char *v = 0;
	return (mpt_config_get(&c, p, 's', &v) < 0 || !v) ? "<absent>" : v;
}
int main()
{
	int bad = 0;
	config::root r1;
	r1.set("a", "one");
	r1.set("a.b", "two");
	
	config::root r2(r1);       /* compiler generated copy */
	r2.set("a", "changed");    /* history on r2 only */
	r2.set("a.c", "new");
	
	printf("r1: a=%s a.b=%s a.c=%s\n", get(r1, "a"), get(r1, "a.b"), get(r1, "a.c"));
	if (strcmp(get(r1, "a"), "one"))        { puts("FAIL: r1 'a' altered by assignment to r2"); bad |= 1; }
	if (strcmp(get(r1, "a.c"), "<absent>")) { puts("FAIL: r1 'a.c' was never assigned"); bad |= 2; }
	
	r2.del("a");
	printf("r1 after r2.del(a): a=%s a.b=%s\n", get(r1, "a"), get(r1, "a.b"));
	if (strcmp(get(r1, "a.b"), "two"))      { puts("FAIL: r1 'a.b' removed by removal on r2"); bad |= 4; }
	
	config::root r3;
	r3 = r1;                   /* copy assignment: same effect */
	r1.set("k", "v1");
	r3.set("k", "v3");
	if (strcmp(get(r1, "k"), "v1") && strcmp(get(r1, "k"), "<absent>")) { puts("FAIL: r1 'k' altered through r3"); bad |= 8; }
	return bad;
}

/* f3: removing (or destroying) a deeply nested path of a private C++ configuration
 * overflows the stack. */
#include <cstdio>
#include <cstdlib>
#include <string>
#include "config.h"

using namespace mpt;

int main(int argc, char **argv)
{
	int depth = argc > 1 ? atoi(argv[1]) : 50000;
	std::string p;
	for (int i = 0; i < depth; ++i) {
		if (i) p += '.';
		p += 'a';
	}
	/* process-wide configuration: same history is fine */
	const char *v = 0;
	int r = mpt_config_set(0, p.c_str(), "v", '.', 0);
	int g = mpt_config_get(0, p.c_str(), 's', &v);
	printf("global : set %d, get %d '%s'\n", r, g, v ? v : "");
	r = mpt_config_set(0, "a", 0, '.', 0);
	printf("global : remove %d\n", r);
	
	/* private configuration */
	config::root cfg;
	bool ok = cfg.set(p.c_str(), "v");
	v = 0;
	g = mpt_config_get(&cfg, p.c_str(), 's', &v);
	printf("private: set %d, get %d '%s'\n", ok, g, v ? v : "");
	fflush(stdout);
	
	cfg.del("a");   /* SIGSEGV: recursive finalizer, one level per path element */
	
	g = mpt_config_get(&cfg, "a", 0, 0);
	printf("private: removed, query for 'a' -> %d\n", g);
	return g < 0 ? 0 : 1;
}

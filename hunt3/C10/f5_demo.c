/* f5 (adjacent to the property, memory safety): use after free at process exit after
 * an ordinary assign history on the process-wide configuration.
 * Build with -fsanitize=address (library may be the plain build). */
#include <stdio.h>
#include <string.h>
#include "types.h"
#include "meta.h"
#include "config.h"

int main(void)
{
	MPT_STRUCT(path) p = MPT_PATH_INIT;
	MPT_INTERFACE(metatype) *mt;
	MPT_INTERFACE(config) *view = 0;
	char big[301];
	const char *val = 0;
	
	/* sub-tree view "a": first use registers atexit(clear_global) */
	mpt_path_set(&p, "a", -1);
	if (!(mt = mpt_config_global(&p))
	 || MPT_metatype_convert(mt, MPT_ENUM(TypeConfigPtr), &view) < 0
	 || !view) {
		return 2;
	}
	if (mpt_config_set(view, "x", "short", '.', 0) < 0) return 2;
	
	/* first text of 250 or more bytes: mpt_meta_new() -> mpt_type_traits('c')
	 * -> _scalar_init() registers atexit(_scalar_fini) AFTER clear_global */
	memset(big, 'v', 300); big[300] = 0;
	if (mpt_config_set(0, "a.y", big, '.', 0) < 0) return 2;
	
	if (mpt_config_get(view, "y", 's', &val) < 0 || !val || strcmp(val, big)) return 2;
	puts("history ok, returning from main");
	
	mt->_vptr->unref(mt);
	return 0;  /* exit handlers: _scalar_fini() frees the traits table, then
	            * clear_global() releases the text buffer and reads its
	            * _content_traits->fini from the freed table */
}

# Build the code under test straight from /repo's working tree (no copy, no cmake)
# into static archives under /verif/build, with AddressSanitizer in recover mode.
#   make -f build.mk -j16 libs          -> build/lib{core,io,plot,cxx}.a
#   make -f build.mk build/bin/C13      -> harness binary
REPO   ?= /repo
B      ?= build
CC      = clang
CXX     = clang++
SAN     = -fsanitize=address -fsanitize-recover=address
GUARD   = -DMPT_BASE_VERIF
# -ftrivial-auto-var-init=pattern: reads of uninitialised locals become deterministic (0xAA..), so a
# schedule that fails in the explorer fails identically on replay; defined behaviour is unchanged
COMMON  = -O1 -g -fno-omit-frame-pointer -DNDEBUG -Wno-error -w $(SAN) $(GUARD) -ftrivial-auto-var-init=pattern -MMD -MP
CFLAGS_CORE = $(COMMON) -I$(REPO)/mptcore
CFLAGS_EXT  = $(COMMON) -I$(REPO)/mptcore -I$(REPO)/mptplot -I$(REPO)/mptio
CXXSTD  = -std=gnu++14

core_src := $(filter-out %/libinfo.c,$(wildcard $(REPO)/mptcore/*/*.c))
io_src   := $(filter-out %/libinfo.c,$(wildcard $(REPO)/mptio/*.c $(REPO)/mptio/*/*.c))
plot_src := $(filter-out %/libinfo.c,$(wildcard $(REPO)/mptplot/*.c $(REPO)/mptplot/*/*.c))
cxx_src  := $(wildcard $(REPO)/mpt++/*.cpp)

core_obj := $(patsubst $(REPO)/%.c,$(B)/obj/%.o,$(core_src))
io_obj   := $(patsubst $(REPO)/%.c,$(B)/obj/%.o,$(io_src))
plot_obj := $(patsubst $(REPO)/%.c,$(B)/obj/%.o,$(plot_src))
cxx_obj  := $(patsubst $(REPO)/%.cpp,$(B)/obj/%.o,$(cxx_src))

LIBS = $(B)/libcxx.a $(B)/libplot.a $(B)/libio.a $(B)/libcore.a

.PHONY: libs clean
libs: $(LIBS)

$(B)/obj/mptcore/%.o: $(REPO)/mptcore/%.c build.mk
	@mkdir -p $(dir $@)
	@$(CC) $(CFLAGS_CORE) -c $< -o $@
$(B)/obj/mptio/%.o: $(REPO)/mptio/%.c build.mk
	@mkdir -p $(dir $@)
	@$(CC) $(CFLAGS_EXT) -I$(REPO)/mptio -c $< -o $@
$(B)/obj/mptplot/%.o: $(REPO)/mptplot/%.c build.mk
	@mkdir -p $(dir $@)
	@$(CC) $(CFLAGS_EXT) -I$(REPO)/mptplot -c $< -o $@
$(B)/obj/mpt++/%.o: $(REPO)/mpt++/%.cpp build.mk
	@mkdir -p $(dir $@)
	@$(CXX) $(CXXSTD) $(CFLAGS_EXT) -c $< -o $@

# archives are rebuilt from scratch so that removed sources vanish
$(B)/libcore.a: $(core_obj)
	@rm -f $@; ar rcs $@ $^
$(B)/libio.a: $(io_obj)
	@rm -f $@; ar rcs $@ $^
$(B)/libplot.a: $(plot_obj)
	@rm -f $@; ar rcs $@ $^
$(B)/libcxx.a: $(cxx_obj)
	@rm -f $@; ar rcs $@ $^

# harnesses: harness/Cnn*.cpp -> build/bin/Cnn
HFLAGS = $(CXXSTD) -O1 -g -fno-omit-frame-pointer -w $(SAN) $(GUARD) -ftrivial-auto-var-init=pattern -fno-access-control \
         -I$(REPO)/mptcore -I$(REPO)/mptplot -I$(REPO)/mptio -I$(REPO)/mpt++ -Imc -MMD -MP
$(B)/obj/mc/engine.o: mc/engine.cpp mc/mc.hpp build.mk
	@mkdir -p $(dir $@)
	@$(CXX) $(CXXSTD) -O2 -g -w -Imc -c $< -o $@
$(B)/bin/%: harness/%.cpp $(B)/obj/mc/engine.o $(LIBS) mc/mc.hpp build.mk
	@mkdir -p $(dir $@) $(B)/obj/harness
	@$(CXX) $(HFLAGS) -c $< -o $(B)/obj/harness/$*.o
	@$(CXX) $(SAN) -o $@ $(B)/obj/harness/$*.o $(B)/obj/mc/engine.o $(LIBS) -lm -ldl -lpthread

clean:
	rm -rf $(B)

-include $(core_obj:.o=.d) $(io_obj:.o=.d) $(plot_obj:.o=.d) $(cxx_obj:.o=.d)
-include $(wildcard $(B)/obj/harness/*.d)

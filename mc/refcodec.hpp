// refcodec.hpp — independent reference for the five framings of mpt-base
// (COBS, COBS/R, COBS/ZPE, COBS/ZPE+R, zero-terminated command text), written from the
// format rules, not from the library code:
//   COBS      code c in 1..255: c-1 data bytes; an implicit zero follows iff c < 255 and the next
//             byte is not the frame delimiter
//   /R        the last block may be cut short by the delimiter: the code value itself is then the
//             final message byte (tail inline)
//   /ZPE      codes 1..0xDE as COBS with block limit 0xDF (0xDF = 222 data bytes, no zero);
//             codes 0xE0..0xFF: (c-0xE0) data bytes followed by TWO zeros
// A frame is the bytes up to and including the first 00.
#pragma once
#include <cstdint>
#include <vector>
#include <string>

namespace ref {
typedef std::vector<uint8_t> Bytes;
enum Framing { COBS = 0, COBS_R = 1, ZPE = 2, ZPE_R = 3, COMMAND = 4 };
static const char *const framing_name[] = { "cobs", "cobs/r", "cobs/zpe", "cobs/zpe+r", "command" };
enum Verdict { Ok, Malformed, Unspecified, Incomplete };

// decode one frame starting at in[pos]; on Ok/Malformed `next` is the index behind the delimiter
inline Verdict decode(Framing f, const Bytes &in, size_t pos, Bytes &out, size_t &next)
{
	out.clear();
	size_t i = pos, n = in.size();
	if (f == COMMAND) {
		for (; i < n; ++i) { if (!in[i]) { next = i + 1; return Ok; } out.push_back(in[i]); }
		return Incomplete;
	}
	bool zpe = f == ZPE || f == ZPE_R, inl = f == COBS_R || f == ZPE_R;
	unsigned maxc = zpe ? 0xDF : 0xFF;
	if (i >= n) return Incomplete;
	if (!in[i]) { next = i + 1; return Malformed; }    // leading / double delimiter
	for (;;) {
		unsigned c = in[i++];
		unsigned nd = (zpe && c >= 0xE0) ? c - 0xE0 : c - 1;
		for (unsigned k = 0; k < nd; ++k) {
			if (i >= n) return Incomplete;
			if (!in[i]) {                               // delimiter inside a block
				next = i + 1;
				if (!inl) return Malformed;
				if (zpe && c > 0xDF) return Unspecified; // no encoder produces this
				out.push_back((uint8_t) c);
				return Ok;
			}
			out.push_back(in[i++]);
		}
		if (i >= n) return Incomplete;
		unsigned nx = in[i];
		unsigned nz = (zpe && c >= 0xE0) ? 2 : ((c < maxc && nx) ? 1 : 0);
		for (unsigned k = 0; k < nz; ++k) out.push_back(0);
		if (!nx) { next = i + 1; return Ok; }
	}
}

// reference encoder (plain block structure, used to build well-formed frames for the decoders)
inline Bytes encode(Framing f, const Bytes &msg)
{
	Bytes o;
	if (f == COMMAND) { o = msg; o.push_back(0); return o; }
	bool zpe = f == ZPE || f == ZPE_R, inl = f == COBS_R || f == ZPE_R;
	unsigned maxc = zpe ? 0xDF : 0xFF;
	size_t cp = 0; o.push_back(1); unsigned code = 1;
	size_t i = 0, n = msg.size();
	bool open = true;   // a code byte placeholder is open at cp
	while (i < n) {
		uint8_t b = msg[i];
		if (b) {
			o.push_back(b); ++i;
			if (++code == maxc) { o[cp] = code; cp = o.size(); o.push_back(1); code = 1; }
		} else {
			if (zpe && code > 1 && code < 32 && i + 1 < n && !msg[i + 1]) { o[cp] = code + 0xDF; i += 2; }
			else { o[cp] = code; ++i; }
			cp = o.size(); o.push_back(1); code = 1;
		}
	}
	o[cp] = code;
	if (inl && code > 1) {
		uint8_t last = o.back();
		if (last > code && (!zpe || last <= 0xDF)) { o[cp] = last; o.pop_back(); }
	}
	(void) open;
	o.push_back(0);
	return o;
}
inline std::string hexs(const Bytes &b, size_t max = 48)
{
	static const char d[] = "0123456789abcdef"; std::string s;
	// run-length compressed hex so that long messages stay readable
	for (size_t i = 0; i < b.size();) {
		size_t j = i; while (j < b.size() && b[j] == b[i]) ++j;
		s += d[b[i] >> 4]; s += d[b[i] & 15];
		if (j - i > 3) { s += "*" + std::to_string(j - i); i = j; } else ++i;
		if (s.size() > max * 3) { s += "..(" + std::to_string(b.size()) + "B)"; break; }
		s += ' ';
	}
	return s;
}
} // namespace ref

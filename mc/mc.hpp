// mc.hpp — bounded exhaustive explorer used by every harness in /verif/harness.
//
// A harness defines
//     const char *mc_id;                                   property id
//     void mc_jobs(mc::Tier, std::vector<std::string>&);   independent exploration jobs
//     void mc_explore(mc::Run&, const std::string &job);   enumerate ALL cases of the job
//     void mc_replay(mc::Run&, const std::string &job, const mc::Vec&);  re-run one case
// and reports through mc::Run.  A "case" is identified by (job, Vec): the
// choice vector of a stateless DFS execution, or (initial state, op, op, ...)
// of a history / snapshot BFS.  The engine (engine.cpp) runs jobs in forked
// workers, contains faults, and writes line-based result files that ./check
// merges, replays and turns into verdict + evidence.
#pragma once
#include <cstdint>
#include <cstdio>
#include <cstdarg>
#include <cstring>
#include <string>
#include <vector>
#include <map>
#include <set>
#include <deque>
#include <unordered_set>
#include <functional>
#include <setjmp.h>

namespace mc {

typedef std::vector<uint64_t> Vec;
enum Tier { Quick = 0, Thorough = 1 };

std::string vec_str(const Vec &v);
std::string hex(const void *p, size_t n);
std::string fmt(const char *f, ...) __attribute__((format(printf, 1, 2)));
uint64_t fnv(const void *p, size_t n, uint64_t h = 1469598103934665603ULL);

// ---- allocation ledger (ASan malloc/free hooks; only allocations made while
// inside a Lib scope are tracked, frees are always honoured) ----------------
void ledger_reset();            // forget everything tracked so far
size_t ledger_live();           // tracked blocks still allocated
size_t ledger_live_bytes();
bool ledger_is_live(const void *p);
extern int lib_depth;
struct Lib { Lib() { ++lib_depth; } ~Lib() { --lib_depth; } };
#define LIB(expr) ([&]() -> decltype(auto) { mc::Lib _mc_l; return (expr); }())

// set by __asan_on_error; read-and-clear
bool asan_error();
// last ASan error did hit? (peek)
bool asan_peek();

struct Run {
	Tier tier;
	bool replaying;
	bool additive;          // partial results of this job may be kept after a fault (DFS)
	uint64_t states, transitions, executions;
	std::map<std::string, uint64_t> counters;
	std::set<std::string> required;
	std::vector<std::string> samples;
	struct Viol { uint64_t count; Vec vec; std::string detail; };
	std::map<std::string, Viol> viols;
	uint64_t nviol;
	bool exhaustive;
	std::set<Vec> skip;     // cases that killed an earlier worker (already reported)
	Vec resume;             // DFS: continue at this prefix
	bool has_resume;
	Vec cur;                // current case
	std::string curhint;

	Run();
	// publish the case about to be executed (fault attribution + heartbeat).
	// returns false if the case is on the skip list: do not execute it.
	bool enter(const Vec &v, const char *sighint = "");
	void beat();
	void hint(const char *sighint);   // signature prefix used if the running case faults
	void violation(const std::string &sig, const std::string &detail);
	void violation_at(const std::string &sig, const Vec &v, const std::string &detail);
	void count(const std::string &key, uint64_t n = 1) { counters[key] += n; }
	void require(const std::string &key) { required.insert(key); counters[key] += 0; }
	void sample(const std::string &s) { if (samples.size() < 6) samples.push_back(s); }
	bool expired();         // deadline or violation cap reached (sets exhaustive=false)
	void incomplete(const std::string &why);
	void note(const char *f, ...) __attribute__((format(printf, 2, 3))); // trace, printed when replaying
};

// ---- stateless choice-tree DFS -------------------------------------------
struct Ctx {
	Run &r;
	const Vec &prefix;
	Vec taken, arity;
	Ctx(Run &run, const Vec &p) : r(run), prefix(p) {}
	uint64_t choose(uint64_t n);
};
// compute successor of (taken,arity) in odometer order, at most maxdev non-zero
// choices (maxdev<0: unbounded); false when the tree is exhausted
bool dfs_next(const Vec &taken, const Vec &arity, int maxdev, Vec &next);
void dfs_begin_exec(int maxdev, size_t fixed);   // tells the fault handler how to resume
void dfs_end();

template <class Body>
void dfs(Run &r, Body body, int maxdev = -1, const Vec &root = Vec())
{
	r.additive = true;
	Vec prefix = r.has_resume ? r.resume : root;
	size_t fixed = root.size();
	for (;;) {
		if (r.expired()) { dfs_end(); return; }
		Vec taken, arity;
		dfs_begin_exec(maxdev, fixed);
		if (r.enter(prefix, "")) {
			Ctx c(r, prefix);
			body(c);
			++r.executions;
			taken = c.taken; arity = c.arity;
		} else { taken = prefix; arity.assign(prefix.size(), 0); for (size_t i = 0; i < prefix.size(); ++i) arity[i] = prefix[i] + 1; }
		Vec next;
		// never backtrack into the fixed root part
		Vec t2(taken.begin() + fixed, taken.end()), a2(arity.begin() + fixed, arity.end());
		if (!dfs_next(t2, a2, maxdev, next)) { dfs_end(); return; }
		prefix.assign(taken.begin(), taken.begin() + fixed);
		prefix.insert(prefix.end(), next.begin(), next.end());
	}
}
template <class Body>
void dfs_replay(Run &r, Body body, const Vec &v)
{
	r.enter(v, "");
	Ctx c(r, v);
	body(c);
	++r.executions;
}

// ---- BFS over operation histories on the real code ------------------------
// Sys: Sys(Run&, uint64_t init) builds a fresh system in initial state `init`;
//      int nops();  number of letters of the alphabet
//      bool apply(int op);  run the op on implementation + model and the oracle;
//                  return false when a violation was reported (state is not expanded)
//                  or when the op is not enabled (use r.violation only for violations)
//      std::string canon();  canonical string of impl-observable state + model + steering fields
//      std::string opname(int op);
// Case vector: [init, op1, op2, ...]
struct Hash128 { uint64_t a, b; bool operator==(const Hash128 &o) const { return a == o.a && b == o.b; } };
struct Hash128H { size_t operator()(const Hash128 &h) const { return (size_t) h.a; } };
Hash128 hash128(const std::string &s);

template <class Sys>
void bfs_histories(Run &r, const std::vector<uint64_t> &inits, int depth)
{
	r.additive = false;
	struct Node { Vec hist; Hash128 h; };
	std::unordered_set<Hash128, Hash128H> seen;
	std::deque<Node> frontier;
	for (uint64_t init : inits) {
		Vec v(1, init);
		if (!r.enter(v, "init")) continue;
		Sys s(r, init);
		Hash128 h = hash128(s.canon());
		if (seen.insert(h).second) { frontier.push_back(Node{v, h}); ++r.states; }
	}
	while (!frontier.empty()) {
		Node n = frontier.front(); frontier.pop_front();
		if ((int) n.hist.size() - 1 >= depth) continue;
		if (r.expired()) return;
		int nops;
		{ Sys probe(r, n.hist[0]); nops = probe.nops(); }
		for (int op = 0; op < nops; ++op) {
			Vec v = n.hist; v.push_back(op);
			if (!r.enter(v, "")) continue;
			Sys s(r, n.hist[0]);
			bool ok = true;
			for (size_t i = 1; i < n.hist.size() && ok; ++i) ok = s.apply((int) n.hist[i]);
			if (!ok || !(hash128(s.canon()) == n.h)) {
				r.violation("ENGINE|nondeterministic-replay", "history prefix did not reproduce its canonical state");
				r.incomplete("nondeterministic replay");
				return;
			}
			++r.transitions;
			if (!s.apply(op)) continue;
			Hash128 h = hash128(s.canon());
			if (seen.insert(h).second) { frontier.push_back(Node{v, h}); ++r.states; if (r.samples.size() < 3 && v.size() >= 3) { std::string t; for (size_t i = 1; i < v.size(); ++i) t += (i > 1 ? " ; " : "") + s.opname((int) v[i]); r.sample(t); } }
		}
	}
}
template <class Sys>
void bfs_replay(Run &r, const Vec &v)
{
	r.enter(v, "");
	Sys s(r, v[0]);
	r.note("init %llu: %s", (unsigned long long) v[0], s.canon().c_str());
	for (size_t i = 1; i < v.size(); ++i) {
		r.note("op %s", s.opname((int) v[i]).c_str());
		bool ok = s.apply((int) v[i]);
		r.note("  -> %s %s", ok ? "ok" : "STOP", s.canon().c_str());
		if (!ok) break;
	}
}

// run fn in a forked child; returns what the child wrote to the pipe, or
// "\x01SIG<n>" / "\x01EXIT<n>" / "\x01HANG" on abnormal end
std::string in_child(const std::function<std::string()> &fn, int timeout_s = 20);

} // namespace mc

extern const char *mc_id;
extern const char *mc_rule;   // how cases are enumerated and what counts as "nontrivial"
void mc_jobs(mc::Tier, std::vector<std::string> &);
void mc_explore(mc::Run &, const std::string &job);
void mc_replay(mc::Run &, const std::string &job, const mc::Vec &);

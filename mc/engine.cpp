// engine.cpp — worker pool, fault containment, result files, ledger, replay.
#include "mc.hpp"
#include <atomic>
#include <algorithm>
#include <cerrno>
#include <csignal>
#include <cstdlib>
#include <ctime>
#include <fcntl.h>
#include <sys/mman.h>
#include <sys/time.h>
#include <sys/wait.h>
#include <unistd.h>

extern "C" {
int __sanitizer_install_malloc_and_free_hooks(void (*)(const volatile void *, size_t), void (*)(const volatile void *));
const char *__asan_default_options()
{
	return "halt_on_error=0:detect_leaks=0:handle_segv=0:handle_sigbus=0:handle_abort=0:handle_sigfpe=0:handle_sigill=0:"
	       "allocator_may_return_null=1:suppress_equal_pcs=0:symbolize=0:print_summary=0:detect_stack_use_after_return=0:"
	       "max_malloc_fill_size=4096:malloc_fill_byte=190:detect_odr_violation=0:print_legend=0:exitcode=99";
}
static volatile int asan_flag = 0;
void __asan_on_error() { asan_flag = 1; }
}

namespace mc {

// ---------------------------------------------------------------- utilities
std::string vec_str(const Vec &v)
{
	std::string s;
	for (size_t i = 0; i < v.size(); ++i) { if (i) s += ','; s += std::to_string(v[i]); }
	return s;
}
static Vec str_vec(const std::string &s)
{
	Vec v; size_t p = 0;
	while (p < s.size()) { size_t e = s.find(',', p); if (e == std::string::npos) e = s.size(); if (e > p) v.push_back(strtoull(s.substr(p, e - p).c_str(), 0, 10)); p = e + 1; }
	return v;
}
std::string hex(const void *p, size_t n)
{
	static const char d[] = "0123456789abcdef";
	const unsigned char *b = (const unsigned char *) p; std::string s;
	for (size_t i = 0; i < n; ++i) { s += d[b[i] >> 4]; s += d[b[i] & 15]; }
	return s;
}
std::string fmt(const char *f, ...)
{
	char buf[2048]; va_list ap; va_start(ap, f); int n = vsnprintf(buf, sizeof buf, f, ap); va_end(ap);
	if (n < 0) return "";
	if ((size_t) n < sizeof buf) return std::string(buf, n);
	std::string s(n + 1, 0); va_start(ap, f); vsnprintf(&s[0], n + 1, f, ap); va_end(ap); s.resize(n); return s;
}
uint64_t fnv(const void *p, size_t n, uint64_t h)
{
	const unsigned char *b = (const unsigned char *) p;
	for (size_t i = 0; i < n; ++i) { h ^= b[i]; h *= 1099511628211ULL; }
	return h;
}
Hash128 hash128(const std::string &s)
{
	Hash128 h;
	h.a = fnv(s.data(), s.size());
	h.b = fnv(s.data(), s.size(), 0x9e3779b97f4a7c15ULL ^ s.size());
	return h;
}
static std::string esc(const std::string &s)
{
	std::string o;
	for (char c : s) { if (c == '\\') o += "\\\\"; else if (c == '\n') o += "\\n"; else if (c == '\t') o += "\\t"; else if (c == '\r') o += "\\r"; else o += c; }
	return o;
}

// ---------------------------------------------------------------- ledger
int lib_depth = 0;
static const size_t LT = 1u << 18;
static struct { const void *p; size_t n; } ltab[LT];
static size_t llive = 0, lbytes = 0, ltomb = 0;
static const void *const TOMB = (const void *) 1;
static inline size_t lhash(const void *p) { return ((uintptr_t) p >> 4) * 0x9e3779b97f4a7c15ULL >> 46; }
static void hook_malloc(const volatile void *p, size_t n)
{
	if (lib_depth <= 0 || !p) return;
	size_t i = lhash((const void *) p) & (LT - 1);
	for (size_t k = 0; k < LT; ++k, i = (i + 1) & (LT - 1)) {
		if (ltab[i].p == 0 || ltab[i].p == TOMB) { if (ltab[i].p == TOMB) --ltomb; ltab[i].p = (const void *) p; ltab[i].n = n; ++llive; lbytes += n; return; }
	}
}
static void hook_free(const volatile void *p)
{
	if (!p || !llive) return;
	size_t i = lhash((const void *) p) & (LT - 1);
	for (size_t k = 0; k < LT; ++k, i = (i + 1) & (LT - 1)) {
		if (ltab[i].p == 0) return;
		if (ltab[i].p == (const void *) p) {
			ltab[i].p = TOMB; --llive; lbytes -= ltab[i].n; ++ltomb;
			// tombstones lengthen every probe sequence: reclaim them whenever nothing is tracked any more
			if (!llive && ltomb > 2048) { memset(ltab, 0, sizeof ltab); ltomb = 0; }
			else if (ltomb > LT / 2) {      // still tracking something: rebuild in place
				static struct { const void *p; size_t n; } keep[4096]; size_t nk = 0;
				for (size_t j = 0; j < LT && nk < 4096; ++j) if (ltab[j].p && ltab[j].p != TOMB) { keep[nk].p = ltab[j].p; keep[nk].n = ltab[j].n; ++nk; }
				if (nk == llive) {
					memset(ltab, 0, sizeof ltab); ltomb = 0;
					for (size_t j = 0; j < nk; ++j) { size_t h = lhash(keep[j].p) & (LT - 1); while (ltab[h].p) h = (h + 1) & (LT - 1); ltab[h].p = keep[j].p; ltab[h].n = keep[j].n; }
				}
			}
			return;
		}
	}
}
void ledger_reset() { memset(ltab, 0, sizeof ltab); llive = 0; lbytes = 0; ltomb = 0; }
size_t ledger_live() { return llive; }
size_t ledger_live_bytes() { return lbytes; }
bool ledger_is_live(const void *p)
{
	size_t i = lhash(p) & (LT - 1);
	for (size_t k = 0; k < LT; ++k, i = (i + 1) & (LT - 1)) { if (ltab[i].p == 0) return false; if (ltab[i].p == p) return true; }
	return false;
}
bool asan_error() { int f = asan_flag; asan_flag = 0; return f != 0; }
bool asan_peek() { return asan_flag != 0; }

// ---------------------------------------------------------------- shared state
static const int MAXW = 64, MAXV = 1024;
struct Slot {
	volatile int pid, job;
	volatile uint64_t beat;
	uint32_t veclen; uint64_t vec[MAXV]; char hint[256];
	volatile int fault;        // worker reported a fault itself
	int has_resume, has_skip;
	uint32_t reslen; uint64_t res[MAXV];
	// path of the running DFS execution (lets the parent resume behind an unreported death)
	volatile int dfs_active; int dfs_maxdev; uint32_t dfs_fixed; volatile uint32_t ntaken; uint64_t taken[MAXV], arity[MAXV];
};
struct Shared {
	std::atomic<int> next_job;
	std::atomic<uint64_t> total_viol;
	double deadline;
	Slot slot[MAXW];
};
static Shared *sh = 0;
static Slot *me = 0;
static Slot dummy;
static bool g_replay = false;
static FILE *resf = 0;
static int cur_job = -1;
static sigjmp_buf fault_jmp;
static volatile int in_job = 0;
static int hang_s = 15;
static uint64_t viol_cap = 20000;

static double now() { struct timespec ts; clock_gettime(CLOCK_MONOTONIC, &ts); return ts.tv_sec + ts.tv_nsec * 1e-9; }

// ---------------------------------------------------------------- Run
Run::Run() : tier(Quick), replaying(false), additive(false), states(0), transitions(0), executions(0), nviol(0), exhaustive(true), has_resume(false) {}

bool Run::enter(const Vec &v, const char *hint)
{
	cur = v; curhint = hint ? hint : "";
	Slot *s = me ? me : &dummy;
	uint32_t n = v.size() > (size_t) MAXV ? MAXV : (uint32_t) v.size();
	s->veclen = n;
	if (n) memcpy(s->vec, v.data(), n * sizeof(uint64_t));
	strncpy(s->hint, curhint.c_str(), sizeof s->hint - 1); s->hint[sizeof s->hint - 1] = 0;
	++s->beat;
	if (!skip.empty() && skip.count(v)) return false;
	return true;
}
void Run::beat() { Slot *s = me ? me : &dummy; ++s->beat; }
void Run::hint(const char *h) { Slot *s = me ? me : &dummy; curhint = h ? h : ""; if (replaying) { printf("HINT %s\n", curhint.c_str()); fflush(stdout); } strncpy(s->hint, curhint.c_str(), sizeof s->hint - 1); s->hint[sizeof s->hint - 1] = 0; }
void Run::violation_at(const std::string &sig, const Vec &v, const std::string &detail)
{
	++nviol;
	if (sh) sh->total_viol++;
	auto it = viols.find(sig);
	if (it == viols.end()) viols[sig] = Viol{1, v, detail};
	else { ++it->second.count; if (v.size() < it->second.vec.size()) { it->second.vec = v; it->second.detail = detail; } }
	if (replaying) { printf("OBS %s\n", sig.c_str()); printf("DETAIL %s\n", esc(detail).c_str()); fflush(stdout); }
}
void Run::violation(const std::string &sig, const std::string &detail) { violation_at(sig, cur, detail); }
void Run::incomplete(const std::string &why) { exhaustive = false; counters["incomplete:" + why] += 1; }
bool Run::expired()
{
	static unsigned tick = 0;
	if (nviol > viol_cap) { incomplete("violation cap"); return true; }
	if ((++tick & 255) == 0 && sh && sh->deadline > 0 && now() > sh->deadline) { incomplete("deadline"); return true; }
	return false;
}
void Run::note(const char *f, ...)
{
	if (!replaying) return;
	char buf[4096]; va_list ap; va_start(ap, f); vsnprintf(buf, sizeof buf, f, ap); va_end(ap);
	printf("TRACE %s\n", esc(buf).c_str()); fflush(stdout);
}

// ---------------------------------------------------------------- DFS
static Vec g_taken, g_arity;      // heap-owned copies survive a siglongjmp out of the body
static int g_maxdev = -1; static size_t g_fixed = 0; static bool g_in_dfs = false;
uint64_t Ctx::choose(uint64_t n)
{
	size_t pos = taken.size();
	uint64_t c = pos < prefix.size() ? prefix[pos] : 0;
	if (n == 0 || c >= n) {
		fprintf(stderr, "ENGINE ERROR: choice %llu out of range %llu at position %zu (diverging replay)\n", (unsigned long long) c, (unsigned long long) n, pos);
		printf("OBS ENGINE|diverging-replay\n"); fflush(stdout);
		_exit(2);
	}
	taken.push_back(c); arity.push_back(n);
	g_taken.push_back(c); g_arity.push_back(n);
	if (me && pos < (size_t) MAXV) { me->taken[pos] = c; me->arity[pos] = n; me->ntaken = pos + 1; }
	return c;
}
bool dfs_next(const Vec &taken, const Vec &arity, int maxdev, Vec &next)
{
	int nz = 0;
	for (uint64_t c : taken) if (c) ++nz;
	for (size_t i = taken.size(); i-- > 0;) {
		if (taken[i]) --nz;                       // nz = deviations strictly before i
		if (taken[i] + 1 < arity[i] && (maxdev < 0 || nz + 1 <= maxdev)) {
			next.assign(taken.begin(), taken.begin() + i);
			next.push_back(taken[i] + 1);
			return true;
		}
	}
	return false;
}

// ---------------------------------------------------------------- result files
static void flush_section(Run &r, int job, bool complete)
{
	if (!resf) return;
	fprintf(resf, "J %d %d %d\n", job, complete ? 1 : 0, r.additive ? 1 : 0);
	bool keep = complete || r.additive;
	if (keep) {
		fprintf(resf, "N %llu %llu %llu %d\n", (unsigned long long) r.states, (unsigned long long) r.transitions, (unsigned long long) r.executions, r.exhaustive ? 1 : 0);
		for (auto &c : r.counters) fprintf(resf, "C %s\t%llu\n", esc(c.first).c_str(), (unsigned long long) c.second);
		for (auto &q : r.required) fprintf(resf, "Q %s\n", esc(q).c_str());
		for (auto &s : r.samples) fprintf(resf, "S %s\n", esc(s).c_str());
	}
	for (auto &v : r.viols)
		fprintf(resf, "V %s\t%llu\t%s\t%s\n", esc(v.first).c_str(), (unsigned long long) v.second.count, vec_str(v.second.vec).c_str(), esc(v.second.detail).c_str());
	fprintf(resf, "E %d\n", job);
	fflush(resf);
}

// ---------------------------------------------------------------- faults
static void on_fault(int sig) { if (in_job) siglongjmp(fault_jmp, sig); signal(sig, SIG_DFL); raise(sig); }
static uint64_t wd_last = 0; static int wd_same = 0;
static void on_alarm(int)
{
	if (!in_job) return;
	Slot *s = me ? me : &dummy;
	if (s->beat == wd_last) { if (++wd_same >= hang_s) { wd_same = 0; siglongjmp(fault_jmp, SIGALRM); } }
	else { wd_last = s->beat; wd_same = 0; }
}
static void install_handlers()
{
	static char *alt = 0;
	if (!alt) { alt = (char *) mmap(0, 1 << 18, PROT_READ | PROT_WRITE, MAP_PRIVATE | MAP_ANONYMOUS, -1, 0); }
	stack_t ss; ss.ss_sp = alt; ss.ss_size = 1 << 18; ss.ss_flags = 0; sigaltstack(&ss, 0);
	struct sigaction sa; memset(&sa, 0, sizeof sa);
	sa.sa_handler = on_fault; sa.sa_flags = SA_ONSTACK | SA_NODEFER;
	int sigs[] = {SIGSEGV, SIGBUS, SIGFPE, SIGILL, SIGABRT};
	for (int s : sigs) sigaction(s, &sa, 0);
	sa.sa_handler = on_alarm; sa.sa_flags = SA_ONSTACK | SA_RESTART;
	sigaction(SIGALRM, &sa, 0);
	struct itimerval it; it.it_interval.tv_sec = 1; it.it_interval.tv_usec = 0; it.it_value = it.it_interval;
	setitimer(ITIMER_REAL, &it, 0);
}
static const char *signame(int s)
{
	switch (s) { case SIGSEGV: return "SIGSEGV"; case SIGBUS: return "SIGBUS"; case SIGFPE: return "SIGFPE"; case SIGILL: return "SIGILL"; case SIGABRT: return "SIGABRT"; case SIGALRM: return "HANG"; }
	return "SIGNAL";
}

// run one job inside this process; returns 0 if done, 3 if a fault tainted the process
static Run *g_run = 0;
static int run_job(const std::vector<std::string> &jobs, int job, Tier tier, const std::set<Vec> &skip, const Vec *resume)
{
	Run *r = new Run();        // intentionally leaked after a fault
	g_run = r;
	r->tier = tier; r->skip = skip;
	if (resume) { r->resume = *resume; r->has_resume = true; }
	cur_job = job;
	if (me) { me->job = job; me->fault = 0; me->has_resume = 0; me->has_skip = 0; me->dfs_active = 0; }
	g_taken.clear(); g_arity.clear();
	int sig = sigsetjmp(fault_jmp, 1);
	if (sig == 0) {
		in_job = 1;
		mc_explore(*r, jobs[job]);
		in_job = 0;
		flush_section(*r, job, true);
		delete r; g_run = 0;
		return 0;
	}
	in_job = 0; lib_depth = 0;
	std::string s = (r->curhint.empty() ? std::string("fault") : r->curhint) + "|" + signame(sig);
	r->violation_at(s, r->cur, std::string("process fault ") + signame(sig) + " while executing this case");
	Slot *sl = me ? me : &dummy;
	if (r->additive && g_in_dfs) {
		// continue the DFS behind the faulting path (choices taken so far form a leaf)
		Vec next;
		Vec t2(g_taken.begin() + std::min(g_fixed, g_taken.size()), g_taken.end()), a2(g_arity.begin() + std::min(g_fixed, g_arity.size()), g_arity.end());
		if (dfs_next(t2, a2, g_maxdev, next)) {
			Vec full(g_taken.begin(), g_taken.begin() + std::min(g_fixed, g_taken.size()));
			full.insert(full.end(), next.begin(), next.end());
			sl->reslen = full.size() > (size_t) MAXV ? MAXV : full.size();
			memcpy(sl->res, full.data(), sl->reslen * sizeof(uint64_t));
			sl->has_resume = 1;
		} else sl->has_resume = 2;   // tree exhausted: nothing left
	} else {
		sl->reslen = r->cur.size() > (size_t) MAXV ? MAXV : r->cur.size();
		memcpy(sl->res, r->cur.data(), sl->reslen * sizeof(uint64_t));
		sl->has_skip = 1;
	}
	flush_section(*r, job, false);
	sl->fault = sig == SIGALRM ? 2 : 1;
	return 3;
}

} // namespace mc

// The template dfs() in mc.hpp cannot see the statics above; it calls enter()
// per execution, which is where we reset the recorded path.
namespace mc {
void dfs_begin_exec(int maxdev, size_t fixed) { g_maxdev = maxdev; g_fixed = fixed; g_in_dfs = true; g_taken.clear(); g_arity.clear(); if (me) { me->ntaken = 0; me->dfs_maxdev = maxdev; me->dfs_fixed = fixed; me->dfs_active = 1; } }
void dfs_end() { g_in_dfs = false; if (me) me->dfs_active = 0; }

std::string in_child(const std::function<std::string()> &fn, int timeout_s)
{
	int fd[2];
	if (pipe(fd) < 0) return "\x01PIPE";
	fflush(stdout); fflush(stderr); if (resf) fflush(resf);
	pid_t pid = fork();
	if (pid == 0) {
		close(fd[0]);
		signal(SIGSEGV, SIG_DFL); signal(SIGBUS, SIG_DFL); signal(SIGFPE, SIG_DFL); signal(SIGILL, SIG_DFL); signal(SIGABRT, SIG_DFL);
		struct itimerval it; memset(&it, 0, sizeof it); setitimer(ITIMER_REAL, &it, 0);
		signal(SIGALRM, SIG_DFL); alarm(timeout_s);
		std::string s = fn();
		size_t off = 0;
		while (off < s.size()) { ssize_t w = write(fd[1], s.data() + off, s.size() - off); if (w <= 0) break; off += w; }
		_exit(0);
	}
	close(fd[1]);
	std::string out; char buf[65536]; ssize_t n;
	while ((n = read(fd[0], buf, sizeof buf)) > 0 || (n < 0 && errno == EINTR)) if (n > 0) out.append(buf, n);
	close(fd[0]);
	int st = 0;
	while (waitpid(pid, &st, 0) < 0 && errno == EINTR) {}
	if (WIFSIGNALED(st)) return WTERMSIG(st) == SIGALRM ? std::string("\x01HANG") : "\x01SIG" + std::to_string(WTERMSIG(st));
	if (WEXITSTATUS(st) != 0) return "\x01" "EXIT" + std::to_string(WEXITSTATUS(st));
	return out;
}
} // namespace mc

using namespace mc;

static void usage() { fprintf(stderr, "usage: <harness> --tier quick|thorough --out DIR [--workers N] [--deadline SEC] | --list-jobs | --replay JOB VEC\n"); exit(2); }

int main(int argc, char **argv)
{
	Tier tier = Quick; std::string out; int workers = 16; double deadline = 0;
	std::string rjob, rvec; bool list = false;
	for (int i = 1; i < argc; ++i) {
		std::string a = argv[i];
		if (a == "--tier" && i + 1 < argc) tier = !strcmp(argv[++i], "thorough") ? Thorough : Quick;
		else if (a == "--out" && i + 1 < argc) out = argv[++i];
		else if (a == "--workers" && i + 1 < argc) workers = atoi(argv[++i]);
		else if (a == "--deadline" && i + 1 < argc) deadline = atof(argv[++i]);
		else if (a == "--list-jobs") list = true;
		else if (a == "--replay" && i + 2 < argc) { g_replay = true; rjob = argv[++i]; rvec = argv[++i]; }
		else usage();
	}
	if (getenv("MC_HANG_S")) hang_s = atoi(getenv("MC_HANG_S"));
	__sanitizer_install_malloc_and_free_hooks(hook_malloc, hook_free);
	std::vector<std::string> jobs;
	mc_jobs(tier, jobs);
	if (getenv("MC_ONLY_JOB") && !g_replay) {   // development aid: restrict to jobs whose name contains the substring
		std::vector<std::string> keep; for (auto &j : jobs) if (j.find(getenv("MC_ONLY_JOB")) != std::string::npos) keep.push_back(j);
		jobs.swap(keep);
	}
	if (list) { for (auto &j : jobs) puts(j.c_str()); return 0; }

	if (g_replay) {
		Run r; r.tier = tier; r.replaying = true; g_run = &r;
		install_handlers();
		if (rvec == "-") rvec = "";
		Vec v = str_vec(rvec);
		int sig = sigsetjmp(fault_jmp, 1);
		if (sig == 0) {
			in_job = 1;
			mc_replay(r, rjob, v);
			in_job = 0;
		} else {
			in_job = 0;
			std::string s = (r.curhint.empty() ? std::string("fault") : r.curhint) + "|" + signame(sig);
			printf("OBS %s\n", s.c_str());
		}
		printf("REPLAY-END violations=%llu\n", (unsigned long long) r.nviol);
		fflush(stdout);
		_exit(0);
	}

	if (out.empty()) usage();
	if (workers < 1) workers = 1; if (workers > MAXW) workers = MAXW;
	sh = (Shared *) mmap(0, sizeof(Shared), PROT_READ | PROT_WRITE, MAP_SHARED | MAP_ANONYMOUS, -1, 0);
	if (sh == MAP_FAILED) { perror("mmap"); return 2; }
	memset((void *) sh, 0, sizeof(Shared));
	double t0 = now();
	sh->deadline = deadline > 0 ? t0 + deadline : 0;
	std::string cmd = "mkdir -p '" + out + "' && rm -f '" + out + "'/*.res";
	if (system(cmd.c_str()) != 0) return 2;

	int njobs = (int) jobs.size();
	std::map<int, std::set<Vec>> skip; std::map<int, Vec> resume; std::map<int, int> faults;
	std::deque<int> forced;      // jobs to be re-run by a fresh worker
	int running = 0, serial = 0;
	std::map<pid_t, int> slot_of;
	std::vector<int> free_slots; for (int i = workers - 1; i >= 0; --i) free_slots.push_back(i);
	FILE *pf = fopen((out + "/parent.res").c_str(), "w");
	int abandoned = 0;

	auto spawn = [&](int forced_job) {
		int si = free_slots.back(); free_slots.pop_back();
		fflush(pf);
		pid_t pid = fork();
		if (pid < 0) { perror("fork"); exit(2); }
		if (pid == 0) {
			me = &sh->slot[si]; me->pid = getpid(); me->beat = 0; me->fault = 0; me->job = -1;
			int nul = open("/dev/null", O_WRONLY);
			if (nul >= 0 && !getenv("MC_STDERR")) { dup2(nul, 2); }
			resf = fopen((out + "/w" + std::to_string(serial) + ".res").c_str(), "w");
			install_handlers();
			int rc = 0;
			if (forced_job >= 0) {
				auto rit = resume.find(forced_job);
				rc = run_job(jobs, forced_job, tier, skip[forced_job], rit == resume.end() ? 0 : &rit->second);
			}
			while (rc == 0) {
				int j = sh->next_job++;
				if (j >= njobs) break;
				rc = run_job(jobs, j, tier, std::set<Vec>(), 0);
			}
			fflush(resf);
			_exit(rc);
		}
		++serial; ++running; slot_of[pid] = si;
	};

	std::map<int, int> hangs;
	while (true) {
		bool late = sh->deadline > 0 && now() > sh->deadline + 20;      // past the deadline: no more (re)starts
		if (late && !forced.empty()) { for (int j : forced) { fprintf(pf, "J %d 1 0\nN 0 0 0 0\nC incomplete:deadline (job dropped after a fault)\t1\nE %d\n", j, j); ++abandoned; } forced.clear(); }
		while (!late && !free_slots.empty() && !forced.empty()) { int j = forced.front(); forced.pop_front(); spawn(j); }
		while (!late && !free_slots.empty() && sh->next_job.load() < njobs && running < workers) spawn(-1);
		if (running == 0 && (forced.empty() || late)) break;
		int st = 0; pid_t pid = waitpid(-1, &st, (sh->deadline > 0) ? WNOHANG : 0);
		if (pid == 0) {
			// poll so that workers stuck far beyond the deadline (hang inside one case) can be ended
			if (sh->deadline > 0 && now() > sh->deadline + 3 * hang_s + 60) { for (auto &w : slot_of) kill(w.first, SIGKILL); }
			usleep(20000); continue;
		}
		if (pid < 0) { if (errno == EINTR) continue; break; }
		auto it = slot_of.find(pid);
		if (it == slot_of.end()) continue;
		int si = it->second; slot_of.erase(it); --running;
		Slot &s = sh->slot[si];
		int job = s.job;
		bool clean = WIFEXITED(st) && WEXITSTATUS(st) == 0;
		if (!clean) {
			if (!(WIFEXITED(st) && WEXITSTATUS(st) == 3 && s.fault)) {
				// died without reporting: attribute to the published case
				Vec v(s.vec, s.vec + s.veclen);
				std::string why = WIFSIGNALED(st) ? "KILLED" + std::to_string(WTERMSIG(st)) : (WEXITSTATUS(st) == 99 ? std::string("ASAN-FATAL") : "EXIT" + std::to_string(WEXITSTATUS(st)));
				std::string sig = std::string(s.hint[0] ? s.hint : "fault") + "|" + why;
				if (job >= 0) {
					fprintf(pf, "J %d 0 0\nV %s\t1\t%s\tworker died (%s) while executing this case\nE %d\n", job, sig.c_str(), vec_str(v).c_str(), why.c_str(), job);
					if (s.dfs_active) {
						size_t fx = s.dfs_fixed, nt = s.ntaken; if (fx > nt) fx = nt;
						Vec t2(s.taken + fx, s.taken + nt), a2(s.arity + fx, s.arity + nt), next;
						if (dfs_next(t2, a2, s.dfs_maxdev, next)) { Vec full(s.taken, s.taken + fx); full.insert(full.end(), next.begin(), next.end()); resume[job] = full; }
						else job = -1;
					}
					else skip[job].insert(v);
				}
			} else if (s.has_resume == 1) {
				resume[job] = Vec(s.res, s.res + s.reslen);
			} else if (s.has_resume == 2) {
				job = -1;   // DFS finished with the faulting leaf
			} else if (s.has_skip) {
				skip[job].insert(Vec(s.res, s.res + s.reslen));
			}
			if (job >= 0) {
				bool washang = WIFEXITED(st) && WEXITSTATUS(st) == 3 && s.fault == 2;
				if (washang) ++hangs[job];
				if (++faults[job] > (resume.count(job) ? 4000 : 40) || hangs[job] > 20) { fprintf(pf, "J %d 1 0\nN 0 0 0 0\nC incomplete:too many faults\t1\nE %d\n", job, job); ++abandoned; }
				else forced.push_back(job);
			}
		}
		free_slots.push_back(si);
	}
	{ std::string rr = mc_rule ? mc_rule : ""; fprintf(pf, "R %s\n", esc(rr).c_str()); }
	fprintf(pf, "W %.3f %d %d\n", now() - t0, njobs, abandoned);
	fclose(pf);
	return 0;
}

/*
 * f1: mpt_node_clone() destroys the copy when the name cannot be copied,
 *     then keeps using it and returns the freed node to the caller.
 *
 * build (plain build of the worktree in _build):
 *   gcc -g -I/tmp/hunt2-C14/mptcore f1_demo.c -o f1_demo \
 *       -L/tmp/hunt2-C14/_build/mptcore -lmptcore -Wl,-rpath,/tmp/hunt2-C14/_build/mptcore
 */
#include <stdio.h>
#include <stdlib.h>
#include <string.h>

#include <signal.h>
#include <unistd.h>

#include "node.h"

/* allocation failure injection: the Nth malloc() after arming fails */
extern void *__libc_malloc(size_t);
extern void __libc_free(void *);
static int fail_at = 0;      /* 0: never */
static void *freed[16];
static int nfreed, track;

void *malloc(size_t len)
{
	if (fail_at && !--fail_at) {
		return 0;
	}
	return __libc_malloc(len);
}
void free(void *ptr)
{
	if (track && ptr && nfreed < 16) {
		freed[nfreed++] = ptr;
	}
	__libc_free(ptr);
}

static void segv(int sig)
{
	static const char msg[] = "crash inside mpt_node_clone: it uses the copy it has just destroyed\n";
	(void) sig;
	if (write(1, msg, sizeof(msg) - 1) < 0) { }
	_exit(1);
}
int main(void)
{
	/* 22 characters: does not fit the inline name space of a default node,
	 * so the name of the copy needs an allocation of its own */
	static const char name[] = "a_name_of_22_character";
	struct mpt_node *src, *copy;
	int i;
	
	if (!(src = mpt_node_new(sizeof(name)))
	    || !mpt_identifier_set(&src->ident, name, -1)) {
		fputs("setup failed\n", stderr);
		return 2;
	}
	/* first allocation (node) succeeds, second (name) fails */
	signal(SIGSEGV, segv);
	track = 1;
	fail_at = 2;
	copy = mpt_node_clone(src);
	fail_at = 0;
	track = 0;
	
	if (!copy) {
		puts("clone refused cleanly");
		mpt_node_destroy(src);
		return 0;
	}
	for (i = 0; i < nfreed; i++) {
		if (freed[i] == (void *) copy) {
			printf("mpt_node_clone returned node %p which it has already released\n", (void *) copy);
			printf("(a caller that destroys the clone releases the node a second time)\n");
			return 1;
		}
	}
	puts("clone succeeded?");
	return 3;
}

/*
 * f2: a node whose text value is "not set" is cloned into a node whose value is
 *     the empty text.
 *
 * build:
 *   gcc -g -I/tmp/hunt2-C14/mptcore f2_demo.c -o f2_demo \
 *       -L/tmp/hunt2-C14/_build/mptcore -lmptcore -Wl,-rpath,/tmp/hunt2-C14/_build/mptcore
 */
#include <stdio.h>
#include <string.h>

#include "types.h"
#include "meta.h"
#include "node.h"

static struct mpt_node *mk(const char *name)
{
	struct mpt_node *n = mpt_node_new(strlen(name) + 1);
	if (n) mpt_identifier_set(&n->ident, name, -1);
	return n;
}
int main(void)
{
	/* string value without text */
	struct mpt_value val = MPT_VALUE_INIT('s', 0);
	struct mpt_node *root, *sect, *opt, *copy, *c;
	const char *src_text, *cpy_text;
	size_t src_len = 0, cpy_len = 0;
	int bad = 0;
	
	root = mk("root");
	sect = mk("sect");
	opt  = mk("opt");
	mpt_gnode_insert(root, 0, sect);
	mpt_gnode_insert(sect, 0, opt);
	if (!(opt->_meta = mpt_meta_new(&val))) {
		fputs("no metatype\n", stderr);
		return 2;
	}
	if (!(copy = mpt_tree_clone(root))) {
		fputs("clone refused\n", stderr);
		return 2;
	}
	c = copy->children->children;
	
	src_text = mpt_node_data(opt, &src_len);
	cpy_text = mpt_node_data(c,   &cpy_len);
	printf("source: %zu bytes of value data\n", src_len);
	printf("clone:  %zu bytes of value data\n", cpy_len);
	if (src_len != cpy_len) {
		bad = 1;
	}
	/* printable form (what writers of the tree use) */
	src_text = mpt_node_data(opt, 0);
	cpy_text = mpt_node_data(c,   0);
	if (!src_text != !cpy_text) {
		printf("source value is %s, value of the clone is %s\n",
		       src_text ? "a text" : "not set", cpy_text ? "a text" : "not set");
		bad = 1;
	}
	mpt_node_destroy(copy);
	mpt_node_destroy(root);
	return bad;
}

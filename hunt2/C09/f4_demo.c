/*
 * f4: option values of 250 and more bytes can not be read back as text:
 * mpt_node_data(node, 0) / mpt::node::data() / convert('s') deliver the
 * value up to 249 bytes and nothing from 250 bytes on.
 *
 * build:
 *  gcc -I/tmp/hunt2-C09/mptcore f4_demo.c -o f4_demo \
 *      -L/tmp/hunt2-C09/_build/mptcore -lmptcore -Wl,-rpath,/tmp/hunt2-C09/_build/mptcore
 */
#include <stdio.h>
#include <stdlib.h>
#include <string.h>
#include <sys/uio.h>

#include "meta.h"
#include "node.h"
#include "config.h"
#include "parse.h"

static int check(size_t n)
{
	struct mpt_parser_context ctx = MPT_PARSER_INIT;
	struct mpt_node root = MPT_NODE_INIT, *o;
	char *txt = malloc(n + 16), *val;
	const char *s = 0, *d;
	FILE *f;
	int ret, fail = 0;
	
	strcpy(txt, "a = ");
	val = txt + 4;
	memset(val, 'x', n);
	strcpy(val + n, "\n");
	
	f = fmemopen(txt, strlen(txt), "r");
	ctx.src.getc = (int (*)(void *)) mpt_getchar_stdio;
	ctx.src.arg  = f;
	ret = mpt_parse_node(&root, &ctx, "{*} = #");
	fclose(f);
	
	if (ret < 0 || !(o = root.children) || !o->_meta) {
		printf("%zu bytes: parse failed (%d)\n", n, ret);
		free(txt);
		return 1;
	}
	/* text access as documented for mpt_node_data() without length */
	if (!(d = mpt_node_data(o, 0)) || strlen(d) != n || memcmp(d, val, n)) {
		printf("%zu bytes: mpt_node_data(node, 0) = %s\n", n, d ? "different text" : "NULL");
		fail = 1;
	}
	/* plain string conversion of the value */
	if ((ret = o->_meta->_vptr->convertable.convert((MPT_INTERFACE(convertable) *) o->_meta, 's', &s)) < 0
	    || !s || strlen(s) != n) {
		printf("%zu bytes: convert('s') = %d\n", n, ret);
		fail = 1;
	}
	if (!fail) printf("%zu bytes: ok\n", n);
	mpt_node_clear(&root);
	free(txt);
	return fail;
}
int main(void)
{
	int fail = 0;
	fail |= check(1);
	fail |= check(249);
	fail |= check(250);
	fail |= check(255);
	fail |= check(256);
	fail |= check(65535);
	fail |= check(65536);
	return fail;
}

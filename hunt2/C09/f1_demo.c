/*
 * f1: a parser context that has seen a parse error keeps the "valid" count
 * of the element it failed in.  The next, perfectly valid text is then read
 * into a different tree (successfully!) or refused.
 *
 * build:
 *  gcc -I/tmp/hunt2-C09/mptcore f1_demo.c -o f1_demo \
 *      -L/tmp/hunt2-C09/_build/mptcore -lmptcore -Wl,-rpath,/tmp/hunt2-C09/_build/mptcore
 */
#include <stdio.h>
#include <string.h>
#include <stdlib.h>
#include <sys/uio.h>

#include "node.h"
#include "config.h"
#include "parse.h"

static const char fmt[] = "{*} = #";

static const char good[] =
	"# layout with an unnamed top level section\n"
	"{\n"
	"  x = 1\n"
	"}\n";

static int parse(struct mpt_parser_context *ctx, struct mpt_node *root, const char *txt)
{
	FILE *f = fmemopen((void *) txt, strlen(txt), "r");
	int ret;
	ctx->src.getc = (int (*)(void *)) mpt_getchar_stdio;
	ctx->src.arg  = f;
	ctx->src.line = 0;
	ret = mpt_parse_node(root, ctx, fmt);
	fclose(f);
	return ret;
}
/* 0: tree is  <unnamed> { x = 1 }  */
static int check(const struct mpt_node *root, const char *what)
{
	const struct mpt_node *s = root->children, *o;
	const char *id, *val;
	if (!s || s->next) { printf("%s: not exactly one top level element\n", what); return 1; }
	if ((id = mpt_node_ident(s))) { printf("%s: section is named '%s', expected unnamed\n", what, id); return 1; }
	if (!(o = s->children) || o->next) { printf("%s: section content differs\n", what); return 1; }
	if (!(id = mpt_node_ident(o)) || strcmp(id, "x")) { printf("%s: bad option name\n", what); return 1; }
	if (!(val = mpt_node_data(o, 0)) || strcmp(val, "1")) { printf("%s: bad option value\n", what); return 1; }
	printf("%s: ok\n", what);
	return 0;
}
int main(void)
{
	struct mpt_parser_context ctx = MPT_PARSER_INIT; /* all name flags: empty names permitted */
	struct mpt_node root = MPT_NODE_INIT;
	int ret, fail = 0;
	
	/* reference: fresh context */
	if ((ret = parse(&ctx, &root, good)) < 0) { printf("fresh context failed: %d\n", ret); return 2; }
	fail |= check(&root, "fresh context");
	mpt_node_clear(&root);
	
	/* a broken text in between (name without assignment) ... */
	ret = parse(&ctx, &root, "a\nb\n");
	printf("broken text 1: %d (error expected), context.valid = %u\n", ret, (unsigned) ctx.valid);
	mpt_node_clear(&root);
	/* ... and the same good text again */
	if ((ret = parse(&ctx, &root, good)) < 0) { printf("good text after error 1: refused with %d\n", ret); fail |= 1; }
	else fail |= check(&root, "good text after error 1");
	mpt_node_clear(&root);
	
	ret = parse(&ctx, &root, "broken name\nnext\n");
	printf("broken text 2: %d (error expected), context.valid = %u\n", ret, (unsigned) ctx.valid);
	mpt_node_clear(&root);
	if ((ret = parse(&ctx, &root, good)) < 0) { printf("good text after error 2: refused with %d\n", ret); fail |= 1; }
	else fail |= check(&root, "good text after error 2");
	mpt_node_clear(&root);
	
	/* empty option name: value is "5" */
	ret = parse(&ctx, &root, "ab\ncd\n");
	mpt_node_clear(&root);
	if ((ret = parse(&ctx, &root, "= 5\n")) < 0) { printf("'= 5' after error 3: refused with %d\n", ret); fail |= 1; }
	else {
		const char *id = root.children ? mpt_node_ident(root.children) : 0;
		if (id) { printf("'= 5' after error 3: option is named '%s', expected unnamed\n", id); fail |= 1; }
	}
	mpt_node_clear(&root);
	return fail;
}

/* round trip fuzzer for config parser (work file, not a finding) */
#include <stdio.h>
#include <stdlib.h>
#include <string.h>
#include <ctype.h>
#include <sys/uio.h>

#include "types.h"
#include "node.h"
#include "config.h"
#include "parse.h"

typedef struct tn {
	char *name; size_t nlen;
	char *val;  size_t vlen;   /* val == NULL: no value */
	int sect;
	int quote;                 /* 0 none, else quote char */
	struct tn *child, *next;
} tn;

static unsigned long long rs = 88172645463325252ULL;
static unsigned rnd(void) { rs ^= rs << 13; rs ^= rs >> 7; rs ^= rs << 17; return (unsigned) (rs >> 16); }
static unsigned rn(unsigned n) { return n ? rnd() % n : 0; }

static int fmtsel;
static int style; /* 0 pre, 1 pre with oend, 2 enc, 3 sep */
static const char *fmts[] = { "{*} = #! \"'", "{*} =;#! \"'", "[x] = #! \"'", "[ ] = #! \"'", "{*}-= #! \"'", "{*}-=;#! \"'", "[x]-= #! \"'", "[ ]-= #! \"'" };
static int ost = 0;
static int hib = 0;
static int maxlen = 12;
static int biglen = 0;
static int empties = 0;
static int mdepth = 3;

static char *out; static size_t olen, omax;
static void oc(int c) { if (olen + 1 >= omax) { omax = omax ? omax * 2 : 1024; out = realloc(out, omax); } out[olen++] = c; out[olen] = 0; }
static void os(const char *s, size_t n) { while (n--) oc(*s++); }

static size_t pick_len(void)
{
	if (biglen && !rn(6)) {
		static const int sp[] = { 240, 247, 248, 249, 250, 251, 252, 253, 254, 255, 256, 257, 258, 300, 1023, 1024, 1025, 4096, 65534, 65535, 65536, 65537, 70000 };
		return sp[rn(sizeof(sp)/sizeof(*sp))];
	}
	return 1 + rn(maxlen);
}
static char *mkname(size_t *len, int issect)
{
	static const char al[] = "abcdefghijklmnopqrstuvwxyzABCDEFGHIJKLMNOPQRSTUVWXYZ0123456789_+/:,@$%&*()<>|~^?";
	size_t n = pick_len(), i;
	char *s;
	if (n > 65000) n = 65000;
	if (empties && !rn(4) && (issect ? style != 2 : style < 2)) n = 0;
	s = malloc(n + 1);
	for (i = 0; i < n; i++) s[i] = (hib && !rn(3)) ? (rn(2) ? 0x80 + rn(128) : 1 + rn(8)) : al[rn(sizeof(al) - 1)];
	/* internal blank */
	if (n > 2 && !rn(4) && !(issect && style == 2)) s[1 + rn(n - 2)] = ' ';
	s[n] = 0; *len = n;
	(void) issect;
	return s;
}
static char *mkval(size_t *len, int *quote)
{
	size_t n, i;
	char *s;
	int q = 0;
	if (!rn(8)) { *len = 0; *quote = rn(2) ? '"' : 0; s = malloc(1); *s = 0; return s; }
	n = pick_len();
	s = malloc(n + 1);
	if (rn(3) == 0) q = rn(2) ? '"' : '\'';
	for (i = 0; i < n; i++) {
		if (q) {
			static const char al[] = "abcXYZ019 \t\n#!;={}[]\"'\\._-";
			int c = al[rn(sizeof(al) - 1)];
			/* backslash only in front of the quote char, never last */
			if (c == '\\') { if (i + 1 < n) { s[i++] = '\\'; s[i] = q; continue; } c = 'b'; }
			/* quote char itself only escaped */
			if (c == q) { if (i + 1 < n) { s[i++] = '\\'; s[i] = q; continue; } c = 'q'; }
			s[i] = c;
		} else {
			static const char al[] = "abcXYZ019 .,_-+/:@{}[]=";
			int c = (hib && !rn(3)) ? (rn(2) ? 0x80 + rn(128) : 1 + rn(8)) : al[rn(sizeof(al) - 1)];
			if ((i == 0 || i + 1 == n) && isspace(c)) c = 'w';
			if (style == 0 || style == 1) { }
			s[i] = c;
		}
	}
	s[n] = 0; *len = n; *quote = q;
	return s;
}
static tn *mktree(int depth, int maxdepth, int top)
{
	tn *first = 0, **pos = &first;
	int n = rn(5), i;
	if (top && !n) n = 1;
	for (i = 0; i < n; i++) {
		tn *t = calloc(1, sizeof(*t));
		if (depth < maxdepth && rn(3) == 0) {
			t->sect = 1;
			t->name = mkname(&t->nlen, 1);
			t->child = mktree(depth + 1, maxdepth, 0);
		} else {
			t->name = mkname(&t->nlen, 0);
			t->val = mkval(&t->vlen, &t->quote);
		}
		*pos = t; pos = &t->next;
	}
	/* sep style: options first, then sections */
	if (style == 3 && depth == 0) {
		tn *o = 0, **op = &o, *s = 0, **sp = &s, *t;
		for (t = first; t; t = t->next) { if (t->sect) { *sp = t; sp = &t->next; } else { *op = t; op = &t->next; } }
		*sp = 0; *op = s; first = o;
	}
	return first;
}
static int crlf = 0;
static void nl(void) { if (crlf && rn(2)) oc('\r'); oc('\n'); }
static void ws(int x)
{
	int n = rn(4);
	while (n--) { int r = rn(crlf ? 5 : 2); oc(r == 0 ? ' ' : r == 1 ? '\t' : r == 2 ? '\r' : r == 3 ? '\f' : '\v'); }
	(void) x;
}
static void deco(void)
{
	/* blank and comment lines, only at line start */
	int n = rn(3);
	while (n--) {
		ws(0);
		if (rn(2)) { oc(rn(2) ? '#' : '!'); os(" a = b { } [ ] ; \"x", rn(20)); }
		nl();
	}
}
static int deco_on = 1;
static void wval(const tn *t)
{
	size_t i;
	if (t->quote) oc(t->quote);
	/* expected value has escapes resolved, write it escaped */
	for (i = 0; i < t->vlen; i++) {
		oc(t->val[i]);
	}
	if (t->quote) oc(t->quote);
}
static void wtree(const tn *t, int depth)
{
	for (; t; t = t->next) {
		if (deco_on) deco();
		if (deco_on) ws(0);
		if (t->sect) {
			if (style < 2) {
				os(t->name, t->nlen);
				if (deco_on) {
					ws(0);
					if (!rn(4)) { os("# c {\n", 6); deco(); ws(0); }
					else if (!rn(4)) { nl(); deco(); ws(0); }
				}
				oc('{');
				if (deco_on) { ws(0); if (rn(2)) { if (rn(2)) os(rn(2) ? " # x" : "#x }", 4); nl(); } }
				wtree(t->child, depth + 1);
				if (deco_on) { deco(); ws(0); }
				oc('}');
				if (deco_on) { ws(0); if (rn(2)) { if (rn(2)) os(rn(2) ? " # x" : "#x }", 4); nl(); } }
				else nl();
			}
			else if (style == 2) {
				oc('[');
				if (deco_on) ws(0);
				os(t->name, t->nlen);
				if (deco_on && !rn(3)) { os("# c ]\n", 6); }
				else oc(rn(2) ? ' ' : '\n');
				wtree(t->child, depth + 1);
				if (deco_on) { deco(); ws(0); }
				oc(']');
				if (deco_on) { ws(0); if (rn(2)) { if (rn(2)) os(rn(2) ? " # x" : "#x }", 4); nl(); } }
				else nl();
			}
			else {
				oc('[');
				if (deco_on) ws(0);
				os(t->name, t->nlen);
				if (deco_on) ws(0);
				oc(']');
				if (deco_on) { ws(0); if (rn(2)) { if (rn(2)) os(rn(2) ? " # x" : "#x }", 4); nl(); } }
				else nl();
				wtree(t->child, depth + 1);
			}
			continue;
		}
		if (ost) { oc('-'); if (deco_on) ws(0); }
		os(t->name, t->nlen);
		if (deco_on) ws(0);
		oc('=');
		if (deco_on) ws(0);
		wval(t);
		if (deco_on) ws(0);
		if (style == 1) {
			oc(';');
			if (deco_on) { ws(0); if (rn(2)) { if (rn(2)) os(rn(2) ? " # x" : "#x }", 4); nl(); } }
		} else {
			if (deco_on && rn(3) == 0) { os(" # c = d", 8); }
			nl();
		}
	}
}
/* expected value: resolve \q -> q */
static size_t expval(const tn *t, char *dst)
{
	size_t i, n = 0;
	for (i = 0; i < t->vlen; i++) {
		if (t->quote && t->val[i] == '\\' && i + 1 < t->vlen && t->val[i + 1] == t->quote) continue;
		dst[n++] = t->val[i];
	}
	return n;
}
static int cmp(const tn *t, const struct mpt_node *n, int depth)
{
	for (; t; t = t->next, n = n->next) {
		const char *id, *d;
		size_t len = 0, el;
		char *e;
		if (!n) { printf("missing node for '%.40s' depth %d\n", t->name, depth); return 1; }
		id = mpt_node_ident(n);
		if (!id) id = "";
		if (strlen(id) != t->nlen || memcmp(id, t->name, t->nlen)) {
			printf("name mismatch depth %d: want '%.60s' (%zu) got '%.60s' (%zu)\n", depth, t->name, t->nlen, id ? id : "(null)", id ? strlen(id) : 0);
			return 1;
		}
		d = mpt_node_data(n, &len);
		if (d && len && !d[len - 1]) --len;
		e = malloc(t->vlen + 1);
		el = t->val ? expval(t, e) : 0;
		if (len != el || (len && memcmp(d, e, len))) {
			printf("value mismatch for '%.40s': want len %zu '%.60s' got len %zu '%.60s'\n", t->name, el, e, len, d ? d : "(null)");
			free(e);
			return 1;
		}
		free(e);
		if (cmp(t->child, n->children, depth + 1)) return 1;
		if (!t->sect && n->children) { printf("option '%s' has children\n", t->name); return 1; }
	}
	if (n) { printf("surplus node '%s' depth %d\n", mpt_node_ident(n) ? mpt_node_ident(n) : "(null)", depth); return 1; }
	return 0;
}
static void freetree(tn *t) { while (t) { tn *n = t->next; freetree(t->child); free(t->name); free(t->val); free(t); t = n; } }

static int binpath = 0;
static int parse_bin(const char *txt, size_t len, struct mpt_node *root, const char *fmtstr)
{
	struct mpt_parser_context ctx = MPT_PARSER_INIT;
	struct mpt_parser_format fmt;
	struct mpt_path path = MPT_PATH_INIT;
	struct mpt_node *curr = root;
	MPT_TYPE(input_parser) next;
	struct iovec vec;
	struct mpt_value val = MPT_VALUE_INIT(MPT_type_toVector('c'), &vec);
	FILE *f = fmemopen((void *) txt, len, "r");
	int ret;
	ctx.src.getc = (int (*)(void *)) mpt_getchar_stdio;
	ctx.src.arg = f;
	next = mpt_parse_next_fcn(mpt_parse_format(&fmt, fmtstr));
	path.flags = MPT_PATHFLAG(SepBinary);
	ctx.prev = MPT_PARSEFLAG(Section);
	while ((ret = next(&fmt, &ctx, &path)) > 0) {
		struct mpt_node *n;
		vec.iov_base = (char *) (path.base + path.off + path.len);
		vec.iov_len = ctx.valid;
		if (!(n = mpt_node_append(curr, &path, ret & MPT_PARSEFLAG(Data) ? &val : 0, ctx.prev, ret))) { ret = -0x80; break; }
		curr = n;
		if (ret & MPT_PARSEFLAG(SectEnd)) ret = mpt_path_del(&path); else ret = mpt_path_invalidate(&path);
		if (ret < 0) { ret = -0x81; break; }
		ctx.prev = ctx.curr; ctx.curr = 0; ctx.valid = 0;
	}
	mpt_path_fini(&path);
	if (ret < 0) printf("parse error %d line %zu curr %x\n", ret, ctx.src.line, ctx.curr);
	fclose(f);
	return ret;
}
static int parse(const char *txt, size_t len, struct mpt_node *root, const char *fmt)
{
	struct mpt_parser_context ctx = MPT_PARSER_INIT;
	FILE *f;
	int ret;
	if (binpath) return parse_bin(txt, len, root, fmt);
	f = fmemopen((void *) txt, len, "r");
	ctx.src.getc = (int (*)(void *)) mpt_getchar_stdio;
	ctx.src.arg = f;
	ret = mpt_parse_node(root, &ctx, fmt);
	if (ret < 0) printf("parse error %d line %zu curr %x\n", ret, ctx.src.line, ctx.curr);
	fclose(f);
	return ret;
}
int main(int argc, char **argv)
{
	int iter = argc > 1 ? atoi(argv[1]) : 1000, i;
	int only = argc > 2 ? atoi(argv[2]) : -1;
	if (argc > 3) rs ^= strtoull(argv[3], 0, 0) * 0x9E3779B97F4A7C15ULL;
	if (argc > 4) biglen = atoi(argv[4]);
	if (argc > 5) deco_on = atoi(argv[5]);
	if (argc > 6) crlf = atoi(argv[6]);
	if (argc > 7) empties = atoi(argv[7]);
	if (argc > 8) mdepth = atoi(argv[8]);
	if (argc > 9) hib = atoi(argv[9]);
	if (argc > 10) binpath = atoi(argv[10]);
	if (argc > 11) maxlen = atoi(argv[11]);
	for (i = 0; i < iter; i++) {
		struct mpt_node root = MPT_NODE_INIT;
		tn *t;
		int r;
		style = only >= 0 ? only : (int) rn(8);
		fmtsel = style; ost = style >= 4; style &= 3;
		t = mktree(0, style == 3 ? 1 : mdepth, 1);
		olen = 0;
		wtree(t, 0);
		if (!out) oc('\n'), olen = 0;
		r = parse(out, olen, &root, fmts[fmtsel]);
		if (r < 0 || cmp(t, root.children, 0)) {
			printf("FAIL iter %d style %d fmt '%s' text (%zu bytes):\n", i, style, fmts[fmtsel], olen);
			if (olen < 2000) printf("-----\n%s\n-----\n", out);
			else { FILE *d = fopen("/tmp/hunt2-C09/findings/fail.txt", "w"); fwrite(out, olen, 1, d); fclose(d); }
			return 1;
		}
		mpt_node_clear(&root);
		freetree(t);
	}
	printf("ok %d\n", iter);
	return 0;
}

/*
 * f2: names that contain '.' are refused by mpt_parse_node() in every section
 * style, although '.' is an ordinary "special" character that the name flags
 * (MPT_NAMEFLAG(Special), 's'/'S') permit.
 *
 * build:
 *  gcc -I/tmp/hunt2-C09/mptcore f2_demo.c -o f2_demo \
 *      -L/tmp/hunt2-C09/_build/mptcore -lmptcore -Wl,-rpath,/tmp/hunt2-C09/_build/mptcore
 */
#include <stdio.h>
#include <string.h>
#include <sys/uio.h>

#include "node.h"
#include "config.h"
#include "parse.h"

static int parse(struct mpt_node *root, const char *fmt, const char *txt)
{
	struct mpt_parser_context ctx = MPT_PARSER_INIT;
	FILE *f = fmemopen((void *) txt, strlen(txt), "r");
	int ret;
	/* sections and options: numerals and special characters permitted */
	if (mpt_parse_accept(&ctx.name, "NSns") < 0) return -100;
	ctx.src.getc = (int (*)(void *)) mpt_getchar_stdio;
	ctx.src.arg  = f;
	ret = mpt_parse_node(root, &ctx, fmt);
	fclose(f);
	return ret;
}
static int expect(const char *fmt, const char *txt, const char *sect, const char *opt, const char *val)
{
	struct mpt_node root = MPT_NODE_INIT, *s, *o;
	const char *id, *d;
	int ret, fail = 1;
	
	if ((ret = parse(&root, fmt, txt)) < 0) {
		printf("format '%s': section '%s' option '%s': parse error %d\n", fmt, sect, opt, ret);
		return 1;
	}
	if (!(s = root.children) || !(id = mpt_node_ident(s)) || strcmp(id, sect)) {
		printf("format '%s': bad section name\n", fmt);
	}
	else if (!(o = s->children) || !(id = mpt_node_ident(o)) || strcmp(id, opt)) {
		printf("format '%s': bad option name\n", fmt);
	}
	else if (!(d = mpt_node_data(o, 0)) || strcmp(d, val)) {
		printf("format '%s': bad option value\n", fmt);
	}
	else {
		printf("format '%s': section '%s' option '%s': ok\n", fmt, sect, opt);
		fail = 0;
	}
	mpt_node_clear(&root);
	return fail;
}
int main(void)
{
	int fail = 0;
	
	/* control: other special characters are fine */
	fail |= expect("{*} = #", "lib-v1_2 {\n  file:name = x\n}\n", "lib-v1_2", "file:name", "x");
	
	/* dotted option name */
	fail |= expect("{*} = #", "files {\n  lib.so = x\n}\n", "files", "lib.so", "x");
	fail |= expect("[x] = #", "[files\n  lib.so = x\n]\n", "files", "lib.so", "x");
	fail |= expect("[ ] = #", "[files]\n  lib.so = x\n",   "files", "lib.so", "x");
	/* dotted section name */
	fail |= expect("{*} = #", "v1.2 {\n  file = x\n}\n", "v1.2", "file", "x");
	fail |= expect("[x] = #", "[v1.2\n  file = x\n]\n", "v1.2", "file", "x");
	fail |= expect("[ ] = #", "[v1.2]\n  file = x\n",   "v1.2", "file", "x");
	
	return fail;
}

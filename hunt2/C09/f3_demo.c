/*
 * f3: an option with an empty name ("= value", permitted by
 * MPT_NAMEFLAG(Empty)) is read correctly in the prepending section style,
 * but in the separating ("[ ]") and encapsulated ("[x]") styles the
 * assignment character becomes part of the value.
 *
 * build:
 *  gcc -I/tmp/hunt2-C09/mptcore f3_demo.c -o f3_demo \
 *      -L/tmp/hunt2-C09/_build/mptcore -lmptcore -Wl,-rpath,/tmp/hunt2-C09/_build/mptcore
 */
#include <stdio.h>
#include <string.h>
#include <sys/uio.h>

#include "node.h"
#include "config.h"
#include "parse.h"

static int check(const char *fmt, const char *txt)
{
	struct mpt_parser_context ctx = MPT_PARSER_INIT; /* all names permitted, including empty ones */
	struct mpt_node root = MPT_NODE_INIT, *s, *o;
	FILE *f = fmemopen((void *) txt, strlen(txt), "r");
	const char *d;
	int ret, fail = 1;
	
	ctx.src.getc = (int (*)(void *)) mpt_getchar_stdio;
	ctx.src.arg  = f;
	ret = mpt_parse_node(&root, &ctx, fmt);
	fclose(f);
	
	if (ret < 0) {
		printf("format '%s': parse error %d\n", fmt, ret);
	}
	/* expected:  sec { <unnamed> = "value";  b = "2" } */
	else if (!(s = root.children) || !mpt_node_ident(s) || strcmp(mpt_node_ident(s), "sec")
	         || !(o = s->children) || mpt_node_ident(o)
	         || !o->next || !mpt_node_ident(o->next) || strcmp(mpt_node_ident(o->next), "b")) {
		printf("format '%s': different tree structure\n", fmt);
	}
	else if (!(d = mpt_node_data(o, 0)) || strcmp(d, "value")) {
		printf("format '%s': value of unnamed option is '%s', expected 'value'\n", fmt, d ? d : "(null)");
	}
	else {
		printf("format '%s': ok\n", fmt);
		fail = 0;
	}
	mpt_node_clear(&root);
	return fail;
}
int main(void)
{
	int fail = 0;
	fail |= check("{*} = #", "sec {\n  = value\n  b = 2\n}\n");
	fail |= check("[ ] = #", "[sec]\n  = value\n  b = 2\n");
	fail |= check("[x] = #", "[sec\n  = value\n  b = 2\n]\n");
	/* no white space at all */
	fail |= check("[ ] = #", "[sec]\n=value\nb=2\n");
	return fail;
}

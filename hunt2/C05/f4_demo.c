/*
 * f4: mpt_buffer_insert() does not notice that used + len wraps.
 *
 *     mpt_buffer_insert(buf, 1 * size, (size_t) -size)
 * on a typed buffer with 3 elements "inserts minus one element":
 * total = 48 + (2^64 - 16) = 32 passes the capacity check, _used becomes 32
 * and memmove() copies elements 1,2 over element 0.  Element 0 is removed
 * without its finaliser being called: after the last handle is released one
 * element is still alive.  (With pos = 0 the memmove target lies in front of
 * the element area and destroys the buffer header.)
 *
 * exit 1 = an element was dropped without finaliser.
 *
 * build: gcc -I<src>/mptcore -I<build>/mptcore f4_demo.c -L<build>/mptcore -lmptcore
 */
#include <stdio.h>
#include <stdlib.h>
#include <stdint.h>

#include "types.h"
#include "array.h"

struct elem {
	uint64_t magic;
	uint64_t serial;
};
static long alive = 0;
static uint64_t serial = 0;

static int elem_init(void *ptr, const void *src)
{
	struct elem *e = ptr;
	e->magic = 0x656c656d656e7421ULL;
	e->serial = ++serial;
	++alive;
	return src ? 1 : 0;
}
static void elem_fini(void *ptr)
{
	struct elem *e = ptr;
	e->magic = 0;
	--alive;
}
static const MPT_STRUCT(type_traits) traits = { elem_init, elem_fini, sizeof(struct elem) };

int main(void)
{
	MPT_STRUCT(array) arr = MPT_ARRAY_INIT;
	MPT_STRUCT(buffer) *b;
	struct elem *e;
	void *ret;
	
	if (!mpt_array_set(&arr, &traits, 3 * sizeof(struct elem), 0, 0)) {
		return 2;
	}
	b = arr._buf;
	e = (struct elem *) (b + 1);
	fprintf(stderr, "before: used %zu, serials %d %d %d, alive %ld\n",
	        b->_used, (int) e[0].serial, (int) e[1].serial, (int) e[2].serial, alive);
	
	ret = mpt_buffer_insert(b, sizeof(struct elem), (size_t) 0 - sizeof(struct elem));
	
	fprintf(stderr, "insert returned %p: used %zu, serials %d %d, alive %ld\n",
	        ret, b->_used, (int) e[0].serial, (int) e[1].serial, alive);
	
	mpt_array_clone(&arr, 0);
	if (alive) {
		fprintf(stderr, "%ld element(s) alive after the last handle was released\n", alive);
		return 1;
	}
	return 0;
}

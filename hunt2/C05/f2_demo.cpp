/*
 * f2: typed_array<T>::insert(pos, const T &val) with val referring to an
 *     element of the same array copy-constructs from released memory.
 *
 *     a.insert(a.length(), *a.get(0));      // "push_back(v[0])"
 *
 * insert() first calls reserve(len + 1).  When the block is full the
 * elements are moved to a new block and the old block is free()d; `val`
 * still points into the old block and `new (d) T(val)` reads it.
 *
 * The demo needs no memory checker: the copy constructor records its source
 * address, main() compares it with the block that was released.
 * exit 1 = constructor was run on an address inside the released block.
 * Compiled with -fsanitize=address the same run reports
 * heap-use-after-free in T::T(const T &) (the template code is part of
 * this translation unit).
 *
 * build: g++ -I<src>/mptcore -I<build>/mptcore f2_demo.cpp \
 *            -L<build>/mpt++ -lmpt++ -L<build>/mptcore -lmptcore
 */
#include <cstdio>
#include <cstdlib>

#include "array.h"

static const void *last_copy_source = 0;
static long alive = 0;

class tracked
{
public:
	tracked() : magic(0x656c656d), value(0)
	{ ++alive; }
	tracked(const tracked &from) : magic(0x656c656d)
	{
		last_copy_source = &from;
		value = from.value;
		++alive;
	}
	~tracked()
	{ magic = 0; --alive; }
	tracked &operator =(const tracked &from)
	{ value = from.value; return *this; }
	
	uint32_t magic;
	long value;
};

int main()
{
	int ret = 0;
	{
		mpt::typed_array<tracked> a;
		tracked t;
		
		/* fill first allocation block completely:
		 * 128 byte allocation unit - 64 byte header = 4 elements of 16 byte */
		const long fill = 64 / sizeof(tracked);
		for (long i = 0; i < fill; i++) {
			t.value = i + 1;
			if (!a.insert(i, t)) return 2;
		}
		const tracked *first = a.get(0);
		/* buffer header directly precedes the elements */
		const uint8_t *old_begin = reinterpret_cast<const uint8_t *>(reinterpret_cast<const mpt::buffer *>(first) - 1);
		const uint8_t *old_end = reinterpret_cast<const uint8_t *>(first + fill);
		
		/* append a copy of the first element */
		last_copy_source = 0;
		long len = a.length();
		if (!a.insert(len, *a.get(0))) {
			fprintf(stderr, "refused: acceptable\n");
		}
		else if (a.get(0) == first) {
			fprintf(stderr, "setup: block was not reallocated, nothing tested\n");
			ret = 2;
		}
		else if (a.get(0) != first
		      && reinterpret_cast<const uint8_t *>(last_copy_source) >= old_begin
		      && reinterpret_cast<const uint8_t *>(last_copy_source) <  old_end) {
			fprintf(stderr, "elements were moved from %p to %p (old block released),\n"
			                "but element %ld was copy-constructed afterwards from %p inside the released block\n",
			        (const void *) first, (const void *) a.get(0), len, last_copy_source);
			ret = 1;
		}
	}
	if (alive) {
		fprintf(stderr, "%ld elements alive\n", alive);
		ret = 1;
	}
	return ret;
}

/*
 * f1: mpt_array_set() with source data that lives in the target array
 *     runs the element copy constructor on freed memory.
 *
 * A typed array (element type with init/fini) fills its allocation block
 * completely.  Then a copy of its first element is appended:
 *     mpt_array_set(&arr, &traits, sizeof(elem), address_of_element_0, count)
 * The block has to grow: detach() moves the elements to a new block and
 * free()s the old one, afterwards mpt_buffer_set() copy-constructs the new
 * element from the (now dangling) source address.
 *
 * Second variant without reallocation: assigning elements [1,3) to
 * positions [0,2) of the same array finalises element 1 before it is used
 * as copy source ("read after destruction").
 *
 * The demo needs no memory checker: the copy constructor records the source
 * addresses it is called with, main() compares them with the block that
 * has been released.  exit 1 = constructor read the released block.
 *
 * With the library sources compiled with -fsanitize=address the same run
 * (also with mpt_array_traits() elements) is reported as
 *   heap-use-after-free READ in <init> <- mpt_buffer_set <- mpt_array_set,
 *   freed by _mpt_buffer_alloc_detach (buffer_alloc.c:171).
 *
 * build: gcc -I<src>/mptcore -I<build>/mptcore f1_demo.c -L<build>/mptcore -lmptcore
 */
#include <stdio.h>
#include <stdlib.h>
#include <string.h>
#include <stdint.h>

#include "types.h"
#include "array.h"

struct elem {
	uint64_t magic;
	uint64_t serial;
};
static uint64_t serial = 0;
static const void *last_copy_source = 0;
static long alive = 0;
static int copy_from_destroyed = 0;

static int elem_init(void *ptr, const void *src)
{
	struct elem *e = ptr;
	if (src) {
		last_copy_source = src;
		if (((const struct elem *) src)->magic != 0x656c656d656e7421ULL) {
			/* source has been finalised (or never was an element) */
			++copy_from_destroyed;
			return -1;
		}
	}
	e->magic = 0x656c656d656e7421ULL;
	e->serial = ++serial;
	++alive;
	return src ? 1 : 0;
}
static void elem_fini(void *ptr)
{
	struct elem *e = ptr;
	e->magic = 0;
	--alive;
}
static const MPT_STRUCT(type_traits) traits = { elem_init, elem_fini, sizeof(struct elem) };

int main(void)
{
	MPT_STRUCT(array) arr = MPT_ARRAY_INIT;
	MPT_STRUCT(buffer) *old;
	const uint8_t *old_begin, *old_end;
	struct elem *first;
	size_t i, count;
	int ret = 0;
	
	/* fill the first allocation block completely */
	if (!mpt_array_set(&arr, &traits, sizeof(struct elem), 0, 0)) return 2;
	count = arr._buf->_size / sizeof(struct elem);
	for (i = 1; i < count; i++) {
		if (!mpt_array_set(&arr, &traits, sizeof(struct elem), 0, i)) return 2;
	}
	old = arr._buf;
	if (old->_used != old->_size) {
		fprintf(stderr, "setup: block not full (%zu/%zu)\n", old->_used, old->_size);
		return 2;
	}
	old_begin = (const uint8_t *) old;
	old_end   = ((const uint8_t *) (old + 1)) + old->_size;
	first = (struct elem *) (old + 1);
	
	/* append a copy of element 0: source is part of the same (unshared) array */
	last_copy_source = 0;
	if (!mpt_array_set(&arr, &traits, sizeof(*first), first, count)) {
		fprintf(stderr, "refused: acceptable\n");
		mpt_array_clone(&arr, 0);
		return alive ? 1 : 0;
	}
	if (arr._buf != old
	 && (const uint8_t *) last_copy_source >= old_begin
	 && (const uint8_t *) last_copy_source <  old_end) {
		fprintf(stderr, "elements were moved from block %p to %p (old block released),\n"
		                "but the copy constructor was run afterwards on source %p inside the released block\n",
		        (void *) old, (void *) arr._buf, last_copy_source);
		ret = 1;
	}
	/* variant b (no reallocation): move elements 1,2 to positions 0,1.
	 * mpt_buffer_set() finalises the target range [0,2) first and then
	 * copy-constructs element 0 from the already finalised element 1. */
	first = (struct elem *) (arr._buf + 1);
	copy_from_destroyed = 0;
	if (mpt_array_set(&arr, &traits, 2 * sizeof(*first), first + 1, 0)
	 && copy_from_destroyed) {
		fprintf(stderr, "in-place assignment: %d element(s) were passed to the copy constructor after their finaliser had run\n",
		        copy_from_destroyed);
		ret = 1;
	}
	mpt_array_clone(&arr, 0);
	if (alive) {
		fprintf(stderr, "%ld elements alive after release\n", alive);
		ret = 1;
	}
	return ret;
}

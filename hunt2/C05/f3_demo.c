/*
 * f3: request for more space than can exist is not refused: the allocation
 *     size wraps in _mpt_buffer_alloc() and detach() copies the existing
 *     elements over the end of the (small) new block.
 *
 *     mpt_array_slice(&arr, 0, SIZE_MAX - 15)     (default)
 *     mpt_array_reserve(&arr, SIZE_MAX - 15, t)   (argument "reserve")
 *     mpt_array_set(&arr, t, SIZE_MAX - 15, 0, 0) (argument "set")
 * on a typed array that holds 20 elements (320 byte).
 *
 * Result: new block has _size = 64 but _used = 320; 256 byte of element data
 * were written behind the allocation (ASan: heap-buffer-overflow WRITE in
 * memcpy <- _mpt_buffer_alloc_detach, buffer_alloc.c:167) and on release the
 * finaliser is run for 16 "elements" that lie outside the block.
 * Without ASan the demo detects _used > _size and exits 1 (the plain run may
 * also be killed by the allocator).
 *
 * build: gcc -I<src>/mptcore -I<build>/mptcore f3_demo.c -L<build>/mptcore -lmptcore
 */
#include <stdio.h>
#include <stdlib.h>
#include <string.h>
#include <stdint.h>
#include <unistd.h>

#include "types.h"
#include "array.h"

struct elem {
	uint64_t magic;
	uint64_t serial;
};
static long alive = 0;
static uint64_t serial = 0;

static int elem_init(void *ptr, const void *src)
{
	struct elem *e = ptr;
	e->magic = 0x656c656d656e7421ULL;
	e->serial = ++serial;
	++alive;
	return src ? 1 : 0;
}
static void elem_fini(void *ptr)
{
	struct elem *e = ptr;
	e->magic = 0;
	--alive;
}
static const MPT_STRUCT(type_traits) traits = { elem_init, elem_fini, sizeof(struct elem) };

int main(int argc, char *argv[])
{
	MPT_STRUCT(array) arr = MPT_ARRAY_INIT;
	MPT_STRUCT(buffer) *b;
	const size_t huge = SIZE_MAX - 15; /* multiple of the element size */
	void *ret;
	
	if (!mpt_array_set(&arr, &traits, 20 * sizeof(struct elem), 0, 0)) {
		return 2;
	}
	b = arr._buf;
	fprintf(stderr, "before: block size %zu, used %zu, %ld elements alive\n", b->_size, b->_used, alive);
	
	if (argc > 1 && !strcmp(argv[1], "reserve")) {
		ret = mpt_array_reserve(&arr, huge, &traits);
	}
	else if (argc > 1 && !strcmp(argv[1], "set")) {
		ret = mpt_array_set(&arr, &traits, huge, 0, 0);
	}
	else {
		ret = mpt_array_slice(&arr, 0, huge);
	}
	b = arr._buf;
	fprintf(stderr, "request for %zu byte returned %p: block size %zu, used %zu\n", huge, ret, b->_size, b->_used);
	if (b->_used > b->_size) {
		fprintf(stderr, "%zu byte of elements lie behind the end of the block\n", b->_used - b->_size);
		/* heap is damaged, no cleanup */
		_exit(1);
	}
	mpt_array_clone(&arr, 0);
	return alive ? 1 : 0;
}

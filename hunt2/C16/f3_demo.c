/*
 * f3: mpt_identifier_set(id, name, INT_MAX) is not refused as "max length
 * exceeded" but copies INT_MAX bytes into the inline data of the identifier.
 *
 * Every other length above 65534 is rejected with a NULL result and the
 * identifier is left alone.  For len == INT_MAX the text length with
 * terminator (len + 1) overflows the int it is kept in, passes both the
 * limit and the capacity check and ends in memmove(id->_val, name, INT_MAX).
 *
 * The source is a lazily mapped (zero) region of the required size, so the
 * call itself is well defined for the caller.
 *
 * exit 0: refused, previous content intact
 * killed by SIGSEGV / exit 1: violation
 */
#include <stdio.h>
#include <stdlib.h>
#include <string.h>
#include <limits.h>
#include <signal.h>
#include <unistd.h>
#include <sys/mman.h>

#include "core.h"

static void segv(int sig)
{
	static const char msg[] = "SIGSEGV inside mpt_identifier_set(id, name, INT_MAX)\n";
	(void) sig;
	if (write(2, msg, sizeof(msg) - 1) < 0) { }
	_exit(1);
}

int main(void)
{
	MPT_STRUCT(identifier) *id;
	size_t total = (size_t) INT_MAX + 1;
	char *name;
	void *ret;
	
	name = mmap(0, total, PROT_READ, MAP_PRIVATE | MAP_ANONYMOUS | MAP_NORESERVE, -1, 0);
	if (name == MAP_FAILED) {
		perror("mmap");
		return 2;
	}
	if (!(id = mpt_identifier_new(0))
	 || !mpt_identifier_set(id, "short", -1)) {
		return 2;
	}
	/* regular refusals */
	if (mpt_identifier_set(id, name, 65535)
	 || mpt_identifier_set(id, name, INT_MAX - 1)
	 || mpt_identifier_compare(id, "short", 5)) {
		fputs("unexpected result for other excess lengths\n", stderr);
		return 2;
	}
	signal(SIGSEGV, segv);
	signal(SIGBUS, segv);
	
	ret = mpt_identifier_set(id, name, INT_MAX);
	
	if (ret || mpt_identifier_compare(id, "short", 5)) {
		printf("length INT_MAX accepted: ret = %p, _len = %d\n", ret, id->_len);
		return 1;
	}
	puts("length INT_MAX refused, content intact");
	return 0;
}

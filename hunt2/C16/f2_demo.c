/*
 * f2: mpt_identifier_compare(id, NULL, n) is off by one for the non-printable
 * content that mpt_identifier_set(id, NULL, n) stores.
 *
 * set(id, 0, n) stores exactly n zero bytes (_len == n, no terminator, charset 0).
 * compare(id, 0, n) with the very same arguments reports a length mismatch,
 * compare(id, 0, n-1) (one byte LESS than stored) reports equality.
 * Checked for inline and separately allocated content of several storage sizes.
 *
 * exit 0: equality is reported exactly for the stored length
 * exit 1: violation
 */
#include <stdio.h>
#include <stdlib.h>

#include "core.h"

int main(void)
{
	static const int size[] = { 16, 32, 64, 256 };
	static const int len[] = { 1, 5, 12, 13, 28, 29, 60, 61, 252, 253, 1000, 65535 };
	unsigned s, l;
	int bad = 0;
	
	for (s = 0; s < sizeof(size) / sizeof(*size); s++) {
		for (l = 0; l < sizeof(len) / sizeof(*len); l++) {
			MPT_STRUCT(identifier) *id = malloc(size[s]), *cpy;
			int n = len[l], same, less;
			
			mpt_identifier_init(id, size[s]);
			if (!mpt_identifier_set(id, 0, n) || id->_len != n) {
				fputs("setup failed\n", stderr);
				return 2;
			}
			/* an identical copy is equal by mpt_identifier_inequal() */
			cpy = mpt_identifier_new(0);
			if (!mpt_identifier_copy(cpy, id) || mpt_identifier_inequal(cpy, id)) {
				fputs("copy differs\n", stderr);
				return 2;
			}
			same = mpt_identifier_compare(id, 0, n);
			less = mpt_identifier_compare(id, 0, n - 1);
			if (same != 0 || less == 0) {
				if (bad++ < 6) {
					printf("storage %3d, %5d zero bytes stored: compare(id, 0, %d) = %d, compare(id, 0, %d) = %d\n",
					       size[s], n, n, same, n - 1, less);
				}
			}
			mpt_identifier_set(cpy, 0, 0);
			mpt_identifier_set(id, 0, 0);
			free(cpy);
			free(id);
		}
	}
	if (bad) {
		printf("%d of %u combinations compare wrong\n", bad,
		       (unsigned) (sizeof(size) / sizeof(*size) * sizeof(len) / sizeof(*len)));
		return 1;
	}
	puts("binary content compares equal exactly for its own length");
	return 0;
}

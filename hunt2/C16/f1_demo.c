/*
 * f1: mpt_node_clone() keeps using (and returns) the copy it has just
 * destroyed when copying the long node name fails.
 *
 * The only fallible step of mpt_identifier_copy() is the separate allocation
 * for a name that does not fit the inline capacity of the new node, so the
 * demo lets exactly that allocation fail (malloc wrapper in the executable,
 * glibc only) and records every block handed to free().
 *
 * exit 0: clone reports failure with a NULL result
 * exit 1: clone returned a pointer to memory that has already been freed
 */
#include <stdio.h>
#include <stdlib.h>
#include <string.h>

#include "node.h"

extern void *__libc_malloc(size_t);
extern void __libc_free(void *);

static size_t fail_size = 0;
static int failed = 0;
static void *freed[64];
static int nfreed = 0;

void *malloc(size_t len)
{
	if (fail_size && len == fail_size) {
		++failed;
		return 0;
	}
	return __libc_malloc(len);
}
void free(void *ptr)
{
	if (fail_size && ptr && nfreed < 64) {
		freed[nfreed++] = ptr;
		return; /* keep block: no reuse, later accesses stay observable */
	}
	__libc_free(ptr);
}

int main(void)
{
	enum { NameLen = 300 }; /* > inline capacity of any node (max. 211) */
	MPT_STRUCT(node) *orig, *copy;
	char name[NameLen];
	int i;
	
	memset(name, 'n', sizeof(name));
	if (!(orig = mpt_node_new(0))
	 || !mpt_identifier_set(&orig->ident, name, NameLen)) {
		fputs("setup failed\n", stderr);
		return 2;
	}
	/* identifier copy needs NameLen + 1 bytes for the long content */
	fail_size = orig->ident._len;
	copy = mpt_node_clone(orig);
	fail_size = 0;
	
	if (!failed) {
		fputs("allocation was not requested\n", stderr);
		return 2;
	}
	/* source must be untouched */
	if (mpt_identifier_compare(&orig->ident, name, NameLen)) {
		fputs("source name changed\n", stderr);
		return 3;
	}
	if (!copy) {
		puts("clone failed cleanly");
		return 0;
	}
	for (i = 0; i < nfreed; i++) {
		if (freed[i] == (void *) copy) {
			printf("mpt_node_clone returned %p, which it passed to free() before\n", (void *) copy);
			return 1;
		}
	}
	puts("clone returned a live node although the name copy failed");
	return 1;
}

/*
 * f2: "pos" of text/graph (range 0..1) and "scale" of graph (range 0..FLT_MAX)
 *     accept NaN coordinates; the single-coordinate setters "x"/"y" refuse them.
 */
#include <cstdio>
#include <cmath>

#include "layout.h"

int main()
{
	int bad = 0;
	
	mpt::layout::text tx;
	int ret = mpt_object_set_string(&tx, "pos", "nan 0.25", 0);
	printf("text.pos = \"nan 0.25\": ret=%d pos=(%g, %g)\n", ret, tx.pos.x, tx.pos.y);
	if (ret >= 0 && !(tx.pos.x >= 0.0f && tx.pos.x <= 1.0f)) ++bad;
	
	/* the same coordinate is refused by the other name of the same field */
	mpt::layout::text t2;
	ret = mpt_object_set_string(&t2, "x", "nan", 0);
	printf("text.x   = \"nan\":      ret=%d x=%g\n", ret, t2.pos.x);
	
	/* typed value */
	mpt::fpoint pt(0.25f, NAN);
	mpt::value val;
	val.set(mpt::mpt_fpoint_typeid(), &pt);
	mpt::layout::graph gr;
	ret = mpt_object_set_value(&gr, "pos", &val);
	printf("graph.pos = fpoint(0.25, nan): ret=%d pos=(%g, %g)\n", ret, gr.pos.x, gr.pos.y);
	if (ret >= 0 && !(gr.pos.y >= 0.0f && gr.pos.y <= 1.0f)) ++bad;
	
	ret = mpt_object_set_string(&gr, "scale", "nan nan", 0);
	printf("graph.scale = \"nan nan\": ret=%d scale=(%g, %g)\n", ret, gr.scale.x, gr.scale.y);
	if (ret >= 0 && !(gr.scale.x >= 0.0f)) ++bad;
	
	/* value read back can not be assigned again by coordinate */
	mpt::property pr("x");
	tx.property(&pr);
	ret = mpt_object_set_value(&t2, "x", &pr.val);
	printf("text.x = <value read back from the first text>: ret=%d\n", ret);
	
	if (bad) {
		printf("FAIL: %d out-of-range (NaN) coordinates stored in range-limited points\n", bad);
		return 1;
	}
	printf("ok\n");
	return 0;
}

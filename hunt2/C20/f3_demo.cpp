/*
 * f3: mpt::text::set_value() / set_font() report the text length as bool:
 *     a successful reset is reported as refusal, an allocation error as success.
 */
#include <cstdio>

#include "layout.h"

int main()
{
	int bad = 0;
	mpt::text tx;
	
	bool ok = tx.set_value("abc");
	printf("set_value(\"abc\") -> %d, value=%s\n", ok, tx.value() ? tx.value() : "(null)");
	
	ok = tx.set_value("");
	printf("set_value(\"\")    -> %d, value=%s\n", ok, tx.value() ? tx.value() : "(null)");
	/* refusal must leave the object unchanged, success must be reported as such */
	if (!ok && !tx.value()) ++bad;
	
	tx.set_font("Sans");
	ok = tx.set_font(0);
	printf("set_font(0)      -> %d, font=%s\n", ok, tx.font() ? tx.font() : "(null)");
	if (!ok && !tx.font()) ++bad;
	
	/* same operation on the sibling class reports success */
	mpt::world w;
	w.set_alias("abc");
	ok = w.set_alias("");
	printf("world::set_alias(\"\") -> %d, alias=%s\n", ok, w.alias() ? w.alias() : "(null)");
	
	if (bad) {
		printf("FAIL: %d resets reported as refused although the text was cleared\n", bad);
		return 1;
	}
	printf("ok\n");
	return 0;
}

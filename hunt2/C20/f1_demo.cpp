/*
 * f1: white-space-only text is "accepted" by numeric properties and stores
 *     an uninitialised temporary (line/world width,style,symbol,size;
 *     axis intervals; graph grid; text x,y).
 *
 * build: see f1.txt
 */
#include <cstdio>
#include <cstring>
#include <cmath>

#include "layout.h"

/* fill the stack area below the current frame with a known byte */
static __attribute__((noinline)) void poison(int byte)
{
	volatile char buf[16384];
	memset((void *) buf, byte, sizeof(buf));
	__asm__ volatile ("" : : "r" (buf) : "memory");
}

template <typename T>
static int set_ws(T &obj, const char *name, int byte)
{
	poison(byte);
	return mpt_object_set_string(&obj, name, " ", 0);
}

int main()
{
	int bad = 0;
	
	/* line width: default 1, valid range 0..10 */
	for (int byte = 2; byte <= 7; byte += 5) {
		mpt::layout::line li;
		int ret = set_ws(li, "width", byte);
		printf("line.width = \" \" (stack filled with %d): ret=%d width=%d (default 1)\n", byte, ret, li.attr.width);
		if (ret >= 0 && li.attr.width != 1) ++bad;
	}
	/* line size: default 10 */
	{
		mpt::layout::line li;
		int ret = set_ws(li, "size", 3);
		printf("line.size = \" \": ret=%d size=%d (default 10)\n", ret, li.attr.size);
		if (ret >= 0 && li.attr.size != 10) ++bad;
	}
	/* axis intervals: default 0 */
	{
		mpt::layout::graph::axis ax;
		int ret = set_ws(ax, "intervals", 9);
		printf("axis.intervals = \" \": ret=%d intv=%d (default 0)\n", ret, ax.intv);
		if (ret >= 0 && ax.intv != 0) ++bad;
	}
	/* graph grid: default 0 */
	{
		mpt::layout::graph gr;
		int ret = set_ws(gr, "grid", 9);
		printf("graph.grid = \" \": ret=%d grid=%d (default 0)\n", ret, gr.grid);
		if (ret >= 0 && gr.grid != 0) ++bad;
	}
	/* text x: default 0.5, valid range 0..1;  0x3e3e3e3e is 0.18578 as float */
	{
		mpt::layout::text tx;
		int ret = set_ws(tx, "x", 0x3e);
		printf("text.x = \" \": ret=%d x=%g (default 0.5)\n", ret, tx.pos.x);
		if (ret >= 0 && tx.pos.x != 0.5f) ++bad;
	}
	/* direct-to-field setters: accepted, but neither the default nor a new value */
	{
		mpt::layout::text tx;
		mpt_object_set_string(&tx, "size", "20", 0);
		int ret = mpt_object_set_string(&tx, "size", " ", 0);
		printf("text.size = \"20\" then \" \": ret=%d size=%d (default 10)\n", ret, tx.size);
		if (ret >= 0 && tx.size != 10) ++bad;
	}
	if (bad) {
		printf("FAIL: %d assignments of \" \" were accepted and left a value that is neither given nor the default\n", bad);
		return 1;
	}
	printf("ok\n");
	return 0;
}

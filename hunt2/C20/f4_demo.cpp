/*
 * f4: numeric properties set from text accept any text behind the number
 *     and store a different value than the one written.
 */
#include <cstdio>
#include <cstdlib>
#include <cmath>

#include "layout.h"

static int bad = 0;

static void check(const char *what, const char *txt, int ret, double got)
{
	double want = strtod(txt, 0);
	printf("%-16s = \"%s\": ret=%d stored=%g", what, txt, ret, got);
	if (ret >= 0 && got != want) {
		printf("   <-- accepted, but not the value written (%g)", want);
		++bad;
	}
	printf("\n");
}

int main()
{
	int ret;
	{
		mpt::layout::graph::world w;
		ret = mpt_object_set_string(&w, "cycles", "1e3", 0);
		check("world.cycles", "1e3", ret, w.cyc);
		ret = mpt_object_set_string(&w, "size", "1.9e1", 0);
		check("world.size", "1.9e1", ret, w.attr.size);
	}
	{
		mpt::layout::graph::axis a;
		ret = mpt_object_set_string(&a, "exponent", "2.5e2", 0);
		check("axis.exponent", "2.5e2", ret, a.exp);
		ret = mpt_object_set_string(&a, "decimals", "1e1", 0);
		check("axis.decimals", "1e1", ret, a.dec);
		ret = mpt_object_set_string(&a, "intervals", "0.5e1", 0);
		check("axis.intervals", "0.5e1", ret, a.intv);
	}
	{
		mpt::layout::text t;
		ret = mpt_object_set_string(&t, "size", "1e1", 0);
		check("text.size", "1e1", ret, t.size);
	}
	{
		/* not a number at all behind the first digits */
		mpt::layout::line l;
		ret = mpt_object_set_string(&l, "x1", "12abc", 0);
		printf("line.x1          = \"12abc\": ret=%d stored=%g\n", ret, l.from.x);
		if (ret >= 0) ++bad;
		ret = mpt_object_set_string(&l, "width", "5 apples", 0);
		printf("line.width       = \"5 apples\": ret=%d stored=%d\n", ret, l.attr.width);
		if (ret >= 0) ++bad;
	}
	if (bad) {
		printf("FAIL: %d texts accepted whose value is not what is read back\n", bad);
		return 1;
	}
	printf("ok\n");
	return 0;
}

/*
 * f3: a reply whose id does not fit into 64 bit (header width 9) is not refused by
 *     the stream dispatcher of a connection: streamWrapper() logs "reply id invalid",
 *     and goes on to look up the reply handler with the never assigned variable `mid`.
 *     Whatever request id the stack garbage equals gets the foreign reply.
 *
 * build (from /tmp/hunt2-C12):
 *   B=/tmp/hunt2-C12/_build; S=/tmp/hunt2-C12
 *   gcc -g -I$S/mptcore -I$S/mptio findings/f3_demo.c -o /tmp/f3_demo \
 *       -L$B/mptio -lmptio -L$B/mptcore -lmptcore -Wl,-rpath,$B/mptio -Wl,-rpath,$B/mptcore
 * run: /tmp/f3_demo             -> exit 1 on the current tree (a request handler is called)
 *      valgrind -q /tmp/f3_demo -> "Conditional jump or move depends on uninitialised value(s)
 *                                   at mpt_command_find / by mpt_command_get / by streamWrapper"
 *
 * To make the outcome independent of the accidental stack content, 255 requests
 * (ids 1..255) are outstanding and the stack below main() is filled with a small
 * value before the dispatch; valgrind shows the uninitialised use without that.
 */
#include <stdio.h>
#include <string.h>
#include <stdlib.h>
#include <unistd.h>
#include <sys/socket.h>
#include <sys/uio.h>

#include "meta.h"
#include "array.h"
#include "message.h"
#include "convert.h"
#include "event.h"
#include "output.h"
#include "stream.h"
#include "connection.h"

static int calls;
static int answer(void *arg, void *m)
{
	if (!m) {
		return 0;
	}
	fprintf(stderr, "  handler of request id %lu got the reply\n", (unsigned long) (uintptr_t) arg);
	calls++;
	return 0;
}
static int event(void *arg, MPT_STRUCT(event) *ev)
{
	(void) arg; (void) ev;
	return 0;
}
static int mkstream(MPT_STRUCT(stream) *s, int fd)
{
	MPT_STRUCT(socket) sock; 
	sock._id = fd;
	s->_rd._dec = mpt_message_decoder(MPT_ENUM(EncodingCobs));
	s->_wd._enc = mpt_message_encoder(MPT_ENUM(EncodingCobs));
	return mpt_stream_dopen(s, &sock, MPT_STREAMFLAG(RdWr) | MPT_STREAMFLAG(Buffer));
}
/* defined content for the unused part of the stack */
static void __attribute__((noinline)) stackfill(uint64_t v)
{
	volatile uint64_t a[2048];
	size_t i;
	for (i = 0; i < 2048; i++) a[i] = v;
	(void) a[0];
}
int main()
{
	static const MPT_STRUCT(stream) init = MPT_STREAM_INIT;
	MPT_STRUCT(connection) con = MPT_CONNECTION_INIT;
	MPT_STRUCT(stream) *loc, rem = MPT_STREAM_INIT;
	MPT_STRUCT(message) msg = MPT_MESSAGE_INIT;
	MPT_STRUCT(command) *c;
	uint8_t id[9];
	int sv[2], r, i;
	
	alarm(5);
	if (socketpair(AF_UNIX, SOCK_STREAM, 0, sv) < 0) return 2;
	if (!(loc = malloc(sizeof(*loc)))) return 2;
	*loc = init;
	if (mkstream(loc, sv[0]) < 0 || mkstream(&rem, sv[1]) < 0) return 2;
	/* stream backed connection, ids are 9 bytes wide */
	con.out.buf._buf = (void *) loc;
	con.out._idlen = sizeof(id);
	
	/* outstanding requests 1..255 */
	for (i = 1; i < 256; i++) {
		if (!(c = mpt_command_reserve(&con._wait, 4))) return 2;
		c->cmd = answer;
		c->arg = (void *) c->id;
	}
	/* (for builds of the library with gcc -fsanitize=address: unassigned stack
	 *  slots hold the ASan frame magic there) */
	if (mpt_command_set(&con._wait, 0x41b58ab3, answer, (void *) (uintptr_t) 0x41b58ab3) < 0) return 2;
	
	/* peer sends a "reply" for id 2^64 + 2^63: top bit is the reply mark,
	 * 0x01 followed by 8 bytes needs 65 bit */
	memset(id, 0, sizeof(id));
	id[0] = 0x80 | 0x01;
	id[1] = 0x80;
	msg.base = "bogus";
	msg.used = 5;
	if (mpt_stream_reply(&rem, sizeof(id), id, &msg) < 0) return 2;
	mpt_stream_flush(&rem);
	
	mpt_stream_poll(loc, 1 /* POLLIN */, 100);
	stackfill(7);
	r = mpt_connection_dispatch(&con, event, 0);
	fprintf(stderr, "dispatch = 0x%x, request handlers called: %d\n", r, calls);
	
	if (calls) {
		fprintf(stderr, "FAIL: reply with an id that fits no request was delivered to a requester\n");
		return 1;
	}
	fprintf(stderr, "ok (not delivered)\n");
	return 0;
}

/*
 * f1: reply to a datagram request with more than (256 - idlen) bytes of content
 *     crashes in mpt_outdata_reply() (memcpy from NULL) instead of sending the
 *     reply with the request's id.
 *
 * build (from /tmp/hunt2-C12):
 *   B=/tmp/hunt2-C12/_build; S=/tmp/hunt2-C12
 *   gcc -g -I$S/mptcore -I$S/mptio findings/f1_demo.c -o /tmp/f1_demo \
 *       -L$B/mptio -lmptio -L$B/mptcore -lmptcore -Wl,-rpath,$B/mptio -Wl,-rpath,$B/mptcore
 * run: /tmp/f1_demo        -> killed by SIGSEGV (exit 139) on the current tree
 *      /tmp/f1_demo 254    -> exit 0 (largest reply body that works for idlen = 2)
 *
 * The request datagram is put into the connection buffer by hand, exactly as
 * mpt_outdata_recv() is meant to leave it (id at offset 0, state "Received"),
 * because mpt_outdata_recv() itself stores the datagram at the wrong offset (see f4).
 * The reply then takes the regular way:
 *   mpt_connection_dispatch() -> handler -> reply_context::reply()
 *   -> contextSend() -> replyConnection() -> mpt_outdata_reply().
 */
#include <stdio.h>
#include <string.h>
#include <stdlib.h>
#include <unistd.h>
#include <sys/socket.h>
#include <sys/uio.h>

#include "meta.h"
#include "array.h"
#include "message.h"
#include "event.h"
#include "output.h"
#include "connection.h"

static size_t replen = 300;
static uint8_t body[1024];
static int replied = -1000;

static int handler(void *arg, MPT_STRUCT(event) *ev)
{
	MPT_STRUCT(message) msg = MPT_MESSAGE_INIT;
	(void) arg;
	if (!ev->reply) {
		fprintf(stderr, "no reply context for request\n");
		return 0;
	}
	msg.base = body;
	msg.used = replen;
	replied = ev->reply->_vptr->reply(ev->reply, &msg);
	fprintf(stderr, "reply(%zu bytes) = %d\n", replen, replied);
	return 0;
}
int main(int argc, char **argv)
{
	MPT_STRUCT(connection) con = MPT_CONNECTION_INIT;
	static const uint8_t req[] = { 0x01, 0x02, 'h', 'i' }; /* id 0x0102, width 2 */
	uint8_t in[2048];
	ssize_t n;
	size_t i;
	int sv[2], r;
	
	if (argc > 1) replen = atoi(argv[1]);
	if (replen > sizeof(body)) return 2;
	for (i = 0; i < sizeof(body); i++) body[i] = 'a' + i % 26;
	
	if (socketpair(AF_UNIX, SOCK_DGRAM, 0, sv) < 0) return 2;
	con.out.sock._id = sv[0];
	con.out._idlen = 2;
	
	/* received request datagram */
	if (!mpt_array_append(&con.out.buf, sizeof(req), req)) return 2;
	con.out.state |= MPT_OUTFLAG(Received);
	
	r = mpt_connection_dispatch(&con, handler, 0);
	fprintf(stderr, "dispatch = %d\n", r);
	
	n = recv(sv[1], in, sizeof(in), MSG_DONTWAIT);
	fprintf(stderr, "requester got %zd bytes, id %02x %02x\n", n, n > 0 ? in[0] : 0, n > 1 ? in[1] : 0);
	if (replied < 0 || n != (ssize_t) (2 + replen)) {
		fprintf(stderr, "FAIL: reply not delivered\n");
		return 1;
	}
	if (in[0] != 0x81 || in[1] != 0x02) {
		fprintf(stderr, "FAIL: reply does not carry the marked request id\n");
		return 1;
	}
	if (memcmp(in + 2, body, replen)) {
		fprintf(stderr, "FAIL: reply content differs\n");
		return 1;
	}
	fprintf(stderr, "ok\n");
	return 0;
}

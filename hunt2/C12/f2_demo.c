/*
 * f2: mpt_stream_sync() never consumes the reply message it has processed.
 *     - default mode: the reply for request A is delivered a second time, to the
 *       handler of the NEXT request B that happens to get the same (recycled) id,
 *       although the peer never answered B            -> exit 1
 *     - "hang" mode: with two outstanding requests the first reply is processed,
 *       then the same message is looked at forever (busy loop, never polls again)
 *                                                     -> killed by SIGALRM after 5 s
 *
 * build (from /tmp/hunt2-C12):
 *   B=/tmp/hunt2-C12/_build; S=/tmp/hunt2-C12
 *   gcc -g -I$S/mptcore -I$S/mptio findings/f2_demo.c -o /tmp/f2_demo \
 *       -L$B/mptio -lmptio -L$B/mptcore -lmptcore -Wl,-rpath,$B/mptio -Wl,-rpath,$B/mptcore
 * run: /tmp/f2_demo ; /tmp/f2_demo hang
 *
 * This is what mpt_output_remote()::sync() (output_remote.c: remoteSync) and
 * mpt::io::stream::sync() do for stream connections: command array + id width are
 * passed straight to mpt_stream_sync().
 */
#include <stdio.h>
#include <string.h>
#include <stdlib.h>
#include <unistd.h>
#include <sys/socket.h>
#include <sys/uio.h>

#include "meta.h"
#include "array.h"
#include "message.h"
#include "convert.h"
#include "event.h"
#include "stream.h"
#include "connection.h"

static int calls[3];
static char got[3][32];

static int answer(void *arg, void *m)
{
	int i = (int) (intptr_t) arg;
	MPT_STRUCT(message) msg;
	if (!m) {
		return 0;
	}
	msg = *(MPT_STRUCT(message) *) m;
	memset(got[i], 0, sizeof(got[i]));
	mpt_message_read(&msg, sizeof(got[i]) - 1, got[i]);
	fprintf(stderr, "  handler of request %c got reply '%s'\n", i == 1 ? 'A' : 'B', got[i]);
	calls[i]++;
	return 0;
}
static int mkstream(MPT_STRUCT(stream) *s, int fd)
{
	MPT_STRUCT(socket) sock; 
	sock._id = fd;
	s->_rd._dec = mpt_message_decoder(MPT_ENUM(EncodingCobs));
	s->_wd._enc = mpt_message_encoder(MPT_ENUM(EncodingCobs));
	return mpt_stream_dopen(s, &sock, MPT_STREAMFLAG(RdWr) | MPT_STREAMFLAG(Buffer));
}
static void peer_reply(MPT_STRUCT(stream) *rem, uintptr_t rid, const char *txt)
{
	MPT_STRUCT(message) msg = MPT_MESSAGE_INIT;
	uint8_t id[2];
	if (mpt_message_id2buf(rid, id, sizeof(id)) < 0) exit(2);
	id[0] |= 0x80;
	msg.base = txt;
	msg.used = strlen(txt);
	if (mpt_stream_reply(rem, sizeof(id), id, &msg) < 0) exit(2);
	mpt_stream_flush(rem);
}
int main(int argc, char **argv)
{
	MPT_STRUCT(stream) loc = MPT_STREAM_INIT, rem = MPT_STREAM_INIT;
	MPT_STRUCT(array) wait = MPT_ARRAY_INIT;
	MPT_STRUCT(command) *c;
	int sv[2], r, k;
	uintptr_t ida, idb;
	
	alarm(5);
	if (socketpair(AF_UNIX, SOCK_STREAM, 0, sv) < 0) return 2;
	if (mkstream(&loc, sv[0]) < 0 || mkstream(&rem, sv[1]) < 0) return 2;
	
	/* request A is registered (and sent), peer answers it */
	if (!(c = mpt_command_reserve(&wait, 2))) return 2;
	c->cmd = answer; c->arg = (void *) 1; ida = c->id;
	fprintf(stderr, "request A has id %lu\n", (unsigned long) ida);
	
	if (argc > 1 && !strcmp(argv[1], "hang")) {
		if (!(c = mpt_command_reserve(&wait, 2))) return 2;
		c->cmd = answer; c->arg = (void *) 2; idb = c->id;
		fprintf(stderr, "request B has id %lu\n", (unsigned long) idb);
		peer_reply(&rem, ida, "answer-A");
		peer_reply(&rem, idb, "answer-B");
		for (k = 0; k < 4 && (calls[1] + calls[2]) < 2; k++) {
			r = mpt_stream_sync(&loc, 2, &wait, 100);
			fprintf(stderr, "sync = %d\n", r);
		}
		return (calls[1] == 1 && calls[2] == 1) ? 0 : 1;
	}
	peer_reply(&rem, ida, "answer-A");
	for (k = 0; k < 3; k++) {
		r = mpt_stream_sync(&loc, 2, &wait, 100);
		fprintf(stderr, "sync = %d (A answered %d times)\n", r, calls[1]);
	}
	if (calls[1] != 1) {
		fprintf(stderr, "FAIL: request A answered %d times\n", calls[1]);
		return 1;
	}
	/* request B, the peer does NOT answer it */
	if (!(c = mpt_command_reserve(&wait, 2))) return 2;
	c->cmd = answer; c->arg = (void *) 2; idb = c->id;
	fprintf(stderr, "request B has id %lu\n", (unsigned long) idb);
	r = mpt_stream_sync(&loc, 2, &wait, 100);
	fprintf(stderr, "sync = %d\n", r);
	if (calls[2]) {
		fprintf(stderr, "FAIL: request B was answered with '%s', the peer sent one reply only (for A)\n", got[2]);
		return 1;
	}
	fprintf(stderr, "ok\n");
	return 0;
}

/*
 * f4: mpt_outdata_recv() stores a received datagram 64 KiB behind the start of the
 *     connection buffer; everything that follows (mpt_connection_dispatch(),
 *     remoteSync() in output_remote.c) reads the id and the content from offset 0,
 *     i.e. zero bytes.
 *     - a datagram request with id is never armed: the handler gets no reply
 *       context and no (default) reply ever reaches the requester      -> exit 1
 *     - a datagram of more than (buffer size - 64 KiB) = 64 bytes is written
 *       past the end of the heap block ("big" mode; build demo + library
 *       sources with -fsanitize=address to see the heap-buffer-overflow
 *       in recvmsg called from mpt_outdata_recv)
 *
 * build (from /tmp/hunt2-C12):
 *   B=/tmp/hunt2-C12/_build; S=/tmp/hunt2-C12
 *   gcc -g -I$S/mptcore -I$S/mptio findings/f4_demo.c -o /tmp/f4_demo \
 *       -L$B/mptio -lmptio -L$B/mptcore -lmptcore -Wl,-rpath,$B/mptio -Wl,-rpath,$B/mptcore
 * run: /tmp/f4_demo ; /tmp/f4_demo big
 */
#include <stdio.h>
#include <string.h>
#include <stdlib.h>
#include <unistd.h>
#include <sys/socket.h>
#include <sys/uio.h>

#include "meta.h"
#include "array.h"
#include "message.h"
#include "event.h"
#include "output.h"
#include "connection.h"

static int armed;
/* handler does not answer: connection has to send the default reply */
static int handler(void *arg, MPT_STRUCT(event) *ev)
{
	MPT_STRUCT(message) m = *ev->msg;
	char buf[16] = { 0 };
	size_t n;
	(void) arg;
	n = mpt_message_read(&m, sizeof(buf) - 1, buf);
	armed = ev->reply != 0;
	fprintf(stderr, "handler: reply context %s, content (%zu bytes) '%s'\n", armed ? "set" : "missing", n, buf);
	return 0;
}
int main(int argc, char **argv)
{
	MPT_STRUCT(connection) con = MPT_CONNECTION_INIT;
	static uint8_t req[4096] = { 0x01, 0x02, 'h', 'i' }; /* id 0x0102, width 2 */
	uint8_t in[256];
	size_t len = argc > 1 ? 2000 : 4;
	ssize_t n;
	int sv[2], r;
	
	if (socketpair(AF_UNIX, SOCK_DGRAM, 0, sv) < 0) return 2;
	con.out.sock._id = sv[0];
	con.out._idlen = 2;
	
	if (send(sv[1], req, len, 0) < 0) return 2;
	/* what remoteNext(POLLIN) of mpt_output_remote() does */
	r = mpt_outdata_recv(&con.out);
	fprintf(stderr, "mpt_outdata_recv = %d (buffer: %zu used of %zu)\n", r, con.out.buf._buf->_used, con.out.buf._buf->_size);
	r = mpt_connection_dispatch(&con, handler, 0);
	fprintf(stderr, "mpt_connection_dispatch = %d\n", r);
	
	n = recv(sv[1], in, sizeof(in), MSG_DONTWAIT);
	fprintf(stderr, "requester got %zd bytes\n", n);
	if (!armed) {
		fprintf(stderr, "FAIL: request with id 0x0102 was not armed on a reply context\n");
	}
	if (n < 2 || in[0] != 0x81 || in[1] != 0x02) {
		fprintf(stderr, "FAIL: no default reply with the marked request id\n");
		return 1;
	}
	fprintf(stderr, "ok\n");
	return armed ? 0 : 1;
}

#define main fuzz1_main
#include "fuzz1.c"
#undef main
#include "queue.h"

int main(int argc, char **argv)
{
	long iter, max = argc > 1 ? atol(argv[1]) : 20000;
	int only = argc > 2 ? atoi(argv[2]) : -1;
	if (argc > 3) rs ^= strtoull(argv[3], 0, 0);
	if (argc > 4) MAXM = atol(argv[4]);

	for (iter = 0; iter < max; iter++) {
		int ci = only >= 0 ? only : (int) rn(5);
		int cmd = ci == 0;
		MPT_TYPE(data_encoder) enc = mpt_message_encoder(codes[ci]);
		MPT_TYPE(data_decoder) dec = mpt_message_decoder(codes[ci]);
		int nmsg = 1 + rn(6), i, got = 0, guard = 0;
		uint8_t *msgs[8], *frames = 0;
		size_t mlens[8], flen = 0, fed = 0;
		uint64_t seed0 = rs;
		int small = rn(2), dopeek = rn(2);
		MPT_STRUCT(decode_queue) q = MPT_DECODE_QUEUE_INIT;
		size_t hl = cmd ? 2 : 0;
		q._dec = dec;

		for (i = 0; i < nmsg; i++) {
			uint8_t *f; ssize_t fl;
			msgs[i] = malloc(MAXM + 100);
			mlens[i] = genmsg(msgs[i], small ? 60 : MAXM, cmd);
			fl = enc_array(enc, msgs[i], mlens[i], &f);
			if (fl < 0) return 1;
			frames = realloc(frames, flen + fl);
			memcpy(frames + flen, f, fl); flen += fl; free(f);
		}
		/* initial offset in ring to provoke wrapping */
		if (rn(2)) {
			size_t sz = 8 + rn(small ? 64 : 600), o;
			if (!mpt_queue_prepare(&q.data, sz)) return 2;
			o = rn(q.data.max);
			q.data.off = o;
		}
		while (got < nmsg) {
			int r;
			if (++guard > 200000) { fprintf(stderr, "iter %ld %s: stall seed %llx\n", iter, names[ci], (unsigned long long) seed0); goto fail; }
			/* feed */
			if (fed < flen && rn(3)) {
				size_t add = 1 + rn(rn(2) ? 4 : 300), room;
				if (add > flen - fed) add = flen - fed;
				room = q.data.max - q.data.len;
				if (room < add) {
					if (rn(2) && room) add = room;
					else if (!mpt_queue_prepare(&q.data, add)) return 2;
				}
				if (mpt_qpush(&q.data, add, frames + fed) < 0) { fprintf(stderr, "qpush failed\n"); return 2; }
				fed += add;
			}
			if (dopeek && !rn(3)) {
				uint8_t tmp[64];
				mpt_queue_peek(&q, sizeof(tmp), rn(2) ? tmp : 0);
			}
			r = mpt_queue_recv(&q);
			if (r == MPT_ERROR(MissingBuffer)) {
				/* queue full: need bigger queue */
				if (!mpt_queue_prepare(&q.data, 1 + rn(32))) return 2;
				continue;
			}
			if (r == MPT_ERROR(MissingData) && !q.data.len) continue;
			if (r < 0) {
				fprintf(stderr, "iter %ld %s: recv error %d (msg %d fed %zu/%zu) seed %llx\n", iter, names[ci], r, got, fed, flen, (unsigned long long) seed0);
				goto fail;
			}
			if (r > 0) {
				static uint8_t buf[400000];
				size_t ml = q._state.data.msg;
				if (ml != mlens[got] + hl) {
					fprintf(stderr, "iter %ld %s: msg %d length %zu expected %zu seed %llx\n", iter, names[ci], got, ml, mlens[got] + hl, (unsigned long long) seed0);
					goto fail;
				}
				if (ml && mpt_queue_get(&q.data, q._state.data.pos, ml, buf) < 0) {
					fprintf(stderr, "iter %ld %s: queue_get failed pos %zu len %zu qlen %zu\n", iter, names[ci], q._state.data.pos, ml, q.data.len);
					goto fail;
				}
				if (memcmp(buf + hl, msgs[got], mlens[got]) || (cmd && (buf[0] != 4 || buf[1] != ' '))) {
					fprintf(stderr, "iter %ld %s: msg %d content mismatch seed %llx\n", iter, names[ci], got, (unsigned long long) seed0);
					dump("expect", msgs[got], mlens[got]);
					dump("got", buf, ml);
					goto fail;
				}
				++got;
				continue;
			}
			if (fed >= flen) {
				/* all fed, no message: allow a few more rounds */
				if (guard > 100000) { fprintf(stderr, "iter %ld %s: no message after full feed\n", iter, names[ci]); goto fail; }
			}
		}
		for (i = 0; i < nmsg; i++) free(msgs[i]);
		free(frames);
		free(q.data.base);
		continue;
fail:
		fprintf(stderr, "state ctx %lx curr %zu pos %zu len %zu msg %zd; queue off %zu len %zu max %zu\n", (unsigned long) q._state._ctx, q._state.curr, q._state.data.pos, q._state.data.len, q._state.data.msg, q.data.off, q.data.len, q.data.max);
		for (i = 0; i < nmsg; i++) dump("msg", msgs[i], mlens[i]);
		dump("frames", frames, flen);
		return 1;
	}
	printf("ok %ld\n", max);
	return 0;
}

#include <cstdio>
#include <cstdlib>
#include <cstring>
#include <vector>
#include <sys/uio.h>
#include "array.h"
#include "convert.h"
#include "message.h"
#include "queue.h"
using namespace mpt;
static uint64_t rs = 88172645463325252ull;
static uint32_t rnd(void) { rs ^= rs << 13; rs ^= rs >> 7; rs ^= rs << 17; return rs >> 11; }
static uint32_t rn(uint32_t n) { return n ? rnd() % n : 0; }
static int codes[5] = { 1, 2, 3, 6, 7 };

int main(int argc, char **argv)
{
	long max = argc > 1 ? atol(argv[1]) : 20000;
	for (long iter = 0; iter < max; iter++) {
		int ci = rn(5); bool cmd = ci == 0;
		uint64_t seed0 = rs;
		encode_array arr(mpt_message_encoder(codes[ci]));
		decode_queue dq(mpt_message_decoder(codes[ci]));
		int nmsg = 1 + rn(6);
		std::vector<std::vector<uint8_t> > msgs;
		std::vector<uint8_t> frames;
		for (int i = 0; i < nmsg; i++) {
			size_t len = rn(3) ? rn(40) : rn(900);
			std::vector<uint8_t> m(len);
			int mode = rn(3);
			for (size_t k = 0; k < len; k++) { uint8_t v = mode == 0 ? rnd() : (mode == 1 ? (rn(3) ? 0 : rnd()) : (rn(20) ? 1 + rn(255) : 0)); if (cmd && !v) v = 'z'; m[k] = v; }
			msgs.push_back(m);
			if (len && rn(2)) {
				message mm; struct iovec v[2]; size_t a = rn(len + 1), b = a + rn(len - a + 1);
				mm.base = m.data(); mm.used = a; mm.cont = v; mm.clen = 2;
				v[0].iov_base = m.data() + a; v[0].iov_len = b - a;
				v[1].iov_base = m.data() + b; v[1].iov_len = len - b;
				if (!arr.push(mm)) { fprintf(stderr, "push(message) failed seed %llx\n", (unsigned long long) seed0); return 1; }
			} else {
				size_t pos = 0;
				while (pos < len) {
					size_t part = 1 + rn(len - pos);
					ssize_t r = arr.push(part, m.data() + pos);
					if (r <= 0) { fprintf(stderr, "push failed %zd\n", r); return 1; }
					pos += r;
					if (!rn(4)) { span<const uint8_t> d = arr.data(); size_t t = rn(d.size() + 1); frames.insert(frames.end(), d.begin(), d.begin() + t); if (!arr.shift(t) && t) { fprintf(stderr, "shift(%zu) failed\n", t); return 1; } }
					if (!rn(4)) arr.shift(0);
				}
			}
			if (arr.push(0, 0) < 0) { fprintf(stderr, "term failed\n"); return 1; }
			if (!rn(2)) { span<const uint8_t> d = arr.data(); size_t t = rn(d.size() + 1); frames.insert(frames.end(), d.begin(), d.begin() + t); if (t && !arr.shift(t)) { fprintf(stderr, "shift failed\n"); return 1; } }
			if (!rn(3)) arr.shift(0);
		}
		{ span<const uint8_t> d = arr.data(); frames.insert(frames.end(), d.begin(), d.end()); arr.shift(d.size()); }
		int z = 0; for (size_t k = 0; k < frames.size(); k++) if (!frames[k]) z++;
		if (z != nmsg) { fprintf(stderr, "iter %ld codec %d: %d zeros for %d msgs seed %llx\n", iter, ci, z, nmsg, (unsigned long long) seed0); return 1; }
		// decode via decode_queue
		size_t fed = 0; int got = 0, guard = 0;
		while (got < nmsg) {
			if (++guard > 100000) { fprintf(stderr, "iter %ld stall\n", iter); return 1; }
			if (fed < frames.size()) {
				size_t add = 1 + rn(rn(2) ? 5 : 400); if (add > frames.size() - fed) add = frames.size() - fed;
				if (dq.max - dq.len < add && !mpt_queue_prepare(&dq, add)) return 2;
				mpt_qpush(&dq, add, frames.data() + fed); fed += add;
			}
			while (true) {
				int r = mpt_queue_recv(&dq);
				if (r == MissingBuffer) { if (!mpt_queue_prepare(&dq, 16)) return 2; continue; }
				if (r < 0 && r != MissingData) { fprintf(stderr, "iter %ld codec %d recv error %d seed %llx\n", iter, ci, r, (unsigned long long) seed0); return 1; }
				if (!dq.pending_message()) break;
				message m; struct iovec v;
				if (!dq.current_message(m, &v)) { fprintf(stderr, "current_message failed\n"); return 1; }
				uint8_t buf[2000]; size_t l = mpt_message_read(&m, sizeof(buf), buf), hl = cmd ? 2 : 0;
				if (l != msgs[got].size() + hl || memcmp(buf + hl, msgs[got].data(), l - hl)) { fprintf(stderr, "iter %ld codec %d msg %d mismatch (len %zu vs %zu) seed %llx\n", iter, ci, got, l, msgs[got].size() + hl, (unsigned long long) seed0); return 1; }
				got++;
				if (got == nmsg) break;
			}
		}
		free(dq.base); dq.base = 0;
	}
	printf("ok %ld\n", max);
	return 0;
}

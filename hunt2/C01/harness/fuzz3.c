#define main fuzz1_main
#include "fuzz1.c"
#undef main
#include "queue.h"

static void take_front(MPT_STRUCT(encode_queue) *q, size_t take, uint8_t **frames, size_t *flen)
{
	*frames = realloc(*frames, *flen + take + 1);
	if (mpt_queue_get(&q->data, 0, take, *frames + *flen) < 0) { fprintf(stderr, "queue_get failed\n"); exit(2); }
	*flen += take;
	mpt_queue_crop(&q->data, 0, take);
	q->_state.done -= take;
}

int main(int argc, char **argv)
{
	long iter, max = argc > 1 ? atol(argv[1]) : 20000;
	int only = argc > 2 ? atoi(argv[2]) : -1;
	if (argc > 3) rs ^= strtoull(argv[3], 0, 0);
	if (argc > 4) MAXM = atol(argv[4]);

	for (iter = 0; iter < max; iter++) {
		int ci = only >= 0 ? only : (int) rn(5);
		int cmd = ci == 0;
		MPT_TYPE(data_encoder) enc = mpt_message_encoder(codes[ci]);
		MPT_TYPE(data_decoder) dec = mpt_message_decoder(codes[ci]);
		int nmsg = 1 + rn(6), i;
		uint8_t *msgs[8], *frames = 0;
		size_t mlens[8], flen = 0;
		uint64_t seed0 = rs;
		MPT_STRUCT(encode_queue) q = MPT_ENCODE_QUEUE_INIT;
		int small = rn(2);
		q._enc = enc;

		for (i = 0; i < nmsg; i++) {
			size_t pos = 0;
			int guard = 0;
			msgs[i] = malloc(MAXM + 100);
			mlens[i] = genmsg(msgs[i], small ? 60 : MAXM, cmd);
			while (1) {
				size_t part = mlens[i] - pos;
				ssize_t r;
				if (++guard > 100000) { fprintf(stderr, "iter %ld %s queue push stall seed %llx\n", iter, names[ci], (unsigned long long) seed0); return 1; }
				if (part) switch (rn(4)) {
					case 0: part = 1; break;
					case 1: part = 1 + rn(part); break;
					case 2: part = 1 + rn(part < 70 ? part : 70); break;
					default: break;
				}
				r = mpt_queue_push(&q, part, part ? msgs[i] + pos : 0);
				if (r == MPT_ERROR(MissingBuffer)) {
					if (q._state.done && rn(3)) {
						take_front(&q, 1 + rn(q._state.done), &frames, &flen);
					} else if (!mpt_queue_prepare(&q.data, 1 + rn(small ? 16 : 300))) {
						fprintf(stderr, "prepare failed\n"); return 1;
					}
					continue;
				}
				if (r < 0 || (size_t) r > part) { fprintf(stderr, "iter %ld %s queue_push error %zd (part %zu) seed %llx\n", iter, names[ci], r, part, (unsigned long long) seed0); return 1; }
				if (!part) break;
				pos += r;
				if (!rn(4) && q._state.done) take_front(&q, 1 + rn(q._state.done), &frames, &flen);
			}
			if (q._state.scratch) { fprintf(stderr, "scratch after term\n"); return 1; }
			if (i + 1 == nmsg) take_front(&q, q._state.done, &frames, &flen);
			else if (!rn(3) && q._state.done) take_front(&q, rn(q._state.done + 1), &frames, &flen);
		}
		if (q.data.len) { fprintf(stderr, "queue not empty: %zu\n", q.data.len); return 1; }
		free(q.data.base);
		{
			size_t k; int z = 0;
			for (k = 0; k < flen; k++) if (!frames[k]) z++;
			if (z != nmsg || !flen || frames[flen-1]) {
				fprintf(stderr, "iter %ld %s: %d zero bytes for %d messages seed %llx\n", iter, names[ci], z, nmsg, (unsigned long long) seed0);
				for (i = 0; i < nmsg; i++) dump("msg", msgs[i], mlens[i]);
				dump("frames", frames, flen);
				return 1;
			}
		}
		if (dec_frames(dec, frames, flen, msgs, mlens, nmsg, cmd) < 0) {
			fprintf(stderr, "iter %ld codec %s decode failed, nmsg %d seed %llx\n", iter, names[ci], nmsg, (unsigned long long) seed0);
			for (i = 0; i < nmsg; i++) dump("msg", msgs[i], mlens[i]);
			dump("frames", frames, flen);
			return 1;
		}
		for (i = 0; i < nmsg; i++) free(msgs[i]);
		free(frames);
	}
	printf("ok %ld\n", max);
	return 0;
}

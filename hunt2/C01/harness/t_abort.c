#include <stdio.h>
#include <string.h>
#include <sys/uio.h>
#include "array.h"
#include "convert.h"
static void show(const char *t, MPT_STRUCT(encode_array) *a)
{
	size_t i, n = a->_d._buf ? a->_d._buf->_used : 0; const uint8_t *p = (void *) (a->_d._buf + 1);
	printf("%s: done %zu scratch %zu used %zu:", t, a->_state.done, a->_state.scratch, n);
	for (i = 0; i < n; i++) printf(" %02x", p[i]);
	printf("\n");
}
int main(int argc, char **argv)
{
	int codes[] = { 1, 2, 3, 6, 7 }, i, prev;
	for (prev = 0; prev < 2; prev++) for (i = 0; i < 5; i++) {
		MPT_STRUCT(encode_array) a = MPT_ENCODE_ARRAY_INIT;
		ssize_t r;
		a._enc = mpt_message_encoder(codes[i]);
		printf("== codec %d prev %d\n", codes[i], prev);
		if (prev) { mpt_array_push(&a, 2, "xy"); mpt_array_push(&a, 0, 0); show("prev", &a); }
		r = mpt_array_push(&a, 3, "abc"); show("part", &a);
		r = mpt_array_push(&a, 1, 0); printf("abort -> %zd\n", r); show("abort", &a);
		r = mpt_array_push(&a, 1, "Q"); r = mpt_array_push(&a, 0, 0); printf("term -> %zd\n", r); show("final", &a);
		mpt_encode_array_fini(&a);
	}
	return 0;
}

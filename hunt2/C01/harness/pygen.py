import sys, random, importlib.util
spec = importlib.util.spec_from_file_location("mpt", "/tmp/hunt2-C01/mpt.py")
mpt = importlib.util.module_from_spec(spec)
try:
    spec.loader.exec_module(mpt)
except SystemExit:
    pass
random.seed(7)
out = open(sys.argv[1], "wb")
def w(kind, msg, frame):
    out.write(bytes([kind]) + len(msg).to_bytes(4,'little') + bytes(msg) + len(frame).to_bytes(4,'little') + bytes(frame))
lens = [0,1,2,3,252,253,254,255,256,507,508,509,510,762,763,764]
for it in range(4000):
    n = random.choice(lens) if random.random() < 0.5 else random.randrange(0, 900)
    mode = random.randrange(4)
    m = bytearray()
    while len(m) < n:
        run = random.choice([1,2,3,253,254,255,random.randrange(1,300)])
        z = random.random() < 0.3
        for _ in range(min(run, n - len(m))):
            m.append(0 if z else random.randrange(1,256))
    if it % 2:
        w(2, m, mpt.encode_cobs(bytes(m) if it % 4 == 1 else m))
    else:
        t = bytearray(b if b else 65 for b in m)
        w(1, t, mpt.encode_command(bytes(t) if it % 4 == 0 else t))
# str inputs
for s in ["", "hello", "hällo wörld", "x"*300]:
    w(2, s.encode('utf-8'), mpt.encode_cobs(s))
    w(1, s.encode('utf-8'), mpt.encode_command(s))
out.close()

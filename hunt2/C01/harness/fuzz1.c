/* roundtrip fuzz: direct encoder + array_push, decoder with segmented iovecs */
#include <stdio.h>
#include <stdlib.h>
#include <string.h>
#include <stdint.h>
#include <sys/uio.h>

#include "array.h"
#include "convert.h"
#include "message.h"

static uint64_t rs = 88172645463325252ull;
static uint32_t rnd(void) { rs ^= rs << 13; rs ^= rs >> 7; rs ^= rs << 17; return rs >> 11; }
static uint32_t rn(uint32_t n) { return n ? rnd() % n : 0; }

static size_t MAXM = 1100;
static int codes[5] = { 1, 2, 3, 6, 7 };
static const char *names[5] = { "command", "cobs", "cobs/r", "zpe", "zpe+r" };

static size_t genmsg(uint8_t *m, size_t max, int cmd)
{
	size_t len = 0, want;
	static const int lens[] = { 0,1,2,3,29,30,31,32,33,221,222,223,224,225,252,253,254,255,256,257,444,445,446,447,507,508,509,510,511 };
	switch (rn(4)) {
	case 0: want = rn(8); break;
	case 1: want = rn(70); break;
	case 2: want = lens[rn(sizeof(lens)/sizeof(*lens))] + rn(3); break;
	default: want = rn(max); break;
	}
	if (want > max) want = max;
	while (len < want) {
		size_t run;
		int mode = rn(6);
		switch (rn(4)) {
		case 0: run = 1 + rn(3); break;
		case 1: run = 1 + rn(40); break;
		case 2: run = lens[rn(sizeof(lens)/sizeof(*lens))]; break;
		default: run = 1 + rn(300); break;
		}
		if (run > want - len) run = want - len;
		while (run--) {
			uint8_t v;
			switch (mode) {
			case 0: v = 0; break;
			case 1: v = 1 + rn(255); break;
			case 2: v = rn(2) ? 0 : 1 + rn(255); break;
			case 3: v = 0xdd + rn(6); break;
			case 4: v = rn(4) ? 0 : (0xfc + rn(4)); break;
			default: v = 1 + rn(3); break;
			}
			if (cmd && !v) v = 'x';
			m[len++] = v;
		}
	}
	/* final byte variations */
	if (len && !rn(3)) {
		static const uint8_t fin[] = { 0, 1, 2, 3, 0x1f, 0x20, 0xde, 0xdf, 0xe0, 0xe1, 0xfd, 0xfe, 0xff };
		uint8_t v = fin[rn(sizeof(fin))];
		if (cmd && !v) v = 'y';
		m[len-1] = v;
	}
	return len;
}

static void dump(const char *t, const uint8_t *d, size_t n)
{
	size_t i;
	fprintf(stderr, "%s[%zu]:", t, n);
	for (i = 0; i < n && i < 600; i++) fprintf(stderr, " %02x", d[i]);
	fputc('\n', stderr);
}

/* direct encoder with capacity schedule; returns frame length or -1 */
static MPT_STRUCT(encode_state) jst;
static uint8_t *jbuf; static size_t jcap;
static ssize_t enc_direct(MPT_TYPE(data_encoder) enc, const uint8_t *m, size_t len, uint8_t **out, int joint)
{
	MPT_STRUCT(encode_state) st = MPT_ENCODE_INIT;
	size_t cap = rn(4) ? rn(8) : rn(300);
	uint8_t *buf;
	size_t pos = 0;
	int growmode = rn(4);
	if (joint && jbuf) { st = jst; cap = jcap; buf = jbuf; }
	else buf = malloc(cap ? cap : 1);

	while (1) {
		struct iovec to, from;
		ssize_t r;
		size_t part = len - pos;
		if (part) {
			switch (rn(4)) {
			case 0: part = 1; break;
			case 1: part = 1 + rn(part); break;
			case 2: part = 1 + rn(part < 5 ? part : 5); break;
			default: break;
			}
		}
		/* exact size buffer for ASan */
		{
			uint8_t *nb = malloc(cap ? cap : 1);
			memcpy(nb, buf, cap);
			free(buf);
			buf = nb;
		}
		to.iov_base = buf; to.iov_len = cap;
		if (part) {
			uint8_t *src = malloc(part);
			memcpy(src, m + pos, part);
			from.iov_base = src; from.iov_len = part;
			r = enc(&st, &to, &from);
			free(src);
		} else {
			r = enc(&st, &to, 0);
		}
		if (r == MPT_ERROR(MissingBuffer)) {
			size_t add;
			uint8_t *nb;
			switch (growmode) {
			case 0: add = 1; break;
			case 1: add = 1 + rn(3); break;
			case 2: add = 1 + rn(64); break;
			default: add = 1 + rn(300); break;
			}
			nb = malloc(cap + add);
			memcpy(nb, buf, cap);
			memset(nb + cap, 0xAA, add);
			free(buf);
			buf = nb;
			cap += add;
			continue;
		}
		if (r < 0) {
			fprintf(stderr, "encoder error %zd at pos %zu/%zu\n", r, pos, len);
			free(buf); jbuf = 0;
			return -1;
		}
		if (!part) break;
		if ((size_t) r > part) { fprintf(stderr, "encoder consumed too much\n"); free(buf); return -1; }
		pos += r;
	}
	if (st.scratch) { fprintf(stderr, "scratch left %zu\n", st.scratch); }
	*out = buf;
	if (joint) { jst = st; jbuf = buf; jcap = cap; }
	return st.done;
}

static ssize_t enc_array(MPT_TYPE(data_encoder) enc, const uint8_t *m, size_t len, uint8_t **out)
{
	MPT_STRUCT(encode_array) arr = MPT_ENCODE_ARRAY_INIT;
	size_t pos = 0;
	ssize_t r;
	uint8_t *buf;
	arr._enc = enc;
	while (pos < len) {
		size_t part = len - pos;
		switch (rn(4)) {
		case 0: part = 1; break;
		case 1: part = 1 + rn(part); break;
		case 2: part = 1 + rn(part < 70 ? part : 70); break;
		default: break;
		}
		r = mpt_array_push(&arr, part, m + pos);
		if (r <= 0 || (size_t) r > part) {
			fprintf(stderr, "array_push error %zd\n", r);
			mpt_encode_array_fini(&arr);
			return -1;
		}
		pos += r;
	}
	r = mpt_array_push(&arr, 0, 0);
	if (r < 0) {
		fprintf(stderr, "array_push term error %zd\n", r);
		mpt_encode_array_fini(&arr);
		return -1;
	}
	if (arr._state.scratch || arr._d._buf->_used != arr._state.done) {
		fprintf(stderr, "array state: done %zu scratch %zu used %zu\n", arr._state.done, arr._state.scratch, (size_t) arr._d._buf->_used);
		return -1;
	}
	buf = malloc(arr._state.done ? arr._state.done : 1);
	memcpy(buf, arr._d._buf + 1, arr._state.done);
	*out = buf;
	r = arr._state.done;
	mpt_encode_array_fini(&arr);
	return r;
}

/* decode frames in logical buffer, with segmentation, incremental reveal */
static int dec_frames(MPT_TYPE(data_decoder) dec, const uint8_t *frames, size_t flen,
                      uint8_t **msgs, size_t *mlens, int nmsg, int cmd)
{
	MPT_STRUCT(decode_state) st = MPT_DECODE_INIT;
	size_t slack = rn(3) ? 0 : rn(20);
	size_t cap = slack + 3 * flen + 4096, used = slack, fed = 0;
	uint8_t *L = malloc(cap);
	int got = 0, guard = 0;
	int incr = rn(3);

	memset(L, 0xEE, cap);
	st.curr = slack;

	if (!incr) { memcpy(L + used, frames, flen); used += flen; fed = flen; }

	while (got < nmsg) {
		struct iovec vec[3];
		uint8_t *seg[3];
		size_t cut[4], i, n;
		int r;

		if (++guard > 100000) { fprintf(stderr, "decoder stall\n"); goto fail; }

		if (incr && fed < flen && (st.curr >= used || rn(2))) {
			size_t add = 1 + rn(incr == 1 ? 3 : 200);
			if (add > flen - fed) add = flen - fed;
			memcpy(L + used, frames + fed, add);
			used += add; fed += add;
		}
		n = 1 + rn(3);
		cut[0] = 0;
		cut[n] = used;
		for (i = 1; i < n; i++) cut[i] = rn(used + 1);
		if (n == 3 && cut[1] > cut[2]) { size_t t = cut[1]; cut[1] = cut[2]; cut[2] = t; }
		for (i = 0; i < n; i++) {
			size_t l = cut[i+1] - cut[i];
			seg[i] = malloc(l ? l : 1);
			memcpy(seg[i], L + cut[i], l);
			vec[i].iov_base = seg[i];
			vec[i].iov_len = l;
		}
		r = dec(&st, vec, n);
		for (i = 0; i < n; i++) {
			memcpy(L + cut[i], seg[i], cut[i+1] - cut[i]);
			free(seg[i]);
		}
		if (r == MPT_ERROR(MissingBuffer)) {
			size_t add = 1 + rn(rn(2) ? 2 : 16);
			size_t at = st.data.pos + st.data.len;
			/* insert gap between decoded and encoded */
			if (st.curr < at || st.curr > used) { fprintf(stderr, "bad state on MissingBuffer curr=%zu at=%zu used=%zu\n", st.curr, at, used); goto fail; }
			memmove(L + at + add, L + at, used - at);
			memset(L + at, 0xDD, add);
			used += add;
			st.curr += add;
			continue;
		}
		if (r < 0) {
			fprintf(stderr, "decoder error %d (msg %d, curr %zu used %zu)\n", r, got, st.curr, used);
			goto fail;
		}
		if (st.data.msg >= 0) {
			size_t hl = cmd ? 2 : 0;
			const uint8_t *d = L + st.data.pos;
			if (st.data.pos + st.data.msg > st.curr || st.curr > used) {
				fprintf(stderr, "bad result window pos=%zu msg=%zd curr=%zu used=%zu\n", st.data.pos, st.data.msg, st.curr, used);
				goto fail;
			}
			if ((size_t) st.data.msg != mlens[got] + hl
			    || (cmd && (d[0] != 0x04 || d[1] != ' '))
			    || memcmp(d + hl, msgs[got], mlens[got])) {
				fprintf(stderr, "MISMATCH msg %d: expected len %zu got %zd\n", got, mlens[got], st.data.msg);
				dump("expect", msgs[got], mlens[got]);
				dump("got", d, st.data.msg);
				goto fail;
			}
			++got;
			continue;
		}
		if (fed >= flen && st.curr >= used) {
			fprintf(stderr, "decoder wants more data after full frame (msg %d)\n", got);
			goto fail;
		}
		if (!incr) {
			/* all data present, decoder returned 0 without message */
			if (st.curr >= used) { fprintf(stderr, "no message\n"); goto fail; }
		}
	}
	free(L);
	return 0;
fail:
	fprintf(stderr, "state: ctx %lx curr %zu pos %zu len %zu msg %zd incr %d slack %zu\n", (unsigned long) st._ctx, st.curr, st.data.pos, st.data.len, st.data.msg, incr, slack);
	free(L);
	return -1;
}

int main(int argc, char **argv)
{
	long iter, max = argc > 1 ? atol(argv[1]) : 20000;
	int only = argc > 2 ? atoi(argv[2]) : -1;
	if (argc > 3) rs ^= strtoull(argv[3], 0, 0);
	if (argc > 4) MAXM = atol(argv[4]);

	for (iter = 0; iter < max; iter++) {
		int ci = only >= 0 ? only : (int) rn(5);
		int cmd = ci == 0;
		MPT_TYPE(data_encoder) enc = mpt_message_encoder(codes[ci]);
		MPT_TYPE(data_decoder) dec = mpt_message_decoder(codes[ci]);
		int nmsg = 1 + (rn(3) ? 0 : rn(4)), i;
		uint8_t *msgs[8], *frames = 0;
		size_t mlens[8], flen = 0;
		uint64_t seed0 = rs;

		for (i = 0; i < nmsg; i++) {
			uint8_t *f = 0;
			ssize_t fl;
			size_t k;
			msgs[i] = malloc(MAXM + 100);
			mlens[i] = genmsg(msgs[i], MAXM, cmd);
			fl = rn(2) ? enc_direct(enc, msgs[i], mlens[i], &f, 0) : enc_array(enc, msgs[i], mlens[i], &f);
			if (fl < 0) {
				fprintf(stderr, "iter %ld codec %s encode failed seed %llx\n", iter, names[ci], (unsigned long long) seed0);
				dump("msg", msgs[i], mlens[i]);
				return 1;
			}
			if (!fl || f[fl-1]) {
				fprintf(stderr, "iter %ld codec %s frame not terminated\n", iter, names[ci]);
				dump("msg", msgs[i], mlens[i]); dump("frame", f, fl);
				return 1;
			}
			for (k = 0; k + 1 < (size_t) fl; k++) if (!f[k]) {
				fprintf(stderr, "iter %ld codec %s inline zero at %zu\n", iter, names[ci], k);
				dump("msg", msgs[i], mlens[i]); dump("frame", f, fl);
				return 1;
			}
			frames = realloc(frames, flen + fl);
			memcpy(frames + flen, f, fl);
			flen += fl;
			free(f);
		}
		if (dec_frames(dec, frames, flen, msgs, mlens, nmsg, cmd) < 0) {
			fprintf(stderr, "iter %ld codec %s decode failed, nmsg %d seed %llx\n", iter, names[ci], nmsg, (unsigned long long) seed0);
			for (i = 0; i < nmsg; i++) dump("msg", msgs[i], mlens[i]);
			dump("frames", frames, flen);
			return 1;
		}
		for (i = 0; i < nmsg; i++) free(msgs[i]);
		free(frames);
	}
	printf("ok %ld\n", max);
	return 0;
}

#define main fuzz1_main
#include "fuzz1.c"
#undef main
#include <poll.h>
#include <unistd.h>
#include "queue.h"
#include "stream.h"
#include "event.h"

struct ctx { uint8_t **msgs; size_t *mlens; int nmsg, got, bad, cmd; };
static int cb(void *p, const MPT_STRUCT(message) *m)
{
	struct ctx *c = p;
	MPT_STRUCT(message) tmp = *m;
	uint8_t buf[2000];
	size_t len = mpt_message_read(&tmp, sizeof(buf), buf), hl = c->cmd ? 2 : 0;
	if (c->got >= c->nmsg) { c->bad = 1; fprintf(stderr, "surplus message len %zu\n", len); return 0; }
	if (len != c->mlens[c->got] + hl || memcmp(buf + hl, c->msgs[c->got], len - hl)) {
		fprintf(stderr, "stream msg %d mismatch: len %zu expected %zu\n", c->got, len, c->mlens[c->got] + hl);
		dump("expect", c->msgs[c->got], c->mlens[c->got]); dump("got", buf, len);
		c->bad = 1;
	}
	c->got++;
	return 0;
}
int main(int argc, char **argv)
{
	long iter, max = argc > 1 ? atol(argv[1]) : 3000;
	int only = argc > 2 ? atoi(argv[2]) : -1;
	const char *path = "/tmp/hunt2-C01/findings/stream.tmp";
	if (argc > 3) rs ^= strtoull(argv[3], 0, 0);
	for (iter = 0; iter < max; iter++) {
		int ci = only >= 0 ? only : (int) rn(5);
		int cmd = ci == 0;
		MPT_STRUCT(stream) w = MPT_STREAM_INIT, r = MPT_STREAM_INIT;
		int nmsg = 1 + rn(8), i, guard = 0;
		uint8_t *msgs[10]; size_t mlens[10];
		uint64_t seed0 = rs;
		struct ctx c;
		int small = rn(2);
		unlink(path);
		if (mpt_stream_open(&w, path, "w") < 0) { perror("open w"); return 2; }
		w._wd._enc = mpt_message_encoder(codes[ci]);
		for (i = 0; i < nmsg; i++) {
			size_t pos = 0;
			msgs[i] = malloc(1200);
			mlens[i] = genmsg(msgs[i], small ? 60 : 1100, cmd);
			if (rn(2) && mlens[i]) {
				/* append as multi-part message */
				MPT_STRUCT(message) m; struct iovec v[3]; size_t a = rn(mlens[i]+1), b = a + rn(mlens[i]-a+1), c2 = b + rn(mlens[i]-b+1);
				m.base = msgs[i]; m.used = a; m.cont = v; m.clen = 3;
				v[0].iov_base = msgs[i] + a; v[0].iov_len = b - a;
				v[1].iov_base = msgs[i] + b; v[1].iov_len = c2 - b;
				v[2].iov_base = msgs[i] + c2; v[2].iov_len = mlens[i] - c2;
				if (mpt_stream_append(&w, &m) != (ssize_t) mlens[i]) { fprintf(stderr, "iter %ld append failed seed %llx\n", iter, (unsigned long long) seed0); return 1; }
			} else while (pos < mlens[i]) {
				size_t part = mlens[i] - pos; ssize_t rr;
				switch (rn(4)) { case 0: part = 1; break; case 1: part = 1 + rn(part); break; case 2: part = 1 + rn(part < 70 ? part : 70); break; default: break; }
				rr = mpt_stream_push(&w, part, msgs[i] + pos);
				if (rr <= 0) { fprintf(stderr, "iter %ld %s stream_push error %zd seed %llx\n", iter, names[ci], rr, (unsigned long long) seed0); return 1; }
				pos += rr;
				if (!rn(5)) mpt_stream_flush(&w);
			}
			if (mpt_stream_push(&w, 0, 0) < 0) { fprintf(stderr, "iter %ld %s stream term error seed %llx\n", iter, names[ci], (unsigned long long) seed0); return 1; }
			if (!rn(3)) mpt_stream_flush(&w);
		}
		while (mpt_stream_flush(&w) > 0 && ++guard < 1000);
		mpt_stream_close(&w);
		if (mpt_stream_open(&r, path, "r") < 0) { perror("open r"); return 2; }
		r._rd._dec = mpt_message_decoder(codes[ci]);
		c.msgs = msgs; c.mlens = mlens; c.nmsg = nmsg; c.got = 0; c.bad = 0; c.cmd = cmd;
		guard = 0;
		while (c.got < nmsg && !c.bad && ++guard < 100000) {
			int ret = mpt_stream_dispatch(&r, cb, &c);
			if (ret < 0 && ret != MPT_ERROR(MissingData)) {
				fprintf(stderr, "iter %ld %s dispatch error %d (got %d/%d)\n", iter, names[ci], ret, c.got, nmsg);
				c.bad = 1; break;
			}
			if (ret >= 0 && (ret & MPT_EVENTFLAG(Retry))) continue;
			if (mpt_stream_poll(&r, POLLIN, 0) < 0 && r._rd._state.data.msg < 0) {
				/* one more attempt */
				ret = mpt_stream_dispatch(&r, cb, &c);
				if (c.got < nmsg && !(ret >= 0 && (ret & MPT_EVENTFLAG(Retry)))) { if (guard > 50) break; }
			}
		}
		if (c.bad || c.got != nmsg) {
			fprintf(stderr, "iter %ld %s stream roundtrip failed got %d/%d seed %llx flags %x\n", iter, names[ci], c.got, nmsg, (unsigned long long) seed0, mpt_stream_flags(&r._info));
			for (i = 0; i < nmsg; i++) dump("msg", msgs[i], mlens[i]);
			return 1;
		}
		mpt_stream_close(&r);
		for (i = 0; i < nmsg; i++) free(msgs[i]);
	}
	unlink(path);
	printf("ok %ld\n", max);
	return 0;
}

#define main fuzz1_main
#include "fuzz1.c"
#undef main
int main(int argc, char **argv)
{
	FILE *f = fopen(argv[1], "rb");
	int kind, n = 0;
	while ((kind = fgetc(f)) != EOF) {
		uint32_t ml, fl; uint8_t *m, *fr; size_t mlen; int rep;
		fread(&ml, 4, 1, f); m = malloc(ml + 1); fread(m, 1, ml, f);
		fread(&fl, 4, 1, f); fr = malloc(fl + 1); fread(fr, 1, fl, f);
		mlen = ml;
		for (rep = 0; rep < 5; rep++) {
			if (dec_frames(mpt_message_decoder(kind), fr, fl, &m, &mlen, 1, kind == 1) < 0) {
				fprintf(stderr, "python frame %d kind %d failed\n", n, kind); dump("msg", m, ml); dump("frame", fr, fl); return 1;
			}
		}
		{ size_t k; for (k = 0; k + 1 < fl; k++) if (!fr[k]) { fprintf(stderr, "inline zero\n"); return 1; } if (!fl || fr[fl-1]) { fprintf(stderr, "unterminated\n"); return 1; } }
		free(m); free(fr); n++;
	}
	printf("ok %d python frames\n", n);
	return 0;
}

#include <stdio.h>
#include <string.h>
#include <sys/uio.h>
#include "array.h"
#include "convert.h"
static void show(const char *t, MPT_STRUCT(encode_array) *a)
{
	size_t i, n = a->_d._buf ? a->_d._buf->_used : 0; const uint8_t *p = (void *) (a->_d._buf + 1);
	printf("%s: ctx %zu done %zu scratch %zu used %zu:", t, (size_t) a->_state._ctx, a->_state.done, a->_state.scratch, n);
	for (i = 0; i < n && i < 40; i++) printf(" %02x", p[i]);
	printf("\n");
}
int main(int argc, char **argv)
{
	int codes[] = { 2, 3, 6, 7 }, i;
	for (i = 0; i < 4; i++) {
		MPT_STRUCT(encode_array) a = MPT_ENCODE_ARRAY_INIT;
		ssize_t r;
		a._enc = mpt_message_encoder(codes[i]);
		printf("== codec %d\n", codes[i]);
		mpt_array_push(&a, 2, "xy"); mpt_array_push(&a, 0, 0); show("prev", &a);
		r = mpt_array_push(&a, 4, "a\0bc"); show("part", &a);
		r = mpt_array_push(&a, 1, 0); printf("abort -> %zd\n", r); show("abort", &a);
		r = mpt_array_push(&a, 1, "Q"); r = mpt_array_push(&a, 0, 0); show("final", &a);
		mpt_encode_array_fini(&a);
	}
	return 0;
}

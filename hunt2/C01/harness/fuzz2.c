#define main fuzz1_main
#include "fuzz1.c"
#undef main

/* joint: single encode_array for many messages with consumption (shift) */
int main(int argc, char **argv)
{
	long iter, max = argc > 1 ? atol(argv[1]) : 20000;
	int only = argc > 2 ? atoi(argv[2]) : -1;
	if (argc > 3) rs ^= strtoull(argv[3], 0, 0);

	for (iter = 0; iter < max; iter++) {
		int ci = only >= 0 ? only : (int) rn(5);
		int cmd = ci == 0;
		MPT_TYPE(data_encoder) enc = mpt_message_encoder(codes[ci]);
		MPT_TYPE(data_decoder) dec = mpt_message_decoder(codes[ci]);
		int nmsg = 1 + rn(6), i;
		uint8_t *msgs[8], *frames = 0;
		size_t mlens[8], flen = 0;
		uint64_t seed0 = rs;
		int mode = rn(2);
		MPT_STRUCT(encode_array) arr = MPT_ENCODE_ARRAY_INIT;
		arr._enc = enc;
		jbuf = 0;

		for (i = 0; i < nmsg; i++) {
			msgs[i] = malloc(1200);
			mlens[i] = genmsg(msgs[i], rn(2) ? 40 : 1100, cmd);
			if (mode == 0) {
				uint8_t *f;
				ssize_t fl = enc_direct(enc, msgs[i], mlens[i], &f, 1);
				if (fl < 0) { fprintf(stderr, "iter %ld %s direct joint encode failed seed %llx\n", iter, names[ci], (unsigned long long) seed0); return 1; }
				if (i + 1 == nmsg) { frames = malloc(fl ? fl : 1); memcpy(frames, f, fl); flen = fl; free(f); jbuf = 0; }
			} else {
				size_t pos = 0;
				ssize_t r;
				while (pos < mlens[i]) {
					size_t part = mlens[i] - pos;
					switch (rn(4)) {
					case 0: part = 1; break;
					case 1: part = 1 + rn(part); break;
					case 2: part = 1 + rn(part < 70 ? part : 70); break;
					default: break;
					}
					r = mpt_array_push(&arr, part, msgs[i] + pos);
					if (r <= 0 || (size_t) r > part) { fprintf(stderr, "iter %ld %s array_push error %zd seed %llx\n", iter, names[ci], r, (unsigned long long) seed0); return 1; }
					pos += r;
					/* consume finished data in between */
					if (!rn(4) && arr._state.done) {
						size_t take = 1 + rn(arr._state.done);
						MPT_STRUCT(buffer) *b = arr._d._buf;
						size_t off = b->_used - arr._state.done - arr._state.scratch;
						frames = realloc(frames, flen + take);
						memcpy(frames + flen, ((uint8_t *) (b + 1)) + off, take);
						flen += take;
						arr._state.done -= take;
					}
					/* compaction like encode_array::shift(0) */
					if (!rn(4)) {
						MPT_STRUCT(buffer) *b = arr._d._buf;
						size_t len = arr._state.done + arr._state.scratch;
						if (b->_used > len) {
							uint8_t *d = (uint8_t *) (b + 1);
							memmove(d, d + (b->_used - len), len);
							b->_used = len;
						}
					}
				}
				r = mpt_array_push(&arr, 0, 0);
				if (r < 0) { fprintf(stderr, "iter %ld %s array_push term error %zd seed %llx\n", iter, names[ci], r, (unsigned long long) seed0); return 1; }
				if (arr._state.scratch) { fprintf(stderr, "scratch after term\n"); return 1; }
				if (i + 1 == nmsg || !rn(3)) {
					size_t take = (i + 1 == nmsg) ? arr._state.done : rn(arr._state.done + 1);
					MPT_STRUCT(buffer) *b = arr._d._buf;
					size_t off = b->_used - arr._state.done - arr._state.scratch;
					frames = realloc(frames, flen + take + 1);
					memcpy(frames + flen, ((uint8_t *) (b + 1)) + off, take);
					flen += take;
					arr._state.done -= take;
				}
			}
		}
		mpt_encode_array_fini(&arr);
		/* zero count == nmsg */
		{
			size_t k; int z = 0;
			for (k = 0; k < flen; k++) if (!frames[k]) z++;
			if (z != nmsg || !flen || frames[flen-1]) {
				fprintf(stderr, "iter %ld %s: %d zero bytes for %d messages (mode %d) seed %llx\n", iter, names[ci], z, nmsg, mode, (unsigned long long) seed0);
				for (i = 0; i < nmsg; i++) dump("msg", msgs[i], mlens[i]);
				dump("frames", frames, flen);
				return 1;
			}
		}
		if (dec_frames(dec, frames, flen, msgs, mlens, nmsg, cmd) < 0) {
			fprintf(stderr, "iter %ld codec %s decode failed, nmsg %d mode %d seed %llx\n", iter, names[ci], nmsg, mode, (unsigned long long) seed0);
			for (i = 0; i < nmsg; i++) dump("msg", msgs[i], mlens[i]);
			dump("frames", frames, flen);
			return 1;
		}
		for (i = 0; i < nmsg; i++) free(msgs[i]);
		free(frames);
	}
	printf("ok %ld\n", max);
	return 0;
}

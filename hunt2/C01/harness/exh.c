/* exhaustive boundary test: direct encoders, two-piece splits, cap schedule (initial cap c0, grow g) */
#include <stdio.h>
#include <stdlib.h>
#include <string.h>
#include <sys/uio.h>
#include "array.h"
#include "convert.h"
#include "message.h"
static int codes[4] = { 2, 3, 6, 7 };
static int decode(MPT_TYPE(data_decoder) dec, const uint8_t *f, size_t fl, uint8_t *out, size_t *ol)
{
	static uint8_t L[8192];
	MPT_STRUCT(decode_state) st = MPT_DECODE_INIT;
	struct iovec v; size_t used = fl; int r, g = 0;
	memcpy(L, f, fl);
	while (1) {
		v.iov_base = L; v.iov_len = used;
		r = dec(&st, &v, 1);
		if (r == MPT_ERROR(MissingBuffer) && ++g < 4000) {
			size_t at = st.data.pos + st.data.len;
			memmove(L + at + 1, L + at, used - at); used++; st.curr++;
			continue;
		}
		break;
	}
	if (r != 1 || st.data.msg < 0) return -1;
	memcpy(out, L + st.data.pos, st.data.msg); *ol = st.data.msg;
	return 0;
}
int main(void)
{
	static uint8_t m[600], buf[2048], out[4096];
	static const uint8_t tails[][4] = { {0}, {1,0}, {2,0,0}, {1,7}, {2,0,7}, {2,7,0}, {1,0xff}, {1,0xdf}, {1,0xe0}, {1,0xfe}, {3,0,0,7}, {3,7,0,0}, {2,0xff,0xff}, {1,1}, {1,2} };
	long n = 0;
	for (int ci = 0; ci < 4; ci++) {
		MPT_TYPE(data_encoder) enc = mpt_message_encoder(codes[ci]);
		MPT_TYPE(data_decoder) dec = mpt_message_decoder(codes[ci]);
		int B = ci < 2 ? 254 : 222;
		for (int pre = 0; pre < 3; pre++) /* prefix: none, "5 0", "0 0" */
		for (int nn = B - 3; nn <= B + 3; nn++)
		for (int rep = 1; rep <= 2; rep++)
		for (unsigned t = 0; t < sizeof(tails)/sizeof(*tails); t++)
		for (int fill = 0; fill < 2; fill++) {
			size_t len = 0;
			if (pre == 1) { m[len++] = 5; m[len++] = 0; }
			if (pre == 2) { m[len++] = 9; m[len++] = 0; m[len++] = 0; }
			for (int r = 0; r < rep; r++) for (int k = 0; k < nn; k++) m[len++] = fill ? 0xff : 3;
			for (int k = 0; k < tails[t][0]; k++) m[len++] = tails[t][k+1];
			for (size_t split = 0; split <= len; split += (split > 8 && split + 8 < len && (split < (size_t) nn - 6 || split > (size_t) nn + 12)) ? 37 : 1)
			for (int g = 1; g <= 3; g += 2)
			for (size_t c0 = 0; c0 < 6; c0++) {
				MPT_STRUCT(encode_state) st = MPT_ENCODE_INIT;
				size_t cap = c0, pos = 0; int phase = 0, guard = 0;
				while (1) {
					struct iovec to, from; ssize_t r; size_t part;
					if (++guard > 100000) { fprintf(stderr, "stall\n"); return 1; }
					to.iov_base = buf; to.iov_len = cap;
					part = phase == 0 ? split - pos : len - pos;
					if (!part && phase == 0) { phase = 1; continue; }
					if (part) { from.iov_base = m + pos; from.iov_len = part; r = enc(&st, &to, &from); }
					else r = enc(&st, &to, 0);
					if (r == MPT_ERROR(MissingBuffer)) { cap += g; if (cap > sizeof(buf)) return 3; continue; }
					if (r < 0) { fprintf(stderr, "enc error %zd\n", r); return 1; }
					if (!part) break;
					pos += r;
				}
				size_t fl = st.done, ol;
				for (size_t k = 0; k + 1 < fl; k++) if (!buf[k]) { fprintf(stderr, "inline zero codec %d\n", ci); return 1; }
				if (!fl || buf[fl-1] || decode(dec, buf, fl, out, &ol) < 0 || ol != len || memcmp(out, m, len)) {
					fprintf(stderr, "FAIL codec %d pre %d nn %d rep %d tail %u fill %d split %zu g %d c0 %zu\n", ci, pre, nn, rep, t, fill, split, g, c0);
					return 1;
				}
				n++;
			}
		}
	}
	printf("ok %ld cases\n", n);
	return 0;
}

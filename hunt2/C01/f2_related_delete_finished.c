#include <stdio.h>
#include <string.h>
#include <sys/uio.h>
#include "array.h"
#include "convert.h"
int main(void)
{
	MPT_STRUCT(encode_array) a = MPT_ENCODE_ARRAY_INIT;
	ssize_t r;
	a._enc = mpt_encode_cobs;
	mpt_array_push(&a, 2, "xy"); mpt_array_push(&a, 0, 0);
	mpt_array_push(&a, 2, "zw"); mpt_array_push(&a, 0, 0);
	printf("done %zu\n", a._state.done);
	r = mpt_array_push(&a, 1, 0);
	printf("delete -> %zd done %zu\n", r, a._state.done);
	return 0;
}

/* f2: COBS, COBS/R, COBS/ZPE, COBS/ZPE+R: aborting a message in progress
 * (library idiom  push(1, NULL), used by mpt_connection_push / mpt_stream_reply)
 * keeps the already finished code blocks of the aborted message, they become
 * the head of the NEXT frame.
 *
 * build: gcc -I/tmp/hunt2-C01/mptcore f2_demo.c -L/tmp/hunt2-C01/_build/mptcore -lmptcore \
 *            -Wl,-rpath,/tmp/hunt2-C01/_build/mptcore -o f2_demo
 */
#include <stdio.h>
#include <string.h>
#include <sys/uio.h>

#include "array.h"
#include "convert.h"
#include "message.h"

/* decode frame number `idx` with the matching library decoder */
static ssize_t frame_data(MPT_TYPE(data_decoder) dec, const uint8_t *enc, size_t len, int idx, uint8_t *out, size_t max)
{
	MPT_STRUCT(decode_state) st = MPT_DECODE_INIT;
	uint8_t buf[2048];
	struct iovec vec;
	int i;
	
	if (len + 1024 > sizeof(buf)) return -1;
	/* generous slack in front for zero pair expansion */
	memset(buf, 0xee, sizeof(buf));
	memcpy(buf + 1024, enc, len);
	st.curr = 1024;
	vec.iov_base = buf;
	vec.iov_len  = len + 1024;
	
	for (i = 0; i <= idx; i++) {
		if (dec(&st, &vec, 1) != 1 || st.data.msg < 0) {
			return -1;
		}
	}
	if ((size_t) st.data.msg > max) return -1;
	memcpy(out, buf + st.data.pos, st.data.msg);
	return st.data.msg;
}
static void hex(const char *t, const uint8_t *d, size_t n)
{
	size_t i;
	printf("  %s:", t);
	for (i = 0; i < n && i < 24; i++) printf(" %02x", d[i]);
	printf(n > 24 ? " ... (%zu bytes)\n" : "\n", n);
}

static int run(int code, const char *name, const void *aborted, size_t alen, int with_previous)
{
	MPT_STRUCT(encode_array) arr = MPT_ENCODE_ARRAY_INIT;
	uint8_t out[1024];
	ssize_t ret;
	int idx = 0;
	
	arr._enc = mpt_message_encoder(code);
	
	if (with_previous) {
		mpt_array_push(&arr, 2, "xy");
		mpt_array_push(&arr, 0, 0);          /* finished frame */
		idx = 1;
	}
	mpt_array_push(&arr, alen, aborted);         /* message in progress ... */
	ret = mpt_array_push(&arr, 1, 0);            /* ... is aborted */
	if (ret < 0) {
		printf("%s: abort failed (%d)\n", name, (int) ret);
		return 1;
	}
	mpt_array_push(&arr, 1, "Q");                /* the message to transport */
	mpt_array_push(&arr, 0, 0);
	
	ret = frame_data(mpt_message_decoder(code), (const uint8_t *) (arr._d._buf + 1), arr._state.done, idx, out, sizeof(out));
	mpt_encode_array_fini(&arr);
	
	if (ret == 1 && out[0] == 'Q') {
		return 0;
	}
	printf("%s (aborted message of %zu bytes, %s previous frame): message \"Q\" decodes to %d bytes\n",
	       name, alen, with_previous ? "with" : "no", (int) ret);
	if (ret > 0) hex("decoded", out, ret);
	return 1;
}

int main(void)
{
	static const struct { int code; const char *name; } codec[] = {
		{ MPT_ENUM(EncodingCobs), "cobs" },
		{ MPT_ENUM(EncodingCobsInline), "cobs/r" },
		{ MPT_ENUM(EncodingCobs) | MPT_ENUM(EncodingCompress), "cobs/zpe" },
		{ MPT_ENUM(EncodingCobsInline) | MPT_ENUM(EncodingCompress), "cobs/zpe+r" }
	};
	uint8_t big[300];
	int i, bad = 0;
	
	memset(big, 'b', sizeof(big));
	
	for (i = 0; i < 4; i++) {
		/* control: aborted message is a single unfinished block -> works */
		bad |= run(codec[i].code, codec[i].name, "abc", 3, 1) << 8;
		/* aborted message contains a zero byte: first block is finished */
		bad |= run(codec[i].code, codec[i].name, "a\0bc", 4, 0);
		bad |= run(codec[i].code, codec[i].name, "a\0bc", 4, 1);
		/* aborted message longer than a maximal block */
		bad |= run(codec[i].code, codec[i].name, big, sizeof(big), 1);
	}
	if (bad) {
		printf("FAIL (%x): frame after an aborted message does not decode to the encoded message\n", bad);
		return 1;
	}
	printf("ok\n");
	return 0;
}

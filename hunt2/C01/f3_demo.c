/* f3: mpt_stream_push(srm, 1, NULL) -- the idiom mpt_connection_push(),
 * mpt_stream_reply() and the lua binding use to abort a message in progress --
 * treats the encoder's "new finished size" result as "bytes consumed",
 * wraps `len` and re-enters the encoder with a bogus source address.
 * Crashes (SIGSEGV) as soon as >= 2 finished, not yet flushed bytes exist.
 *
 * build: gcc -I/tmp/hunt2-C01/mptcore -I/tmp/hunt2-C01/mptio f3_demo.c \
 *          -L/tmp/hunt2-C01/_build/mptcore -lmptcore -L/tmp/hunt2-C01/_build/mptio -lmptio \
 *          -Wl,-rpath,/tmp/hunt2-C01/_build/mptcore -Wl,-rpath,/tmp/hunt2-C01/_build/mptio -o f3_demo
 */
#include <stdio.h>
#include <string.h>
#include <sys/uio.h>

#include "array.h"
#include "convert.h"
#include "queue.h"
#include "stream.h"

int main(void)
{
	MPT_STRUCT(stream) w = MPT_STREAM_INIT;
	ssize_t r;
	
	if (mpt_stream_open(&w, "/dev/null", "w") < 0) {
		perror("open");
		return 2;
	}
	w._wd._enc = mpt_message_encoder(MPT_ENUM(EncodingCobs));
	
	/* one finished frame waits in the write queue (not flushed yet) */
	mpt_stream_push(&w, 2, "xy");
	mpt_stream_push(&w, 0, 0);
	
	/* message in progress */
	mpt_stream_push(&w, 3, "abc");
	printf("before abort: done %zu scratch %zu\n", w._wd._state.done, w._wd._state.scratch);
	fflush(stdout);
	
	/* abort it, cf. connection_push.c:88, stream_reply.c:21 */
	r = mpt_stream_push(&w, 1, 0);
	
	printf("abort returned %d, done %zu scratch %zu\n", (int) r, w._wd._state.done, w._wd._state.scratch);
	if (r < 0 || w._wd._state.done != 4 || w._wd._state.scratch) {
		printf("FAIL: abort did not restore the finished data\n");
		return 1;
	}
	printf("ok\n");
	return 0;
}

/* f1: command (zero-terminated text) framing: aborting a message in progress
 * (the library's own idiom  push(1, NULL)) corrupts the NEXT frame.
 *
 * build: gcc -I/tmp/hunt2-C01/mptcore f1_demo.c -L/tmp/hunt2-C01/_build/mptcore -lmptcore \
 *            -Wl,-rpath,/tmp/hunt2-C01/_build/mptcore -o f1_demo
 */
#include <stdio.h>
#include <string.h>
#include <sys/uio.h>

#include "array.h"
#include "convert.h"
#include "message.h"

/* decode all frames in buffer with the library's command decoder, return text of frame `idx` */
static int frame_text(const uint8_t *enc, size_t len, int idx, char *out, size_t max)
{
	MPT_STRUCT(decode_state) st = MPT_DECODE_INIT;
	uint8_t buf[256];
	struct iovec vec;
	int i;
	
	/* two bytes of slack for the command header the decoder inserts */
	memset(buf, 0xee, sizeof(buf));
	memcpy(buf + 2, enc, len);
	st.curr = 2;
	vec.iov_base = buf;
	vec.iov_len  = len + 2;
	
	for (i = 0; i <= idx; i++) {
		if (mpt_decode_command(&st, &vec, 1) != 1 || st.data.msg < 2) {
			return -1;
		}
	}
	if ((size_t) st.data.msg - 2 >= max) return -1;
	memcpy(out, buf + st.data.pos + 2, st.data.msg - 2);
	out[st.data.msg - 2] = 0;
	return st.data.msg - 2;
}

static int run(int with_previous)
{
	MPT_STRUCT(encode_array) arr = MPT_ENCODE_ARRAY_INIT;
	const uint8_t *enc;
	char text[64];
	ssize_t ret;
	int idx = 0, bad = 0;
	
	arr._enc = mpt_message_encoder(MPT_ENUM(EncodingCommand));
	
	if (with_previous) {
		mpt_array_push(&arr, 2, "xy");
		mpt_array_push(&arr, 0, 0);      /* finished frame "xy\0" */
		idx = 1;
	}
	mpt_array_push(&arr, 3, "abc");          /* message in progress ... */
	ret = mpt_array_push(&arr, 1, 0);        /* ... is aborted (cf. mpt_connection_push, mpt_stream_reply) */
	printf("previous=%d: abort returned %d\n", with_previous, (int) ret);
	
	mpt_array_push(&arr, 1, "Q");            /* the message we want to send */
	mpt_array_push(&arr, 0, 0);
	
	enc = (const uint8_t *) (arr._d._buf + 1);
	if (frame_text(enc, arr._state.done, idx, text, sizeof(text)) < 0) {
		printf("  frame %d not decodable\n", idx);
		bad = 1;
	}
	else {
		printf("  message \"Q\" was encoded, frame decodes to \"%s\"\n", text);
		if (strcmp(text, "Q")) bad = 1;
	}
	mpt_encode_array_fini(&arr);
	return bad;
}

int main(void)
{
	int bad = 0;
	bad |= run(0);   /* abort refused, "abc" stays: frame is "abcQ" */
	bad |= run(1);   /* abort keeps one byte of aborted text: frame is "aQ" */
	if (bad) {
		printf("FAIL: frame does not decode to the encoded message\n");
		return 1;
	}
	printf("ok\n");
	return 0;
}

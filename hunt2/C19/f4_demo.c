/* mpt_values_linear: finite bounds whose distance overflows give inf for all inner points */
#include <stdio.h>
#include <math.h>
#include <float.h>

#include "types.h"
#include "values.h"

int main(void)
{
	double t[5], min = -1e308, max = 1e308;
	int i, bad = 0;
	
	mpt_values_linear(5, t, 1, min, max);
	for (i = 0; i < 5; i++) {
		/* closed form without overflow */
		double want = min * (1 - i / 4.0) + max * (i / 4.0);
		printf("t[%d] = %g (closed form %g)\n", i, t[i], want);
		if (!(fabs(t[i] - want) <= 1e-12 * DBL_MAX)) bad = 1;
	}
	if (bad) printf("FAIL: inner points are not on the line between the finite bounds\n");
	return bad;
}

/* range iterator: zero (or underflowed) step is accepted for tiny ranges,
 * element count is the result of converting +inf to int (undefined, 0x80000001 on x86) */
#include <stdio.h>
#include <stdlib.h>
#include <limits.h>

#include "meta.h"
#include "types.h"
#include "values.h"

static int probe(const char *desc)
{
	MPT_INTERFACE(metatype) *mt;
	MPT_INTERFACE(iterator) *it = 0;
	long n = 0;
	int cnt, ret;
	
	if (!(mt = mpt_iterator_create(desc))) {
		printf("%-22s refused (fine)\n", desc);
		return 0;
	}
	MPT_metatype_convert(mt, MPT_ENUM(TypeIteratorPtr), &it);
	cnt = it->_vptr->reset(it);
	/* a range may have 1e6 steps at most (step >= 1e-6 * distance) */
	while (n < 2000000) {
		const MPT_STRUCT(value) *val = it->_vptr->value(it);
		if (!val) break;
		++n;
		if ((ret = it->_vptr->advance(it)) <= 0) break;
	}
	printf("%-22s reset() reports %d elements, walked %ld without reaching the end\n", desc, cnt, n);
	mt->_vptr->unref(mt);
	return (cnt > 1000001 || n > 1000001) ? 1 : 0;
}
int main(void)
{
	int bad = 0;
	bad += probe("range(0 1:0)");        /* zero step, normal range: refused */
	bad += probe("range(0 1e-320:0)");   /* zero step, tiny range: accepted */
	bad += probe("range(0 1e-323)");     /* default step (max-min)/10 underflows to zero */
	bad += probe("range(0 4e-324)");
	if (bad) {
		printf("FAIL: %d descriptions give a range of 2^31+1 identical values\n", bad);
		return 1;
	}
	return 0;
}

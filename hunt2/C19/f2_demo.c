/* text iterator: a clone only holds the unconsumed rest of the text,
 * reset() in the clone does not replay the sequence of the source */
#include <stdio.h>
#include <stdlib.h>

#include "meta.h"
#include "convert.h"
#include "types.h"

static MPT_INTERFACE(iterator) *iter(MPT_INTERFACE(metatype) *mt)
{
	MPT_INTERFACE(iterator) *it = 0;
	MPT_metatype_convert(mt, MPT_ENUM(TypeIteratorPtr), &it);
	return it;
}
/* documented loop: read value, advance, stop when no further element */
static int walk(MPT_INTERFACE(iterator) *it, double *dest, int max)
{
	int n = 0;
	while (n < max) {
		const MPT_STRUCT(value) *val;
		if (!(val = it->_vptr->value(it))) break;
		if (mpt_value_convert(val, 'd', dest + n) < 0) break;
		++n;
		if (it->_vptr->advance(it) <= 0) break;
	}
	return n;
}
static void show(const char *what, const double *v, int n)
{
	int i;
	printf("%-34s %d:", what, n);
	for (i = 0; i < n; i++) printf(" %g", v[i]);
	fputc('\n', stdout);
}
int main(void)
{
	MPT_INTERFACE(metatype) *src, *c1, *c2;
	MPT_INTERFACE(iterator) *it;
	double a[8], b[8], c[8];
	int na, nb, nc, bad = 0;
	
	src = mpt_iterator_string("1 2 3", 0);
	it = iter(src);
	
	/* read and consume first element, then clone */
	mpt_value_convert(it->_vptr->value(it), 'd', a);
	it->_vptr->advance(it);
	c1 = src->_vptr->clone(src);
	
	/* finish source, clone exhausted state */
	walk(it, a, 8);
	it->_vptr->advance(it);
	c2 = src->_vptr->clone(src);
	
	/* reset all three */
	it->_vptr->reset(it);
	iter(c1)->_vptr->reset(iter(c1));
	iter(c2)->_vptr->reset(iter(c2));
	
	na = walk(it, a, 8);        show("source after reset", a, na);
	nb = walk(iter(c1), b, 8);  show("clone (taken at 2nd) after reset", b, nb);
	nc = walk(iter(c2), c, 8);  show("clone (taken at end) after reset", c, nc);
	
	if (na != 3) { printf("FAIL: source replays %d elements\n", na); bad = 1; }
	if (nb != 3 || b[0] != 1) { printf("FAIL: clone replays %d elements starting at %g\n", nb, nb ? b[0] : 0.0); bad = 1; }
	if (nc != 3) { printf("FAIL: clone of consumed iterator replays %d elements\n", nc); bad = 1; }
	
	src->_vptr->unref(src);
	c1->_vptr->unref(c1);
	c2->_vptr->unref(c2);
	return bad;
}

/* polynomial profile: coefficients behind the 128th (and any other text there) are dropped silently */
#include <stdio.h>
#include <stdlib.h>
#include <string.h>

#include "meta.h"
#include "convert.h"
#include "types.h"
#include "array.h"
#include "values.h"

static int walk(MPT_INTERFACE(metatype) *mt, double *dest, int max)
{
	MPT_INTERFACE(iterator) *it = 0;
	int n = 0;
	MPT_metatype_convert(mt, MPT_ENUM(TypeIteratorPtr), &it);
	while (n < max) {
		const MPT_STRUCT(value) *val;
		if (!(val = it->_vptr->value(it))) break;
		if (mpt_value_convert(val, 'd', dest + n) < 0) break;
		++n;
		if (it->_vptr->advance(it) <= 0) break;
	}
	return n;
}
static char *zeros(char *pos, int n)
{
	while (n--) { *pos++ = '0'; *pos++ = ' '; }
	return pos;
}
int main(void)
{
	_MPT_ARRAY_TYPE(double) grid = MPT_ARRAY_INIT;
	MPT_INTERFACE(metatype) *mt;
	char desc[1024], *pos;
	double *x, v[3];
	int i, n, bad = 0;
	
	x = mpt_values_prepare(&grid, 3);
	for (i = 0; i < 3; i++) x[i] = i;
	
	/* reference: x^2 + x + 1 -> 1 3 7 */
	mt = mpt_iterator_profile(&grid, "poly 1 1 1");
	n = walk(mt, v, 3);
	printf("3 coefficients:   %d values: %g %g %g\n", n, v[0], v[1], v[2]);
	mt->_vptr->unref(mt);
	
	/* same polynom with 127 leading zero coefficients (130 total) */
	pos = zeros(desc + sprintf(desc, "poly "), 127);
	strcpy(pos, "1 1 1");
	if (!(mt = mpt_iterator_profile(&grid, desc))) {
		printf("130 coefficients: refused (fine)\n");
	} else {
		n = walk(mt, v, 3);
		printf("130 coefficients: %d values: %g %g %g (want 1 3 7)\n", n, v[0], v[1], v[2]);
		if (n != 3 || v[0] != 1 || v[1] != 3 || v[2] != 7) bad |= 1;
		mt->_vptr->unref(mt);
	}
	/* text behind 128 coefficients */
	pos = zeros(desc + sprintf(desc, "poly "), 127);
	strcpy(pos, "5 no number");
	if (!(mt = mpt_iterator_profile(&grid, desc))) {
		printf("128 coefficients and text: refused (fine)\n");
	} else {
		printf("128 coefficients and text: accepted\n");
		bad |= 2;
		mt->_vptr->unref(mt);
	}
	/* the same text is refused behind fewer coefficients */
	if ((mt = mpt_iterator_profile(&grid, "poly 0 0 5 no number"))) {
		printf("3 coefficients and text: accepted\n");
		mt->_vptr->unref(mt);
	} else {
		printf("3 coefficients and text: refused\n");
	}
	mpt_array_clone(&grid, 0);
	if (bad) printf("FAIL (%d)\n", bad);
	return bad;
}

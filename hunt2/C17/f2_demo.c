/*
 * mpt_dispatch_hash(): a text command longer than 128 bytes is dispatched when
 * it lies in one fragment, but refused ("large unaligned text command") when
 * the same bytes are spread over two fragments.
 */
#include <stdio.h>
#include <string.h>
#include <sys/uio.h>

#include "message.h"
#include "event.h"

static int called;
static int handler(void *ctx, MPT_STRUCT(event) *ev)
{
	(void) ctx;
	if (ev) ++called;
	return 0;
}
int main(void)
{
	MPT_STRUCT(dispatch) disp;
	MPT_STRUCT(event) ev = MPT_EVENT_INIT;
	MPT_STRUCT(message) msg = MPT_MESSAGE_INIT;
	struct iovec cont;
	char data[2 + 200];
	size_t nlen = 150, cut;
	int r1, r2, c1, c2;
	
	/* message: header { Command, ' ' } + 150 byte command name + " arg" */
	data[0] = MPT_MESGTYPE(Command);
	data[1] = ' ';
	memset(data + 2, 'x', nlen);
	memcpy(data + 2 + nlen, " arg", 4);
	
	mpt_dispatch_init(&disp);
	if (mpt_dispatch_set(&disp, mpt_hash(data + 2, nlen), handler, 0) < 0) {
		puts("registration failed");
		return 2;
	}
	/* contiguous */
	msg.base = data; msg.used = 2 + nlen + 4; msg.cont = 0; msg.clen = 0;
	ev.msg = &msg; ev.id = 0; called = 0;
	r1 = mpt_dispatch_hash(&disp, &ev);
	c1 = called;
	
	/* same bytes, cut in the middle of the command name */
	cut = 2 + 100;
	msg.base = data; msg.used = cut;
	cont.iov_base = data + cut; cont.iov_len = 2 + nlen + 4 - cut;
	msg.cont = &cont; msg.clen = 1;
	ev.msg = &msg; ev.id = 0; called = 0;
	r2 = mpt_dispatch_hash(&disp, &ev);
	c2 = called;
	
	printf("contiguous: ret=%d handler calls=%d\n", r1, c1);
	printf("fragmented: ret=%d handler calls=%d\n", r2, c2);
	mpt_dispatch_fini(&disp);
	if (r1 != r2 || c1 != c2) {
		puts("VIOLATION: dispatch result depends on fragmentation");
		return 1;
	}
	return 0;
}

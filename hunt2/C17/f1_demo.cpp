/*
 * graphic::get_item()/graphic::target(): the ':' search (next_part) looks
 * behind the given length when the message is fragmented.
 */
#include <cstdio>
#include <cstring>
#include <sys/uio.h>

#include "message.h"
#include "layout.h"
#include "graphic.h"

using namespace mpt;

int main()
{
	graphic g;
	layout *lay = new layout;
	lay->set_alias("ab");
	g.add_layout(lay);
	
	int bad = 0;
	
	/* text is "ab:c", only the first 2 bytes ("ab") are the item path */
	{
		char txt[] = "ab:c";
		message m(txt, 4);
		convertable *c = g.get_item(m, 2);
		printf("get_item contiguous  'ab:c' len=2 -> %p (layout %p), rest %zu\n", (void *) c, (void *) lay, m.length());
		if (!c) { puts("unexpected: contiguous lookup failed"); return 2; }
	}
	{
		char p1[] = "a", p2[] = "b:c";
		struct iovec cont = { p2, 3 };
		message m(p1, 1);
		m.cont = &cont; m.clen = 1;
		convertable *c = g.get_item(m, 2);
		printf("get_item fragmented  'a'|'b:c' len=2 -> %p, rest %zu\n", (void *) c, m.length());
		if (!c) { puts("VIOLATION: same bytes, same length limit, item not found"); bad = 1; }
	}
	/* target(): "12:" with length 2 has no ':' in range -> MissingData (contiguous) */
	{
		laydest d;
		char txt[] = "12:";
		message m(txt, 3);
		int r1 = g.target(d, m, 2);
		char p1[] = "1", p2[] = "2:";
		struct iovec cont = { p2, 2 };
		message f(p1, 1);
		f.cont = &cont; f.clen = 1;
		int r2 = g.target(d, f, 2);
		printf("target contiguous -> %d, fragmented -> %d\n", r1, r2);
		if (r1 != r2) { puts("VIOLATION: target() result depends on fragmentation"); bad = 1; }
	}
	return bad;
}

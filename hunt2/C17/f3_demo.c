/*
 * mpt_memcpy(): the empty byte string given as a list of ZERO fragments is
 * treated differently from the empty byte string given as one (or more)
 * zero-length fragments: a positive copy length is reported as "0 bytes copied"
 * (success) instead of the "source too small" (-1) / "target too small" (-2)
 * refusal every other fragmentation of the same bytes gets.
 */
#include <stdio.h>
#include <sys/uio.h>

#include "message.h"

int main(void)
{
	char sbuf[8] = "abcdefg", dbuf[8] = { 0 };
	struct iovec empty[2] = { { sbuf, 0 }, { 0, 0 } };
	struct iovec src = { sbuf, 5 }, dst = { dbuf, 8 };
	ssize_t a, b, c, d;
	int bad = 0;
	
	/* empty source: 3 bytes requested */
	a = mpt_memcpy(3, empty, 2, &dst, 1); /* "" as two empty fragments */
	b = mpt_memcpy(3, empty, 0, &dst, 1); /* "" as no fragment at all */
	printf("source ''  len=3: two empty fragments -> %zd, zero fragments -> %zd\n", a, b);
	if (a != b) bad = 1;
	
	/* empty target: 3 bytes requested from 5 available */
	c = mpt_memcpy(3, &src, 1, empty, 2);
	d = mpt_memcpy(3, &src, 1, empty, 0);
	printf("target ''  len=3: two empty fragments -> %zd, zero fragments -> %zd\n", c, d);
	if (c != d) bad = 1;
	
	if (bad) puts("VIOLATION: result depends on how the empty string is cut into fragments");
	return bad;
}

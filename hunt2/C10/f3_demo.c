/* f3: mpt_config_item_reserve() re-uses an unused item slot without removing (all of) its old children
 *
 * build: gcc -I../mptcore f3_demo.c -L../_build/mptcore -lmptcore -Wl,-rpath,../_build/mptcore -o f3_demo
 */
#include <stdio.h>
#include <string.h>

#include "array.h"
#include "meta.h"
#include "types.h"
#include "config.h"

static MPT_STRUCT(config_item) *reserve(MPT_STRUCT(array) *arr, const char *name)
{
	MPT_STRUCT(path) p = MPT_PATH_INIT;
	p.sep = '.';
	mpt_path_set(&p, name, -1);
	return mpt_config_item_reserve(arr, &p);
}
static MPT_STRUCT(config_item) *query(const MPT_STRUCT(array) *arr, const char *name)
{
	MPT_STRUCT(path) p = MPT_PATH_INIT;
	p.sep = '.';
	mpt_path_set(&p, name, -1);
	return mpt_config_item_query(arr, &p);
}
static int assign(MPT_STRUCT(array) *arr, const char *name, const char *text)
{
	MPT_STRUCT(value) val = MPT_VALUE_INIT('s', &text);
	MPT_STRUCT(config_item) *item;
	MPT_INTERFACE(metatype) *mt;
	if (!(item = reserve(arr, name)) || !(mt = mpt_meta_new(&val))) {
		return -1;
	}
	if (item->value) item->value->_vptr->unref(item->value);
	item->value = mt;
	return 0;
}
static const char *get(const MPT_STRUCT(array) *arr, const char *name)
{
	MPT_STRUCT(config_item) *item;
	const char *text = 0;
	if (!(item = query(arr, name)) || !item->value) return 0;
	if (MPT_metatype_convert(item->value, 's', &text) < 0) return 0;
	return text;
}
int main(void)
{
	MPT_STRUCT(array) top = MPT_ARRAY_INIT;
	MPT_STRUCT(config_item) *item;
	const char *val;
	int bad = 0;
	
	/* history: three assignments below "old" */
	if (assign(&top, "old.x", "X") < 0
	 || assign(&top, "old.y", "Y") < 0
	 || assign(&top, "old.z", "Z") < 0) {
		fputs("setup failed\n", stderr);
		return 2;
	}
	/* remove "old": an item without name is unused (mpt_config_item_query skips it,
	 * mpt_config_item_reserve takes it for the next new name and is to clear its content) */
	item = query(&top, "old");
	mpt_identifier_set(&item->identifier, 0, 0);
	
	if ((val = get(&top, "old.y"))) {
		printf("old.y still reachable: %s\n", val);
		bad = 1;
	}
	/* assign a value to a different, new path: takes the unused slot */
	if (assign(&top, "new", "N") < 0) {
		fputs("assign failed\n", stderr);
		return 2;
	}
	/* nothing was ever assigned to "new.x", "new.y", "new.z" */
	if ((val = get(&top, "new.x"))) { printf("new.x = %s (never assigned)\n", val); bad = 1; }
	if ((val = get(&top, "new.y"))) { printf("new.y = %s (never assigned)\n", val); bad = 1; }
	if ((val = get(&top, "new.z"))) { printf("new.z = %s (never assigned)\n", val); bad = 1; }
	
	if (!bad) puts("ok");
	mpt_array_clone(&top, 0);
	return bad;
}

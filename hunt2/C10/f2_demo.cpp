/* f2: a copy of a private configuration (mpt::config::root) shares the element store:
 *     assignments and removals through one object change the values of the other,
 *     while new top level paths are refused
 *
 * build: g++ -I../mptcore -I../mpt++ f2_demo.cpp -L../_build/mpt++ -lmpt++ -L../_build/mptcore -lmptcore \
 *            -Wl,-rpath,../_build/mpt++ -Wl,-rpath,../_build/mptcore -o f2_demo
 */
#include <cstdio>
#include <cstring>

#include "meta.h"
#include "types.h"
#include "collection.h"
#include "config.h"

static const char *get(const mpt::config &c, const char *p)
{
	const char *v = 0;
	return c.get(p, v) ? v : 0;
}
static int expect(const char *what, const char *got, const char *exp)
{
	bool same = (got && exp) ? !strcmp(got, exp) : (got == exp);
	printf("%-22s = %-6s (expected %s)%s\n", what, got ? got : "<none>", exp ? exp : "<none>", same ? "" : "  <-- WRONG");
	return same ? 0 : 1;
}
int main()
{
	mpt::config::root orig;
	int bad = 0;
	
	orig.set("x", "1");
	orig.set("s.t", "sub");
	
	mpt::config::root copy(orig);  /* second private configuration with the same content */
	
	/* assignment to "x" of the copy */
	bool ok = copy.set("x", "2");
	printf("copy.set(x, 2) -> %d\n", ok);
	bad |= expect("copy: x", get(copy, "x"), "2");
	bad |= expect("orig: x", get(orig, "x"), "1");
	
	/* new element below existing one in copy */
	ok = copy.set("s.u", "new");
	printf("copy.set(s.u, new) -> %d\n", ok);
	bad |= expect("orig: s.u", get(orig, "s.u"), 0);
	
	/* removal in copy */
	copy.del("s");
	bad |= expect("copy: s.t", get(copy, "s.t"), 0);
	bad |= expect("orig: s.t", get(orig, "s.t"), "sub");
	
	/* a new top level element is refused for both as long as the other object exists */
	ok = copy.set("y", "Y");
	printf("copy.set(y, Y) -> %d\n", ok);
	bad |= expect("copy: y", get(copy, "y"), "Y");
	ok = orig.set("z", "Z");
	printf("orig.set(z, Z) -> %d\n", ok);
	bad |= expect("orig: z", get(orig, "z"), "Z");
	
	puts(bad ? "FAIL" : "ok");
	return bad;
}

/* f1: assigning "no value" to a path keeps the old value when it is 250 bytes or longer
 *
 * build: gcc -I../mptcore f1_demo.c -L../_build/mptcore -lmptcore -Wl,-rpath,../_build/mptcore -o f1_demo
 */
#include <stdio.h>
#include <string.h>
#include <sys/uio.h>

#include "meta.h"
#include "types.h"
#include "config.h"

static int query(MPT_INTERFACE(config) *cfg, const char *name, size_t *len)
{
	struct iovec vec = { 0, 0 };
	int ret = mpt_config_get(cfg, name, MPT_type_toVector('c'), &vec);
	*len = vec.iov_len;
	if (ret >= 0 && *len && !((const char *) vec.iov_base)[*len - 1]) --(*len);
	return ret;
}
static int run(MPT_INTERFACE(config) *cfg, const char *name, size_t vlen)
{
	static char text[1024];
	MPT_STRUCT(path) p = MPT_PATH_INIT;
	size_t len;
	int ret;
	
	memset(text, 'v', vlen);
	text[vlen] = 0;
	
	/* most recent assignment #1: a text value */
	if (mpt_config_set(cfg, name, text, '.', 0) < 0) {
		fprintf(stderr, "%s: assignment of %zu bytes refused\n", name, vlen);
		return 2;
	}
	if (query(cfg, name, &len) < 0 || len != vlen) {
		fprintf(stderr, "%s: value not stored\n", name);
		return 2;
	}
	/* most recent assignment #2: "no value" (accepted, return >= 0) */
	p.sep = '.';
	mpt_path_set(&p, name, -1);
	if ((ret = cfg->_vptr->assign(cfg, &p, 0)) < 0) {
		fprintf(stderr, "%s: assignment of no value refused (%d)\n", name, ret);
		return 2;
	}
	ret = query(cfg, name, &len);
	printf("old value %3zu bytes, then assign(path, NULL) -> query: %s (ret=%d, len=%zu)\n",
	       vlen, ret < 0 ? "no value" : "OLD VALUE STILL PRESENT", ret, len);
	return ret < 0 ? 0 : 1;
}
int main(void)
{
	MPT_INTERFACE(metatype) *mt = mpt_config_global(0);
	MPT_INTERFACE(config) *cfg = 0;
	int bad = 0;
	
	MPT_metatype_convert(mt, MPT_ENUM(TypeConfigPtr), &cfg);
	
	bad |= run(cfg, "k.short", 10);
	bad |= run(cfg, "k.v249", 249);
	bad |= run(cfg, "k.v250", 250);
	bad |= run(cfg, "k.v300", 300);
	
	mpt_config_set(cfg, 0, 0, '.', 0);
	return bad;
}

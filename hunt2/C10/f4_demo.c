/* f4: mpt_path_add() on a length-prefixed (SepBinary) path whose elements were all consumed
 *     (or removed after a consumed prefix) does not record the length of the new first element
 *
 * build: gcc -I../mptcore f4_demo.c -L../_build/mptcore -lmptcore -Wl,-rpath,../_build/mptcore -o f4_demo
 */
#include <stdio.h>
#include <string.h>

#include "config.h"

static int append(MPT_STRUCT(path) *p, const char *name)
{
	size_t i, len = strlen(name);
	for (i = 0; i < len; i++) {
		if (mpt_path_addchar(p, name[i]) < 0) return -1;
		if (mpt_path_valid(p) < 0) return -1;
	}
	return mpt_path_add(p, len);
}
static int walk(const MPT_STRUCT(path) *p, const char *expect[], int count)
{
	MPT_STRUCT(path) tmp = *p;
	int i, len, bad = 0;
	for (i = 0; ; i++) {
		const char *curr = tmp.base + tmp.off;
		if ((len = mpt_path_next(&tmp)) < 0) break;
		printf("  element %d: length %d '%.*s'\n", i, len, len < 16 ? len : 16, curr);
		if (i >= count || (size_t) len != strlen(expect[i]) || memcmp(curr, expect[i], len)) bad = 1;
		if (i > 8) break;
	}
	if (i != count) bad = 1;
	return bad;
}
static int run(int flags)
{
	static const char *first[] = { "section", "sub" };
	static const char *second[] = { "option" };
	MPT_STRUCT(path) p = MPT_PATH_INIT;
	int bad = 0;
	
	p.sep = '/';
	p.flags = flags;
	
	if (append(&p, first[0]) < 0 || append(&p, first[1]) < 0) return 2;
	puts(" built:");
	bad |= walk(&p, first, 2);
	
	/* walk to the end ... */
	if (mpt_path_next(&p) != 7 || mpt_path_next(&p) != 3 || p.len) return 2;
	/* ... and continue to build behind the consumed part */
	if (append(&p, second[0]) < 0) return 2;
	puts(" after consuming both elements and adding 'option':");
	bad |= walk(&p, second, 1);
	
	mpt_path_fini(&p);
	return bad;
}
int main(void)
{
	int bad;
	puts("separator format:");
	bad = run(0);
	puts("length-prefixed format:");
	bad |= run(MPT_PATHFLAG(SepBinary));
	puts(bad ? "FAIL" : "ok");
	return bad;
}

/* short names resolve as full description but not with a length / symbol suffix */
#include <stdio.h>
#include <string.h>
#include <sys/uio.h>
#include "types.h"

int main(void)
{
	static const struct { const char *alias, *full; } names[] = {
		{ "log", "logger" }, { "iter", "iterator" }, { "out", "output" }, { "meta", "metatype" }
	};
	size_t i;
	int bad = 0;
	for (i = 0; i < sizeof(names) / sizeof(*names); i++) {
		char desc[64];
		const char *end = 0;
		const MPT_STRUCT(named_traits) *full, *lim;
		int plain, fullsym, sym;
		
		full = mpt_named_traits(names[i].alias, -1);
		lim  = mpt_named_traits(names[i].alias, strlen(names[i].alias));
		
		plain = mpt_alias_typeid(names[i].alias, 0);
		snprintf(desc, sizeof(desc), "%s: symbol", names[i].full);
		fullsym = mpt_alias_typeid(desc, &end);
		snprintf(desc, sizeof(desc), "%s: symbol", names[i].alias);
		sym = mpt_alias_typeid(desc, &end);
		
		printf("%-5s named(-1)=0x%lx named(len)=0x%lx | alias(\"%s\")=%d alias(\"%s: symbol\")=%d alias(\"%s\")=%d\n",
		       names[i].alias, full ? (unsigned long) full->type : 0, lim ? (unsigned long) lim->type : 0,
		       names[i].alias, plain, names[i].full, fullsym, desc, sym);
		if (full != lim || plain != fullsym || sym != plain) {
			bad = 1;
		}
	}
	if (bad) {
		fprintf(stderr, "VIOLATION: alias lookup depends on whether a length / symbol suffix is given\n");
	}
	return bad;
}

/* message value format <-> type id mapping is not symmetric for 'e' (long double) */
#include <stdio.h>
#include <sys/uio.h>
#include "types.h"
#include "convert.h"   /* defines _MPT_FLOAT_EXTENDED_H like for every other user of 'e' */
#include "message.h"

int main(void)
{
	const int fmt = MPT_message_value(Float, long double);
	const MPT_STRUCT(type_traits) *traits;
	int type, code, bad = 0;
	
	type = mpt_msgvalfmt_typeid(fmt);
	traits = mpt_type_traits('e');
	printf("format 0x%02x: size %zu -> type '%c'\n", fmt, mpt_msgvalfmt_size(fmt), type);
	printf("type 'e': registered size %zu (long double is %zu)\n", traits ? traits->size : 0, sizeof(long double));
	
	if (type != 'e' || !traits || traits->size != sizeof(long double)) {
		fprintf(stderr, "unexpected: 'e' not a built-in on this platform\n");
		return 2;
	}
	code = mpt_msgvalfmt_code('e');
	printf("mpt_msgvalfmt_code('e') = %d (expected 0x%02x)\n", code, fmt);
	if (code != fmt) {
		fprintf(stderr, "VIOLATION: built-in scalar 'e' has no format code although format 0x%02x maps to it\n", fmt);
		bad = 1;
	}
	/* all other built-in numbers are symmetric */
	{
		static const char all[] = "bynqiuxtfd";
		const char *c;
		for (c = all; *c; c++) {
			int f = mpt_msgvalfmt_code(*c);
			if (f < 0 || mpt_msgvalfmt_typeid(f) != *c
			 || mpt_msgvalfmt_size(f) != mpt_type_traits(*c)->size) {
				fprintf(stderr, "unexpected: '%c' asymmetric too\n", *c);
				bad = 1;
			}
		}
	}
	return bad;
}

/* mpt::type_traits::add() keeps the address of its (possibly temporary) argument */
#include <iostream>
#include <cstring>
#include <sys/uio.h>
#include "types.h"

/* same call form as in examples/cxx/types.cpp */
static __attribute__((noinline)) int reg(size_t size)
{
	return mpt::type_traits::add(mpt::type_traits(size));
}
static __attribute__((noinline)) void other_work()
{
	volatile char buf[512];
	for (size_t i = 0; i < sizeof(buf); i++) buf[i] = 0x55;
}

int main()
{
	int a = reg(24);
	if (a < 0) return 2;
	const mpt::type_traits *t = mpt::type_traits::get(a);
	size_t first = t ? t->size : 0;
	
	int b = reg(8);
	other_work();
	
	t = mpt::type_traits::get(a);
	size_t later = t ? t->size : 0;
	std::cout << std::hex << "id 0x" << a << ": size after registration " << std::dec << first
	          << ", size after further activity " << later << " (registered with 24)" << std::endl;
	std::cout << std::hex << "id 0x" << b << std::dec << " registered with 8, now " << mpt::type_traits::get(b)->size << std::endl;
	
	if (later != 24 || t->init || t->fini) {
		std::cerr << "VIOLATION: registered id does not keep its size/behaviour description" << std::endl;
		return 1;
	}
	return 0;
}

/* mpt_rawdata_type_traits(): "get or register" only works once */
#include <stdio.h>
#include <sys/uio.h>
#include "types.h"
#include "meta.h"
#include "values.h"

int main(void)
{
	const MPT_STRUCT(named_traits) *first, *again, *byname;
	MPT_INTERFACE(metatype) *mt;
	MPT_INTERFACE(rawdata) *rd = 0;
	int ret, bad = 0;
	
	first  = mpt_rawdata_type_traits();
	again  = mpt_rawdata_type_traits();
	byname = mpt_named_traits("mpt.rawdata", -1);
	
	printf("first=%p (id 0x%lx)  again=%p  by name=%p\n",
	       (void *) first, first ? (unsigned long) first->type : 0, (void *) again, (void *) byname);
	
	if (!first || first != byname) {
		fprintf(stderr, "unexpected: first registration failed\n");
		return 2;
	}
	if (again != first) {
		fprintf(stderr, "VIOLATION: identifier of 'mpt.rawdata' not delivered on second request\n");
		bad = 1;
	}
	/* consequence: the registered interface id can not be used on a raw data instance */
	if (!(mt = mpt_rawdata_create(-1))) {
		return 2;
	}
	ret = mt->_vptr->convertable.convert((MPT_INTERFACE(convertable) *) mt, first->type, &rd);
	printf("convert(rawdata instance, 0x%lx) = %d, interface = %p\n", (unsigned long) first->type, ret, (void *) rd);
	if (ret < 0 || !rd) {
		fprintf(stderr, "VIOLATION: instance refuses the id the registry handed out for its interface\n");
		bad = 1;
	}
	mt->_vptr->unref(mt);
	return bad;
}

/*
 * f1: apply_data() without part list (NULL parts, length = point count)
 *     and more than 65535 points: only the first dimension is applied to
 *     all points, every further dimension only to (count mod 65535) points.
 *
 * g++ -std=c++11 -I../mptcore -I../mptplot -I../mpt++ f1_demo.cpp \
 *   -L../_build/mpt++ -lmpt++ -L../_build/mptplot -lmptplot -L../_build/mptcore -lmptcore \
 *   -Wl,-rpath,$PWD/../_build/mpt++:$PWD/../_build/mptplot:$PWD/../_build/mptcore -o f1_demo
 */
#include <stdio.h>
#include <vector>
#include "values.h"

using namespace mpt;

struct TR : public transform {
	mutable long applied[2];
	TR() { applied[0] = applied[1] = 0; }
	int dimensions() const { return 2; }
	bool apply(unsigned d, const linepart &pt, point<double> *dest, const double *from) const
	{
		applied[d] += pt.usr;  /* points handed over for this dimension */
		point<double> s(d == 0 ? 1 : 0, d == 1 ? 1 : 0);
		::mpt::apply<point<double>, double>(dest, pt, from, s);
		return true;
	}
};

int main()
{
	const size_t n = 70000;
	std::vector<double> x(n, 0.5), y(n, 0.25);
	value_store st[2];
	st[0].set(span<const double>(x.data(), n));
	st[1].set(span<const double>(y.data(), n));
	
	std::vector<point<double> > dest(n, point<double>(0, 0));
	TR tr;
	apply_data(dest.data(), span<const linepart>(0, n), tr, span<const value_store>(st, 2));
	
	printf("points: %zu, handed to transform: x=%ld y=%ld\n", n, tr.applied[0], tr.applied[1]);
	printf("dest[0]=(%g,%g) dest[4464]=(%g,%g) dest[4465]=(%g,%g) dest[%zu]=(%g,%g)\n",
	       dest[0].x, dest[0].y, dest[4464].x, dest[4464].y, dest[4465].x, dest[4465].y, n - 1, dest[n-1].x, dest[n-1].y);
	
	int ret = 0;
	if (tr.applied[0] != (long) n || tr.applied[1] != (long) n) {
		printf("FAIL: run of %zu points was not consumed completely for every dimension\n", n);
		ret = 1;
	}
	for (size_t i = 0; i < n; i++) {
		if (dest[i].x != 0.5 || dest[i].y != 0.25) {
			printf("FAIL: point %zu is (%g,%g), expected (0.5,0.25)\n", i, dest[i].x, dest[i].y);
			ret = 1;
			break;
		}
	}
	return ret;
}

/*
 * f3: linepart::array::apply() with a dimension that ends inside a cut segment
 *     leaves a part {usr 1, _cut != 0}: a cut mark without a segment.
 *
 * g++ -std=c++11 -I../mptcore -I../mptplot -I../mpt++ f3_demo.cpp \
 *   -L../_build/mpt++ -lmpt++ -L../_build/mptplot -lmptplot -L../_build/mptcore -lmptcore \
 *   -Wl,-rpath,$PWD/../_build/mpt++:$PWD/../_build/mptplot:$PWD/../_build/mptcore -o f3_demo
 */
#include <stdio.h>
#include "values.h"

using namespace mpt;

struct TR : public transform {
	int dimensions() const { return 2; }
	linepart part(unsigned , const double *from, int len) const
	{
		struct ::mpt::range r; r.min = 0; r.max = 1;
		linepart p;
		mpt_linepart_linear(&p, from, len, &r);
		return p;
	}
	bool apply(unsigned d, const linepart &pt, point<double> *dest, const double *from) const
	{
		point<double> s(d == 0 ? 1 : 0, d == 1 ? 1 : 0);
		::mpt::apply<point<double>, double>(dest, pt, from, s);
		return true;
	}
};

int main()
{
	/* x enters the range [0,1] on segment 0->1, y has a value for point 0 only */
	double x[] = { -1.0, 0.5 };
	double y[] = { 0.5 };
	TR tr;
	int ret = 0;
	
	linepart::array a;
	a.set(2);
	a.apply(tr, 0, span<const double>(x, 2));
	a.apply(tr, 1, span<const double>(y, 1));
	
	printf("parts:");
	for (linepart *p = a.begin(); p != a.end(); ++p) {
		printf(" {raw %u usr %u cut %u trim %u}", p->raw, p->usr, p->_cut, p->_trim);
		if ((p->_cut || p->_trim) && p->usr < 2) {
			ret = 1;
		}
	}
	printf("\nlength_user() = %ld (points 0: x out of range, 1: no y value -> nothing visible)\n", a.length_user());
	if (ret) printf("FAIL: cut/trim mark on a part that has no segment to cut\n");
	
	/* same via polyline */
	value_store st[2];
	st[0].set(span<const double>(x, 2));
	st[1].set(span<const double>(y, 1));
	polyline pl;
	bool ok = pl.set(tr, span<const value_store>(st, 2));
	printf("polyline::set() = %d, %ld line points\n", ok, (long) pl.points().size());
	for (polyline::iterator it = pl.begin(); it != pl.end(); ++it) {
		span<const polyline::point> l = (*it).line(), p = (*it).points();
		printf("  part: line() %ld points, points() %ld points", (long) l.size(), (long) p.size());
		if (l.size()) printf(", line()[0] = (%g,%g)", l.begin()->x, l.begin()->y);
		printf("\n");
		if (l.size() == 1 && !p.size()) {
			printf("  FAIL: polyline reports a one-point line for input point 0 (x = -1, outside [0,1])\n");
			ret |= 2;
		}
	}
	return ret;
}

/*
 * f4: logarithmic axis with limit (layout::graph::transform3):
 *     (a) part() stores the LINEAR crossing fraction although the line is
 *         drawn (interpolated) in log10 space -> trim/cut end point is not on
 *         the range boundary;
 *     (b) apply_log() processes 32 points at a time; for usr = 32*k+1 the
 *         trimmed end point is alone in the last chunk and is not set at all.
 *
 * g++ -std=c++11 -I../mptcore -I../mptplot -I../mpt++ f4_demo.cpp \
 *   -L../_build/mpt++ -lmpt++ -L../_build/mptplot -lmptplot -L../_build/mptcore -lmptcore \
 *   -Wl,-rpath,$PWD/../_build/mpt++:$PWD/../_build/mptplot:$PWD/../_build/mptcore -o f4_demo
 */
#include <stdio.h>
#include <math.h>
#include <vector>
#include "layout.h"

using namespace mpt;

int main()
{
	int ret = 0;
	layout::graph::transform3 *t = new layout::graph::transform3;
	/* x axis: log10 scale, visible decades 0..2, i.e. values 1 .. 100 */
	t->_dim[0]._flags |= TransformLimit | TransformLg;
	t->_dim[0].limit.min = 0;
	t->_dim[0].limit.max = 2;
	
	for (int n = 31; n <= 34; n++) {
		/* n-1 points at x = 10 (log10 = 1), last point x = 1000 (log10 = 3, above 100) */
		std::vector<double> x(n, 10.0), y(n, 0.0), z(n, 0.0);
		x[n - 1] = 1000;
		value_store st[3];
		st[0].set(span<const double>(x.data(), n));
		st[1].set(span<const double>(y.data(), n));
		st[2].set(span<const double>(z.data(), n));
		
		polyline pl;
		if (!pl.set(*t, span<const value_store>(st, 3))) {
			printf("n=%d: set failed\n", n);
			return 4;
		}
		linepart p = *pl.parts().begin();
		double end = pl.points().begin()[n - 1].x;
		printf("n=%d part {raw %u usr %u cut %u trim %u (%.4f)}: trimmed line end at log10(x) = %g, boundary is 2\n",
		       n, p.raw, p.usr, p._cut, p._trim, p.trim(), end);
		/* segment length in log space is 2, 16 bit precision -> 2/65536 */
		if (fabs(end - 2.0) > 2 * 2.0 / 65536) {
			if (end == 0) {
				printf("   FAIL (b): end point of the trimmed line was never transformed\n");
				ret |= 2;
			} else {
				printf("   FAIL (a): line ends at x = %g instead of x = 100\n", pow(10, end));
				ret |= 1;
			}
		}
	}
	return ret;
}

/*
 * f2: polyline::set() stops range checking at the first store that is not
 *     of type double; out-of-range points of later dimensions are drawn.
 *
 * g++ -std=c++11 -I../mptcore -I../mptplot -I../mpt++ f2_demo.cpp \
 *   -L../_build/mpt++ -lmpt++ -L../_build/mptplot -lmptplot -L../_build/mptcore -lmptcore \
 *   -Wl,-rpath,$PWD/../_build/mpt++:$PWD/../_build/mptplot:$PWD/../_build/mptcore -o f2_demo
 */
#include <stdio.h>
#include "values.h"

using namespace mpt;

/* three dimensions, each limited to [0,1]; dimension 2 is mapped to y*100 */
struct TR : public transform {
	int dimensions() const { return 3; }
	linepart part(unsigned , const double *from, int len) const
	{
		struct ::mpt::range r; r.min = 0; r.max = 1;
		linepart p;
		mpt_linepart_linear(&p, from, len, &r);
		return p;
	}
	bool apply(unsigned d, const linepart &pt, point<double> *dest, const double *from) const
	{
		point<double> s(d == 0 ? 1 : 0, d == 1 ? 1 : (d == 2 ? 100 : 0));
		::mpt::apply<point<double>, double>(dest, pt, from, s);
		return true;
	}
};

static int run(bool with_float)
{
	double x[] = { 0.5, 0.5, 0.5 };
	double y[] = { 0.0, 0.0, 0.0 };
	float  f[] = { 0.0, 0.0, 0.0 };
	double z[] = { 0.5, 7.0, 0.5 };   /* z[1] is far above the range [0,1] */
	
	value_store st[3];
	st[0].set(span<const double>(x, 3));
	if (with_float) st[1].set(span<const float>(f, 3));
	else            st[1].set(span<const double>(y, 3));
	st[2].set(span<const double>(z, 3));
	
	TR tr;
	polyline pl;
	bool ok = pl.set(tr, span<const value_store>(st, 3));
	printf("%s dimension 1: set=%d parts:", with_float ? "float " : "double", ok);
	for (auto p : pl.parts()) printf(" {raw %u usr %u cut %u trim %u}", p.raw, p.usr, p._cut, p._trim);
	printf("\n");
	int ret = 0;
	for (polyline::iterator it = pl.begin(); it != pl.end(); ++it) {
		span<const polyline::point> pts = (*it).points();
		for (const polyline::point *q = pts.begin(); q != pts.end(); ++q) {
			printf("   drawn point (%g, %g)\n", q->x, q->y);
			if (q->y > 100) {
				printf("   FAIL: point with z = %g (range [0,1]) is reported as drawn\n", q->y / 100);
				ret = 1;
			}
		}
	}
	return ret;
}
int main()
{
	int ret = run(false);  /* reference: all stores double, point 1 is hidden */
	ret |= run(true);      /* store 1 is float: store 2 is never checked */
	return ret;
}

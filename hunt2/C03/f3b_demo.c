#include <stdio.h>
#include <stdlib.h>
#include <string.h>
#include <unistd.h>
#include <sys/uio.h>
#include "core.h"
#include "array.h"
#include "event.h"
#include "message.h"
#include "convert.h"
#include "connection.h"
#include "stream.h"
static int called;
static int reply(void *arg, void *msg) { (void) arg; (void) msg; ++called; return 0; }
static void poison(void) { volatile char b[4096]; memset((void *) b, 0x5a, sizeof(b)); }
int main(void)
{
	static const uint8_t wire[] = { 0x05, 0x81, 0x01 };
	MPT_STRUCT(stream) srm = MPT_STREAM_INIT;
	MPT_STRUCT(array) arr = MPT_ARRAY_INIT;
	MPT_STRUCT(command) *c1;
	MPT_STRUCT(socket) sock;
	int fd[2], ret;
	setvbuf(stdout, 0, _IONBF, 0);
	if (pipe(fd) < 0) return 77;
	if (write(fd[1], wire, sizeof(wire)) != sizeof(wire)) return 77;
	sock._id = fd[0];
	srm._rd._dec = mpt_decode_cobs;
	if (mpt_stream_dopen(&srm, &sock, MPT_STREAMFLAG(Read) | MPT_STREAMFLAG(ReadBuf)) < 0) return 77;
	if (!(c1 = mpt_command_reserve(&arr, 1))) return 77;
	c1->cmd = reply; c1->arg = 0;
	poison();
	ret = mpt_stream_sync(&srm, 1, &arr, 0);
	printf("sync = %d called=%d msg=%zd\n", ret, called, srm._rd._state.data.msg);
	return 0;
}

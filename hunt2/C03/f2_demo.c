/* COBS decoders: the documented reset call (source = 0, sourcelen = 0) clears only _ctx.
 * The partially decoded bytes (data.len) and the positions stay, so the bytes of a malformed
 * frame ("zero inside a block") are glued in front of the next, well-formed message.
 * Without the reset the decoder answers MissingData forever, so the reset is the only way on. */
#include <stdio.h>
#include <stdlib.h>
#include <string.h>
#include <sys/uio.h>

#include "core.h"
#include "message.h"
#include "convert.h"
#include "queue.h"

static int run(const char *name, MPT_TYPE(data_decoder) dec)
{
	/* frame 1 is malformed: code 03 announces two bytes, delimiter after one.
	 * frame 2 is the well-formed encoding of the one byte message 42 */
	static const uint8_t wire[] = { 0x03, 0x41, 0x00,  0x02, 0x42, 0x00 };
	MPT_STRUCT(decode_queue) q = MPT_DECODE_QUEUE_INIT;
	uint8_t got[16];
	size_t n = 0, i;
	int ret, step, fail = 0;
	
	q._dec = dec;
	q.data.max = 64;
	q.data.base = malloc(q.data.max);
	mpt_qpush(&q.data, sizeof(wire), wire);
	
	ret = mpt_queue_recv(&q);
	printf("%s: recv = %d (MissingData = %d), partial bytes = %zu\n", name, ret, MPT_ERROR(MissingData), q._state.data.len);
	ret = mpt_queue_recv(&q);
	printf("%s: recv again = %d (still stuck)\n", name, ret);
	
	/* documented reset */
	dec(&q._state, 0, 0);
	printf("%s: after reset: _ctx = %lu, data.len = %zu, curr = %zu\n", name, (unsigned long) q._state._ctx, q._state.data.len, q._state.curr);
	
	for (step = 0; step < 4; step++) {
		ret = mpt_queue_recv(&q);
		if (ret == 1) {
			MPT_STRUCT(message) m; struct iovec v;
			mpt_message_get(&q.data, q._state.data.pos, q._state.data.msg, &m, &v);
			n = mpt_message_read(&m, sizeof(got), got);
			printf("%s: delivered message:", name);
			for (i = 0; i < n; i++) printf(" %02x", got[i]);
			printf("\n");
			if (n != 1 || got[0] != 0x42) {
				printf("%s: FAIL: expected message 42, bytes of the malformed frame were added\n", name);
				fail = 1;
			}
			break;
		}
		printf("%s: recv = %d\n", name, ret);
	}
	free(q.data.base);
	return fail;
}
int main(void)
{
	int fail = 0;
	fail |= run("cobs", mpt_decode_cobs);
	fail |= run("cobs/zpe", mpt_decode_cobs_zpe);
	return fail;
}

/* same defect through the stream API: mpt_stream_memory() (like mpt_stream_close()) relies on
 * mpt_stream_setmode() -> decoder reset to forget the old input. For the COBS decoders the
 * positions and the partial message survive, the new input is decoded with them. */
#include <stdio.h>
#include <string.h>
#include <sys/uio.h>

#include "core.h"
#include "event.h"
#include "message.h"
#include "convert.h"
#include "connection.h"
#include "stream.h"

static uint8_t got[4][16];
static size_t gotlen[4];
static int calls;

static int handler(void *arg, const MPT_STRUCT(message) *msg)
{
	MPT_STRUCT(message) m = *msg;
	size_t i;
	(void) arg;
	if (calls < 4) {
		gotlen[calls] = mpt_message_read(&m, sizeof(got[0]), got[calls]);
		printf("  message %d:", calls);
		for (i = 0; i < gotlen[calls]; i++) printf(" %02x", got[calls][i]);
		printf("\n");
	}
	++calls;
	return 0;
}
int main(void)
{
	/* first input: frame "A" and the start of a longer frame */
	uint8_t in1[] = { 0x02, 'A', 0x00, 0x04, 'B', 'B' };
	/* second input: two well-formed frames "CD" and "EF" */
	uint8_t in2[] = { 0x03, 'C', 'D', 0x00, 0x03, 'E', 'F', 0x00 };
	MPT_STRUCT(stream) srm = MPT_STREAM_INIT;
	struct iovec v;
	int i;
	
	srm._rd._dec = mpt_decode_cobs;
	v.iov_base = in1; v.iov_len = sizeof(in1);
	if (mpt_stream_memory(&srm, &v, 0) < 0) return 77;
	for (i = 0; i < 2; i++) mpt_stream_dispatch(&srm, handler, 0);
	
	/* re-target the stream to new input memory */
	v.iov_base = in2; v.iov_len = sizeof(in2);
	if (mpt_stream_memory(&srm, &v, 0) < 0) return 77;
	printf("after mpt_stream_memory(): curr = %zu, data.len = %zu (expected 0, 0)\n", srm._rd._state.curr, srm._rd._state.data.len);
	for (i = 0; i < 3; i++) mpt_stream_dispatch(&srm, handler, 0);
	
	if (calls != 3
	    || gotlen[1] != 2 || memcmp(got[1], "CD", 2)
	    || gotlen[2] != 2 || memcmp(got[2], "EF", 2)) {
		printf("FAIL: expected messages 41 | 43 44 | 45 46\n");
		return 1;
	}
	printf("ok\n");
	return 0;
}

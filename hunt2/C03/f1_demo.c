/* stream input: dispatch without handler (skip message) corrupts the decoder state,
 * the next delivered message is [junk byte] + skipped message + next message */
#include <stdio.h>
#include <string.h>
#include <unistd.h>
#include <poll.h>
#include <sys/uio.h>

#include "core.h"
#include "event.h"
#include "message.h"
#include "convert.h"
#include "connection.h"
#include "notify.h"
#include "stream.h"

static uint8_t got[256];
static size_t gotlen;
static int calls;

static int handler(void *arg, MPT_STRUCT(event) *ev)
{
	(void) arg;
	if (ev && ev->msg) {
		MPT_STRUCT(message) m = *ev->msg;
		gotlen = mpt_message_read(&m, sizeof(got), got);
		++calls;
	}
	return 0;
}
int main(void)
{
	/* two well-formed COBS frames: "A" and "BC" */
	static const uint8_t wire[] = { 0x02, 'A', 0x00,  0x03, 'B', 'C', 0x00 };
	MPT_STRUCT(socket) sock;
	MPT_INTERFACE(input) *in;
	int fd[2], ret;
	size_t i;
	
	if (pipe(fd) < 0) return 77;
	if (write(fd[1], wire, sizeof(wire)) != sizeof(wire)) return 77;
	close(fd[1]);
	
	sock._id = fd[0];
	if (!(in = mpt_stream_input(&sock, MPT_STREAMFLAG(Read) | MPT_STREAMFLAG(Buffer), MPT_ENUM(EncodingCobs), 0))) {
		perror("mpt_stream_input");
		return 77;
	}
	/* load wire data */
	ret = in->_vptr->next(in, POLLIN);
	printf("next() = %d\n", ret);
	/* no handler: first message is to be skipped (as mpt_loop() does without dispatcher) */
	ret = in->_vptr->dispatch(in, 0, 0);
	printf("dispatch(no handler) = %d\n", ret);
	/* second message goes to handler */
	ret = in->_vptr->dispatch(in, handler, 0);
	printf("dispatch(handler) = %d, handler calls = %d\n", ret, calls);
	printf("delivered (%zu):", gotlen);
	for (i = 0; i < gotlen; i++) printf(" %02x", got[i]);
	printf("\n");
	if (calls != 1 || gotlen != 2 || memcmp(got, "BC", 2)) {
		printf("FAIL: expected second message 42 43\n");
		return 1;
	}
	printf("ok\n");
	return 0;
}

/* stream input (mpt_stream_input): a complete, well-formed frame that fills the initial 64 byte
 * read buffer is never delivered when the decoder needs scratch space (command decoder: 2 header
 * bytes, COBS/ZPE: zero pairs). dispatch() answers MissingBuffer forever.
 * Same stall as fixed for mpt_stream_dispatch() (grow own buffer and retry), but the input's
 * dispatch calls mpt_queue_recv() directly before it gets there. */
#include <stdio.h>
#include <stdlib.h>
#include <string.h>
#include <unistd.h>
#include <poll.h>
#include <sys/uio.h>

#include "core.h"
#include "event.h"
#include "message.h"
#include "convert.h"
#include "connection.h"
#include "notify.h"
#include "stream.h"

static int calls;
static size_t gotlen;
static int handler(void *arg, MPT_STRUCT(event) *ev)
{
	(void) arg;
	if (ev && ev->msg) {
		gotlen = mpt_message_length(ev->msg);
		++calls;
	}
	return 0;
}
static int run(int code, const char *name)
{
	uint8_t wire[64];
	MPT_STRUCT(socket) sock;
	MPT_INTERFACE(input) *in;
	int fd[2], ret = 0, i;
	
	if (code == MPT_ENUM(EncodingCommand)) {
		/* 63 characters and the terminating zero */
		memset(wire, 'x', 63);
		wire[63] = 0;
	} else {
		/* COBS/ZPE: 31 blocks "E1 x" (= x 00 00), final block 01, delimiter */
		for (i = 0; i < 62; i += 2) { wire[i] = 0xe1; wire[i + 1] = 'x'; }
		wire[62] = 0x01;
		wire[63] = 0;
	}
	calls = 0;
	if (pipe(fd) < 0) return 77;
	if (write(fd[1], wire, sizeof(wire)) != sizeof(wire)) return 77;
	
	sock._id = fd[0];
	if (!(in = mpt_stream_input(&sock, MPT_STREAMFLAG(Read) | MPT_STREAMFLAG(Buffer), code, 0))) return 77;
	in->_vptr->next(in, POLLIN);
	for (i = 0; i < 5 && !calls; i++) {
		/* no further input arrives, so the event loop can only retry the dispatch */
		ret = in->_vptr->dispatch(in, handler, 0);
	}
	printf("%s: last dispatch = %d (MissingBuffer = %d), handler calls = %d, message length = %zu\n",
	       name, ret, MPT_ERROR(MissingBuffer), calls, gotlen);
	close(fd[1]);
	in->_vptr->meta.unref((void *) in);
	return calls == 1 ? 0 : 1;
}
int main(void)
{
	int fail = 0;
	fail |= run(MPT_ENUM(EncodingCommand), "command");
	fail |= run(MPT_ENUM(EncodingCobs) | MPT_ENUM(EncodingCompress), "cobs/zpe");
	if (fail) printf("FAIL: complete 64 byte frame never delivered\n");
	return fail;
}

/* mpt_stream_sync(): inverted use of the mpt_queue_recv() result.
 *  - a completely decoded reply frame makes it return at once, message unprocessed,
 *  - the message is never consumed: with a further command waiting the next call spins forever,
 *  - an INCOMPLETE frame (decoder returned 0) is processed as a message of length -1.
 */
#include <stdio.h>
#include <stdlib.h>
#include <string.h>
#include <unistd.h>
#include <signal.h>
#include <sys/uio.h>

#include "core.h"
#include "array.h"
#include "event.h"
#include "message.h"
#include "convert.h"
#include "connection.h"
#include "stream.h"

static int called[3];
static int reply(void *arg, void *msg)
{
	(void) msg;
	++called[(intptr_t) arg];
	return 0;
}
static void on_alarm(int sig)
{
	static const char txt[] = "FAIL: mpt_stream_sync() does not terminate (delivered message is never consumed)\n";
	(void) sig;
	if (write(1, txt, sizeof(txt) - 1) < 0) { }
	_exit(1);
}
int main(void)
{
	/* one well-formed COBS frame: reply (0x80) for id 1, payload { Answer, 0 } -> message 81 01 */
	static const uint8_t wire[] = { 0x03, 0x81, 0x01, 0x00 };
	MPT_STRUCT(stream) srm = MPT_STREAM_INIT;
	MPT_STRUCT(array) arr = MPT_ARRAY_INIT;
	MPT_STRUCT(command) *c1, *c2;
	MPT_STRUCT(socket) sock;
	int fd[2], ret;
	
	setvbuf(stdout, 0, _IONBF, 0);
	if (pipe(fd) < 0) return 77;
	if (write(fd[1], wire, sizeof(wire)) != sizeof(wire)) return 77;
	
	sock._id = fd[0];
	srm._rd._dec = mpt_decode_cobs;
	if (mpt_stream_dopen(&srm, &sock, MPT_STREAMFLAG(Read) | MPT_STREAMFLAG(ReadBuf)) < 0) return 77;
	
	/* two requests wait for their answer */
	if (!(c1 = mpt_command_reserve(&arr, 1))) return 77;
	c1->cmd = reply; c1->arg = (void *) 1;
	if (!(c2 = mpt_command_reserve(&arr, 1))) return 77;
	c2->cmd = reply; c2->arg = (void *) 2;
	c1 = mpt_command_get(&arr, 1);
	printf("waiting ids: %lu %lu\n", (unsigned long) c1->id, (unsigned long) c2->id);
	
	signal(SIGALRM, on_alarm);
	alarm(3);
	
	ret = mpt_stream_sync(&srm, 1, &arr, 0);
	printf("1st sync = %d, handler(1) called %d times, pending message length %zd\n", ret, called[1], srm._rd._state.data.msg);
	ret = mpt_stream_sync(&srm, 1, &arr, 0);
	printf("2nd sync = %d, handler(1) called %d times\n", ret, called[1]);
	alarm(0);
	if (called[1] != 1) {
		printf("FAIL: reply handler calls = %d\n", called[1]);
		return 1;
	}
	printf("ok\n");
	return 0;
}

#include <stdio.h>
#include <string.h>
#include <unistd.h>
#include <poll.h>
#include <fcntl.h>
#include <sys/uio.h>
#include <sys/socket.h>
#include "core.h"
#include "convert.h"
#include "message.h"
#include "queue.h"
#include "connection.h"
#include "stream.h"
static int test(int mode, int fdw, int fdr, int what, int timeout){
	MPT_STRUCT(stream) s = MPT_STREAM_INIT; MPT_STRUCT(socket) sock; sock._id=fdw;
	s._wd._enc = mpt_message_encoder(MPT_ENUM(EncodingCobs));
	s._rd._dec = mpt_message_decoder(MPT_ENUM(EncodingCobs));
	if (mpt_stream_dopen(&s,&sock,mode|MPT_STREAMFLAG(Buffer))<0){printf("dopen fail\n");return -1;}
	mpt_stream_push(&s,5,"hello"); mpt_stream_push(&s,0,0);
	int r=mpt_stream_poll(&s,what,timeout);
	uint8_t buf[32]; fcntl(fdr,F_SETFL,O_NONBLOCK);
	ssize_t n=read(fdr,buf,sizeof(buf));
	printf("poll -> %d, wire bytes arrived %zd, still queued %zu\n",r,n,s._wd.data.len);
	return n>0?0:1;
}
int main(){
	int p[2], sv[2], bad=0;
	pipe(p); printf("write-only pipe, POLLOUT, timeout 0: "); bad+=test(MPT_STREAMFLAG(Write),p[1],p[0],POLLOUT,0);
	pipe(p); printf("write-only pipe, POLLOUT, timeout -1: "); bad+=test(MPT_STREAMFLAG(Write),p[1],p[0],POLLOUT,-1);
	socketpair(AF_UNIX,SOCK_STREAM,0,sv); printf("rdwr socket, POLLOUT, timeout 0: "); bad+=test(MPT_STREAMFLAG(RdWr),sv[0],sv[1],POLLOUT,0);
	socketpair(AF_UNIX,SOCK_STREAM,0,sv); printf("rdwr socket, POLLOUT, timeout -1: "); bad+=test(MPT_STREAMFLAG(RdWr),sv[0],sv[1],POLLOUT,-1);
	socketpair(AF_UNIX,SOCK_STREAM,0,sv); printf("rdwr socket, POLLIN|POLLOUT, timeout 0: "); bad+=test(MPT_STREAMFLAG(RdWr),sv[0],sv[1],POLLIN|POLLOUT,0);
	return bad;
}

#include <stdio.h>
#include <string.h>
#include <unistd.h>
#include <sys/uio.h>
#include "core.h"
#include "convert.h"
#include "message.h"
#include "event.h"
#include "queue.h"
#include "connection.h"
#include "stream.h"
static int handler(void *arg, const MPT_STRUCT(message) *mp){ MPT_STRUCT(message) m=*mp; uint8_t b[64]; size_t l=mpt_message_read(&m,64,b); printf("  msg len %zu: %.*s\n",l,(int)l,b); return 0;}
int main(){
  MPT_STRUCT(stream) s = MPT_STREAM_INIT;
  uint8_t b1[] = "\5AAAA\0\5BBBB\0\5CC";   /* ends inside frame */
  uint8_t b2[] = "\5DDDD\0\5EEEE\0";
  struct iovec v;
  s._rd._dec = mpt_message_decoder(MPT_ENUM(EncodingCobs));
  v.iov_base=b1; v.iov_len=sizeof(b1)-1;
  printf("memory 1: %d\n", mpt_stream_memory(&s,&v,0));
  for(int i=0;i<4;i++) printf(" dispatch %d\n", mpt_stream_dispatch(&s,handler,0));
  v.iov_base=b2; v.iov_len=sizeof(b2)-1;
  printf("memory 2: %d (dec %p curr %zu pos %zu len %zu msg %zd)\n", mpt_stream_memory(&s,&v,0), (void*)s._rd._dec, s._rd._state.curr,s._rd._state.data.pos,s._rd._state.data.len,s._rd._state.data.msg);
  for(int i=0;i<4;i++) printf(" dispatch %d\n", mpt_stream_dispatch(&s,handler,0));
  return 0;
}

/*
 * f2: mpt_stream_sync() as reader of a framed input queue
 *   (a) a reply frame that arrives in one piece is not delivered by the call that received it,
 *   (b) a reply frame that arrives in two segments makes it process a message that
 *       does not exist yet (uninitialised message descriptor: garbage result or crash),
 *   (c) a delivered reply is never consumed: with a second reply outstanding the
 *       call spins forever on the same message.
 *
 * build:
 *   gcc -g f2_demo.c -I../mptcore -I../mptio -L../_build/mptcore -lmptcore -L../_build/mptio -lmptio \
 *       -Wl,-rpath,$PWD/../_build/mptcore -Wl,-rpath,$PWD/../_build/mptio -o f2_demo
 */
#include <stdio.h>
#include <string.h>
#include <stdlib.h>
#include <unistd.h>
#include <signal.h>
#include <sys/uio.h>
#include <sys/wait.h>
#include <sys/socket.h>

#include "core.h"
#include "array.h"
#include "convert.h"
#include "message.h"
#include "event.h"
#include "queue.h"
#include "connection.h"
#include "stream.h"

static const uint8_t payload[] = "reply\0payload";
static int calls, good;

static int answer(void *arg, void *ptr)
{
	MPT_STRUCT(message) msg;
	uint8_t buf[64];
	size_t len;
	(void) arg;
	if (!ptr) return 0;
	++calls;
	msg = *((MPT_STRUCT(message) *) ptr);
	len = mpt_message_read(&msg, sizeof(buf), buf);
	if (len == sizeof(payload) && !memcmp(buf, payload, len)) ++good;
	else printf("  handler called with wrong content (len %zu)\n", len);
	return 0;
}
/* dirty the stack area a later callee will use for its locals */
static void __attribute__((noinline)) scribble(void)
{
	volatile uint8_t pad[1024];
	size_t i;
	for (i = 0; i < sizeof(pad); i++) pad[i] = 0x81;
}
static void hang(int sig)
{
	static const char txt[] = "  FAIL: mpt_stream_sync() does not return (spins on the same message)\n";
	(void) sig;
	if (write(1, txt, sizeof(txt) - 1) < 0) _exit(2);
	_exit(1);
}
static int run(int cut, int outstanding)
{
	MPT_STRUCT(stream) srm = MPT_STREAM_INIT, peer = MPT_STREAM_INIT;
	MPT_STRUCT(array) wait = MPT_ARRAY_INIT;
	MPT_STRUCT(command) *cmd;
	MPT_STRUCT(socket) sock;
	uint8_t id[2], wire[64];
	ssize_t wlen;
	int sv[2], ret, i;
	
	calls = good = 0;
	if (socketpair(AF_UNIX, SOCK_STREAM, 0, sv) < 0) return 2;
	
	/* local side: bidirectional framed stream waiting for replies */
	sock._id = sv[0];
	srm._rd._dec = mpt_message_decoder(MPT_ENUM(EncodingCobs));
	srm._wd._enc = mpt_message_encoder(MPT_ENUM(EncodingCobs));
	if (mpt_stream_dopen(&srm, &sock, MPT_STREAMFLAG(RdWr) | MPT_STREAMFLAG(Buffer)) < 0) return 2;
	for (i = 0; i < outstanding; i++) {
		if (!(cmd = mpt_command_reserve(&wait, sizeof(id)))) return 2;
		cmd->cmd = answer;
		cmd->arg = 0;
	}
	/* remote side: reply (to last request) = marked id + payload, framed by an output queue */
	mpt_message_id2buf(cmd->id, id, sizeof(id));
	id[0] |= 0x80;
	peer._wd._enc = mpt_message_encoder(MPT_ENUM(EncodingCobs));
	peer._wd.data.base = malloc(64); peer._wd.data.max = 64;
	if (mpt_queue_push(&peer._wd, sizeof(id), id) != sizeof(id)
	    || mpt_queue_push(&peer._wd, sizeof(payload), payload) != sizeof(payload)
	    || mpt_queue_push(&peer._wd, 0, 0) < 0) return 2;
	wlen = peer._wd._state.done;
	mpt_queue_get(&peer._wd.data, 0, wlen, wire);
	free(peer._wd.data.base);
	
	if (cut) {
		printf("frame of %zd bytes delivered as %d + %zd, %d outstanding\n", wlen, cut, wlen - cut, outstanding);
		if (write(sv[1], wire, cut) != cut) return 2;
		scribble();
		ret = mpt_stream_sync(&srm, sizeof(id), &wait, 100);
		printf("  sync (frame incomplete) = %d, handler calls %d\n", ret, calls);
		if (ret != outstanding || calls) {
			printf("  FAIL: incomplete frame was processed as a message\n");
			return 1;
		}
		if (write(sv[1], wire + cut, wlen - cut) != wlen - cut) return 2;
	} else {
		printf("frame of %zd bytes delivered in one piece, %d outstanding\n", wlen, outstanding);
		if (write(sv[1], wire, wlen) != wlen) return 2;
	}
	scribble();
	ret = mpt_stream_sync(&srm, sizeof(id), &wait, 100);
	printf("  sync (frame complete) = %d, handler calls %d, correct %d\n", ret, calls, good);
	if (outstanding > 1 && !calls) {
		/* work around (a) to show (c) */
		ret = mpt_stream_sync(&srm, sizeof(id), &wait, 100);
		printf("  second sync = %d, handler calls %d, correct %d\n", ret, calls, good);
	}
	if (good != 1 || calls != 1) {
		printf("  FAIL: complete reply frame not delivered (once) to its handler\n");
		return 1;
	}
	return 0;
}
static int child(int cut, int outstanding)
{
	pid_t pid;
	int st = 0;
	if (!(pid = fork())) {
		signal(SIGALRM, hang);
		alarm(3);
		_exit(run(cut, outstanding));
	}
	if (waitpid(pid, &st, 0) < 0) return 2;
	if (WIFSIGNALED(st)) {
		printf("  FAIL: killed by signal %d\n", WTERMSIG(st));
		return 1;
	}
	return WEXITSTATUS(st);
}
int main(void)
{
	int bad = 0;
	setvbuf(stdout, 0, _IONBF, 0);
	bad += child(0, 1) ? 1 : 0;  /* (a) */
	bad += child(5, 1) ? 1 : 0;  /* (b) */
	bad += child(0, 2) ? 1 : 0;  /* (c) */
	printf("%d of 3 scenarios failed\n", bad);
	return bad ? 1 : 0;
}

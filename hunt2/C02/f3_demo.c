/*
 * f3: dropping a message through the stream input (dispatch without handler)
 * destroys the decoder state when the message was not decoded before the call:
 * all following messages of the stream are lost.
 *
 * build:
 *   gcc -g f3_demo.c -I../mptcore -I../mptio -L../_build/mptcore -lmptcore -L../_build/mptio -lmptio \
 *       -Wl,-rpath,$PWD/../_build/mptcore -Wl,-rpath,$PWD/../_build/mptio -o f3_demo
 */
#include <stdio.h>
#include <string.h>
#include <unistd.h>
#include <poll.h>
#include <sys/uio.h>
#include <sys/socket.h>

#include "core.h"
#include "convert.h"
#include "message.h"
#include "event.h"
#include "queue.h"
#include "connection.h"
#include "notify.h"
#include "stream.h"

static char got[8][16];
static int ngot;

static int handler(void *arg, MPT_STRUCT(event) *ev)
{
	MPT_STRUCT(message) msg;
	size_t len;
	(void) arg;
	if (!ev || !ev->msg || ngot >= 8) return 0;
	msg = *ev->msg;
	len = mpt_message_read(&msg, sizeof(got[0]) - 1, got[ngot]);
	got[ngot++][len] = 0;
	return 0;
}
/* send "first", "second", "third" through a framed output queue in one segment,
 * drop message number `drop`, dispatch the others */
static int run(int code, int drop)
{
	static const char *text[3] = { "first", "second", "third" };
	MPT_STRUCT(stream) out = MPT_STREAM_INIT;
	MPT_STRUCT(socket) sock;
	MPT_INTERFACE(input) *in;
	int sv[2], i, ret, exp = 0, bad = 0;
	
	ngot = 0;
	if (socketpair(AF_UNIX, SOCK_STREAM, 0, sv) < 0) return 2;
	sock._id = sv[0];
	out._wd._enc = mpt_message_encoder(code);
	if (mpt_stream_dopen(&out, &sock, MPT_STREAMFLAG(Write) | MPT_STREAMFLAG(Buffer)) < 0) return 2;
	for (i = 0; i < 3; i++) {
		if (mpt_stream_push(&out, strlen(text[i]), text[i]) < 0 || mpt_stream_push(&out, 0, 0) < 0) return 2;
	}
	if (mpt_stream_flush(&out) < 0) return 2;
	
	sock._id = sv[1];
	if (!(in = mpt_stream_input(&sock, MPT_STREAMFLAG(Read) | MPT_STREAMFLAG(Buffer), code, 0))) return 2;
	ret = in->_vptr->next(in, POLLIN);
	printf("  next() = %d\n", ret);
	for (i = 0; i < 3; i++) {
		ret = in->_vptr->dispatch(in, i == drop ? 0 : handler, 0);
		printf("  dispatch(%s) = %d\n", i == drop ? "no handler" : "handler", ret);
	}
	for (i = 0; i < 3; i++) {
		if (i == drop) continue;
		if (exp >= ngot || strcmp(got[exp], text[i])) {
			printf("  message '%s' not received\n", text[i]);
			bad = 1;
		}
		++exp;
	}
	if (ngot > exp) { printf("  surplus messages\n"); bad = 1; }
	return bad;
}
int main(void)
{
	int bad = 0, ret;
	setvbuf(stdout, 0, _IONBF, 0);
	printf("drop second message (decoded by the preceding dispatch):\n");
	ret = run(MPT_ENUM(EncodingCobs), 1);
	printf("  %s\n", ret ? "FAIL" : "ok");
	bad += ret ? 1 : 0;
	printf("drop first message (not decoded before the call):\n");
	ret = run(MPT_ENUM(EncodingCobs), 0);
	printf("  %s\n", ret ? "FAIL: messages behind the dropped one are lost" : "ok");
	bad += ret ? 1 : 0;
	return bad ? 1 : 0;
}

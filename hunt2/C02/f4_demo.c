/*
 * f4: revoking a message before its termination (push of length 1 without data,
 * the operation the library itself uses when a push fails)
 *   (a) mpt_queue_push(): finished COBS blocks of the revoked message stay in the
 *       output queue and become the head of the next message,
 *   (b) mpt_stream_push(): takes the returned queue position for a consumed length
 *       and continues to "push" from a wild address.
 *
 * build:
 *   gcc -g f4_demo.c -I../mptcore -I../mptio -L../_build/mptcore -lmptcore -L../_build/mptio -lmptio \
 *       -Wl,-rpath,$PWD/../_build/mptcore -Wl,-rpath,$PWD/../_build/mptio -o f4_demo
 */
#include <stdio.h>
#include <stdlib.h>
#include <string.h>
#include <unistd.h>
#include <sys/uio.h>
#include <sys/wait.h>
#include <sys/socket.h>

#include "core.h"
#include "convert.h"
#include "message.h"
#include "queue.h"
#include "connection.h"
#include "stream.h"

static int queue_level(int code, const char *name)
{
	MPT_STRUCT(encode_queue) wq = MPT_ENCODE_QUEUE_INIT;
	MPT_STRUCT(decode_queue) rq = MPT_DECODE_QUEUE_INIT;
	uint8_t got[4][32];
	size_t glen[4], k;
	ssize_t ret;
	int i, ngot = 0;
	
	wq._enc = mpt_message_encoder(code);
	rq._dec = mpt_message_decoder(code);
	wq.data.base = malloc(256);
	wq.data.max  = 256;
	
	/* message 1 */
	if (mpt_queue_push(&wq, 3, "one") != 3 || mpt_queue_push(&wq, 0, 0) < 0) return 2;
	/* start a message, revoke it before termination; nothing has left the queue */
	if (mpt_queue_push(&wq, 5, "ab\0cd") != 5) return 2;
	ret = mpt_queue_push(&wq, 1, 0);
	/* message 2 */
	if (mpt_queue_push(&wq, 3, "XYZ") != 3 || mpt_queue_push(&wq, 0, 0) < 0) return 2;
	
	/* hand wire bytes to framed input queue */
	rq.data = wq.data;
	rq.data.len = wq._state.done;
	while (ngot < 4 && mpt_queue_recv(&rq) > 0) {
		MPT_STRUCT(message) msg;
		struct iovec vec;
		mpt_message_get(&rq.data, rq._state.data.pos, rq._state.data.msg, &msg, &vec);
		glen[ngot] = mpt_message_read(&msg, sizeof(got[0]), got[ngot]);
		++ngot;
	}
	printf("%s: revoke = %zd, received %d message(s):", name, ret, ngot);
	for (i = 0; i < ngot; i++) {
		printf(" [");
		for (k = 0; k < glen[i]; k++) printf(got[i][k] < 0x20 ? "\\x%02x" : "%c", got[i][k]);
		printf("]");
	}
	printf("\n");
	free(wq.data.base);
	if (ngot != 2
	    || glen[0] != 3 || memcmp(got[0], "one", 3)
	    || glen[1] != 3 || memcmp(got[1], "XYZ", 3)) {
		return 1;
	}
	return 0;
}
static int stream_level(void)
{
	MPT_STRUCT(stream) out = MPT_STREAM_INIT;
	MPT_STRUCT(socket) sock;
	ssize_t ret;
	int sv[2];
	
	if (socketpair(AF_UNIX, SOCK_STREAM, 0, sv) < 0) return 2;
	sock._id = sv[0];
	out._wd._enc = mpt_message_encoder(MPT_ENUM(EncodingCobs));
	if (mpt_stream_dopen(&out, &sock, MPT_STREAMFLAG(Write) | MPT_STREAMFLAG(Buffer)) < 0) return 2;
	if (mpt_stream_push(&out, 3, "one") != 3 || mpt_stream_push(&out, 0, 0) < 0) return 2;
	if (mpt_stream_push(&out, 5, "ab\0cd") != 5) return 2;
	ret = mpt_stream_push(&out, 1, 0);
	printf("mpt_stream_push(srm, 1, 0) = %zd\n", ret);
	return 0;
}
int main(void)
{
	pid_t pid;
	int bad = 0, st = 0;
	setvbuf(stdout, 0, _IONBF, 0);
	bad += queue_level(MPT_ENUM(EncodingCobs), "COBS");
	bad += queue_level(MPT_ENUM(EncodingCobsInline), "COBS/R");
	bad += queue_level(MPT_ENUM(EncodingCobs) | MPT_ENUM(EncodingCompress), "COBS/ZPE");
	bad += queue_level(MPT_ENUM(EncodingCobsInline) | MPT_ENUM(EncodingCompress), "COBS/ZPE+R");
	if (bad) printf("FAIL: receiver got a message that was never sent (revoked data merged with next message)\n");
	
	if (!(pid = fork())) {
		_exit(stream_level());
	}
	waitpid(pid, &st, 0);
	if (WIFSIGNALED(st)) {
		printf("FAIL: mpt_stream_push(srm, 1, 0) killed by signal %d\n", WTERMSIG(st));
		++bad;
	} else if (WEXITSTATUS(st)) {
		++bad;
	}
	return bad ? 1 : 0;
}

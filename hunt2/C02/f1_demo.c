/*
 * f1: a complete frame is never delivered by the stream input
 * (mpt_stream_input -> input::dispatch) when the decoder needs scratch space.
 *
 * build:
 *   gcc f1_demo.c -I../mptcore -I../mptio -L../_build/mptcore -lmptcore -L../_build/mptio -lmptio \
 *       -Wl,-rpath,$PWD/../_build/mptcore -Wl,-rpath,$PWD/../_build/mptio -o f1_demo
 */
#include <stdio.h>
#include <string.h>
#include <unistd.h>
#include <poll.h>
#include <sys/uio.h>
#include <sys/socket.h>

#include "core.h"
#include "convert.h"
#include "message.h"
#include "event.h"
#include "queue.h"
#include "connection.h"
#include "notify.h"
#include "stream.h"

static uint8_t sent[63];
static int received;

static int handler(void *arg, MPT_STRUCT(event) *ev)
{
	uint8_t buf[256];
	MPT_STRUCT(message) msg;
	size_t len;
	(void) arg;
	if (!ev || !ev->msg) return 0;
	msg = *ev->msg;
	len = mpt_message_read(&msg, sizeof(buf), buf);
	if (len == sizeof(sent) && !memcmp(buf, sent, len)) {
		++received;
	} else {
		printf("  unexpected message (len %zu)\n", len);
	}
	return 0;
}
/* what mpt_loop()/mpt_notify_wait() do: next() when readable, then dispatch() */
static void reader_turn(MPT_INTERFACE(input) *in, int fd)
{
	struct pollfd p;
	int ret;
	p.fd = fd; p.events = POLLIN; p.revents = 0;
	if (poll(&p, 1, 0) > 0 && (p.revents & POLLIN)) {
		ret = in->_vptr->next(in, POLLIN);
		printf("  next() = %d\n", ret);
	}
	do {
		ret = in->_vptr->dispatch(in, handler, 0);
		printf("  dispatch() = %d\n", ret);
	} while (ret > 0 && (ret & MPT_EVENTFLAG(Retry)));
}
static int run(int code, const char *name)
{
	MPT_STRUCT(stream) out = MPT_STREAM_INIT;
	MPT_STRUCT(socket) sock;
	MPT_INTERFACE(input) *in;
	uint8_t wire[128];
	ssize_t wlen;
	int sv[2], i;
	
	printf("%s\n", name);
	received = 0;
	if (socketpair(AF_UNIX, SOCK_STREAM, 0, sv) < 0) { perror("socketpair"); return 2; }
	
	/* message: 63 bytes with a single zero -> 65 wire bytes in all four framings */
	for (i = 0; i < (int) sizeof(sent); i++) sent[i] = 1 + i;
	sent[10] = 0;
	sent[62] = 1; /* no tail inline for the /R variants */
	
	/* sender: framed output queue of a stream */
	sock._id = sv[0];
	out._wd._enc = mpt_message_encoder(code);
	if (mpt_stream_dopen(&out, &sock, MPT_STREAMFLAG(Write) | MPT_STREAMFLAG(Buffer)) < 0) return 2;
	if (mpt_stream_push(&out, sizeof(sent), sent) != sizeof(sent)
	    || mpt_stream_push(&out, 0, 0) < 0) return 2;
	/* take wire bytes from output queue to cut them ourselves */
	wlen = out._wd._state.done;
	mpt_queue_get(&out._wd.data, 0, wlen, wire);
	printf("  wire length %zd\n", wlen);
	
	/* receiver: stream input with framed input queue */
	sock._id = sv[1];
	if (!(in = mpt_stream_input(&sock, MPT_STREAMFLAG(Read) | MPT_STREAMFLAG(Buffer), code, 0))) return 2;
	
	/* segment 1: cut directly behind the first block code */
	if (write(sv[0], wire, 1) != 1) return 2;
	reader_turn(in, sv[1]);
	/* segment 2: all remaining bytes of the frame */
	if (write(sv[0], wire + 1, wlen - 1) != wlen - 1) return 2;
	/* the complete frame has arrived, give the reader plenty of turns */
	for (i = 0; i < 5 && !received; i++) {
		reader_turn(in, sv[1]);
	}
	printf("  received %d of 1 message(s)\n", received);
	return received == 1 ? 0 : 1;
}
int main(void)
{
	int bad = 0;
	bad += run(MPT_ENUM(EncodingCobs), "COBS");
	bad += run(MPT_ENUM(EncodingCobsInline), "COBS/R");
	bad += run(MPT_ENUM(EncodingCobs) | MPT_ENUM(EncodingCompress), "COBS/ZPE");
	bad += run(MPT_ENUM(EncodingCobsInline) | MPT_ENUM(EncodingCompress), "COBS/ZPE+R");
	if (bad) printf("FAIL: complete frame never delivered in %d framing(s)\n", bad);
	return bad ? 1 : 0;
}

/* qpush/qunshift report failure on a queue with >= 2 GiB free space, but still grow the content */
#include <stdio.h>
#include <string.h>
#include <stdlib.h>
#include "queue.h"

int main(void)
{
	struct mpt_queue q = MPT_QUEUE_INIT;
	size_t cap = ((size_t) 1 << 31) + 64; /* storage is only reserved, never touched */
	unsigned char c;
	int ret, bad = 0;
	
	if (!mpt_queue_prepare(&q, cap)) {
		fprintf(stderr, "unable to reserve %zu bytes\n", cap);
		return 77;
	}
	/* append one byte: 1 <= free, must succeed and store 'A' */
	ret = mpt_qpush(&q, 1, "A");
	printf("qpush(1)    -> %d, len = %zu\n", ret, q.len);
	if (ret < 0 && q.len != 0) {
		printf("BUG: push reported as refused, but queue length is now %zu\n", q.len);
		bad = 1;
	}
	c = 0;
	if (q.len && mpt_queue_get(&q, q.len - 1, 1, &c) >= 0 && c != 'A') {
		printf("BUG: last byte is 0x%02x, not 'A': uninitialised storage became content\n", c);
		bad = 1;
	}
	/* same for the front end */
	{
		size_t before = q.len;
		ret = mpt_qunshift(&q, 1, "B");
		printf("qunshift(1) -> %d, len = %zu -> %zu\n", ret, before, q.len);
		if (ret < 0 && q.len != before) {
			printf("BUG: unshift reported as refused, but queue grew\n");
			bad = 1;
		}
		c = 0;
		if (q.len > before && mpt_queue_get(&q, 0, 1, &c) >= 0 && c != 'B') {
			printf("BUG: first byte is 0x%02x, not 'B'\n", c);
			bad = 1;
		}
	}
	mpt_queue_resize(&q, 0);
	return bad;
}

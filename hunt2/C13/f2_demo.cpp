/* io::queue owns its storage (freed in ~queue) but is copyable member-wise */
#include <stdio.h>
#include <string.h>
#include "queue.h"
#include "io.h"

using namespace mpt;

int main()
{
	io::queue a(16);
	a.push("abcdef", 6);
	
	{
		io::queue b(a);          /* compiler generated copy: b._d.base == a._d.base */
		char big[256];
		memset(big, 'x', sizeof(big));
		b.push(big, sizeof(big)); /* storage of 'a' is reallocated behind its back */
	}                                /* ~b releases the storage */
	
	/* 'a' was never modified, a plain byte deque still holds "abcdef" */
	span<const uint8_t> d = a.peek();
	if (d.size() != 6 || memcmp(d.begin(), "abcdef", 6)) { /* reads released memory */
		fprintf(stderr, "content of untouched queue changed\n");
		return 1;
	}
	a.push("g", 1);                  /* writes to released memory */
	return 0;                        /* ~a: double free */
}

/* mpt_queue_find gives up on all elements behind one that straddles the storage end */
#include <stdio.h>
#include <string.h>
#include <errno.h>
#include "queue.h"

static int match(const void *elem, void *arg)
{
	return memcmp(elem, arg, 2);
}
int main(void)
{
	struct mpt_queue q = MPT_QUEUE_INIT;
	char *hit;
	
	mpt_queue_prepare(&q, 8);        /* max = 8 */
	mpt_qpush(&q, 6, "------");
	mpt_qshift(&q, 5, 0);            /* off = 5, len = 1 */
	mpt_qpop(&q, 1, 0);              /* off = 5, len = 0 */
	mpt_qpush(&q, 6, "ABCDEF");      /* "ABC" at 5..7, "DEF" at 0..2 */
	
	/* elements of 2 bytes: "AB" "CD" "EF"; "EF" is contiguous at storage offset 1 */
	errno = 0;
	hit = mpt_queue_find(&q, 2, match, "EF");
	printf("wrapped: find(EF) = %s (errno %d)\n", hit ? "found" : "NULL", errno);
	if (hit) {
		return 0;
	}
	/* same content, other position in storage */
	mpt_queue_align(&q, 0);
	hit = mpt_queue_find(&q, 2, match, "EF");
	printf("aligned: find(EF) = %s\n", hit ? "found" : "NULL");
	
	return hit ? 1 : 2;
}
